package handler

// C09 (integration) — SheddingHandler keeps the premise of the in-flight
// conservation clause: every request the shedder admitted reports Pass or Fail
// exactly once (also when the wrapped handler panics), and a rejected request
// never reaches the wrapped handler and never reports. No time dependence: no
// bubble. The shedder is a harness stub with a generated admit/reject schedule.

import (
	"fmt"
	"net/http"
	"net/http/httptest"
	"testing"

	"github.com/gotid/god/lib/load"
	"github.com/gotid/god/lib/logx"
	"github.com/gotid/god/lib/stat"
	"pgregory.net/rapid"
	"verif.local/kit"
)

var c09Metrics = stat.NewMetrics("c09-verif")

func init() { logx.Disable() }

type c09hReq struct {
	Admit bool   `json:"a"`
	Beh   string `json:"b"` // 200 | 503 | 500 | write | none | panic
}

type c09hCase struct {
	Reqs []c09hReq `json:"reqs"`
}

type c09hPromise struct{ pass, fail int }

func (p *c09hPromise) Pass() { p.pass++ }
func (p *c09hPromise) Fail() { p.fail++ }

type c09hShedder struct {
	admit bool
	last  *c09hPromise
	calls int
}

func (s *c09hShedder) Allow() (load.Promise, error) {
	s.calls++
	if !s.admit {
		return nil, load.ErrServiceOverloaded
	}
	s.last = &c09hPromise{}
	return s.last, nil
}

func c09hInterp(c c09hCase) (v kit.Verdict) {
	sh := &c09hShedder{}
	nextCalls := 0
	beh := ""
	next := http.HandlerFunc(func(w http.ResponseWriter, r *http.Request) {
		nextCalls++
		switch beh {
		case "200":
			w.WriteHeader(http.StatusOK)
		case "503":
			w.WriteHeader(http.StatusServiceUnavailable)
		case "500":
			w.WriteHeader(http.StatusInternalServerError)
		case "write":
			_, _ = w.Write([]byte("x"))
		case "panic":
			panic("c09 handler panic")
		}
	})
	h := SheddingHandler(sh, c09Metrics)(next)
	rejected, admitted := 0, 0
	for i, rq := range c.Reqs {
		sh.admit, sh.last, sh.calls = rq.Admit, nil, 0
		nextCalls, beh = 0, rq.Beh
		rec := httptest.NewRecorder()
		req := httptest.NewRequest(http.MethodGet, "http://localhost/c09", nil)
		panicked := func() (p bool) {
			defer func() {
				if r := recover(); r != nil {
					p = true
				}
			}()
			h.ServeHTTP(rec, req)
			return false
		}()
		what := fmt.Sprintf("request %d %+v", i, rq)
		if sh.calls != 1 {
			return v.Failf("%s: Allow called %d times", what, sh.calls)
		}
		if !rq.Admit {
			rejected++
			if nextCalls != 0 {
				return v.Failf("%s: rejected by the shedder but the wrapped handler ran", what)
			}
			if rec.Code != http.StatusServiceUnavailable {
				return v.Failf("%s: rejected by the shedder but status %d", what, rec.Code)
			}
			continue
		}
		admitted++
		if nextCalls != 1 {
			return v.Failf("%s: admitted but the wrapped handler ran %d times", what, nextCalls)
		}
		if panicked != (rq.Beh == "panic") {
			return v.Failf("%s: panicked=%v", what, panicked)
		}
		if n := sh.last.pass + sh.last.fail; n != 1 {
			return v.Failf("%s: admitted request reported %d times (pass %d, fail %d): the shedder's in-flight count cannot return to zero", what, n, sh.last.pass, sh.last.fail)
		}
		v.Classes = append(v.Classes, "beh-"+rq.Beh)
	}
	v.NonTrivial = rejected > 0 && admitted > 0
	return v
}

func TestVerif_C09_shedding_handler(t *testing.T) {
	kit.Run(t, "C09", "handler-reports-once", kit.Opts{Quick: 300, Thorough: 4800},
		func(rt *rapid.T) c09hCase {
			var c c09hCase
			n := rapid.IntRange(1, 12).Draw(rt, "n")
			for i := 0; i < n; i++ {
				c.Reqs = append(c.Reqs, c09hReq{
					Admit: rapid.IntRange(0, 3).Draw(rt, "a") > 0,
					Beh:   rapid.SampledFrom([]string{"200", "503", "500", "write", "none", "panic"}).Draw(rt, "b"),
				})
			}
			return c
		}, c09hInterp)
}
