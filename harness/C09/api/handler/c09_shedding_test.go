package handler

// C09 (integration) — SheddingHandler keeps the premise of the in-flight
// conservation clause: every request the shedder admitted reports Pass or Fail
// exactly once (also when the wrapped handler panics), and a rejected request
// never reaches the wrapped handler and never reports. No time dependence: no
// bubble. The shedder is a harness stub with a generated admit/reject schedule,
// or (Real) a counting wrapper around a real load.NewAdaptiveShedder whose
// in-flight counter is read back through reflection: it must be 0 after every
// completed request. The SHAPE of each request is generated too (method,
// protocol version, path, body framing and any header a middleware could
// plausibly special-case: Upgrade/Connection, Accept: text/event-stream,
// Content-Encoding, Expect, priority and X-... headers); the oracle does not
// depend on it: every admitted request reports exactly once.

import (
	"bufio"
	"context"
	"fmt"
	"net"
	"net/http"
	"net/http/httptest"
	"reflect"
	"strings"
	"sync/atomic"
	"testing"
	"time"

	"github.com/gotid/god/lib/load"
	"github.com/gotid/god/lib/logx"
	"github.com/gotid/god/lib/stat"
	"pgregory.net/rapid"
	"verif.local/kit"
)

var c09Metrics = stat.NewMetrics("c09-verif")

func init() { logx.Disable() }

type c09hReq struct {
	Admit  bool        `json:"a"`
	Beh    string      `json:"b"`               // codes | write | none | panic | cancel | timeout | hijack | flush (legacy: 200 | 503 | 500)
	Codes  []int       `json:"codes,omitempty"` // codes: the WriteHeader calls of the wrapped handler, in order
	Guard  bool        `json:"guard,omitempty"` // real chain order: shedder -> TimeoutHandler -> handler
	Method string      `json:"m,omitempty"`
	Proto  string      `json:"pr,omitempty"` // 1.0 | 1.1 | 2
	Path   string      `json:"p,omitempty"`
	Body   string      `json:"bd,omitempty"` // none | len | chunked
	Hdr    [][2]string `json:"h,omitempty"`
}

type c09hCase struct {
	Real bool      `json:"real,omitempty"` // real adaptive shedder behind the counting wrapper
	Nil  bool      `json:"nil,omitempty"`  // no shedder at all: what the api engine passes when Config.CpuThreshold <= 0
	Reqs []c09hReq `json:"reqs"`
}

// final (and informational) status codes of every class, registered or not
var c09hStatusPool = []int{100, 101, 102, 103, 199, 200, 201, 204, 206, 299, 300, 301, 304, 399, 400, 401, 403, 404, 408, 418, 429, 451,
	499, 499, 500, 501, 502, 503, 503, 504, 599, 600, 700, 999}

// headers (name, values) a middleware could plausibly special-case
var c09hHeaderPool = [][]string{
	{"Upgrade", "websocket", "WebSocket", "WEBSOCKET", "h2c", "websocket, h2c", ""},
	{"Connection", "Upgrade", "upgrade", "keep-alive", "close", "keep-alive, Upgrade"},
	{"Sec-WebSocket-Key", "dGhlIHNhbXBsZSBub25jZQ=="},
	{"Sec-WebSocket-Version", "13"},
	{"Accept", "text/event-stream", "*/*", "application/json"},
	{"Content-Type", "application/json", "application/grpc", "multipart/form-data; boundary=x", "text/event-stream"},
	{"Content-Encoding", "gzip", "identity"},
	{"Accept-Encoding", "gzip"},
	{"Expect", "100-continue"},
	{"Te", "trailers"},
	{"Range", "bytes=0-1"},
	{"Cache-Control", "no-cache"},
	{"Priority", "u=0", "u=7, i"},
	{"X-Priority", "high", "low"},
	{"X-Forwarded-For", "10.0.0.1"},
	{"X-Real-Ip", "10.0.0.2"},
	{"X-Requested-With", "XMLHttpRequest"},
	{"X-Content-Security", "key=abc; secret=def; signature=ghi"},
	{"Authorization", "Bearer x"},
	{"X-Health-Check", "1"},
	{"X-Debug", "1"},
	{"Traceparent", "00-4bf92f3577b34da6a3ce929d0e0e4736-00f067aa0ba902b7-01"},
	{"Grpc-Timeout", "1S"},
}

type c09hPromise struct {
	pass, fail int
	real       load.Promise
}

func (p *c09hPromise) Pass() {
	p.pass++
	if p.real != nil {
		p.real.Pass()
	}
}

func (p *c09hPromise) Fail() {
	p.fail++
	if p.real != nil {
		p.real.Fail()
	}
}

type c09hShedder struct {
	admit    bool
	real     load.Shedder
	last     *c09hPromise
	admitted bool
	calls    int
}

func (s *c09hShedder) Allow() (load.Promise, error) {
	s.calls++
	s.admitted = false
	if s.real != nil {
		p, err := s.real.Allow()
		if err != nil {
			return nil, err
		}
		s.admitted = true
		s.last = &c09hPromise{real: p}
		return s.last, nil
	}
	if !s.admit {
		return nil, load.ErrServiceOverloaded
	}
	s.admitted = true
	s.last = &c09hPromise{}
	return s.last, nil
}

// c09hRecorder: a recorder whose connection can be taken over (websocket / raw
// streaming handlers), like the ResponseWriter of a real HTTP/1 server.
type c09hRecorder struct {
	*httptest.ResponseRecorder
	hijacked int
}

func (r *c09hRecorder) Hijack() (net.Conn, *bufio.ReadWriter, error) {
	r.hijacked++
	srv, cli := net.Pipe()
	_ = cli.Close()
	return srv, bufio.NewReadWriter(bufio.NewReader(srv), bufio.NewWriter(srv)), nil
}

// c09hFlying reads the unexported in-flight counter of a real adaptive shedder.
func c09hFlying(s load.Shedder) (int64, bool) {
	rv := reflect.ValueOf(s)
	if rv.Kind() != reflect.Ptr || rv.Elem().Kind() != reflect.Struct {
		return 0, false
	}
	f := rv.Elem().FieldByName("flying")
	if !f.IsValid() || f.Kind() != reflect.Int64 {
		return 0, false
	}
	return f.Int(), true
}

func c09hRequest(rq c09hReq) *http.Request {
	method := rq.Method
	if method == "" {
		method = http.MethodGet
	}
	path := rq.Path
	if path == "" {
		path = "/c09"
	}
	var req *http.Request
	switch rq.Body {
	case "len":
		req = httptest.NewRequest(method, "http://localhost"+path, strings.NewReader("{\"a\":1}"))
	case "chunked":
		req = httptest.NewRequest(method, "http://localhost"+path, struct{ *strings.Reader }{strings.NewReader("{\"a\":1}")})
		req.ContentLength = -1
		req.TransferEncoding = []string{"chunked"}
	default:
		req = httptest.NewRequest(method, "http://localhost"+path, nil)
	}
	switch rq.Proto {
	case "1.0":
		req.Proto, req.ProtoMajor, req.ProtoMinor = "HTTP/1.0", 1, 0
	case "2":
		req.Proto, req.ProtoMajor, req.ProtoMinor = "HTTP/2.0", 2, 0
	}
	for _, h := range rq.Hdr {
		req.Header.Add(h[0], h[1])
	}
	return req
}

func c09hInterp(c c09hCase) (v kit.Verdict) {
	sh := &c09hShedder{}
	if c.Nil {
		return c09hNilInterp(c)
	}
	if c.Real {
		sh.real = load.NewAdaptiveShedder()
		if _, ok := c09hFlying(sh.real); !ok {
			v.Excluded = true // counter not readable (renamed field / shedding disabled): nothing to close the loop with
			return v
		}
		v.Classes = append(v.Classes, "real-shedder")
	}
	var nextCalls atomic.Int32
	var cur c09hReq
	var started chan struct{}
	next := http.HandlerFunc(func(w http.ResponseWriter, r *http.Request) {
		nextCalls.Add(1)
		close(started)
		switch cur.Beh {
		case "200":
			w.WriteHeader(http.StatusOK)
		case "503":
			w.WriteHeader(http.StatusServiceUnavailable)
		case "500":
			w.WriteHeader(http.StatusInternalServerError)
		case "codes":
			for _, code := range cur.Codes {
				w.WriteHeader(code)
			}
		case "write":
			_, _ = w.Write([]byte("x"))
		case "hijack":
			// a websocket-style handler takes the connection over and answers on it itself
			if hj, ok := w.(http.Hijacker); ok {
				if conn, _, err := hj.Hijack(); err == nil && conn != nil {
					_ = conn.Close()
				}
			}
		case "flush":
			// a streaming (SSE) handler: flush, write, flush
			if fl, ok := w.(http.Flusher); ok {
				fl.Flush()
				_, _ = w.Write([]byte("data: x\n\n"))
				fl.Flush()
			}
		case "panic":
			panic("c09 handler panic")
		case "cancel", "timeout":
			// the client goes away / the guard's deadline passes while the handler works
			// (no deadline at all when the guard lets an Upgrade: websocket request through)
			if done := r.Context().Done(); done != nil {
				<-done
			}
		}
	})
	hPlain := SheddingHandler(sh, c09Metrics)(next)
	hGuard := SheddingHandler(sh, c09Metrics)(TimeoutHandler(time.Hour)(next))
	hGuardShort := SheddingHandler(sh, c09Metrics)(TimeoutHandler(2 * time.Millisecond)(next))
	rejected, admitted := 0, 0
	for i, rq := range c.Reqs {
		sh.admit, sh.last, sh.calls = rq.Admit, nil, 0
		nextCalls.Store(0)
		cur, started = rq, make(chan struct{})
		rec := &c09hRecorder{ResponseRecorder: httptest.NewRecorder()}
		req := c09hRequest(rq)
		h, guarded := hPlain, false
		switch {
		case rq.Beh == "timeout":
			h, guarded = hGuardShort, true
		case rq.Guard || rq.Beh == "cancel":
			h, guarded = hGuard, true
		}
		if rq.Beh == "cancel" {
			ctx, cancel := context.WithCancel(req.Context())
			req = req.WithContext(ctx)
			go func(st chan struct{}) {
				<-st // mid-handler
				cancel()
			}(started)
			defer cancel()
		}
		panicked := func() (p bool) {
			defer func() {
				if r := recover(); r != nil {
					p = true
				}
			}()
			h.ServeHTTP(rec, req)
			return false
		}()
		what := fmt.Sprintf("request %d %+v", i, rq)
		if sh.calls != 1 {
			return v.Failf("%s: Allow called %d times", what, sh.calls)
		}
		if !sh.admitted {
			rejected++
			if nextCalls.Load() != 0 {
				return v.Failf("%s: rejected by the shedder but the wrapped handler ran", what)
			}
			close(started) // releases the cancel helper, if any
			if rec.Code != http.StatusServiceUnavailable {
				return v.Failf("%s: rejected by the shedder but status %d", what, rec.Code)
			}
			continue
		}
		admitted++
		if guarded {
			<-started // behind the guard the handler runs in its own goroutine
		}
		if n := nextCalls.Load(); n != 1 {
			return v.Failf("%s: admitted but the wrapped handler ran %d times", what, n)
		}
		if panicked != (rq.Beh == "panic") && !(panicked && rq.Beh == "codes") {
			return v.Failf("%s: panicked=%v", what, panicked)
		}
		if n := sh.last.pass + sh.last.fail; n != 1 {
			return v.Failf("%s: admitted request reported %d times (pass %d, fail %d): the shedder's in-flight count cannot return to zero", what, n, sh.last.pass, sh.last.fail)
		}
		// WHICH report: the statement quantifies over "completions with pass/fail outcomes" and
		// estimates the capacity from PASSES, so the outcome belongs to the completion, not to
		// what the middleware remembers of other requests. Three-valued: a request whose handler
		// returned normally, wrote at most one header and was answered 2xx to the client is a
		// pass under every reading and must be reported as Pass; every other ending (3xx..5xx,
		// 1xx+final, header written twice, panic, cancel, time-out) is UNSPECIFIED.
		if !panicked && rq.Beh != "cancel" && rq.Beh != "timeout" && len(rq.Codes) <= 1 && rec.Code >= 200 && rec.Code <= 299 &&
			(len(rq.Codes) == 0 || rq.Codes[0] >= 200 && rq.Codes[0] <= 299) {
			v.Classes = append(v.Classes, "outcome-2xx-must-pass")
			if i > 0 {
				v.Classes = append(v.Classes, "outcome-2xx-after-other-requests-through-the-same-handler")
			}
			if sh.last.pass != 1 {
				return v.Failf("%s: the handler returned normally and the client was answered %d, but the request was reported to the shedder as Fail (request %d served by this handler value): a pass is missing from the capacity window", what, rec.Code, i)
			}
		}
		if sh.real != nil {
			if f, _ := c09hFlying(sh.real); f != 0 {
				return v.Failf("%s: the real adaptive shedder counts %d requests in flight after the only admitted request has completed", what, f)
			}
		}
		v.Classes = append(v.Classes, "beh-"+rq.Beh)
		if rec.hijacked > 0 {
			v.Classes = append(v.Classes, "connection-hijacked")
		}
		if rec.Flushed {
			v.Classes = append(v.Classes, "response-flushed")
		}
		if guarded {
			v.Classes = append(v.Classes, "chain-shedder-timeoutguard-handler")
		}
		if rq.Beh == "cancel" || rq.Beh == "timeout" {
			v.Classes = append(v.Classes, fmt.Sprintf("guard-wrote-%d", rec.Code))
		}
		if rq.Beh == "codes" {
			for _, code := range rq.Codes {
				v.Classes = append(v.Classes, fmt.Sprintf("status-%d", code))
			}
			if len(rq.Codes) > 1 {
				v.Classes = append(v.Classes, "writeheader-twice")
			}
		}
		for _, h := range rq.Hdr {
			if strings.EqualFold(h[0], "Upgrade") {
				v.Classes = append(v.Classes, "hdr-upgrade="+h[1])
			}
		}
		if rq.Body != "" && rq.Body != "none" {
			v.Classes = append(v.Classes, "body-"+rq.Body)
		}
	}
	v.NonTrivial = rejected > 0 && admitted > 0 || c.Real && admitted > 1
	return v
}

// No shedder configured (api engine with Config.CpuThreshold <= 0 hands nil to
// SheddingHandler): nothing can have observed an overload, so by the first shedder
// clause no request may be rejected: every request reaches the wrapped handler exactly
// once and the middleware itself answers nothing (a 503 can only be the handler's own).
func c09hNilInterp(c c09hCase) (v kit.Verdict) {
	var nextCalls atomic.Int32
	var cur c09hReq
	next := http.HandlerFunc(func(w http.ResponseWriter, r *http.Request) {
		nextCalls.Add(1)
		switch cur.Beh {
		case "codes":
			for _, code := range cur.Codes {
				w.WriteHeader(code)
			}
		case "write":
			_, _ = w.Write([]byte("x"))
		case "panic":
			panic("c09 handler panic")
		}
	})
	var built http.Handler
	if p := func() (p any) {
		defer func() { p = recover() }()
		built = SheddingHandler(nil, c09Metrics)(next)
		return nil
	}(); p != nil {
		return v.Failf("SheddingHandler(nil shedder) panicked while being installed: %v", p)
	}
	for i, rq := range c.Reqs {
		nextCalls.Store(0)
		cur = rq
		rec := httptest.NewRecorder()
		var pv any
		func() {
			defer func() { pv = recover() }()
			built.ServeHTTP(rec, c09hRequest(rq))
		}()
		what := fmt.Sprintf("request %d %+v without a shedder (shedding not configured)", i, rq)
		if pv != nil && !(rq.Beh == "panic" || rq.Beh == "codes") {
			return v.Failf("%s: panicked: %v", what, pv)
		}
		if n := nextCalls.Load(); n != 1 {
			return v.Failf("%s: the wrapped handler ran %d times, status %d: a request was rejected although no overload can have been observed", what, n, rec.Code)
		}
		v.Classes = append(v.Classes, "nil-shedder-beh-"+rq.Beh)
	}
	v.Classes = append(v.Classes, "nil-shedder")
	v.NonTrivial = len(c.Reqs) > 1
	return v
}

func c09hGenReq(rt *rapid.T) c09hReq {
	rq := c09hReq{
		Admit:  rapid.IntRange(0, 3).Draw(rt, "a") > 0,
		Beh:    rapid.SampledFrom([]string{"codes", "codes", "codes", "codes", "codes", "write", "none", "panic", "cancel", "timeout", "hijack", "flush"}).Draw(rt, "b"),
		Guard:  rapid.IntRange(0, 2).Draw(rt, "guard") == 0,
		Method: rapid.SampledFrom([]string{"GET", "GET", "POST", "PUT", "DELETE", "HEAD", "OPTIONS", "PATCH", "CONNECT", "TRACE"}).Draw(rt, "m"),
		Proto:  rapid.SampledFrom([]string{"1.1", "1.1", "1.0", "2"}).Draw(rt, "pr"),
		Path:   rapid.SampledFrom([]string{"/c09", "/ws", "/healthz", "/metrics", "/c09?x=1", "/"}).Draw(rt, "p"),
		Body:   rapid.SampledFrom([]string{"none", "none", "len", "chunked"}).Draw(rt, "bd"),
	}
	if rq.Beh == "codes" {
		for k := rapid.SampledFrom([]int{1, 1, 1, 2}).Draw(rt, "ncodes"); k > 0; k-- {
			rq.Codes = append(rq.Codes, rapid.SampledFrom(c09hStatusPool).Draw(rt, "code"))
		}
	}
	nh := rapid.IntRange(0, 4).Draw(rt, "nh")
	for i := 0; i < nh; i++ {
		h := rapid.SampledFrom(c09hHeaderPool).Draw(rt, "h")
		if rapid.IntRange(0, 3).Draw(rt, "ws") == 0 {
			h = c09hHeaderPool[0] // Upgrade: the header existing middlewares of this package already look at
		}
		rq.Hdr = append(rq.Hdr, [2]string{h[0], rapid.SampledFrom(h[1:]).Draw(rt, "hv")})
	}
	return rq
}

func TestVerif_C09_shedding_handler(t *testing.T) {
	kit.Run(t, "C09", "handler-reports-once", kit.Opts{Quick: 1500, Thorough: 48000},
		func(rt *rapid.T) c09hCase {
			c := c09hCase{Real: rapid.IntRange(0, 3).Draw(rt, "real") == 0}
			c.Nil = !c.Real && rapid.IntRange(0, 9).Draw(rt, "nil") == 0
			n := rapid.IntRange(1, 12).Draw(rt, "n")
			for i := 0; i < n; i++ {
				c.Reqs = append(c.Reqs, c09hGenReq(rt))
			}
			return c
		}, c09hInterp)
}
