package serverinterceptors

// C09 (integration) — UnarySheddingInterceptor: every request the shedder
// admitted reports Pass or Fail exactly once (also when the handler panics or
// fails), a rejected request never reaches the handler and never reports. The
// shape of the call is generated as well (full method name incl. health /
// reflection / streaming-looking names, incoming metadata, context with a
// deadline, already cancelled or already expired); the oracle does not depend
// on it. (Only a unary shedding interceptor exists in the package.)

import (
	"context"
	"errors"
	"fmt"
	"testing"
	"time"

	"google.golang.org/grpc/codes"
	"google.golang.org/grpc/metadata"
	"google.golang.org/grpc/status"

	"github.com/gotid/god/lib/load"
	"github.com/gotid/god/lib/logx"
	"github.com/gotid/god/lib/stat"
	"google.golang.org/grpc"
	"pgregory.net/rapid"
	"verif.local/kit"
)

var c09Metrics = stat.NewMetrics("c09-verif-rpc")

func init() { logx.Disable() }

type c09iReq struct {
	Admit  bool        `json:"a"`
	Beh    string      `json:"b"` // ok | deadline | error | panic | canceled
	Method string      `json:"m,omitempty"`
	Ctx    string      `json:"c,omitempty"` // bg | deadline | canceled | expired
	Md     [][2]string `json:"md,omitempty"`
}

var c09iMdPool = [][]string{
	{"upgrade", "websocket"},
	{"connection", "upgrade"},
	{"content-type", "application/grpc", "application/grpc+json", "application/grpc-web"},
	{"grpc-timeout", "1S", "0n"},
	{"te", "trailers"},
	{"x-priority", "high", "low"},
	{"authorization", "Bearer x"},
	{"app", "c09"},
	{"token", "t"},
	{"x-health-check", "1"},
	{"traceparent", "00-4bf92f3577b34da6a3ce929d0e0e4736-00f067aa0ba902b7-01"},
	{"x-debug", "1"},
	{"grpc-accept-encoding", "gzip"},
}

type c09iCase struct {
	Reqs []c09iReq `json:"reqs"`
	// Overlap: the calls are in flight TOGETHER through one interceptor value (every
	// admitted call parks in its handler until all have started); Order is the order in
	// which they are then completed (indices into Reqs, taken modulo what is left)
	Overlap bool  `json:"ov,omitempty"`
	Order   []int `json:"ord,omitempty"`
}

type c09iErr struct{}

func (*c09iErr) Error() string { return "c09 typed nil" }

type c09iPromise struct{ pass, fail int }

func (p *c09iPromise) Pass() { p.pass++ }
func (p *c09iPromise) Fail() { p.fail++ }

type c09iShedder struct {
	admit bool
	last  *c09iPromise
	calls int
}

func (s *c09iShedder) Allow() (load.Promise, error) {
	s.calls++
	if !s.admit {
		return nil, load.ErrServiceOverloaded
	}
	s.last = &c09iPromise{}
	return s.last, nil
}

func c09iHandlerResult(beh string) (interface{}, error) {
	switch beh {
	case "canceled":
		return nil, context.Canceled
	case "wrapped-deadline":
		return nil, fmt.Errorf("c09: %w", context.DeadlineExceeded)
	case "status-deadline":
		return nil, status.Error(codes.DeadlineExceeded, "c09")
	case "status-canceled":
		return nil, status.Error(codes.Canceled, "c09")
	case "status-unavailable":
		return nil, status.Error(codes.Unavailable, "c09")
	case "status-exhausted":
		return nil, status.Error(codes.ResourceExhausted, "c09")
	case "typed-nil-error":
		var e *c09iErr
		return nil, e
	case "deadline":
		return nil, context.DeadlineExceeded
	case "error":
		return nil, errors.New("c09")
	case "panic":
		panic("c09 handler panic")
	}
	return "ok", nil
}

// c09iOverlapInterp: several calls in flight at once through ONE interceptor value.
// Plain goroutines and channels, no clock: a call is started, the harness waits until
// it either returned (rejected) or sits in its handler, then starts the next; the
// parked calls are completed in the generated order. Every admitted call must have
// reported exactly once ON ITS OWN promise when it has returned.
func c09iOverlapInterp(c c09iCase) (v kit.Verdict) {
	type call struct {
		rq       c09iReq
		started  chan struct{}
		release  chan struct{}
		returned chan struct{}
		ran      int32
		prom     *c09iPromise
		err      error
		panicked bool
	}
	if len(c.Reqs) > 64 {
		v.Excluded = true
		return v
	}
	sh := &c09iShedder{}
	icpt := UnarySheddingInterceptor(sh, c09Metrics)
	var parked []*call
	rejected, admitted := 0, 0
	releaseAll := func() {
		for _, cl := range parked {
			close(cl.release)
			<-cl.returned
		}
	}
	for i, rq := range c.Reqs {
		cl := &call{rq: rq, started: make(chan struct{}), release: make(chan struct{}), returned: make(chan struct{})}
		sh.admit, sh.last, sh.calls = rq.Admit, nil, 0
		method := rq.Method
		if method == "" {
			method = "/c09"
		}
		go func() {
			defer close(cl.returned)
			defer func() {
				if r := recover(); r != nil {
					cl.panicked = true
				}
			}()
			_, cl.err = icpt(context.Background(), nil, &grpc.UnaryServerInfo{FullMethod: method}, func(ctx context.Context, req interface{}) (interface{}, error) {
				cl.ran++
				close(cl.started)
				<-cl.release
				return c09iHandlerResult(cl.rq.Beh)
			})
		}()
		what := fmt.Sprintf("overlapping request %d %+v", i, rq)
		select {
		case <-cl.started:
			if !rq.Admit {
				releaseAll()
				close(cl.release)
				return v.Failf("%s: rejected by the shedder but the handler ran", what)
			}
			if sh.calls != 1 || sh.last == nil {
				releaseAll()
				close(cl.release)
				return v.Failf("%s: Allow called %d times", what, sh.calls)
			}
			cl.prom = sh.last
			parked = append(parked, cl)
			admitted++
		case <-cl.returned:
			if rq.Admit {
				releaseAll()
				return v.Failf("%s: admitted but the call returned (err %v, panicked %v) without its handler having run", what, cl.err, cl.panicked)
			}
			if cl.err != load.ErrServiceOverloaded || sh.calls != 1 {
				releaseAll()
				return v.Failf("%s: rejected by the shedder but the interceptor returned %v (Allow called %d times)", what, cl.err, sh.calls)
			}
			rejected++
		}
	}
	inFlight := len(parked)
	for k := 0; len(parked) > 0; k++ {
		j := 0
		if k < len(c.Order) && c.Order[k] > 0 {
			j = c.Order[k] % len(parked)
		}
		cl := parked[j]
		parked = append(parked[:j], parked[j+1:]...)
		close(cl.release)
		<-cl.returned
		if n := cl.prom.pass + cl.prom.fail; n != 1 || cl.ran != 1 || cl.panicked != (cl.rq.Beh == "panic") {
			others := len(parked)
			releaseAll()
			return v.Failf("request %+v, completed while %d other calls were in flight through the same interceptor, reported %d times on its own promise (pass %d, fail %d; handler ran %d times, panicked %v): the shedder's in-flight count cannot return to zero",
				cl.rq, others, n, cl.prom.pass, cl.prom.fail, cl.ran, cl.panicked)
		}
		v.Classes = append(v.Classes, "beh-"+cl.rq.Beh)
	}
	v.Classes = append(v.Classes, "overlap")
	if inFlight > 1 {
		v.Classes = append(v.Classes, "overlap>=2-in-flight")
	}
	v.NonTrivial = inFlight > 1
	_ = rejected
	return v
}

func c09iInterp(c c09iCase) (v kit.Verdict) {
	if c.Overlap {
		return c09iOverlapInterp(c)
	}
	sh := &c09iShedder{}
	icpt := UnarySheddingInterceptor(sh, c09Metrics)
	rejected, admitted := 0, 0
	for i, rq := range c.Reqs {
		sh.admit, sh.last, sh.calls = rq.Admit, nil, 0
		calls := 0
		var err error
		ctx, cancel := context.Background(), context.CancelFunc(func() {})
		switch rq.Ctx {
		case "deadline":
			ctx, cancel = context.WithTimeout(ctx, time.Hour)
		case "canceled":
			ctx, cancel = context.WithCancel(ctx)
			cancel()
		case "expired":
			ctx, cancel = context.WithDeadline(ctx, time.Unix(1, 0))
		}
		if len(rq.Md) > 0 {
			md := metadata.MD{}
			for _, kv := range rq.Md {
				md.Append(kv[0], kv[1])
			}
			ctx = metadata.NewIncomingContext(ctx, md)
		}
		method := rq.Method
		if method == "" {
			method = "/c09"
		}
		panicked := func() (p bool) {
			defer func() {
				if r := recover(); r != nil {
					p = true
				}
			}()
			_, err = icpt(ctx, nil, &grpc.UnaryServerInfo{FullMethod: method}, func(ctx context.Context, req interface{}) (interface{}, error) {
				calls++
				switch rq.Beh {
				case "canceled":
					return nil, context.Canceled
				case "wrapped-deadline":
					return nil, fmt.Errorf("c09: %w", context.DeadlineExceeded)
				case "status-deadline":
					return nil, status.Error(codes.DeadlineExceeded, "c09")
				case "status-canceled":
					return nil, status.Error(codes.Canceled, "c09")
				case "status-unavailable":
					return nil, status.Error(codes.Unavailable, "c09")
				case "status-exhausted":
					return nil, status.Error(codes.ResourceExhausted, "c09")
				case "typed-nil-error":
					var e *c09iErr
					return nil, e
				case "deadline":
					return nil, context.DeadlineExceeded
				case "error":
					return nil, errors.New("c09")
				case "panic":
					panic("c09 handler panic")
				}
				return "ok", nil
			})
			return false
		}()
		cancel()
		what := fmt.Sprintf("request %d %+v", i, rq)
		if sh.calls != 1 {
			return v.Failf("%s: Allow called %d times", what, sh.calls)
		}
		if !rq.Admit {
			rejected++
			if calls != 0 {
				return v.Failf("%s: rejected by the shedder but the handler ran", what)
			}
			if err != load.ErrServiceOverloaded {
				return v.Failf("%s: rejected by the shedder but the interceptor returned %v", what, err)
			}
			continue
		}
		admitted++
		if calls != 1 {
			return v.Failf("%s: admitted but the handler ran %d times", what, calls)
		}
		if panicked != (rq.Beh == "panic") {
			return v.Failf("%s: panicked=%v", what, panicked)
		}
		if n := sh.last.pass + sh.last.fail; n != 1 {
			return v.Failf("%s: admitted request reported %d times (pass %d, fail %d): the shedder's in-flight count cannot return to zero", what, n, sh.last.pass, sh.last.fail)
		}
		// which report: a call whose handler returned a response and a nil error is a pass outcome
		// under every reading of the statement; every failing ending is UNSPECIFIED
		if rq.Beh == "ok" && err == nil && sh.last.pass != 1 {
			return v.Failf("%s: the handler succeeded (request %d through this interceptor) but the call was reported to the shedder as Fail: a pass is missing from the capacity window", what, i)
		}
		v.Classes = append(v.Classes, "beh-"+rq.Beh)
	}
	v.NonTrivial = rejected > 0 && admitted > 0
	return v
}

func TestVerif_C09_shedding_interceptor(t *testing.T) {
	kit.Run(t, "C09", "interceptor-reports-once", kit.Opts{Quick: 1000, Thorough: 16000},
		func(rt *rapid.T) c09iCase {
			var c c09iCase
			n := rapid.IntRange(1, 12).Draw(rt, "n")
			for i := 0; i < n; i++ {
				rq := c09iReq{
					Admit:  rapid.IntRange(0, 3).Draw(rt, "a") > 0,
					Beh:    rapid.SampledFrom([]string{"ok", "ok", "deadline", "error", "panic", "canceled", "wrapped-deadline", "status-deadline", "status-canceled", "status-unavailable", "status-exhausted", "typed-nil-error"}).Draw(rt, "b"),
					Method: rapid.SampledFrom([]string{"/c09", "/grpc.health.v1.Health/Check", "/grpc.health.v1.Health/Watch", "/grpc.reflection.v1alpha.ServerReflection/ServerReflectionInfo", "/svc.Stream/Subscribe", "", "/a/b"}).Draw(rt, "m"),
					Ctx:    rapid.SampledFrom([]string{"bg", "bg", "deadline", "canceled", "expired"}).Draw(rt, "c"),
				}
				for k := rapid.IntRange(0, 3).Draw(rt, "nmd"); k > 0; k-- {
					h := rapid.SampledFrom(c09iMdPool).Draw(rt, "md")
					rq.Md = append(rq.Md, [2]string{h[0], rapid.SampledFrom(h[1:]).Draw(rt, "mdv")})
				}
				c.Reqs = append(c.Reqs, rq)
			}
			if c.Overlap = rapid.IntRange(0, 3).Draw(rt, "overlap") == 0; c.Overlap {
				for i := 0; i < n; i++ {
					c.Order = append(c.Order, rapid.IntRange(0, n-1).Draw(rt, "ord"))
				}
			}
			return c
		}, c09iInterp)
}
