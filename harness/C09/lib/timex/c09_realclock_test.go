package timex

// C09 (part 3) — built WITHOUT the `verif` tag: the untouched timex.Now/Since
// (no clock hook compiled in) against the real clock. Harness injected by /verif.
//
// No fixed wall-clock bound is asserted. Every sample is bracketed by two
// time.Now() readings r0, r1 that carry both the wall and the monotonic clock;
// delta = |wall(r1-r0) - mono(r1-r0)| measures any step/slew of the wall clock
// inside the bracket, and every inequality is relaxed by delta + 1 ms. With an
// undisturbed clock the inequalities are exact consequences of "Now() is the
// wall time elapsed since initTime" and hold however long the process is
// descheduled.

import (
	"fmt"
	"testing"
	"time"

	"pgregory.net/rapid"
	"verif.local/kit"
)

type c09tCase struct {
	K    int   `json:"k"`    // readings per bracket
	Spin int   `json:"spin"` // busy iterations between readings
	Off  int64 `json:"off"`  // Since(Now()-Off) must be about Off
}

var c09tSink uint64

func c09tInterp(c c09tCase) (v kit.Verdict) {
	if c.K < 2 || c.K > 1000 || c.Spin < 0 || c.Spin > 1000000 {
		v.Excluded = true
		return v
	}
	r0 := time.Now()
	reads := make([]time.Duration, 0, c.K)
	sinces := make([]time.Duration, 0, c.K)
	offs := make([]time.Duration, 0, c.K)
	for i := 0; i < c.K; i++ {
		a := Now()
		s := Since(a)
		o := Since(a - time.Duration(c.Off))
		reads = append(reads, a)
		sinces = append(sinces, s)
		offs = append(offs, o)
		for j := 0; j < c.Spin; j++ {
			c09tSink += uint64(j)
		}
	}
	r1 := time.Now()
	mono := r1.Sub(r0)                                   // monotonic clock
	wall := time.Duration(r1.UnixNano() - r0.UnixNano()) // wall clock
	delta := wall - mono
	if delta < 0 {
		delta = -delta
	}
	tol := delta + time.Millisecond
	if delta > time.Millisecond {
		v.Classes = append(v.Classes, "wall-clock-disturbed")
	}
	if c.Spin > 0 {
		v.Classes = append(v.Classes, "spin")
	}
	v.NonTrivial = true
	// the clock hook of /verif (initTime rebased to 2000-01-01 minus 1y1m1d) must not be compiled in
	if initTime.Equal(time.Date(2000, 1, 1, 0, 0, 0, 0, time.UTC).AddDate(-1, -1, -1)) {
		return v.Failf("harness: the verif clock hook is compiled into this unit (initTime=%v); it must be built without the verif tag", initTime)
	}
	lo := time.Duration(r0.UnixNano()-initTime.UnixNano()) - tol
	hi := time.Duration(r1.UnixNano()-initTime.UnixNano()) + tol
	for i, a := range reads {
		if a < lo || a > hi {
			return v.Failf("reading %d: Now()=%v outside the real-clock bracket [%v,%v]", i, a, lo, hi)
		}
		if i > 0 && a < reads[i-1]-tol {
			return v.Failf("reading %d: Now() went backwards: %v after %v (wall clock disturbance measured %v)", i, a, reads[i-1], delta)
		}
		if s := sinces[i]; s < -tol || s > mono+tol {
			return v.Failf("reading %d: Since(Now())=%v, want within [0,%v] (tolerance %v)", i, s, mono, tol)
		}
		if o := offs[i] - time.Duration(c.Off); o < -tol || o > mono+tol {
			return v.Failf("reading %d: Since(Now()-%d)-%d=%v, want within [0,%v] (tolerance %v)", i, c.Off, c.Off, o, mono, tol)
		}
	}
	return v
}

func TestVerif_C09_timex_realclock(t *testing.T) {
	kit.Run(t, "C09", "timex-realclock", kit.Opts{Quick: 300, Thorough: 1600},
		func(rt *rapid.T) c09tCase {
			return c09tCase{
				K:    rapid.IntRange(2, 50).Draw(rt, "k"),
				Spin: rapid.SampledFrom([]int{0, 0, 10, 1000, 20000}).Draw(rt, "spin"),
				Off:  rapid.SampledFrom([]int64{0, 1, int64(time.Millisecond), int64(time.Hour), -int64(time.Second)}).Draw(rt, "off"),
			}
		}, c09tInterp)
	_ = fmt.Sprint
}
