package collection

// C09 (part 1) — a reduction over a RollingWindow observes exactly the values
// added during the last `size` bucket intervals (bucket-aligned, optionally
// excluding the current bucket). Harness injected by /verif (overlay); see
// /verif/DESIGN.md "C09".
//
// Oracle (written from the statement, no call into the code it judges): the i-th
// Add of a history carries the value 2^i, the reference keeps (bucket index on
// the grid anchored at creation, i) for every add; at every instant the set of
// non-empty buckets reported by Reduce must equal the reference buckets whose
// index lies in (cur-size, cur] (minus cur when the current bucket is ignored).
// Because every add has its own bit, a bucket sum identifies exactly which adds
// it contains: a stale, lost or doubly counted add changes a sum or a count.

import (
	"fmt"
	"math"
	"math/bits"
	"runtime"
	"sort"
	"sync"
	"testing"
	"time"

	"github.com/gotid/god/lib/timex"
	"pgregory.net/rapid"
	"verif.local/kit"
)

const c09wMaxAdds = 50 // 2^49 is exact in a float64

type c09wOp struct {
	K string `json:"k"`           // add | addn | adv | rpanic
	N int    `json:"n,omitempty"` // addn: number of concurrent adders; rpanic: callback invocation that panics
	D int64  `json:"d,omitempty"` // adv: nanoseconds
	G string `json:"g,omitempty"` // adv: generator label (informational); rpanic: panic value kind
	V string `json:"v,omitempty"` // add: special value instead of 2^i (see c09wValues)
}

type c09wCase struct {
	Size int      `json:"size"`
	Iv   int64    `json:"iv"` // bucket interval, nanoseconds
	Ign  bool     `json:"ign"`
	Dup  bool     `json:"dup,omitempty"` // IgnoreCurrentBucket() passed twice (variadic option list)
	Ops  []c09wOp `json:"ops"`
}

// special values a caller may legally add (the shedder itself adds 0 for a zero latency)
var c09wValues = map[string]float64{
	"0": 0, "-0": math.Copysign(0, -1), "-1": -1, "0.1": 0.1, "2^53": 1 << 53, "2^53+1": 1<<53 + 1,
	"max": math.MaxFloat64, "-max": -math.MaxFloat64, "tiny": math.SmallestNonzeroFloat64,
	"inf": math.Inf(1), "nan": math.NaN(), "1e15": 1e15,
}

const c09wMaxEl = int64(250 * 365 * 24 * time.Hour) // keeps timex.Now() (about 1y at start) inside int64

// Finding of the 32-bit build (unit lib/collection@386, FINDINGS.md; fixed in /repo f973659,
// regression replay harness/C09/replays/window-model-span-32bit.json): RollingWindow.span()
// converted the number of elapsed intervals to int BEFORE comparing it with the size, so with a
// 32-bit int a gap of g >= 2^32 intervals whose low 32 bits are in [0,size) was taken for a gap of
// g mod 2^32 buckets: values that were whole windows old stayed visible. c09wSpanWraps labels the
// operations made at such a gap (class label on every build; it judges nothing).
func c09wSpanWraps(gap, size int64) bool {
	if gap < 1<<32 {
		return false
	}
	low := int64(int32(uint32(gap)))
	return 0 <= low && low < size
}

type c09wAdd struct {
	bucket int64
	id     int // -1: special value
	val    float64
}

type c09wBucket struct {
	sum   uint64 // identity mode: bit set of add ids; value mode: float64 bits of the sequential sum (NaN canonical)
	count int64
}

func c09wIDs(sum uint64) []int {
	var ids []int
	for sum != 0 {
		i := bits.TrailingZeros64(sum)
		ids = append(ids, i)
		sum &^= 1 << uint(i)
	}
	return ids
}

func c09wBits(f float64) uint64 {
	if f != f {
		return 0x7ff8000000000001
	}
	return math.Float64bits(f)
}

func c09wSatMul(a, b int64) int64 {
	if a > 0 && b > math.MaxInt64/a {
		return math.MaxInt64
	}
	return a * b
}

func c09wInterp(t *testing.T, c c09wCase) (v kit.Verdict) {
	if c.Size < 1 || c.Size > 1<<17 || c.Iv <= 0 {
		v.Excluded = true
		return v
	}
	nadds := 0
	special, concurrent := false, false
	var total int64
	for _, o := range c.Ops {
		switch o.K {
		case "add":
			if o.V != "" {
				if _, ok := c09wValues[o.V]; !ok {
					v.Excluded = true
					return v
				}
				special = true
			} else {
				nadds++
			}
		case "addn":
			if o.N < 1 {
				v.Excluded = true
				return v
			}
			nadds += o.N
			concurrent = true
		case "adv":
			if o.D < 0 || o.D > c09wMaxEl-total {
				v.Excluded = true
				return v
			}
			total += o.D
		case "rpanic":
			if o.N < 0 {
				v.Excluded = true
				return v
			}
		default:
			v.Excluded = true
			return v
		}
	}
	// special values make bucket sums depend on the order of additions: only sequential adds then
	if nadds > c09wMaxAdds || special && concurrent {
		v.Excluded = true
		return v
	}

	var fail string
	classes := map[string]bool{}
	nontrivial := false
	size := int64(c.Size)
	win := c09wSatMul(size, c.Iv)
	res := kit.Bubble(t, func() {
		start := time.Now()
		var opts []RollingWindowOption
		if c.Ign {
			opts = append(opts, IgnoreCurrentBucket())
			classes["ignore-current"] = true
			if c.Dup {
				opts = append(opts, IgnoreCurrentBucket())
				classes["option-passed-twice"] = true
			}
		}
		var rw *RollingWindow
		if pv := func() (pv any) {
			defer func() { pv = recover() }()
			rw = NewRollingWindow(c.Size, time.Duration(c.Iv), opts...)
			return nil
		}(); pv != nil {
			fail = fmt.Sprintf("NewRollingWindow(%d, %dns) panicked for a legal configuration: %v", c.Size, c.Iv, pv)
			return
		}
		var (
			el       int64 // elapsed virtual ns since creation
			adds     []c09wAdd
			nextID   int
			lastAddT int64 = -1
			lastUpdB int64 // bucket of the last Add (creation: 0): where the window's lastTime stands
		)
		check := func(what string) bool {
			if got := int64(time.Since(start)); got != el {
				fail = fmt.Sprintf("harness: virtual clock at %d, model at %d", got, el)
				return false
			}
			cur := el / c.Iv
			if c09wSpanWraps(cur-lastUpdB, size) {
				classes["reduce-at-gap-2^32k+(<size)-intervals"] = true
			}
			lo := cur - size // exclusive
			hi := cur        // inclusive unless ignored
			if c.Ign {
				hi = cur - 1
			}
			type ref struct {
				ids   uint64
				fsum  float64
				count int64
			}
			want := map[int64]*ref{}
			visible, total := 0, len(adds)
			for _, a := range adds { // in the order of the (sequential) adds: the float sum is reproducible
				if a.bucket > lo && a.bucket <= hi {
					b := want[a.bucket]
					if b == nil {
						b = &ref{}
						want[a.bucket] = b
					}
					if a.id >= 0 {
						b.ids |= 1 << uint(a.id)
					}
					b.fsum += a.val
					b.count++
					visible++
				}
			}
			if visible > 0 && visible < total {
				classes["partially-expired"] = true
			}
			if total > 0 && visible == 0 {
				classes["all-expired"] = true
			}
			var got []c09wBucket
			var gotF []float64
			bad := ""
			rw.Reduce(func(b *Bucket) {
				if b.Sum == 0 && b.Count == 0 {
					return
				}
				if special {
					got = append(got, c09wBucket{sum: c09wBits(b.Sum), count: b.Count})
					gotF = append(gotF, b.Sum)
					return
				}
				u := uint64(b.Sum)
				if b.Sum < 0 || float64(u) != b.Sum {
					bad = fmt.Sprintf("bucket sum %v is not a sum of added values", b.Sum)
					return
				}
				got = append(got, c09wBucket{sum: u, count: b.Count})
			})
			if bad != "" {
				fail = what + ": " + bad
				return false
			}
			var wl []c09wBucket
			var wlF []float64
			for _, b := range want {
				if special {
					wl = append(wl, c09wBucket{sum: c09wBits(b.fsum), count: b.count})
					wlF = append(wlF, b.fsum)
				} else {
					wl = append(wl, c09wBucket{sum: b.ids, count: b.count})
				}
			}
			less := func(l []c09wBucket) func(i, j int) bool {
				return func(i, j int) bool {
					if l[i].sum != l[j].sum {
						return l[i].sum < l[j].sum
					}
					return l[i].count < l[j].count
				}
			}
			sort.Slice(wl, less(wl))
			sort.Slice(got, less(got))
			if fmt.Sprint(got) == fmt.Sprint(wl) {
				return true
			}
			if special {
				fail = fmt.Sprintf("%s: at +%dns (bucket %d, visible buckets (%d,%d]) Reduce saw non-empty buckets (sum bits,count) %x sums %v, reference %x sums %v",
					what, el, cur, lo, hi, got, gotF, wl, wlF)
				return false
			}
			// diagnose in the statement's terms
			byID := map[int]c09wAdd{}
			for _, a := range adds {
				byID[a.id] = a
			}
			seen := map[int]int{}
			var gotCount int64
			for _, b := range got {
				gotCount += b.count
				for _, id := range c09wIDs(b.sum) {
					seen[id]++
				}
			}
			var diag []string
			for id := 0; id < nextID; id++ {
				a := byID[id]
				in := a.bucket > lo && a.bucket <= hi
				switch {
				case in && seen[id] == 0:
					diag = append(diag, fmt.Sprintf("add #%d (bucket %d) LOST", id, a.bucket))
				case !in && seen[id] > 0 && a.bucket <= lo:
					diag = append(diag, fmt.Sprintf("add #%d (bucket %d) is OLDER than the window but seen", id, a.bucket))
				case !in && seen[id] > 0:
					diag = append(diag, fmt.Sprintf("add #%d (current bucket %d) seen although the current bucket is ignored", id, a.bucket))
				}
			}
			if len(diag) == 0 {
				diag = append(diag, fmt.Sprintf("same adds but sums/counts/bucket grouping differ (total count got %d want %d)", gotCount, visible))
			}
			fail = fmt.Sprintf("%s: at +%dns (bucket %d, visible buckets (%d,%d]) Reduce saw %d non-empty buckets %v, reference %v: %v",
				what, el, cur, lo, hi, len(got), got, wl, diag)
			return false
		}
		if !check("after creation") {
			return
		}
		for i, o := range c.Ops {
			what := fmt.Sprintf("op %d %s", i, o.K)
			switch o.K {
			case "add":
				if o.V != "" {
					val := c09wValues[o.V]
					rw.Add(val)
					adds = append(adds, c09wAdd{bucket: el / c.Iv, id: -1, val: val})
					classes["value-"+o.V] = true
					what += " " + o.V
				} else {
					val := float64(uint64(1) << uint(nextID))
					rw.Add(val)
					adds = append(adds, c09wAdd{bucket: el / c.Iv, id: nextID, val: val})
					nextID++
				}
			case "addn":
				classes["concurrent-adders"] = true
				var wg sync.WaitGroup
				for j := 0; j < o.N; j++ {
					id := nextID
					adds = append(adds, c09wAdd{bucket: el / c.Iv, id: id, val: float64(uint64(1) << uint(id))})
					nextID++
					wg.Add(1)
					go func() {
						defer wg.Done()
						rw.Add(float64(uint64(1) << uint(id)))
					}()
				}
				wg.Wait()
			case "rpanic":
				// a reducer callback that panics: the panic reaches the caller, and the window
				// stays usable (its lock is released) - probed without risking a mutex wedge
				var pv any
				switch o.G {
				case "error":
					pv = fmt.Errorf("c09 reducer panic")
				case "int":
					pv = 42
				default:
					pv = "c09 reducer panic"
				}
				calls, panicked := 0, false
				func() {
					defer func() {
						if r := recover(); r != nil {
							panicked = true
						}
					}()
					rw.Reduce(func(b *Bucket) {
						if calls == o.N {
							panic(pv)
						}
						calls++
					})
				}()
				if panicked {
					classes["reducer-panicked-"+o.G] = true
					if !rw.lock.TryLock() {
						fail = fmt.Sprintf("%s: after a reducer callback panicked (callback %d, %T) the window lock is still held: every later Add/Reduce blocks forever", what, o.N, pv)
						return
					}
					rw.lock.Unlock()
				}
			case "adv":
				what = fmt.Sprintf("op %d adv %dns (%s)", i, o.D, o.G)
				time.Sleep(time.Duration(o.D))
				before := el
				el += o.D
				if o.D > 0 {
					switch {
					case el%c.Iv == 0:
						classes["adv-onto-boundary"] = true
					case el%c.Iv == c.Iv-1:
						classes["adv-boundary-1ns"] = true
					case el%c.Iv == 1:
						classes["adv-boundary+1ns"] = true
					}
					if o.D < c.Iv && before/c.Iv == el/c.Iv {
						classes["adv-within-bucket"] = true
					}
					if o.D >= win {
						classes["adv>=window"] = true
					}
					if o.D/2 >= win {
						classes["adv-multi-window"] = true
					}
					if o.D/c.Iv >= 1<<31 {
						classes["adv>=2^31-intervals"] = true
					}
					if o.D >= int64(30*24*time.Hour) {
						classes["adv>=30d"] = true
					}
				} else {
					classes["adv-zero"] = true
				}
			}
			if o.K == "add" || o.K == "addn" {
				if c09wSpanWraps(el/c.Iv-lastUpdB, size) {
					classes["add-at-gap-2^32k+(<size)-intervals"] = true
				}
				lastUpdB = el / c.Iv
				if lastAddT >= 0 && el-lastAddT >= win {
					classes["add-after-long-gap"] = true
				}
				lastAddT = el
				if el/c.Iv >= size {
					classes["ring-wrapped-add"] = true
				}
			}
			if lastAddT >= 0 && el-lastAddT >= win {
				nontrivial = true // a gap >= size*interval after an add, and a read after it
			}
			if !check(what) {
				return
			}
		}
	})
	switch {
	case c.Size == 1:
		classes["size-1"] = true
	case c.Size >= 1000:
		classes["size>=1000"] = true
	case c.Size >= 64:
		classes["size-64..999"] = true
	}
	switch {
	case c.Iv < int64(time.Microsecond):
		classes["interval<1us"] = true
	case c.Iv < int64(time.Millisecond):
		classes["interval<1ms"] = true
	case c.Iv > int64(time.Second):
		classes["interval>1s"] = true
	}
	if c.Size > 1 && c.Iv > math.MaxInt64/size {
		classes["window>=2^63ns"] = true
	}
	v.NonTrivial = nontrivial
	for k := range classes {
		v.Classes = append(v.Classes, k)
	}
	sort.Strings(v.Classes)
	if fail != "" {
		v.Fail = fail
	} else if !res.OK() {
		v.Fail = "bubble: " + res.String()
	}
	return v
}

var c09wIntervals = []int64{
	int64(time.Millisecond), int64(10 * time.Millisecond), int64(50 * time.Millisecond),
	int64(100 * time.Millisecond), int64(250 * time.Millisecond), int64(time.Second),
}

// scale-free magnitudes (SWEEP class 1)
var c09wSmallIntervals = []int64{1, 2, 3, 127, 128, 255, 256, 1000, 65535, 65536, 999999}
var c09wBigIntervals = []int64{int64(time.Second) + 1, int64(time.Minute), int64(time.Hour), int64(30 * 24 * time.Hour)}

// intervals whose product with a size > 1 leaves int64 (a window of 292 years or more is a
// legal configuration: every add of a process lifetime stays in the first buckets)
var c09wHugeIntervals = []int64{int64(100 * 365 * 24 * time.Hour), 1 << 61, 1<<61 + 1, 1<<62 - 1, 1 << 62, math.MaxInt64/3 + 1, math.MaxInt64/2 + 1, math.MaxInt64 - 1, math.MaxInt64}
var c09wBigSizes = []int{64, 127, 128, 129, 255, 256, 257, 1000, 4096, 65535, 65536, 65537}
var c09wHugeGaps = []int64{int64(time.Minute), int64(time.Hour), int64(30 * 24 * time.Hour), int64(100 * 365 * 24 * time.Hour),
	1<<31 - 1, 1 << 31, 1<<31 + 1, 1<<32 - 1, 1 << 32, 1<<32 + 1, 1 << 53, 1<<53 + 1}

func c09wGen(rt *rapid.T) c09wCase {
	c := c09wCase{
		Size: rapid.IntRange(1, 12).Draw(rt, "size"),
		Ign:  rapid.Bool().Draw(rt, "ign"),
	}
	switch rapid.SampledFrom([]string{"round", "round", "ns", "ns", "small", "big", "bigsize", "hugeiv"}).Draw(rt, "ivkind") {
	case "round":
		c.Iv = rapid.SampledFrom(c09wIntervals).Draw(rt, "iv")
	case "ns":
		c.Iv = rapid.Int64Range(int64(time.Millisecond), int64(time.Second)).Draw(rt, "ivns")
	case "small":
		c.Iv = rapid.SampledFrom(c09wSmallIntervals).Draw(rt, "ivsmall")
	case "big":
		c.Iv = rapid.SampledFrom(c09wBigIntervals).Draw(rt, "ivbig")
	case "hugeiv":
		c.Iv = rapid.SampledFrom(c09wHugeIntervals).Draw(rt, "ivhuge")
		if rapid.IntRange(0, 3).Draw(rt, "hugesize") == 0 {
			c.Size = rapid.SampledFrom(c09wBigSizes).Draw(rt, "bigsize")
		}
	case "bigsize":
		c.Size = rapid.SampledFrom(c09wBigSizes).Draw(rt, "bigsize")
		c.Iv = rapid.SampledFrom(append(append([]int64{}, c09wSmallIntervals...), c09wIntervals...)).Draw(rt, "ivbs")
	}
	c.Dup = c.Ign && rapid.IntRange(0, 7).Draw(rt, "dup") == 0
	size := int64(c.Size)
	n := rapid.IntRange(1, 40).Draw(rt, "nops")
	if c.Size > 4096 {
		n = rapid.IntRange(1, 12).Draw(rt, "nopsbig")
	}
	special := rapid.IntRange(0, 5).Draw(rt, "special") == 0
	var valueKinds []string
	for k := range c09wValues {
		valueKinds = append(valueKinds, k)
	}
	sort.Strings(valueKinds)
	var el int64
	adds := 0
	for i := 0; i < n; i++ {
		k := rapid.SampledFrom([]string{"add", "add", "add", "add", "addn", "adv", "adv", "adv", "adv", "adv", "adv", "rpanic"}).Draw(rt, "k")
		if k == "addn" && (special || adds+4 > c09wMaxAdds) || k == "add" && adds+1 > c09wMaxAdds {
			k = "adv"
		}
		o := c09wOp{K: k}
		switch k {
		case "add":
			if special && rapid.Bool().Draw(rt, "sv") {
				o.V = rapid.SampledFrom(valueKinds).Draw(rt, "v")
			} else {
				adds++
			}
		case "addn":
			o.N = rapid.IntRange(2, 4).Draw(rt, "n")
			adds += o.N
		case "rpanic":
			o.N = rapid.IntRange(0, 3).Draw(rt, "pn")
			o.G = rapid.SampledFrom([]string{"string", "error", "int"}).Draw(rt, "pk")
		case "adv":
			toB := c.Iv - el%c.Iv // exactly onto the next boundary (a full interval when on one)
			o.G = rapid.SampledFrom([]string{"zero", "sub", "toB", "toB-1", "toB+1", "k", "k", "win", "win", "multi", "huge"}).Draw(rt, "g")
			if o.G == "sub" && c.Iv < 2 {
				o.G = "toB"
			}
			switch o.G {
			case "zero":
				o.D = 0
			case "sub":
				o.D = rapid.Int64Range(1, c.Iv-1).Draw(rt, "d")
			case "toB":
				o.D = toB
			case "toB-1":
				o.D = toB - 1
			case "toB+1":
				o.D = toB + 1
			case "k":
				o.D = c09wSatMul(rapid.Int64Range(1, size+2).Draw(rt, "ki"), c.Iv)
				if rapid.Bool().Draw(rt, "align") && o.D < math.MaxInt64-c.Iv {
					o.D += toB % c.Iv
				}
			case "win":
				o.D = c09wSatMul(size, c.Iv)
				if wd := rapid.SampledFrom([]int64{-c.Iv, -1, 0, 1, c.Iv}).Draw(rt, "wd"); wd < 0 || o.D < math.MaxInt64-wd {
					o.D += wd
				}
				if o.D < 0 {
					o.D = 0
				}
			case "multi":
				o.D = c09wSatMul(rapid.Int64Range(2, 5).Draw(rt, "mw"), c09wSatMul(size, c.Iv))
				if mr := rapid.Int64Range(0, c.Iv-1).Draw(rt, "mr"); o.D < math.MaxInt64-mr {
					o.D += mr
				}
			case "huge": // a number of nanoseconds, or that number of intervals
				o.D = rapid.SampledFrom(c09wHugeGaps).Draw(rt, "hg")
				if rapid.Bool().Draw(rt, "hgiv") {
					o.D = c09wSatMul(o.D, c.Iv)
				}
			}
			if o.D > c09wMaxEl-el {
				o.D = 0
				o.G = "zero"
			}
			el += o.D
		}
		c.Ops = append(c.Ops, o)
	}
	return c
}

func TestVerif_C09_window(t *testing.T) {
	kit.Run(t, "C09", "window-model", kit.Opts{Quick: 6000, Thorough: 480000}, c09wGen,
		func(c c09wCase) kit.Verdict { return c09wInterp(t, c) })
}

// Small-scope exhaustive enumeration: every op sequence of length L over the
// alphabet {add, advance by 0 / half / interval-1ns / interval / interval+1ns /
// (size-1) intervals / size intervals / size+1 intervals} for size 1..3, with
// and without the current bucket, interval 10 ms. The interpreter reduces after
// every op, so all shorter prefixes are judged too.
func c09wEnumerate(maxSize, length int) func(yield func(c09wCase) bool) {
	const iv = int64(10 * time.Millisecond)
	return func(yield func(c09wCase) bool) {
		for size := 1; size <= maxSize; size++ {
			alphabet := []c09wOp{
				{K: "add"},
				{K: "adv", D: 0, G: "0"},
				{K: "adv", D: iv / 2, G: "half"},
				{K: "adv", D: iv - 1, G: "iv-1"},
				{K: "adv", D: iv, G: "iv"},
				{K: "adv", D: iv + 1, G: "iv+1"},
				{K: "adv", D: int64(size) * iv, G: "size*iv"},
				{K: "adv", D: int64(size+1) * iv, G: "(size+1)*iv"},
			}
			if size > 2 {
				alphabet = append(alphabet, c09wOp{K: "adv", D: int64(size-1) * iv, G: "(size-1)*iv"})
			}
			idx := make([]int, length)
			for _, ign := range []bool{false, true} {
				for i := range idx {
					idx[i] = 0
				}
				for {
					ops := make([]c09wOp, length)
					hasAdd := false
					for i, a := range idx {
						ops[i] = alphabet[a]
						hasAdd = hasAdd || a == 0
					}
					if hasAdd && ops[length-1].K != "adv" || hasAdd && ops[length-1].D != 0 {
						if !yield(c09wCase{Size: size, Iv: iv, Ign: ign, Ops: ops}) {
							return
						}
					}
					p := length - 1
					for p >= 0 {
						idx[p]++
						if idx[p] < len(alphabet) {
							break
						}
						idx[p] = 0
						p--
					}
					if p < 0 {
						break
					}
				}
			}
		}
	}
}

func TestVerif_C09_window_exhaustive(t *testing.T) {
	length := 5
	if kit.Thorough() {
		length = 6
	}
	kit.Enumerate(t, "C09", "window-exhaustive", c09wEnumerate(3, length),
		func(c c09wCase) kit.Verdict { return c09wInterp(t, c) })
}

// Concurrent adders (and reducers) at equal and at advancing instants: G
// goroutines add the value 1 M times per round; between rounds the clock
// advances. After every round (quiescent) the reference is exact per bucket. A
// reducer running concurrently with the adders must never see a torn bucket
// (Sum != Count) and the total it sees lies between the visible total before
// the round and that total plus G*M (exactly the former when the current bucket
// is ignored): nothing lost, nothing counted twice under contention.
type c09cRound struct {
	D int64 `json:"d"` // advance before the round, ns
}

type c09cCase struct {
	Size   int         `json:"size"`
	Iv     int64       `json:"iv"`
	Ign    bool        `json:"ign"`
	G      int         `json:"g"`
	M      int         `json:"m"`
	Rounds []c09cRound `json:"rounds"`
}

func c09cInterp(t *testing.T, c c09cCase) (v kit.Verdict) {
	if c.Size < 1 || c.Iv <= 0 || c.G < 1 || c.M < 1 || c.G*c.M > 1<<20 || len(c.Rounds) > 64 {
		v.Excluded = true
		return v
	}
	for _, r := range c.Rounds {
		if r.D < 0 {
			v.Excluded = true
			return v
		}
	}
	var fail string
	size := int64(c.Size)
	expired := false
	res := kit.Bubble(t, func() {
		var opts []RollingWindowOption
		if c.Ign {
			opts = append(opts, IgnoreCurrentBucket())
		}
		rw := NewRollingWindow(c.Size, time.Duration(c.Iv), opts...)
		counts := map[int64]int64{} // reference: bucket index -> number of adds of 1
		var el int64
		reduce := func() (list []int64, total int64, torn string) {
			rw.Reduce(func(b *Bucket) {
				sum, count := b.Sum, b.Count
				if float64(count) != sum {
					torn = fmt.Sprintf("bucket with Sum %v but Count %d (every add has value 1)", sum, count)
				}
				if count != 0 {
					list = append(list, count)
					total += count
				}
			})
			sort.Slice(list, func(i, j int) bool { return list[i] < list[j] })
			return
		}
		expect := func() (w []int64, total int64) {
			cur := el / c.Iv
			lo, hi := cur-size, cur
			if c.Ign {
				hi = cur - 1
			}
			for b, n := range counts {
				if b > lo && b <= hi {
					w = append(w, n)
					total += n
				} else if b <= lo {
					expired = true
				}
			}
			sort.Slice(w, func(i, j int) bool { return w[i] < w[j] })
			return
		}
		for r, rd := range c.Rounds {
			time.Sleep(time.Duration(rd.D))
			el += rd.D
			cur := el / c.Iv
			_, before := expect()
			after := before
			if !c.Ign {
				after += int64(c.G * c.M)
			}
			var wg sync.WaitGroup
			var rmu sync.Mutex
			var rfail string
			for g := 0; g < c.G; g++ {
				wg.Add(1)
				go func() {
					defer wg.Done()
					for m := 0; m < c.M; m++ {
						rw.Add(1)
					}
				}()
			}
			for k := 0; k < 2; k++ {
				wg.Add(1)
				go func() {
					defer wg.Done()
					for m := 0; m < 8; m++ {
						_, total, msg := reduce()
						if msg == "" && (total < before || total > after) {
							msg = fmt.Sprintf("concurrent Reduce saw %d adds in total, outside [%d,%d]", total, before, after)
						}
						if msg != "" {
							rmu.Lock()
							if rfail == "" {
								rfail = msg
							}
							rmu.Unlock()
						}
					}
				}()
			}
			wg.Wait()
			if rfail != "" {
				fail = fmt.Sprintf("round %d at +%dns: %s", r, el, rfail)
				return
			}
			counts[cur] += int64(c.G * c.M)
			got, _, torn := reduce()
			want, _ := expect()
			if torn != "" || fmt.Sprint(got) != fmt.Sprint(want) && !(len(got) == 0 && len(want) == 0) {
				fail = fmt.Sprintf("round %d at +%dns (bucket %d): after %d goroutines x %d adds of 1 Reduce saw bucket counts %v, reference %v %s", r, el, cur, c.G, c.M, got, want, torn)
				return
			}
		}
	})
	v.NonTrivial = len(c.Rounds) > 1 && expired
	if c.Ign {
		v.Classes = append(v.Classes, "ignore-current")
	}
	if expired {
		v.Classes = append(v.Classes, "expired-buckets")
	}
	if fail != "" {
		v.Fail = fail
	} else if !res.OK() {
		v.Fail = "bubble: " + res.String()
	}
	return v
}

func TestVerif_C09_window_concurrent(t *testing.T) {
	kit.Run(t, "C09", "window-concurrent", kit.Opts{Quick: 400, Thorough: 6400},
		func(rt *rapid.T) c09cCase {
			c := c09cCase{
				Size: rapid.IntRange(1, 6).Draw(rt, "size"),
				Iv:   rapid.SampledFrom(c09wIntervals).Draw(rt, "iv"),
				Ign:  rapid.Bool().Draw(rt, "ign"),
				G:    rapid.IntRange(2, 8).Draw(rt, "g"),
				M:    rapid.IntRange(1, 2000).Draw(rt, "m"),
			}
			n := rapid.IntRange(1, 6).Draw(rt, "rounds")
			for i := 0; i < n; i++ {
				d := rapid.SampledFrom([]int64{0, 0, c.Iv / 2, c.Iv, c.Iv, 2 * c.Iv, int64(c.Size) * c.Iv, int64(c.Size+1) * c.Iv}).Draw(rt, "d")
				c.Rounds = append(c.Rounds, c09cRound{D: d})
			}
			return c
		},
		func(c c09cCase) kit.Verdict { return c09cInterp(t, c) })
}

// Slow reducer: one Reduce call whose callback stalls (blocked on a channel) at
// its At-th bucket while the clock advances by D and another goroutine then
// calls Add N times. Oracle (consistent snapshot): the buckets this single call
// reports must be the reference window at ONE instant between the call's start
// and its return - any bucket index cur(start)..cur(return) with the adds made
// before the call, or the instant of return with the first j of the concurrent
// adds (an Add that has been called but has not returned may or may not have
// taken effect). Nothing older than the window at the call's start, nothing
// visible lost, no mixture of two instants.
//
// The unchanged code holds the window lock during the callbacks, so the
// concurrent Add parks on the mutex, which is NOT a durable block for synctest:
// the harness therefore never waits for the adder while the reducer is stalled
// (no kit.Wait, no virtual sleep); it yields the processor a bounded number of
// times, looks whether the Add has returned, resumes the reducer and only then
// waits for the adder on a channel.
type c09rCase struct {
	Size int     `json:"size"`
	Iv   int64   `json:"iv"`
	Ign  bool    `json:"ign"`
	Pre  []int64 `json:"pre"` // advance before each preliminary Add, ns
	D0   int64   `json:"d0"`  // advance between the last preliminary Add and the Reduce call
	At   int     `json:"at"`  // the callback invocation (0-based) that stalls
	D    int64   `json:"d"`   // advance while stalled
	N    int     `json:"n"`   // concurrent adds issued after the advance
}

func c09rWindow(adds []c09wAdd, cur, size int64, ign bool) string {
	lo, hi := cur-size, cur
	if ign {
		hi = cur - 1
	}
	m := map[int64]*c09wBucket{}
	for _, a := range adds {
		if a.bucket > lo && a.bucket <= hi {
			b := m[a.bucket]
			if b == nil {
				b = &c09wBucket{}
				m[a.bucket] = b
			}
			b.sum |= 1 << uint(a.id)
			b.count++
		}
	}
	var l []c09wBucket
	for _, b := range m {
		l = append(l, *b)
	}
	sort.Slice(l, func(i, j int) bool { return l[i].sum < l[j].sum })
	return fmt.Sprint(l)
}

func c09rInterp(t *testing.T, c c09rCase) (v kit.Verdict) {
	if c.Size < 1 || c.Iv <= 0 || len(c.Pre)+c.N > c09wMaxAdds || c.D < 0 || c.D0 < 0 || c.At < 0 || c.N < 0 || c.D/c.Iv > 1000 {
		v.Excluded = true
		return v
	}
	for _, d := range c.Pre {
		if d < 0 {
			v.Excluded = true
			return v
		}
	}
	var fail string
	classes := map[string]bool{}
	size := int64(c.Size)
	res := kit.Bubble(t, func() {
		var opts []RollingWindowOption
		if c.Ign {
			opts = append(opts, IgnoreCurrentBucket())
		}
		rw := NewRollingWindow(c.Size, time.Duration(c.Iv), opts...)
		var el int64
		var adds []c09wAdd
		for _, d := range c.Pre {
			time.Sleep(time.Duration(d))
			el += d
			rw.Add(float64(uint64(1) << uint(len(adds))))
			adds = append(adds, c09wAdd{bucket: el / c.Iv, id: len(adds)})
		}
		time.Sleep(time.Duration(c.D0))
		el += c.D0
		pre := append([]c09wAdd(nil), adds...)
		startCur := el / c.Iv

		stalled := make(chan struct{})
		resume := make(chan struct{})
		reduceDone := make(chan struct{})
		var got []c09wBucket
		bad := ""
		go func() {
			defer close(reduceDone)
			calls := 0
			rw.Reduce(func(b *Bucket) {
				if calls == c.At {
					close(stalled)
					<-resume
				}
				calls++
				sum, count := b.Sum, b.Count
				if sum == 0 && count == 0 {
					return
				}
				u := uint64(sum)
				if sum < 0 || float64(u) != sum {
					bad = fmt.Sprintf("bucket sum %v is not a sum of added values", sum)
					return
				}
				got = append(got, c09wBucket{sum: u, count: count})
			})
		}()
		addReturnedDuringReduce := false
		select {
		case <-reduceDone:
			classes["no-stall"] = true
		case <-stalled:
			classes["stalled"] = true
			time.Sleep(time.Duration(c.D)) // only the stalled reducer exists: virtual time advances
			el += c.D
			addDone := make(chan struct{})
			if c.N > 0 {
				for j := 0; j < c.N; j++ {
					adds = append(adds, c09wAdd{bucket: el / c.Iv, id: len(adds)})
				}
				first := len(pre)
				go func() {
					defer close(addDone)
					for j := 0; j < c.N; j++ {
						rw.Add(float64(uint64(1) << uint(first+j)))
					}
				}()
				// bounded, clock-free look: has the Add returned although a reduction is in progress?
			yield:
				for i := 0; i < 2000; i++ {
					runtime.Gosched()
					select {
					case <-addDone:
						addReturnedDuringReduce = true
						break yield
					default:
					}
				}
			} else {
				close(addDone)
			}
			close(resume)
			<-reduceDone
			<-addDone
		}
		if addReturnedDuringReduce {
			classes["add-returned-during-reduce"] = true
		}
		if bad != "" {
			fail = "stalled Reduce: " + bad
			return
		}
		sort.Slice(got, func(i, j int) bool { return got[i].sum < got[j].sum })
		gs := fmt.Sprint(got)
		endCur := el / c.Iv
		var legal []string
		ok := false
		for cur := startCur; cur <= endCur && !ok; cur++ {
			w := c09rWindow(pre, cur, size, c.Ign)
			legal = append(legal, fmt.Sprintf("bucket %d: %s", cur, w))
			ok = w == gs
		}
		for j := 1; j <= len(adds)-len(pre) && !ok; j++ {
			w := c09rWindow(adds[:len(pre)+j], endCur, size, c.Ign)
			legal = append(legal, fmt.Sprintf("bucket %d with %d concurrent adds: %s", endCur, j, w))
			ok = w == gs
		}
		if !ok {
			if len(legal) > 12 {
				legal = append(legal[:6], legal[len(legal)-6:]...)
			}
			fail = fmt.Sprintf("one Reduce call (started in bucket %d, stalled at callback %d for %dns, %d concurrent adds in bucket %d) reported %s, which is the window at no single instant of the call; legal: %v",
				startCur, c.At, c.D, c.N, endCur, gs, legal)
			return
		}
		// quiescent: everything added must now be accounted for exactly
		var fin []c09wBucket
		rw.Reduce(func(b *Bucket) {
			if b.Sum != 0 || b.Count != 0 {
				fin = append(fin, c09wBucket{sum: uint64(b.Sum), count: b.Count})
			}
		})
		sort.Slice(fin, func(i, j int) bool { return fin[i].sum < fin[j].sum })
		if w := c09rWindow(adds, endCur, size, c.Ign); fmt.Sprint(fin) != w {
			fail = fmt.Sprintf("after the stalled Reduce and the concurrent adds: Reduce saw %v, reference %s", fin, w)
			return
		}
		if endCur > startCur {
			classes["boundary-passed-while-stalled"] = true
		}
	})
	v.NonTrivial = classes["stalled"] && classes["boundary-passed-while-stalled"] && c.N > 0 && len(c.Pre) > 0
	for k := range classes {
		v.Classes = append(v.Classes, k)
	}
	sort.Strings(v.Classes)
	if fail != "" {
		v.Fail = fail
	} else if !res.OK() {
		v.Fail = "bubble: " + res.String()
	}
	return v
}

func TestVerif_C09_window_slow_reducer(t *testing.T) {
	kit.Run(t, "C09", "window-slow-reducer", kit.Opts{Quick: 1500, Thorough: 48000},
		func(rt *rapid.T) c09rCase {
			c := c09rCase{
				Size: rapid.IntRange(1, 8).Draw(rt, "size"),
				Iv:   rapid.SampledFrom(c09wIntervals).Draw(rt, "iv"),
				Ign:  rapid.IntRange(0, 3).Draw(rt, "ign") == 0,
			}
			adv := func(label string) int64 {
				return rapid.SampledFrom([]int64{0, c.Iv / 2, c.Iv - 1, c.Iv, c.Iv, c.Iv + 1, 2 * c.Iv, int64(c.Size-1) * c.Iv, int64(c.Size) * c.Iv, int64(c.Size+1) * c.Iv}).Draw(rt, label)
			}
			n := rapid.IntRange(0, 2*c.Size+2).Draw(rt, "npre")
			for i := 0; i < n; i++ {
				c.Pre = append(c.Pre, rapid.SampledFrom([]int64{0, c.Iv / 2, c.Iv, c.Iv, c.Iv, 2 * c.Iv}).Draw(rt, "pre"))
			}
			c.D0 = rapid.SampledFrom([]int64{0, 0, c.Iv / 2, c.Iv, 2 * c.Iv}).Draw(rt, "d0")
			c.At = rapid.IntRange(0, c.Size-1).Draw(rt, "at")
			c.D = adv("d")
			c.N = rapid.IntRange(0, 3).Draw(rt, "n")
			return c
		},
		func(c c09rCase) kit.Verdict { return c09rInterp(t, c) })
}

// Long-lived window (SWEEP class 2): one window living through 10^3..10^5 cheap
// adds of the value 1 spread over many revolutions (or all in ONE bucket, so
// that per-bucket counts cross 2^15, 2^16), with a count-per-bucket reference;
// Reduce is compared after every segment and every 4096 adds inside a segment.
type c09lSeg struct {
	N    int   `json:"n"`    // iterations
	Per  int   `json:"per"`  // adds per iteration
	Step int64 `json:"step"` // advance after each iteration, ns
}

type c09lCase struct {
	Size int       `json:"size"`
	Iv   int64     `json:"iv"`
	Ign  bool      `json:"ign"`
	Segs []c09lSeg `json:"segs"`
}

func c09lInterp(t *testing.T, c c09lCase) (v kit.Verdict) {
	if c.Size < 1 || c.Size > 4096 || c.Iv <= 0 || len(c.Segs) > 16 {
		v.Excluded = true
		return v
	}
	var ops, span int64
	for _, s := range c.Segs {
		if s.N < 0 || s.Per < 0 || s.Step < 0 || s.N > 1<<20 || s.Per > 1<<10 || s.Step > int64(time.Hour) {
			v.Excluded = true
			return v
		}
		ops += int64(s.N) * int64(s.Per+1)
		span += int64(s.N) * s.Step
	}
	if ops > 1<<21 || span > c09wMaxEl {
		v.Excluded = true
		return v
	}
	var fail string
	size := int64(c.Size)
	var maxBucket, totalAdds int64
	res := kit.Bubble(t, func() {
		var opts []RollingWindowOption
		if c.Ign {
			opts = append(opts, IgnoreCurrentBucket())
		}
		rw := NewRollingWindow(c.Size, time.Duration(c.Iv), opts...)
		counts := map[int64]int64{}
		var el int64
		check := func(what string) bool {
			cur := el / c.Iv
			lo, hi := cur-size, cur
			if c.Ign {
				hi = cur - 1
			}
			var want []int64
			for b, n := range counts {
				if b <= lo {
					delete(counts, b)
				} else if b <= hi {
					want = append(want, n)
				}
			}
			var got []int64
			torn := ""
			rw.Reduce(func(b *Bucket) {
				if float64(b.Count) != b.Sum {
					torn = fmt.Sprintf("bucket with Sum %v but Count %d (every add has value 1)", b.Sum, b.Count)
				}
				if b.Count != 0 {
					got = append(got, b.Count)
				}
			})
			sort.Slice(want, func(i, j int) bool { return want[i] < want[j] })
			sort.Slice(got, func(i, j int) bool { return got[i] < got[j] })
			if torn != "" || fmt.Sprint(got) != fmt.Sprint(want) && !(len(got) == 0 && len(want) == 0) {
				fail = fmt.Sprintf("%s: after %d adds at +%dns (bucket %d) Reduce saw bucket counts %v, reference %v %s", what, totalAdds, el, cur, got, want, torn)
				return false
			}
			return true
		}
		for si, s := range c.Segs {
			for i := 0; i < s.N; i++ {
				for j := 0; j < s.Per; j++ {
					rw.Add(1)
					totalAdds++
					if totalAdds%4096 == 0 {
						counts[el/c.Iv] += int64(j + 1)
						ok := check(fmt.Sprintf("segment %d iteration %d", si, i))
						counts[el/c.Iv] -= int64(j + 1)
						if !ok {
							return
						}
					}
				}
				counts[el/c.Iv] += int64(s.Per)
				if counts[el/c.Iv] > maxBucket {
					maxBucket = counts[el/c.Iv]
				}
				if s.Step > 0 {
					time.Sleep(time.Duration(s.Step))
					el += s.Step
				}
			}
			if !check(fmt.Sprintf("after segment %d", si)) {
				return
			}
		}
	})
	v.NonTrivial = totalAdds >= 1000
	switch {
	case totalAdds >= 100000:
		v.Classes = append(v.Classes, "adds>=1e5")
	case totalAdds >= 10000:
		v.Classes = append(v.Classes, "adds>=1e4")
	case totalAdds >= 1000:
		v.Classes = append(v.Classes, "adds>=1e3")
	}
	if maxBucket > 65536 {
		v.Classes = append(v.Classes, "bucket-count>2^16")
	} else if maxBucket > 32768 {
		v.Classes = append(v.Classes, "bucket-count>2^15")
	}
	if fail != "" {
		v.Fail = fail
	} else if !res.OK() {
		v.Fail = "bubble: " + res.String()
	}
	return v
}

func TestVerif_C09_window_longlived(t *testing.T) {
	kit.Run(t, "C09", "window-longlived", kit.Opts{Quick: 40, Thorough: 640},
		func(rt *rapid.T) c09lCase {
			c := c09lCase{
				Size: rapid.SampledFrom([]int{1, 2, 5, 10, 50, 256}).Draw(rt, "size"),
				Iv:   rapid.SampledFrom([]int64{1000, int64(time.Millisecond), int64(100 * time.Millisecond)}).Draw(rt, "iv"),
				Ign:  rapid.IntRange(0, 3).Draw(rt, "ign") == 0,
			}
			n := rapid.IntRange(1, 4).Draw(rt, "nsegs")
			budget := 320000
			for i := 0; i < n && budget > 0; i++ {
				s := c09lSeg{}
				switch rapid.SampledFrom([]string{"one-bucket", "roll", "roll", "sparse"}).Draw(rt, "segkind") {
				case "one-bucket": // many adds at one instant: per-bucket count crosses 2^15 / 2^16
					s.Per = 1
					s.N = rapid.SampledFrom([]int{1000, 32767, 32769, 65535, 65537, 100001}).Draw(rt, "n1")
					s.Step = 0
				case "roll": // thousands of bucket rolls
					s.N = rapid.SampledFrom([]int{1000, 5000, 20000}).Draw(rt, "n2")
					s.Per = rapid.IntRange(1, 3).Draw(rt, "per")
					s.Step = rapid.SampledFrom([]int64{c.Iv / 3, c.Iv - 1, c.Iv, c.Iv + 1, 2 * c.Iv}).Draw(rt, "step")
				case "sparse": // a window-long gap between adds, many times
					s.N = rapid.SampledFrom([]int{1000, 3000}).Draw(rt, "n3")
					s.Per = 1
					s.Step = int64(c.Size)*c.Iv + rapid.SampledFrom([]int64{-1, 0, 1}).Draw(rt, "sd")
				}
				if s.N*(s.Per+1) > budget {
					s.N = budget / (s.Per + 1)
				}
				budget -= s.N * (s.Per + 1)
				c.Segs = append(c.Segs, s)
			}
			return c
		},
		func(c c09lCase) kit.Verdict { return c09lInterp(t, c) })
}

// An Add that WAITS for the window lock across a bucket boundary (the lock is
// held by a Reduce whose callback is slow). Inside a synctest bubble this cannot
// be expressed: a goroutine parked on sync.RWMutex is not durably blocked, so
// virtual time cannot advance while the Add waits. This rule therefore runs on
// the REAL clock, outside any bubble, with 200 ms buckets and every operation
// placed mid-bucket. It stays sound under any scheduling delay because nothing
// is assumed about the clock: every operation is bracketed by two timex.Now()
// readings, bucket indices are computed from those readings on the grid anchored
// at the window's own creation stamp, a sequential operation whose two readings
// fall into different buckets makes the case Excluded ("timing-ambiguous"), and
// the Add that waited may count in ANY bucket between the one of its call and
// the one of its return. Oracle: the statement's window contents after the adds
// that follow the waiting Add (every add has its own bit).
type c09kCase struct {
	Size int `json:"size"`
	K    int `json:"k"`    // bucket boundaries that pass while the Add waits
	Post int `json:"post"` // sequential adds after the waiting Add has returned
}

const c09kIv = 200 * time.Millisecond

func c09kInterp(c c09kCase) (v kit.Verdict) {
	if c.Size < 2 || c.Size > 16 || c.K < 1 || c.K > 3 || c.Post < 1 || c.Post > 3 {
		v.Excluded = true
		return v
	}
	rw := NewRollingWindow(c.Size, c09kIv)
	t0 := rw.lastTime // the grid anchor, exactly as the window sees it
	bucketOf := func(t time.Duration) int64 { return int64((t - t0) / c09kIv) }
	type add struct {
		lo, hi int64 // bucket of the call, bucket of the return
		id     int
	}
	var adds []add
	ambiguous := false
	seqAdd := func() {
		id := len(adds)
		b := timex.Now()
		rw.Add(float64(uint64(1) << uint(id)))
		a := timex.Now()
		adds = append(adds, add{bucketOf(b), bucketOf(a), id})
		if bucketOf(b) != bucketOf(a) {
			ambiguous = true
		}
	}
	seqAdd() // bucket 0

	stalled, release, reduceDone := make(chan struct{}), make(chan struct{}), make(chan struct{})
	go func() {
		defer close(reduceDone)
		first := true
		rw.Reduce(func(b *Bucket) {
			if first {
				first = false
				close(stalled)
				<-release
			}
		})
	}()
	<-stalled
	calling, addDone := make(chan struct{}), make(chan struct{})
	var wb, wa time.Duration
	go func() {
		defer close(addDone)
		wb = timex.Now()
		close(calling)
		rw.Add(float64(uint64(1) << 1))
		wa = timex.Now()
	}()
	<-calling
	time.Sleep(10 * time.Millisecond) // let the adder reach the lock
	// hold the reduction until the middle of bucket K
	if d := t0 + time.Duration(c.K)*c09kIv + c09kIv/2 - timex.Now(); d > 0 {
		time.Sleep(d)
	}
	close(release)
	<-reduceDone
	<-addDone
	adds = append(adds, add{bucketOf(wb), bucketOf(wa), 1})
	if bucketOf(wa) > bucketOf(wb) {
		v.Classes = append(v.Classes, "add-waited-across-boundary")
	}
	for i := 0; i < c.Post; i++ {
		seqAdd()
	}
	rb := timex.Now()
	var got []c09wBucket
	rw.Reduce(func(b *Bucket) {
		if b.Sum != 0 || b.Count != 0 {
			got = append(got, c09wBucket{sum: uint64(b.Sum), count: b.Count})
		}
	})
	ra := timex.Now()
	if bucketOf(rb) != bucketOf(ra) {
		ambiguous = true
	}
	if ambiguous {
		v.Excluded = true
		v.Classes = append(v.Classes, "timing-ambiguous")
		return v
	}
	v.NonTrivial = bucketOf(wa) > bucketOf(wb)
	cur := bucketOf(ra)
	sort.Slice(got, func(i, j int) bool { return got[i].sum < got[j].sum })
	gs := fmt.Sprint(got)
	w := adds[1]
	var legal []string
	for wbk := w.lo; wbk <= w.hi; wbk++ {
		var ref []c09wAdd
		for _, a := range adds {
			b := a.lo
			if a.id == 1 {
				b = wbk
			}
			ref = append(ref, c09wAdd{bucket: b, id: a.id})
		}
		s := c09rWindow(ref, cur, int64(c.Size), false)
		if s == gs {
			return v
		}
		legal = append(legal, fmt.Sprintf("waiting add counted in bucket %d: %s", wbk, s))
	}
	return v.Failf("an Add (#1) called in bucket %d waited for the window lock until bucket %d; after %d further adds in bucket(s) %v a Reduce in bucket %d saw %s; legal: %v",
		w.lo, w.hi, c.Post, func() (bs []int64) {
			for _, a := range adds[2:] {
				bs = append(bs, a.lo)
			}
			return
		}(), cur, gs, legal)
}

func TestVerif_C09_window_add_waits_for_lock(t *testing.T) {
	kit.Run(t, "C09", "window-add-waits-for-lock", kit.Opts{Quick: 4, Thorough: 48},
		func(rt *rapid.T) c09kCase {
			return c09kCase{
				Size: rapid.IntRange(3, 6).Draw(rt, "size"),
				K:    rapid.IntRange(1, 2).Draw(rt, "k"),
				Post: rapid.IntRange(1, 3).Draw(rt, "post"),
			}
		}, c09kInterp)
}
