package load

// C09 (part 2) — adaptive shedder rules A-D against a reference written from
// the property statement and /verif/DESIGN.md "C09". Harness injected by /verif
// (overlay). The CPU reading is injected through the package variable
// systemOverloadChecker; time is the virtual clock of a synctest bubble.
//
//  A  CPU below the threshold and no overload observed (by an Allow) during the
//     last second  =>  Allow admits.
//  B  Allow rejects  =>  both the in-flight count and the (integer part of the)
//     smoothed in-flight count exceed the capacity estimated from the reference
//     windows: max(1, maxPassesPerBucket x bucketsPerSecond x minAvgLatency).
//  C  CPU at/above the threshold now and both counts above the capacity  =>
//     Allow rejects (agreement rule of DESIGN.md: kills "never shed").
//  D  the in-package in-flight counter equals admitted-minus-reported after
//     every operation (never negative) and is 0 once everything has reported.
//
// Where the statement is silent the reference keeps an interval instead of a
// value: the latency per sample may be taken exact or rounded up to whole ms,
// the bucket average may be rounded or not (capLo..capHi); B is judged against
// capLo, C against capHi. With no completed bucket holding a pass the estimate
// is undefined by the statement: only "capacity >= 1" is used for B, C is not
// judged.

import (
	"fmt"
	"math"
	"sort"
	"sync/atomic"
	"testing"
	"time"

	"github.com/gotid/god/lib/logx"
	"github.com/gotid/god/lib/stat"
	"pgregory.net/rapid"
	"verif.local/kit"
)

func init() {
	logx.Disable()
	stat.SetReporter(nil)
}

type c09sOp struct {
	K string `json:"k"`           // cpu | arr | done | churn | adv
	V int64  `json:"v,omitempty"` // cpu: reading (same unit as the threshold)
	N int    `json:"n,omitempty"` // arr: burst size; done/churn: how many
	I int    `json:"i,omitempty"` // done: index into the in-flight list (mod len)
	P bool   `json:"p,omitempty"` // done/churn: Pass (true) or Fail
	D int64  `json:"d,omitempty"` // adv: nanoseconds
	G string `json:"g,omitempty"` // adv: generator label (informational)
}

type c09sCase struct {
	Bk   int      `json:"bk"`  // buckets
	BdMs int64    `json:"bd"`  // bucket duration in ms (divides 1000)
	Thr  int64    `json:"thr"` // CPU threshold
	EndP bool     `json:"endp"`
	Ops  []c09sOp `json:"ops"`
}

type c09sPass struct {
	bucket int64
	lat    int64 // ns
}

type c09sFlight struct {
	start int64
	p     Promise
}

const c09sCool = int64(time.Second)

// c09sCap computes the capacity interval from the reference list of passes.
func c09sCap(passes []c09sPass, cur, bk, bdMs int64) (capLo, capHi int64, visible bool) {
	type agg struct {
		n       int64
		exactNs int64
		ceilMs  int64
	}
	bs := map[int64]*agg{}
	for _, p := range passes {
		if p.bucket > cur-bk && p.bucket < cur { // current bucket excluded (IgnoreCurrentBucket)
			a := bs[p.bucket]
			if a == nil {
				a = &agg{}
				bs[p.bucket] = a
			}
			a.n++
			a.exactNs += p.lat
			a.ceilMs += (p.lat + int64(time.Millisecond) - 1) / int64(time.Millisecond)
		}
	}
	if len(bs) == 0 {
		return 1, 1, false
	}
	var maxPass int64
	rLo, rHi := math.Inf(1), math.Inf(1)
	for _, a := range bs {
		if a.n > maxPass {
			maxPass = a.n
		}
		exact := float64(a.exactNs) / float64(a.n) / 1e6
		ceil := float64(a.ceilMs) / float64(a.n)
		round := math.Round(ceil)
		rLo = math.Min(rLo, math.Min(exact, round))
		rHi = math.Min(rHi, math.Max(ceil, round))
	}
	rLo = math.Min(rLo, 1000) // an implementation may cap the latency estimate at 1 s
	w := float64(1000 / bdMs)
	xLo := float64(maxPass) * w * rLo / 1000
	xHi := float64(maxPass) * w * rHi / 1000
	capLo = int64(math.Floor(xLo*(1-1e-9) - 1e-9))
	capHi = int64(math.Floor(xHi*(1+1e-9) + 1e-9))
	if capLo < 1 {
		capLo = 1
	}
	if capHi < 1 {
		capHi = 1
	}
	return capLo, capHi, true
}

func c09sInterp(t *testing.T, c c09sCase) (v kit.Verdict) {
	if c.Bk < 1 || c.BdMs < 1 || 1000%c.BdMs != 0 {
		v.Excluded = true
		return v
	}
	for _, o := range c.Ops {
		if o.D < 0 || o.N < 0 || o.I < 0 {
			v.Excluded = true
			return v
		}
	}
	var fail string
	classes := map[string]bool{}
	rejects, admitsOver := 0, 0
	saved := systemOverloadChecker
	defer func() { systemOverloadChecker = saved }()
	enabled.Set(true)

	res := kit.Bubble(t, func() {
		bd := c.BdMs * int64(time.Millisecond)
		var reading int64
		checkerCalls := 0
		systemOverloadChecker = func(thr int64) bool {
			checkerCalls++
			return reading >= thr
		}
		start := time.Now()
		shd := NewAdaptiveShedder(WithWindow(time.Duration(bd*int64(c.Bk))), WithBuckets(c.Bk), WithCpuThreshold(c.Thr))
		sh, ok := shd.(*adaptiveShedder)
		if !ok {
			fail = fmt.Sprintf("NewAdaptiveShedder returned %T", shd)
			return
		}
		var (
			el       int64
			lastOver int64 = -1
			ewma     float64
			flights  []c09sFlight
			passes   []c09sPass
			rejected bool // some arrival has been rejected before
		)
		checkD := func(what string) bool {
			if got := atomic.LoadInt64(&sh.flying); got != int64(len(flights)) {
				fail = fmt.Sprintf("rule D: %s: in-flight counter is %d, admitted-and-unreported requests %d", what, got, len(flights))
				return false
			}
			return true
		}
		arrive := func(what string) bool {
			if got := int64(time.Since(start)); got != el {
				fail = fmt.Sprintf("harness: virtual clock at %d, model at %d", got, el)
				return false
			}
			over := reading >= c.Thr
			recent := lastOver >= 0 && el-lastOver < c09sCool
			flying := int64(len(flights))
			eps := 1e-9 * (1 + ewma)
			fLo, fHi := int64(math.Floor(ewma-eps)), int64(math.Floor(ewma+eps))
			capLo, capHi, vis := c09sCap(passes, el/bd, int64(c.Bk), c.BdMs)
			if vis {
				classes["cap-from-data"] = true
				if capLo != capHi {
					classes["cap-ambiguous"] = true
				}
				if capLo > 1 {
					classes["cap>1"] = true
				}
			} else if len(passes) > 0 {
				classes["data-expired-or-current-only"] = true
			}
			before := checkerCalls
			p, err := shd.Allow()
			if checkerCalls == before {
				classes["cpu-not-read"] = true
			}
			state := fmt.Sprintf("at +%dns cpu=%d thr=%d lastOverloadSeen=%d in-flight=%d smoothed=%.6f capacity=[%d,%d] data=%v",
				el, reading, c.Thr, lastOver, flying, ewma, capLo, capHi, vis)
			if err != nil {
				if err != ErrServiceOverloaded {
					fail = fmt.Sprintf("%s: Allow returned unexpected error %v", what, err)
					return false
				}
				rejects++
				classes["reject"] = true
				if over {
					classes["reject-overloaded-now"] = true
				} else {
					classes["reject-hot-only"] = true
				}
				if vis {
					classes["reject-cap-from-data"] = true
					if capLo > 1 {
						classes["reject-cap>1"] = true
					}
				} else {
					classes["reject-cap-undefined"] = true
				}
				if !over && !recent {
					fail = fmt.Sprintf("rule A: %s: rejected although CPU is below the threshold and no overload was observed during the last second; %s", what, state)
					return false
				}
				if !(flying > capLo && fHi > capLo) {
					fail = fmt.Sprintf("rule B: %s: rejected although in-flight and smoothed in-flight do not both exceed the capacity; %s", what, state)
					return false
				}
				if over {
					lastOver = el
				}
				rejected = true
				return true
			}
			// admitted
			if !over && !recent {
				classes["A-applies"] = true
				if flying > capHi && fLo > capHi {
					classes["A-applies-high-load"] = true
				}
				if lastOver >= 0 && el-lastOver == c09sCool {
					classes["A-exactly-1s"] = true
					if rejected && flying > capHi && fLo > capHi {
						classes["A-exactly-1s-after-reject-high-load"] = true
					}
				}
			}
			if over {
				admitsOver++
				classes["admit-overloaded"] = true
				if flying > capHi != (fLo > capHi) {
					classes["admit-overloaded-one-count-high"] = true
				}
				if vis && flying > capHi && fLo > capHi {
					fail = fmt.Sprintf("rule C: %s: admitted although CPU is at/above the threshold and both in-flight counts exceed the capacity; %s", what, state)
					return false
				}
			} else if recent {
				classes["admit-within-cooloff"] = true
			}
			if over {
				lastOver = el
			}
			flights = append(flights, c09sFlight{start: el, p: p})
			return true
		}
		complete := func(i int, pass bool) {
			f := flights[i]
			flights = append(flights[:i], flights[i+1:]...)
			if pass {
				f.p.Pass()
				passes = append(passes, c09sPass{bucket: el / bd, lat: el - f.start})
			} else {
				f.p.Fail()
				classes["fail-reported"] = true
			}
			ewma = ewma*0.9 + float64(len(flights))*0.1
		}
		for i, o := range c.Ops {
			what := fmt.Sprintf("op %d %s", i, o.K)
			switch o.K {
			case "cpu":
				reading = o.V
			case "arr":
				for j := 0; j < o.N; j++ {
					if !arrive(fmt.Sprintf("%s arrival %d", what, j)) || !checkD(what) {
						return
					}
				}
			case "done":
				for j := 0; j < o.N; j++ {
					if len(flights) == 0 {
						classes["done-noop"] = true
						break
					}
					complete(o.I%len(flights), o.P)
					if !checkD(what) {
						return
					}
				}
			case "churn":
				for j := 0; j < o.N; j++ {
					if len(flights) > 0 {
						complete(0, o.P)
						if !checkD(what) {
							return
						}
					}
					if !arrive(fmt.Sprintf("%s arrival %d", what, j)) || !checkD(what) {
						return
					}
				}
			case "adv":
				time.Sleep(time.Duration(o.D))
				el += o.D
			default:
				fail = "harness: unknown op " + o.K
				return
			}
			if !checkD(what) {
				return
			}
		}
		// every admitted request reports: the counter must return to zero
		for len(flights) > 0 {
			complete(len(flights)-1, c.EndP)
			if !checkD("final completion") {
				return
			}
		}
		if got := atomic.LoadInt64(&sh.flying); got != 0 {
			fail = fmt.Sprintf("rule D: in-flight counter is %d after every admitted request has reported", got)
		}
	})
	v.NonTrivial = rejects > 0 && admitsOver > 0
	for k := range classes {
		v.Classes = append(v.Classes, k)
	}
	sort.Strings(v.Classes)
	if fail != "" {
		v.Fail = fail
	} else if !res.OK() {
		v.Fail = "bubble: " + res.String()
	}
	return v
}

func c09sGen(rt *rapid.T) c09sCase {
	c := c09sCase{
		Bk:   rapid.SampledFrom([]int{1, 2, 3, 5, 10, 20, 50}).Draw(rt, "bk"),
		BdMs: rapid.SampledFrom([]int64{10, 20, 50, 100, 100, 200, 250, 500, 1000}).Draw(rt, "bd"),
		Thr:  rapid.SampledFrom([]int64{1, 500, 900, 1000}).Draw(rt, "thr"),
		EndP: rapid.Bool().Draw(rt, "endp"),
	}
	bd := c.BdMs * int64(time.Millisecond)
	bk := int64(c.Bk)
	n := rapid.IntRange(1, 60).Draw(rt, "nops")
	var el int64
	var lastOver int64 = -1
	var reading int64
	// optional warm-up: some passes in a completed bucket, so that the capacity is estimated from data
	for w := rapid.IntRange(0, 2).Draw(rt, "warm"); w > 0; w-- {
		k := rapid.IntRange(1, 8).Draw(rt, "wn")
		lat := rapid.Int64Range(1, 30).Draw(rt, "wlat") * int64(time.Millisecond)
		c.Ops = append(c.Ops, c09sOp{K: "arr", N: k}, c09sOp{K: "adv", D: lat, G: "warm"},
			c09sOp{K: "done", N: k, P: true})
		el += lat
		toB := bd - el%bd
		c.Ops = append(c.Ops, c09sOp{K: "adv", D: toB, G: "warm-toB"})
		el += toB
	}
	for i := 0; i < n; i++ {
		k := rapid.SampledFrom([]string{"cpu", "cpu", "arr", "arr", "arr", "done", "done", "churn", "churn", "adv", "adv", "adv"}).Draw(rt, "k")
		o := c09sOp{K: k}
		switch k {
		case "cpu":
			o.V = rapid.SampledFrom([]int64{0, c.Thr - 1, c.Thr, c.Thr, c.Thr + 1, 1000}).Draw(rt, "v")
			reading = o.V
		case "arr":
			o.N = rapid.IntRange(1, 10).Draw(rt, "n")
			if reading >= c.Thr {
				lastOver = el
			}
		case "done":
			o.N = rapid.IntRange(1, 4).Draw(rt, "n")
			o.I = rapid.IntRange(0, 15).Draw(rt, "i")
			o.P = rapid.IntRange(0, 3).Draw(rt, "p") > 0
		case "churn":
			o.N = rapid.IntRange(1, 8).Draw(rt, "n")
			o.P = rapid.IntRange(0, 3).Draw(rt, "p") > 0
			if reading >= c.Thr {
				lastOver = el
			}
		case "adv":
			toB := bd - el%bd
			o.G = rapid.SampledFrom([]string{"zero", "ms", "ms", "sub", "toB", "toB-1", "toB+1", "k", "cool-1", "cool", "cool", "cool+1", "win", "multi"}).Draw(rt, "g")
			if o.G[0] == 'c' && (lastOver < 0 || lastOver+c09sCool-1 <= el) {
				o.G = "ms"
			}
			switch o.G {
			case "zero":
				o.D = 0
			case "ms":
				o.D = rapid.Int64Range(1, 20).Draw(rt, "ms") * int64(time.Millisecond)
			case "sub":
				o.D = rapid.Int64Range(1, bd-1).Draw(rt, "d")
			case "toB":
				o.D = toB
			case "toB-1":
				o.D = toB - 1
			case "toB+1":
				o.D = toB + 1
			case "k":
				o.D = rapid.Int64Range(1, bk+1).Draw(rt, "ki") * bd
			case "cool-1":
				o.D = lastOver + c09sCool - 1 - el
			case "cool":
				o.D = lastOver + c09sCool - el
			case "cool+1":
				o.D = lastOver + c09sCool + 1 - el
			case "win":
				o.D = bk*bd + rapid.SampledFrom([]int64{-bd, -1, 0, 1, bd}).Draw(rt, "wd")
				if o.D < 0 {
					o.D = 0
				}
			case "multi":
				o.D = rapid.Int64Range(2, 4).Draw(rt, "mw")*bk*bd + rapid.Int64Range(0, bd-1).Draw(rt, "mr")
			}
			el += o.D
		}
		c.Ops = append(c.Ops, o)
	}
	return c
}

func TestVerif_C09_shedder(t *testing.T) {
	kit.Run(t, "C09", "shedder-rules", kit.Opts{Quick: 20000, Thorough: 480000}, c09sGen,
		func(c c09sCase) kit.Verdict { return c09sInterp(t, c) })
}

// Rule D (and A) under real concurrency: G goroutines loop Allow -> hold for a
// (virtual) latency -> Pass/Fail. At every quiescent instant of the bubble
// (every goroutine asleep) the in-package in-flight counter must equal the
// number of goroutines holding an unreported promise; it is 0 at the end; with
// a CPU reading that never reaches the threshold nothing is rejected.
type c09pCase struct {
	Bk    int     `json:"bk"`
	BdMs  int64   `json:"bd"`
	G     int     `json:"g"`
	R     int     `json:"r"`
	Mode  int     `json:"mode"` // 0 CPU never overloaded, 1 always, 2 toggling every ms
	LatMs []int64 `json:"lat"`  // per goroutine hold time, ms (0 allowed)
	FailK int     `json:"failk"`
}

func c09pInterp(t *testing.T, c c09pCase) (v kit.Verdict) {
	if c.Bk < 1 || c.BdMs < 1 || 1000%c.BdMs != 0 || c.G < 1 || c.G > 64 || c.R < 1 || c.R > 1000 || len(c.LatMs) != c.G || c.FailK < 1 {
		v.Excluded = true
		return v
	}
	for _, l := range c.LatMs {
		if l < 0 || l > 10000 {
			v.Excluded = true
			return v
		}
	}
	var fail string
	var rejected, admitted int64
	saved := systemOverloadChecker
	defer func() { systemOverloadChecker = saved }()
	enabled.Set(true)
	res := kit.Bubble(t, func() {
		var reading int64
		if c.Mode == 1 {
			reading = 1000
		}
		systemOverloadChecker = func(thr int64) bool { return atomic.LoadInt64(&reading) >= thr }
		bd := c.BdMs * int64(time.Millisecond)
		shd := NewAdaptiveShedder(WithWindow(time.Duration(bd*int64(c.Bk))), WithBuckets(c.Bk), WithCpuThreshold(500))
		sh, ok := shd.(*adaptiveShedder)
		if !ok {
			fail = fmt.Sprintf("NewAdaptiveShedder returned %T", shd)
			return
		}
		var holding, running int64
		done := make(chan struct{})
		running = int64(c.G)
		for g := 0; g < c.G; g++ {
			g := g
			go func() {
				defer func() {
					if atomic.AddInt64(&running, -1) == 0 {
						close(done)
					}
				}()
				for r := 0; r < c.R; r++ {
					p, err := shd.Allow()
					if err != nil {
						atomic.AddInt64(&rejected, 1)
						time.Sleep(time.Millisecond)
						continue
					}
					atomic.AddInt64(&admitted, 1)
					atomic.AddInt64(&holding, 1)
					time.Sleep(time.Duration(c.LatMs[g]) * time.Millisecond)
					if (r+g)%c.FailK == 0 {
						p.Fail()
					} else {
						p.Pass()
					}
					atomic.AddInt64(&holding, -1)
					time.Sleep(time.Millisecond)
				}
			}()
		}
		for i := 0; ; i++ {
			kit.Wait() // every worker is asleep (or gone)
			f, h := atomic.LoadInt64(&sh.flying), atomic.LoadInt64(&holding)
			if f != h {
				fail = fmt.Sprintf("rule D: at quiescent instant %d the in-flight counter is %d, goroutines holding an unreported promise %d", i, f, h)
			}
			if f < 0 {
				fail = fmt.Sprintf("rule D: in-flight counter negative: %d", f)
			}
			select {
			case <-done:
				if f := atomic.LoadInt64(&sh.flying); f != 0 {
					fail = fmt.Sprintf("rule D: in-flight counter is %d after every admitted request has reported", f)
				}
				return
			default:
			}
			if fail != "" {
				<-done
				return
			}
			if c.Mode == 2 {
				atomic.StoreInt64(&reading, int64(1000*(i%2)))
			}
			time.Sleep(500 * time.Microsecond)
		}
	})
	if fail == "" && c.Mode == 0 && rejected != 0 {
		fail = fmt.Sprintf("rule A: %d requests rejected although the CPU reading never reached the threshold", rejected)
	}
	v.NonTrivial = rejected > 0 && admitted > 0
	v.Classes = append(v.Classes, fmt.Sprintf("mode-%d", c.Mode))
	if rejected > 0 {
		v.Classes = append(v.Classes, "some-rejected")
	}
	if fail != "" {
		v.Fail = fail
	} else if !res.OK() {
		v.Fail = "bubble: " + res.String()
	}
	return v
}

func TestVerif_C09_shedder_concurrent(t *testing.T) {
	kit.Run(t, "C09", "shedder-concurrent", kit.Opts{Quick: 400, Thorough: 6400},
		func(rt *rapid.T) c09pCase {
			c := c09pCase{
				Bk:    rapid.SampledFrom([]int{1, 5, 10, 50}).Draw(rt, "bk"),
				BdMs:  rapid.SampledFrom([]int64{10, 50, 100}).Draw(rt, "bd"),
				G:     rapid.IntRange(2, 24).Draw(rt, "g"),
				R:     rapid.IntRange(1, 40).Draw(rt, "r"),
				Mode:  rapid.IntRange(0, 2).Draw(rt, "mode"),
				FailK: rapid.IntRange(1, 5).Draw(rt, "failk"),
			}
			for g := 0; g < c.G; g++ {
				c.LatMs = append(c.LatMs, rapid.Int64Range(0, 20).Draw(rt, "lat"))
			}
			return c
		},
		func(c c09pCase) kit.Verdict { return c09pInterp(t, c) })
}

// The no-op shedder (returned after Disable()) is covered by rule A trivially:
// it never rejects, whatever the CPU reading, and its promises accept reports.
type c09nCase struct {
	N    int   `json:"n"`
	Cpu  int64 `json:"cpu"`
	Pass bool  `json:"pass"`
}

func TestVerif_C09_nop_shedder(t *testing.T) {
	kit.Run(t, "C09", "nop-shedder", kit.Opts{Quick: 100, Thorough: 1600},
		func(rt *rapid.T) c09nCase {
			return c09nCase{N: rapid.IntRange(1, 50).Draw(rt, "n"), Cpu: rapid.SampledFrom([]int64{0, 899, 900, 1000}).Draw(rt, "cpu"), Pass: rapid.Bool().Draw(rt, "pass")}
		},
		func(c c09nCase) (v kit.Verdict) {
			saved := systemOverloadChecker
			defer func() { systemOverloadChecker = saved; enabled.Set(true) }()
			systemOverloadChecker = func(thr int64) bool { return c.Cpu >= thr }
			Disable()
			shd := NewAdaptiveShedder()
			if _, isAdaptive := shd.(*adaptiveShedder); isAdaptive {
				return v.Failf("after Disable() NewAdaptiveShedder still returns the adaptive shedder")
			}
			v.NonTrivial = c.Cpu >= 900
			for i := 0; i < c.N; i++ {
				p, err := shd.Allow()
				if err != nil || p == nil {
					return v.Failf("rule A: disabled shedder rejected arrival %d (cpu %d): %v", i, c.Cpu, err)
				}
				if c.Pass {
					p.Pass()
				} else {
					p.Fail()
				}
			}
			return v
		})
}
