package load

// C09 (part 2) — adaptive shedder rules A-D against a reference written from
// the property statement and /verif/DESIGN.md "C09". Harness injected by /verif
// (overlay). The CPU reading is injected through the package variable
// systemOverloadChecker; time is the virtual clock of a synctest bubble.
//
//  A  CPU below the threshold and no overload observed (by an Allow) during the
//     last second  =>  Allow admits.
//  B  Allow rejects  =>  both the in-flight count and the (integer part of the)
//     smoothed in-flight count exceed the capacity estimated from the reference
//     windows: max(1, maxPassesPerBucket x bucketsPerSecond x minAvgLatency).
//  C  CPU at/above the threshold now and both counts above the capacity  =>
//     Allow rejects (agreement rule of DESIGN.md: kills "never shed").
//  D  the in-package in-flight counter equals admitted-minus-reported after
//     every operation (never negative) and is 0 once everything has reported.
//
// Where the statement is silent the reference keeps an interval instead of a
// value: the latency per sample may be taken exact or rounded up to whole ms,
// the bucket average may be rounded or not (capLo..capHi); B is judged against
// capLo, C against capHi. With no completed bucket holding a pass the estimate
// is undefined by the statement: only "capacity >= 1" is used for B, C is not
// judged.
//
// Round 8: three further generated dimensions of a trace, none of which the
// oracle depends on. Front: arrivals and completions reach the shedder directly
// or through the real api/handler.SheddingHandler (c09_httpfront_test.go, an
// external test package, so that it may import api/handler). Cpu: the reading
// is injected by replacing systemOverloadChecker, or the production checker
// stays and the reading is written into lib/stat (c09CpuUsage). NoLog:
// DisableLog() is called first. Plus the UNSPECIFIED rule on SheddingStat at
// the end of the file (panics/hangs only).

import (
	"fmt"
	"math"
	"sort"
	"strings"
	"sync/atomic"
	"testing"
	"time"
	_ "unsafe" // go:linkname (the production CPU reading, see c09CpuUsage)

	"github.com/gotid/god/lib/logx"
	"github.com/gotid/god/lib/stat"
	"pgregory.net/rapid"
	"verif.local/kit"
)

func init() {
	logx.Disable()
	stat.SetReporter(nil)
}

// The production CPU checker (the closure `stat.CpuUsage() >= cpuThreshold`) and the
// variable behind stat.CpuUsage(). In "stat" mode (c09sCase.Cpu) the checker is NOT
// replaced: the reading is written into lib/stat's own variable, so the comparison the
// production code makes is the one that is judged. The variable is also written by
// lib/stat's refresh goroutine (every 250 ms of REAL time, outside any bubble): every
// Allow is therefore bracketed by two stat.CpuUsage() readings, and a case in which the
// bracket does not show the generated reading on both sides is Excluded.
var c09sProdChecker = systemOverloadChecker

//go:linkname c09CpuUsage github.com/gotid/god/lib/stat.cpuUsage
var c09CpuUsage int64

// C09Front is the way arrivals and completions reach a shedder: directly
// (Allow / Promise), or through a real integration (api/handler.SheddingHandler,
// installed by the external test file of this unit, which may import api/handler).
// Complete returns the report the shedder actually received (the statement does not
// say which of Pass/Fail an integration chooses: the reference follows the observed one).
type C09Front interface {
	Arrive() (h any, admitted bool, fail string)
	Complete(h any, pass bool) (reportedPass bool, fail string)
}

// C09NewHTTPFront is set by c09_httpfront_test.go (package load_test).
var C09NewHTTPFront func(shd Shedder) C09Front

type c09sDirect struct{ shd Shedder }

func (d c09sDirect) Arrive() (any, bool, string) {
	p, err := d.shd.Allow()
	if err != nil {
		if err != ErrServiceOverloaded {
			return nil, false, fmt.Sprintf("Allow returned unexpected error %v", err)
		}
		return nil, false, ""
	}
	if p == nil {
		return nil, false, "Allow returned neither a promise nor an error"
	}
	return p, true, ""
}

func (d c09sDirect) Complete(h any, pass bool) (bool, string) {
	if pass {
		h.(Promise).Pass()
	} else {
		h.(Promise).Fail()
	}
	return pass, ""
}

type c09sOp struct {
	K string `json:"k"`           // cpu | arr | done | churn | storm | adv
	T int    `json:"t,omitempty"` // target instance (0, or 1 = the twin)
	V int64  `json:"v,omitempty"` // cpu: reading (same unit as the threshold)
	N int    `json:"n,omitempty"` // arr: burst size; done/churn/storm: how many
	I int    `json:"i,omitempty"` // done: index into the in-flight list (mod len)
	P bool   `json:"p,omitempty"` // done/churn/storm: Pass (true) or Fail
	D int64  `json:"d,omitempty"` // adv: nanoseconds; storm: hold time of every request
	G string `json:"g,omitempty"` // adv: generator label (informational)
}

// c09sTwin: a second shedder alive in the same process with other settings.
// Opt says which options it is constructed with; the others take the package
// defaults (5 s window, 50 buckets, threshold 900).
type c09sTwin struct {
	Bk   int    `json:"bk"`
	BdNs int64  `json:"bdns"`
	Thr  int64  `json:"thr"`
	Opt  string `json:"opt"` // all | thr | win | none
}

type c09sCase struct {
	Bk    int       `json:"bk"`              // buckets
	BdMs  int64     `json:"bd"`              // bucket duration in ms
	BdNs  int64     `json:"bdns,omitempty"`  // bucket duration in ns (overrides BdMs)
	Thr   int64     `json:"thr"`             // CPU threshold
	Opt   string    `json:"opt,omitempty"`   // "" = all three options | rev = reversed order | none = no options (defaults)
	Front string    `json:"front,omitempty"` // "" = Allow/Promise called directly | http = through api/handler.SheddingHandler
	Cpu   string    `json:"cpu,omitempty"`   // "" = reading injected through systemOverloadChecker | stat = production checker, reading written into lib/stat
	NoLog bool      `json:"nolog,omitempty"` // DisableLog() called before the shedders are built
	Twin  *c09sTwin `json:"twin,omitempty"`
	EndP  bool      `json:"endp"`
	Ops   []c09sOp  `json:"ops"`
}

type c09sFlight struct {
	start int64
	h     any // handle of the front (direct: the Promise)
}

type c09sAgg struct {
	n       int64
	exactNs int64
	ceilMs  int64
}

const c09sCool = int64(time.Second)

// c09sModel is the reference of ONE shedder instance.
type c09sModel struct {
	name     string
	bk, bd   int64
	thr      int64
	shd      Shedder
	sh       *adaptiveShedder
	front    C09Front
	lastOver int64
	ewma     float64
	flights  []c09sFlight
	aggs     map[int64]*c09sAgg // passes per bucket index, pruned when older than the window
	anyPass  bool
	rejected bool
}

// capacity interval from the reference buckets. Buckets per second is taken as
// floor(1s/width) for capLo and ceil(1s/width) for capHi (equal when the width
// divides 1 s); see the file comment for the latency readings.
func (m *c09sModel) capacity(cur int64) (capLo, capHi int64, visible bool) {
	var maxPass int64
	rLo, rHi := math.Inf(1), math.Inf(1)
	for b, a := range m.aggs {
		if b <= cur-m.bk {
			delete(m.aggs, b)
			continue
		}
		if b >= cur { // current bucket excluded (IgnoreCurrentBucket)
			continue
		}
		visible = true
		if a.n > maxPass {
			maxPass = a.n
		}
		exact := float64(a.exactNs) / float64(a.n) / 1e6
		ceil := float64(a.ceilMs) / float64(a.n)
		round := math.Round(ceil)
		rLo = math.Min(rLo, math.Min(exact, round))
		rHi = math.Min(rHi, math.Max(ceil, round))
	}
	if !visible {
		return 1, 1, false
	}
	rLo = math.Min(rLo, 1000) // an implementation may cap the latency estimate at 1 s
	wLo := float64(int64(time.Second) / m.bd)
	wHi := wLo
	if int64(time.Second)%m.bd != 0 {
		wHi++
	}
	xLo := float64(maxPass) * wLo * rLo / 1000
	xHi := float64(maxPass) * wHi * rHi / 1000
	capLo, capHi = 1, 1
	if f := math.Floor(xLo*(1-1e-9) - 1e-9); f > 1 {
		capLo = int64(math.Min(f, 1<<62))
	}
	if f := math.Floor(xHi*(1+1e-9) + 1e-9); f > 1 {
		capHi = int64(math.Min(f, 1<<62))
	}
	return capLo, capHi, true
}

func c09sBd(bdMs, bdNs int64) int64 {
	if bdNs > 0 {
		return bdNs
	}
	return bdMs * int64(time.Millisecond)
}

func c09sInterp(t *testing.T, c c09sCase) (v kit.Verdict) {
	if c.Opt == "none" {
		c.Bk, c.BdMs, c.BdNs, c.Thr = defaultBuckets, 0, int64(defaultWindow)/defaultBuckets, defaultCpuThreshold
	}
	bd0 := c09sBd(c.BdMs, c.BdNs)
	if c.Bk < 1 || c.Bk > 1<<16 || bd0 < 1 || bd0 > int64(24*time.Hour) || len(c.Ops) > 4096 {
		v.Excluded = true
		return v
	}
	if tw := c.Twin; tw != nil {
		switch tw.Opt {
		case "all":
		case "thr":
			tw.Bk, tw.BdNs = defaultBuckets, int64(defaultWindow)/defaultBuckets
		case "win":
			tw.Thr = defaultCpuThreshold
		case "none":
			tw.Bk, tw.BdNs, tw.Thr = defaultBuckets, int64(defaultWindow)/defaultBuckets, defaultCpuThreshold
		default:
			v.Excluded = true
			return v
		}
		if tw.Bk < 1 || tw.Bk > 1<<16 || tw.BdNs < 1 || tw.BdNs > int64(24*time.Hour) {
			v.Excluded = true
			return v
		}
	}
	var total, work int64
	for _, o := range c.Ops {
		if o.D < 0 || o.N < 0 || o.I < 0 || o.T < 0 || o.T > 1 || o.T == 1 && c.Twin == nil || o.N > 1<<17 {
			v.Excluded = true
			return v
		}
		d := o.D
		if o.K == "storm" {
			d = c09sSatMul(o.D, int64(o.N))
		}
		if o.K == "storm" || o.K == "adv" {
			if d > c09sMaxEl-total {
				v.Excluded = true
				return v
			}
			total += d
		}
		work += int64(o.N)
	}
	if work > 1<<18 {
		v.Excluded = true
		return v
	}
	switch {
	case c.Front != "" && c.Front != "http", c.Cpu != "" && c.Cpu != "stat":
		v.Excluded = true
		return v
	case c.Front == "http" && C09NewHTTPFront == nil:
		v.Excluded = true // the external test file of this unit is not linked in
		return v
	}
	var fail string
	classes := map[string]bool{}
	rejects, admitsOver := 0, 0
	excluded := false
	saved := systemOverloadChecker
	defer func() { systemOverloadChecker = saved }()
	enabled.Set(true)
	if c.NoLog {
		// a legal call of the embedding service (it silences the per-minute statistics
		// line): no effect on any decision
		DisableLog()
		defer logEnabled.Set(true)
		classes["log-disabled"] = true
	}
	if c.Cpu == "stat" {
		defer atomic.StoreInt64(&c09CpuUsage, 0)
		classes["cpu-production-checker"] = true
	}
	if c.Front == "http" {
		classes["front-http"] = true
	}

	res := kit.Bubble(t, func() {
		var reading int64
		checkerCalls := 0
		systemOverloadChecker = func(thr int64) bool {
			checkerCalls++
			if c.Cpu == "stat" {
				return c09sProdChecker(thr) // the production comparison on lib/stat's own variable
			}
			return reading >= thr
		}
		// pinReading makes lib/stat report the generated reading (stat mode); false when
		// lib/stat's refresh goroutine keeps interfering
		pinReading := func() bool {
			if c.Cpu != "stat" {
				return true
			}
			for i := 0; i < 4; i++ {
				if stat.CpuUsage() == reading {
					return true
				}
				atomic.StoreInt64(&c09CpuUsage, reading)
			}
			return stat.CpuUsage() == reading
		}
		start := time.Now()
		var el int64
		mk := func(name string, bk int, bd, thr int64, opt string) *c09sModel {
			win := WithWindow(time.Duration(bd * int64(bk)))
			var opts []ShedderOption
			switch opt {
			case "", "all":
				opts = []ShedderOption{win, WithBuckets(bk), WithCpuThreshold(thr)}
			case "rev":
				opts = []ShedderOption{WithCpuThreshold(thr), WithBuckets(bk), win}
			case "thr":
				opts = []ShedderOption{WithCpuThreshold(thr)}
			case "win":
				opts = []ShedderOption{WithBuckets(bk), win}
			case "none":
			}
			classes["options-"+name+"-"+opt] = true
			shd := NewAdaptiveShedder(opts...)
			sh, ok := shd.(*adaptiveShedder)
			if !ok {
				fail = fmt.Sprintf("NewAdaptiveShedder returned %T", shd)
				return nil
			}
			var front C09Front = c09sDirect{shd}
			if c.Front == "http" {
				front = C09NewHTTPFront(shd)
			}
			return &c09sModel{name: name, bk: int64(bk), bd: bd, thr: thr, shd: shd, sh: sh, front: front, lastOver: -1, aggs: map[int64]*c09sAgg{}}
		}
		ms := []*c09sModel{mk("main", c.Bk, bd0, c.Thr, c.Opt)}
		if ms[0] == nil {
			return
		}
		if c.Twin != nil {
			tw := mk("twin", c.Twin.Bk, c.Twin.BdNs, c.Twin.Thr, c.Twin.Opt)
			if tw == nil {
				return
			}
			ms = append(ms, tw)
		}
		checkD := func(what string) bool {
			for _, m := range ms { // every instance: an operation on one must not move the other
				if got := atomic.LoadInt64(&m.sh.flying); got != int64(len(m.flights)) {
					fail = fmt.Sprintf("rule D: %s: in-flight counter of the %s shedder is %d, admitted-and-unreported requests %d", what, m.name, got, len(m.flights))
					return false
				}
			}
			return true
		}
		arrive := func(m *c09sModel, what func() string) bool {
			if got := int64(time.Since(start)); got != el {
				fail = fmt.Sprintf("harness: virtual clock at %d, model at %d", got, el)
				return false
			}
			over := reading >= m.thr
			recent := m.lastOver >= 0 && el-m.lastOver < c09sCool
			flying := int64(len(m.flights))
			eps := 1e-9 * (1 + m.ewma)
			fLo, fHi := int64(math.Floor(m.ewma-eps)), int64(math.Floor(m.ewma+eps))
			capLo, capHi, vis := m.capacity(el / m.bd)
			if vis {
				classes["cap-from-data"] = true
				if capLo != capHi {
					classes["cap-ambiguous"] = true
				}
				if capLo > 1 {
					classes["cap>1"] = true
				}
			} else if m.anyPass {
				classes["data-expired-or-current-only"] = true
			}
			before := checkerCalls
			if !pinReading() {
				excluded = true
				return false
			}
			h, admitted, ferr := m.front.Arrive()
			if c.Cpu == "stat" && stat.CpuUsage() != reading {
				excluded = true // the refresh goroutine of lib/stat wrote during the call: the reading the shedder saw is unknown
				return false
			}
			if checkerCalls == before {
				classes["cpu-not-read"] = true
			}
			state := func() string {
				return fmt.Sprintf("%s shedder (%d buckets of %dns, threshold %d) at +%dns cpu=%d lastOverloadSeen=%d in-flight=%d smoothed=%.6f capacity=[%d,%d] data=%v",
					m.name, m.bk, m.bd, m.thr, el, reading, m.lastOver, flying, m.ewma, capLo, capHi, vis)
			}
			if strings.HasPrefix(ferr, "EXCLUDE") {
				excluded = true
				return false
			}
			if ferr != "" {
				fail = fmt.Sprintf("%s: %s; %s", what(), ferr, state())
				return false
			}
			if !admitted {
				rejects++
				classes["reject"] = true
				if m.name == "twin" {
					classes["reject-twin"] = true
				}
				if over {
					classes["reject-overloaded-now"] = true
				} else {
					classes["reject-hot-only"] = true
				}
				if vis {
					classes["reject-cap-from-data"] = true
					if capLo > 1 {
						classes["reject-cap>1"] = true
					}
				} else {
					classes["reject-cap-undefined"] = true
				}
				if !over && !recent {
					fail = fmt.Sprintf("rule A: %s: rejected although CPU is below the threshold and no overload was observed during the last second; %s", what(), state())
					return false
				}
				if !(flying > capLo && fHi > capLo) {
					fail = fmt.Sprintf("rule B: %s: rejected although in-flight and smoothed in-flight do not both exceed the capacity; %s", what(), state())
					return false
				}
				if over {
					m.lastOver = el
				}
				m.rejected = true
				return true
			}
			// admitted
			if !over && !recent {
				classes["A-applies"] = true
				if flying > capHi && fLo > capHi {
					classes["A-applies-high-load"] = true
				}
				if m.rejected && m.lastOver >= 0 && el-m.lastOver >= 1<<31*int64(time.Millisecond) && flying > capHi && fLo > capHi {
					classes["A-long-idle-after-reject-high-load"] = true
				}
				if m.lastOver >= 0 && el-m.lastOver == c09sCool {
					classes["A-exactly-1s"] = true
					if m.rejected && flying > capHi && fLo > capHi {
						classes["A-exactly-1s-after-reject-high-load"] = true
					}
				}
			}
			if over {
				admitsOver++
				classes["admit-overloaded"] = true
				if flying > capHi != (fLo > capHi) {
					classes["admit-overloaded-one-count-high"] = true
				}
				if vis && flying > capHi && fLo > capHi {
					fail = fmt.Sprintf("rule C: %s: admitted although CPU is at/above the threshold and both in-flight counts exceed the capacity; %s", what(), state())
					return false
				}
			} else if recent {
				classes["admit-within-cooloff"] = true
			}
			if over {
				m.lastOver = el
			}
			m.flights = append(m.flights, c09sFlight{start: el, h: h})
			return true
		}
		complete := func(m *c09sModel, i int, pass bool) bool {
			f := m.flights[i]
			m.flights = append(m.flights[:i], m.flights[i+1:]...)
			reported, ferr := m.front.Complete(f.h, pass)
			if ferr != "" {
				fail = fmt.Sprintf("completion of the request admitted at +%dns by the %s shedder: %s", f.start, m.name, ferr)
				return false
			}
			if reported != pass {
				classes["front-reported-other-than-asked"] = true
			}
			if reported {
				lat := el - f.start
				a := m.aggs[el/m.bd]
				if a == nil {
					a = &c09sAgg{}
					m.aggs[el/m.bd] = a
				}
				a.n++
				a.exactNs += lat
				a.ceilMs += lat / int64(time.Millisecond)
				if lat%int64(time.Millisecond) != 0 {
					a.ceilMs++
				}
				m.anyPass = true
				if lat == 0 {
					classes["latency-0"] = true
				} else if lat >= int64(time.Hour) {
					classes["latency>=1h"] = true
				} else if lat > int64(time.Second) {
					classes["latency>1s"] = true
				}
			} else {
				classes["fail-reported"] = true
			}
			m.ewma = m.ewma*0.9 + float64(len(m.flights))*0.1
			return true
		}
		completions := 0
		for i, o := range c.Ops {
			what := fmt.Sprintf("op %d %s", i, o.K)
			m := ms[o.T]
			switch o.K {
			case "cpu":
				reading = o.V
				if o.V >= int64(time.Hour) {
					classes["reading-huge"] = true
				}
			case "arr":
				for j := 0; j < o.N; j++ {
					j := j
					if !arrive(m, func() string { return fmt.Sprintf("%s arrival %d", what, j) }) || !checkD(what) {
						return
					}
				}
			case "done":
				for j := 0; j < o.N; j++ {
					if len(m.flights) == 0 {
						classes["done-noop"] = true
						break
					}
					completions++
					if !complete(m, o.I%len(m.flights), o.P) || !checkD(what) {
						return
					}
				}
			case "churn":
				for j := 0; j < o.N; j++ {
					j := j
					if len(m.flights) > 0 {
						completions++
						if !complete(m, 0, o.P) || !checkD(what) {
							return
						}
					}
					if !arrive(m, func() string { return fmt.Sprintf("%s arrival %d", what, j) }) || !checkD(what) {
						return
					}
				}
			case "storm":
				// long-lived instance: N cycles of arrive / hold D / complete the OLDEST request,
				// whatever else is in flight stays in flight across the churn
				for j := 0; j < o.N; j++ {
					j := j
					if !arrive(m, func() string { return fmt.Sprintf("%s cycle %d", what, j) }) || !checkD(what) {
						return
					}
					if o.D > 0 {
						time.Sleep(time.Duration(o.D))
						el += o.D
					}
					if len(m.flights) > 0 {
						completions++
						if !complete(m, 0, o.P || j%7 != 0) || !checkD(what) {
							return
						}
					}
				}
			case "adv":
				time.Sleep(time.Duration(o.D))
				el += o.D
				if o.D >= int64(30*24*time.Hour) {
					classes["adv>=30d"] = true
				}
			default:
				fail = "harness: unknown op " + o.K
				return
			}
			if !checkD(what) {
				return
			}
		}
		// every admitted request reports: the counter must return to zero
		for _, m := range ms {
			for len(m.flights) > 0 {
				if !complete(m, len(m.flights)-1, c.EndP) || !checkD("final completion") {
					return
				}
			}
			if got := atomic.LoadInt64(&m.sh.flying); got != 0 {
				fail = fmt.Sprintf("rule D: in-flight counter of the %s shedder is %d after every admitted request has reported", m.name, got)
			}
		}
		switch {
		case completions >= 10000:
			classes["completions>=1e4"] = true
		case completions >= 1000:
			classes["completions>=1e3"] = true
		}
	})
	if c.Twin != nil {
		classes["twin"] = true
	}
	switch {
	case int64(time.Second)%bd0 != 0 && bd0 < int64(time.Second):
		classes["bucket-width-not-dividing-1s"] = true
	case bd0 > int64(time.Second):
		classes["bucket-width>1s"] = true
	case bd0 < int64(time.Millisecond):
		classes["bucket-width<1ms"] = true
	}
	if c.Bk >= 100 {
		classes["buckets>=100"] = true
	}
	if c.Thr <= 0 {
		classes["threshold<=0"] = true
	} else if c.Thr > 1000 {
		classes["threshold>1000"] = true
	}
	v.NonTrivial = rejects > 0 && admitsOver > 0
	for k := range classes {
		v.Classes = append(v.Classes, k)
	}
	sort.Strings(v.Classes)
	if fail != "" {
		v.Fail = fail
	} else if excluded {
		v.Excluded = true
		v.NonTrivial = false
		v.Classes = []string{"excluded-cpu-reading-disturbed"}
	} else if !res.OK() {
		v.Fail = "bubble: " + res.String()
	}
	return v
}

const c09sMaxEl = int64(250 * 365 * 24 * time.Hour)

func c09sSatMul(a, b int64) int64 {
	if a > 0 && b > math.MaxInt64/a {
		return math.MaxInt64
	}
	return a * b
}

// bucket widths in ns: divisors of 1 s from 1 us to 1 s, widths that do not divide 1 s, widths above 1 s
var c09sWidths = []int64{
	10e6, 20e6, 50e6, 100e6, 100e6, 100e6, 200e6, 250e6, 500e6, 1e9,
	1e3, 1e5, 1e6, 2e6, 5e6,
	3e6, 7e6, 30e6, 300e6, 333333333, 999999999, 1e9 - 1,
	1e9 + 1, 2e9, 60e9,
}

func c09sGen(rt *rapid.T) c09sCase {
	c := c09sCase{
		Bk:   rapid.SampledFrom([]int{1, 2, 3, 5, 10, 10, 20, 50, 50, 100, 255, 256, 257, 1000}).Draw(rt, "bk"),
		BdNs: rapid.SampledFrom(c09sWidths).Draw(rt, "bd"),
		Thr:  rapid.SampledFrom([]int64{1, 500, 900, 900, 1000, 0, -1, 1 << 31, math.MaxInt64}).Draw(rt, "thr"),
		Opt:  rapid.SampledFrom([]string{"", "", "", "rev", "none"}).Draw(rt, "opt"),
		EndP: rapid.Bool().Draw(rt, "endp"),
	}
	c.Front = rapid.SampledFrom([]string{"", "", "", "http"}).Draw(rt, "front")
	c.Cpu = rapid.SampledFrom([]string{"", "", "", "stat"}).Draw(rt, "cpumode")
	c.NoLog = rapid.IntRange(0, 7).Draw(rt, "nolog") == 0
	if c.Opt == "none" {
		c.Bk, c.BdNs, c.Thr = defaultBuckets, int64(defaultWindow)/defaultBuckets, defaultCpuThreshold
	}
	type inst struct {
		bd, bk, thr, lastOver int64
	}
	insts := []*inst{{bd: c.BdNs, bk: int64(c.Bk), thr: c.Thr, lastOver: -1}}
	if rapid.IntRange(0, 3).Draw(rt, "twin") == 0 {
		tw := &c09sTwin{
			Bk:   rapid.SampledFrom([]int{1, 5, 10, 50}).Draw(rt, "tbk"),
			BdNs: rapid.SampledFrom([]int64{10e6, 50e6, 100e6, 1e9}).Draw(rt, "tbd"),
			Thr:  rapid.SampledFrom([]int64{1, 500, 900, 1000}).Draw(rt, "tthr"),
			Opt:  rapid.SampledFrom([]string{"all", "thr", "thr", "win", "none"}).Draw(rt, "topt"),
		}
		switch tw.Opt {
		case "thr":
			tw.Bk, tw.BdNs = defaultBuckets, int64(defaultWindow)/defaultBuckets
		case "win":
			tw.Thr = defaultCpuThreshold
		case "none":
			tw.Bk, tw.BdNs, tw.Thr = defaultBuckets, int64(defaultWindow)/defaultBuckets, defaultCpuThreshold
		}
		c.Twin = tw
		insts = append(insts, &inst{bd: tw.BdNs, bk: int64(tw.Bk), thr: tw.Thr, lastOver: -1})
	}
	n := rapid.IntRange(1, 60).Draw(rt, "nops")
	var el int64
	var reading int64
	storms := 0
	stormy := rapid.IntRange(0, 39).Draw(rt, "stormy") == 0 // long-lived instance: rare, it costs 10^3..10^4 cycles
	if c.Front == "http" {
		stormy = false // a goroutine and a quiescence wait per request: 10^4 cycles belong to the direct front
	}
	// optional warm-up: some passes in a completed bucket, so that the capacity is estimated from data
	for ti, in := range insts {
		for w := rapid.IntRange(0, 2).Draw(rt, "warm"); w > 0; w-- {
			k := rapid.IntRange(1, 8).Draw(rt, "wn")
			lat := rapid.Int64Range(1, 30).Draw(rt, "wlat") * int64(time.Millisecond)
			c.Ops = append(c.Ops, c09sOp{K: "arr", T: ti, N: k}, c09sOp{K: "adv", D: lat, G: "warm"},
				c09sOp{K: "done", T: ti, N: k, P: true})
			el += lat
			toB := in.bd - el%in.bd
			c.Ops = append(c.Ops, c09sOp{K: "adv", D: toB, G: "warm-toB"})
			el += toB
		}
	}
	for i := 0; i < n; i++ {
		k := rapid.SampledFrom([]string{"cpu", "cpu", "arr", "arr", "arr", "done", "done", "churn", "churn", "adv", "adv", "adv", "storm", "storm"}).Draw(rt, "k")
		ti := 0
		if len(insts) > 1 {
			ti = rapid.IntRange(0, 1).Draw(rt, "t")
		}
		in := insts[ti]
		if k == "storm" && (!stormy || storms >= 1 || in.bk > 50) {
			k = "churn"
		}
		o := c09sOp{K: k, T: ti}
		switch k {
		case "cpu":
			o.T = 0
			o.V = rapid.SampledFrom([]int64{0, in.thr - 1, in.thr, in.thr, in.thr + 1, 1000, math.MaxInt64}).Draw(rt, "v")
			if in.thr == math.MaxInt64 && o.V == in.thr+1 || in.thr == math.MinInt64 {
				o.V = 0
			}
			reading = o.V
		case "arr":
			o.N = rapid.IntRange(1, 10).Draw(rt, "n")
			if reading >= in.thr {
				in.lastOver = el
			}
		case "done":
			o.N = rapid.IntRange(1, 4).Draw(rt, "n")
			o.I = rapid.IntRange(0, 15).Draw(rt, "i")
			o.P = rapid.IntRange(0, 3).Draw(rt, "p") > 0
		case "churn":
			o.N = rapid.IntRange(1, 8).Draw(rt, "n")
			o.P = rapid.IntRange(0, 3).Draw(rt, "p") > 0
			if reading >= in.thr {
				in.lastOver = el
			}
		case "storm":
			storms++
			o.N = rapid.SampledFrom([]int{1000, 4097, 4097, 20000}).Draw(rt, "sn")
			o.D = rapid.SampledFrom([]int64{0, 0, 1000, in.bd / 7, int64(time.Millisecond)}).Draw(rt, "sd")
			o.P = rapid.Bool().Draw(rt, "p")
			if reading >= in.thr {
				in.lastOver = el + o.D*int64(o.N-1)
			}
			el += o.D * int64(o.N)
		case "adv":
			o.T = 0
			bd, bk := in.bd, in.bk
			toB := bd - el%bd
			o.G = rapid.SampledFrom([]string{"zero", "ms", "ms", "sub", "toB", "toB-1", "toB+1", "k", "cool-1", "cool", "cool", "cool+1", "win", "multi", "huge", "idle-wrap", "idle-wrap"}).Draw(rt, "g")
			if o.G[0] == 'c' && (in.lastOver < 0 || in.lastOver+c09sCool-1 <= el) {
				o.G = "ms"
			}
			if o.G == "idle-wrap" && in.lastOver < 0 {
				o.G = "ms"
			}
			if o.G == "sub" && bd < 2 {
				o.G = "ms"
			}
			switch o.G {
			case "zero":
				o.D = 0
			case "ms":
				o.D = rapid.Int64Range(1, 20).Draw(rt, "ms") * int64(time.Millisecond)
			case "sub":
				o.D = rapid.Int64Range(1, bd-1).Draw(rt, "d")
			case "toB":
				o.D = toB
			case "toB-1":
				o.D = toB - 1
			case "toB+1":
				o.D = toB + 1
			case "k":
				o.D = rapid.Int64Range(1, bk+1).Draw(rt, "ki") * bd
			case "cool-1":
				o.D = in.lastOver + c09sCool - 1 - el
			case "cool":
				o.D = in.lastOver + c09sCool - el
			case "cool+1":
				o.D = in.lastOver + c09sCool + 1 - el
			case "win":
				o.D = bk*bd + rapid.SampledFrom([]int64{-bd, -1, 0, 1, bd}).Draw(rt, "wd")
				if o.D < 0 {
					o.D = 0
				}
			case "multi":
				o.D = rapid.Int64Range(2, 4).Draw(rt, "mw")*bk*bd + rapid.Int64Range(0, bd-1).Draw(rt, "mr")
			case "idle-wrap":
				// nothing asks the shedder for a long time after an overload: the next Allow comes
				// k x 2^32 ms (or us, or 2^31 ms) later plus a bit less than / exactly / a bit more than
				// the cool-off second (scale-free: where a narrowed "time since the overload" wraps)
				unit := rapid.SampledFrom([]int64{1 << 32 * int64(time.Millisecond), 1 << 32 * int64(time.Millisecond), 1 << 31 * int64(time.Millisecond),
					1 << 32 * int64(time.Microsecond), 1 << 32, 1 << 31}).Draw(rt, "wu")
				k := rapid.SampledFrom([]int64{1, 1, 2, 3, 7, 100}).Draw(rt, "wk")
				r := rapid.SampledFrom([]int64{-1, 0, 1, int64(time.Millisecond), 500 * int64(time.Millisecond), c09sCool - 1, c09sCool, c09sCool + 1}).Draw(rt, "wr")
				o.D = in.lastOver + c09sSatMul(k, unit) + r - el
				if o.D < 0 || c09sSatMul(k, unit) > c09sMaxEl {
					o.D = 0
				}
				if rapid.Bool().Draw(rt, "wcpu") && in.thr > math.MinInt64 {
					// the CPU has calmed down meanwhile
					c.Ops = append(c.Ops, c09sOp{K: "cpu", V: in.thr - 1})
					reading = in.thr - 1
				}
			case "huge":
				o.D = rapid.SampledFrom([]int64{int64(time.Minute), int64(time.Hour), int64(30 * 24 * time.Hour), int64(100 * 365 * 24 * time.Hour), 1 << 31, 1<<32 + 1, 1 << 53}).Draw(rt, "hg")
			}
			if o.D > c09sMaxEl-el {
				o.D, o.G = 0, "zero"
			}
			el += o.D
		}
		c.Ops = append(c.Ops, o)
	}
	return c
}

func TestVerif_C09_shedder(t *testing.T) {
	kit.Run(t, "C09", "shedder-rules", kit.Opts{Quick: 12000, Thorough: 320000}, c09sGen,
		func(c c09sCase) kit.Verdict { return c09sInterp(t, c) })
}

// Rule D (and A) under real concurrency: G goroutines loop Allow -> hold for a
// (virtual) latency -> Pass/Fail. At every quiescent instant of the bubble
// (every goroutine asleep) the in-package in-flight counter must equal the
// number of goroutines holding an unreported promise; it is 0 at the end; with
// a CPU reading that never reaches the threshold nothing is rejected.
type c09pCase struct {
	Bk    int     `json:"bk"`
	BdMs  int64   `json:"bd"`
	G     int     `json:"g"`
	R     int     `json:"r"`
	Mode  int     `json:"mode"` // 0 CPU never overloaded, 1 always, 2 toggling every ms
	LatMs []int64 `json:"lat"`  // per goroutine hold time, ms (0 allowed)
	FailK int     `json:"failk"`
}

func c09pInterp(t *testing.T, c c09pCase) (v kit.Verdict) {
	if c.Bk < 1 || c.BdMs < 1 || 1000%c.BdMs != 0 || c.G < 1 || c.G > 64 || c.R < 1 || c.R > 1000 || len(c.LatMs) != c.G || c.FailK < 1 {
		v.Excluded = true
		return v
	}
	for _, l := range c.LatMs {
		if l < 0 || l > 10000 {
			v.Excluded = true
			return v
		}
	}
	var fail string
	var rejected, admitted int64
	saved := systemOverloadChecker
	defer func() { systemOverloadChecker = saved }()
	enabled.Set(true)
	res := kit.Bubble(t, func() {
		var reading int64
		if c.Mode == 1 {
			reading = 1000
		}
		systemOverloadChecker = func(thr int64) bool { return atomic.LoadInt64(&reading) >= thr }
		bd := c.BdMs * int64(time.Millisecond)
		shd := NewAdaptiveShedder(WithWindow(time.Duration(bd*int64(c.Bk))), WithBuckets(c.Bk), WithCpuThreshold(500))
		sh, ok := shd.(*adaptiveShedder)
		if !ok {
			fail = fmt.Sprintf("NewAdaptiveShedder returned %T", shd)
			return
		}
		var holding, running int64
		done := make(chan struct{})
		running = int64(c.G)
		for g := 0; g < c.G; g++ {
			g := g
			go func() {
				defer func() {
					if atomic.AddInt64(&running, -1) == 0 {
						close(done)
					}
				}()
				for r := 0; r < c.R; r++ {
					p, err := shd.Allow()
					if err != nil {
						atomic.AddInt64(&rejected, 1)
						time.Sleep(time.Millisecond)
						continue
					}
					atomic.AddInt64(&admitted, 1)
					atomic.AddInt64(&holding, 1)
					time.Sleep(time.Duration(c.LatMs[g]) * time.Millisecond)
					if (r+g)%c.FailK == 0 {
						p.Fail()
					} else {
						p.Pass()
					}
					atomic.AddInt64(&holding, -1)
					time.Sleep(time.Millisecond)
				}
			}()
		}
		for i := 0; ; i++ {
			kit.Wait() // every worker is asleep (or gone)
			f, h := atomic.LoadInt64(&sh.flying), atomic.LoadInt64(&holding)
			if f != h {
				fail = fmt.Sprintf("rule D: at quiescent instant %d the in-flight counter is %d, goroutines holding an unreported promise %d", i, f, h)
			}
			if f < 0 {
				fail = fmt.Sprintf("rule D: in-flight counter negative: %d", f)
			}
			select {
			case <-done:
				if f := atomic.LoadInt64(&sh.flying); f != 0 {
					fail = fmt.Sprintf("rule D: in-flight counter is %d after every admitted request has reported", f)
				}
				return
			default:
			}
			if fail != "" {
				<-done
				return
			}
			if c.Mode == 2 {
				atomic.StoreInt64(&reading, int64(1000*(i%2)))
			}
			time.Sleep(500 * time.Microsecond)
		}
	})
	if fail == "" && c.Mode == 0 && rejected != 0 {
		fail = fmt.Sprintf("rule A: %d requests rejected although the CPU reading never reached the threshold", rejected)
	}
	v.NonTrivial = rejected > 0 && admitted > 0
	v.Classes = append(v.Classes, fmt.Sprintf("mode-%d", c.Mode))
	if rejected > 0 {
		v.Classes = append(v.Classes, "some-rejected")
	}
	if fail != "" {
		v.Fail = fail
	} else if !res.OK() {
		v.Fail = "bubble: " + res.String()
	}
	return v
}

func TestVerif_C09_shedder_concurrent(t *testing.T) {
	kit.Run(t, "C09", "shedder-concurrent", kit.Opts{Quick: 400, Thorough: 6400},
		func(rt *rapid.T) c09pCase {
			c := c09pCase{
				Bk:    rapid.SampledFrom([]int{1, 5, 10, 50}).Draw(rt, "bk"),
				BdMs:  rapid.SampledFrom([]int64{10, 50, 100}).Draw(rt, "bd"),
				G:     rapid.IntRange(2, 24).Draw(rt, "g"),
				R:     rapid.IntRange(1, 40).Draw(rt, "r"),
				Mode:  rapid.IntRange(0, 2).Draw(rt, "mode"),
				FailK: rapid.IntRange(1, 5).Draw(rt, "failk"),
			}
			for g := 0; g < c.G; g++ {
				c.LatMs = append(c.LatMs, rapid.Int64Range(0, 20).Draw(rt, "lat"))
			}
			return c
		},
		func(c c09pCase) kit.Verdict { return c09pInterp(t, c) })
}

// The no-op shedder (returned after Disable()) is covered by rule A trivially:
// it never rejects, whatever the CPU reading, and its promises accept reports.
type c09nCase struct {
	N    int   `json:"n"`
	Cpu  int64 `json:"cpu"`
	Pass bool  `json:"pass"`
}

func TestVerif_C09_nop_shedder(t *testing.T) {
	kit.Run(t, "C09", "nop-shedder", kit.Opts{Quick: 100, Thorough: 1600},
		func(rt *rapid.T) c09nCase {
			return c09nCase{N: rapid.IntRange(1, 50).Draw(rt, "n"), Cpu: rapid.SampledFrom([]int64{0, 899, 900, 1000}).Draw(rt, "cpu"), Pass: rapid.Bool().Draw(rt, "pass")}
		},
		func(c c09nCase) (v kit.Verdict) {
			saved := systemOverloadChecker
			defer func() { systemOverloadChecker = saved; enabled.Set(true) }()
			systemOverloadChecker = func(thr int64) bool { return c.Cpu >= thr }
			Disable()
			shd := NewAdaptiveShedder()
			if _, isAdaptive := shd.(*adaptiveShedder); isAdaptive {
				return v.Failf("after Disable() NewAdaptiveShedder still returns the adaptive shedder")
			}
			v.NonTrivial = c.Cpu >= 900
			for i := 0; i < c.N; i++ {
				p, err := shd.Allow()
				if err != nil || p == nil {
					return v.Failf("rule A: disabled shedder rejected arrival %d (cpu %d): %v", i, c.Cpu, err)
				}
				if c.Pass {
					p.Pass()
				} else {
					p.Fail()
				}
			}
			return v
		})
}

// SheddingStat (the per-minute statistics line of the REST/RPC integrations). The
// statement does not talk about these counters or the log line: UNSPECIFIED. The rule
// only runs what a server that lives longer than a minute runs - counters bumped by
// requests, then the minute tick, with the statistics log enabled or disabled
// (DisableLog), busy and idle minutes, with and without drops - and judges panics and
// hangs, nothing else. Mode "loop" calls the loop body synchronously with a closed
// one-tick channel (a panic is caught as a verdict); mode "run" builds the object with
// NewSheddingStat inside a bubble and lets virtual minutes pass (its goroutine is
// immortal: the leak at bubble exit is expected and ignored).
type c09tCase struct {
	Mode   string   `json:"mode"` // loop | run
	NoLog  bool     `json:"nolog,omitempty"`
	Rounds [][3]int `json:"rounds"` // per minute: requests, passes, drops counted before the tick
}

func c09tInterp(t *testing.T, c c09tCase) (v kit.Verdict) {
	if len(c.Rounds) > 16 || c.Mode != "loop" && c.Mode != "run" {
		v.Excluded = true
		return v
	}
	for _, r := range c.Rounds {
		for _, n := range r {
			if n < 0 || n > 1000 {
				v.Excluded = true
				return v
			}
		}
	}
	if c.NoLog {
		DisableLog()
		v.Classes = append(v.Classes, "log-disabled")
	}
	defer logEnabled.Set(true)
	bump := func(st *SheddingStat, r [3]int) {
		for i := 0; i < r[0]; i++ {
			st.IncrTotal()
		}
		for i := 0; i < r[1]; i++ {
			st.IncrPass()
		}
		for i := 0; i < r[2]; i++ {
			st.IncrDrop()
		}
		switch {
		case r[0] == 0 && r[1] == 0 && r[2] == 0:
			v.Classes = append(v.Classes, "idle-minute")
		case r[2] > 0:
			v.Classes = append(v.Classes, "minute-with-drops")
		}
	}
	v.Classes = append(v.Classes, "mode-"+c.Mode)
	v.NonTrivial = len(c.Rounds) > 1
	// (the synchronous pass also precedes mode "run": a panic there would be raised in the
	// object's own goroutine and take the whole test process down)
	{
		st := &SheddingStat{name: "c09"}
		for i, r := range c.Rounds {
			bump(st, r)
			var pv any
			func() {
				defer func() { pv = recover() }()
				ch := make(chan time.Time, 1)
				ch <- time.Time{}
				close(ch)
				st.loop(ch)
			}()
			if pv != nil {
				return v.Failf("SheddingStat: the per-minute statistics loop panicked at minute %d (requests %d, passes %d, drops %d, log disabled %v): %v", i, r[0], r[1], r[2], c.NoLog, pv)
			}
		}
		if c.Mode == "loop" {
			return v
		}
	}
	res := kit.Bubble(t, func() {
		st := NewSheddingStat("c09")
		for _, r := range c.Rounds {
			bump(st, r)
			time.Sleep(time.Minute + time.Second)
		}
	})
	if res.Hang || res.Panic != "" {
		v.Fail = "SheddingStat run: bubble: " + res.String()
	}
	return v
}

func TestVerif_C09_shedding_stat(t *testing.T) {
	kit.Run(t, "C09", "shedding-stat-unspecified", kit.Opts{Quick: 300, Thorough: 4800},
		func(rt *rapid.T) c09tCase {
			c := c09tCase{
				Mode:  rapid.SampledFrom([]string{"loop", "loop", "loop", "run"}).Draw(rt, "mode"),
				NoLog: rapid.IntRange(0, 2).Draw(rt, "nolog") == 0,
			}
			for n := rapid.IntRange(1, 5).Draw(rt, "n"); n > 0; n-- {
				var r [3]int
				switch rapid.SampledFrom([]string{"idle", "busy", "busy", "drops", "only-drops"}).Draw(rt, "kind") {
				case "busy":
					r[0] = rapid.IntRange(1, 200).Draw(rt, "total")
					r[1] = r[0]
				case "drops":
					r[0] = rapid.IntRange(2, 200).Draw(rt, "total")
					r[2] = rapid.IntRange(1, r[0]-1).Draw(rt, "drop")
					r[1] = r[0] - r[2]
				case "only-drops":
					r[0] = rapid.IntRange(1, 200).Draw(rt, "total")
					r[2] = r[0]
				}
				c.Rounds = append(c.Rounds, r)
			}
			return c
		},
		func(c c09tCase) kit.Verdict { return c09tInterp(t, c) })
}
