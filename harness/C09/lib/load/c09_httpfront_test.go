package load_test

// C09 (integration, end to end) — the front of the shedder-rules cases that drives a
// REAL adaptive shedder through the REAL api/handler.SheddingHandler, with the CPU
// reading under the control of the case (this is the only test binary in which the
// reading is injectable AND api/handler is importable: an external test package of
// lib/load). Requests run concurrently: each admitted request parks inside the wrapped
// handler until the case completes it with a status, so several requests are in flight
// through one middleware instance at a time.
//
// A counting wrapper between the middleware and the shedder observes what the shedder
// is told: every admitted request must report exactly once, on its OWN promise, by the
// time ServeHTTP has returned; the reference of the shedder rules follows the observed
// report (the statement does not say which of Pass/Fail the middleware picks). Rules
// A-D themselves are judged by c09sInterp exactly as for the direct front; a rejection
// is "503 without the wrapped handler having run".

import (
	"context"
	"fmt"
	"net/http"
	"net/http/httptest"

	"github.com/gotid/god/api/handler"
	"github.com/gotid/god/lib/load"
	"github.com/gotid/god/lib/logx"
	"github.com/gotid/god/lib/stat"
	"verif.local/kit"
)

var c09fMetrics = stat.NewMetrics("c09-verif-e2e")

func init() {
	logx.Disable()
	// process-wide singletons with goroutines/channels must exist before the first
	// bubble: the middleware's SheddingStat and the flusher of the metrics executor
	_ = handler.SheddingHandler(load.NewAdaptiveShedder(), c09fMetrics)
	c09fMetrics.AddDrop()
	load.C09NewHTTPFront = func(shd load.Shedder) load.C09Front { return c09fNew(shd) }
}

type c09fPromise struct {
	real       load.Promise
	pass, fail int
}

func (p *c09fPromise) Pass() { p.pass++; p.real.Pass() }
func (p *c09fPromise) Fail() { p.fail++; p.real.Fail() }

type c09fShedder struct {
	real  load.Shedder
	calls int
	last  *c09fPromise
}

func (s *c09fShedder) Allow() (load.Promise, error) {
	s.calls++
	p, err := s.real.Allow()
	if err != nil {
		return nil, err
	}
	s.last = &c09fPromise{real: p}
	return s.last, nil
}

type c09fFlight struct {
	n       int
	status  chan int
	done    chan struct{}
	rec     *httptest.ResponseRecorder
	started bool
	prom    *c09fPromise
}

type c09fKey struct{}

type c09fFront struct {
	w *c09fShedder
	h http.Handler
	n int
}

func c09fNew(shd load.Shedder) *c09fFront {
	f := &c09fFront{w: &c09fShedder{real: shd}}
	next := http.HandlerFunc(func(w http.ResponseWriter, r *http.Request) {
		fl := r.Context().Value(c09fKey{}).(*c09fFlight)
		fl.started = true
		switch code := <-fl.status; code {
		case 0: // implicit 200
		case -1:
			_, _ = w.Write([]byte("x"))
		default:
			w.WriteHeader(code)
		}
	})
	f.h = handler.SheddingHandler(f.w, c09fMetrics)(next)
	return f
}

// statuses a passing completion ends with (anything but 503), by request number
var c09fPassStatus = []int{200, 0, -1, 204, 301, 404, 429, 500, 502, 504}

func (f *c09fFront) Arrive() (any, bool, string) {
	f.n++
	fl := &c09fFlight{n: f.n, status: make(chan int), done: make(chan struct{}), rec: httptest.NewRecorder()}
	req := httptest.NewRequest(http.MethodGet, "http://localhost/c09", nil)
	req = req.WithContext(context.WithValue(req.Context(), c09fKey{}, fl))
	f.w.calls, f.w.last = 0, nil
	go func() {
		defer close(fl.done)
		f.h.ServeHTTP(fl.rec, req)
	}()
	kit.Wait() // the request either returned (rejected) or is parked inside the wrapped handler
	if f.w.calls != 1 {
		return nil, false, fmt.Sprintf("http request %d: the middleware called Allow %d times", fl.n, f.w.calls)
	}
	select {
	case <-fl.done:
		if fl.started {
			return nil, false, fmt.Sprintf("http request %d: the wrapped handler returned without being completed", fl.n)
		}
		if f.w.last != nil {
			return nil, false, fmt.Sprintf("http request %d: admitted by the shedder but the wrapped handler never ran (status %d); reports: pass %d fail %d",
				fl.n, fl.rec.Code, f.w.last.pass, f.w.last.fail)
		}
		if fl.rec.Code != http.StatusServiceUnavailable {
			return nil, false, fmt.Sprintf("http request %d: rejected by the shedder but answered %d", fl.n, fl.rec.Code)
		}
		return nil, false, ""
	default:
	}
	if !fl.started || f.w.last == nil {
		return nil, false, fmt.Sprintf("http request %d: neither returned nor inside the wrapped handler (started %v, admitted %v)", fl.n, fl.started, f.w.last != nil)
	}
	fl.prom = f.w.last
	if n := fl.prom.pass + fl.prom.fail; n != 0 {
		// the statement does not say WHEN an integration reports: no verdict, but the reference cannot follow
		return nil, false, fmt.Sprintf("EXCLUDE http request %d: reported %d times while its handler is still running", fl.n, n)
	}
	return fl, true, ""
}

func (f *c09fFront) Complete(h any, pass bool) (bool, string) {
	fl := h.(*c09fFlight)
	code := http.StatusServiceUnavailable
	if pass {
		code = c09fPassStatus[fl.n%len(c09fPassStatus)]
	}
	fl.status <- code
	<-fl.done
	if n := fl.prom.pass + fl.prom.fail; n != 1 {
		return false, fmt.Sprintf("http request %d (ended with status %d while other requests were in flight through the same middleware) reported %d times on its own promise (pass %d, fail %d): the shedder's in-flight count cannot return to zero",
			fl.n, code, n, fl.prom.pass, fl.prom.fail)
	}
	// a request that was answered 2xx (explicitly or by default) is a pass outcome under every
	// reading of the statement; what 3xx..5xx other than the asked 503 count as is not judged
	if pass && (code <= 0 || code >= 200 && code <= 299) && fl.prom.pass != 1 {
		return false, fmt.Sprintf("http request %d: the wrapped handler returned normally and the client was answered %d, but the request was reported to the shedder as Fail: a pass is missing from the capacity window (earlier requests through this middleware ended with other statuses)",
			fl.n, fl.rec.Code)
	}
	return fl.prom.pass == 1, ""
}
