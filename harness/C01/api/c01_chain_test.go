package api

// C01 — HTTP integration through the REAL default chain: a server from
// api.NewServer, routes added with AddRoutes, bound by the engine on the server's
// own router exactly as Start does (tracing, log, prometheus, MaxConns(off),
// per-route breaker, shedding(off: CpuThreshold 0), timeout (off or 3 s, virtual),
// recover, metric, MaxBytes, gunzip). Every (method, path) is its own breaker
// name. 1..4 routes per case, each with its own outcome script, interleaved:
//   benign   the handler answers a final status below 500 (or writes a body
//            without WriteHeader), optionally after 1..2 interim 1xx responses
//            (with and without the buffering timeout guard), plus at most five
//            failures: never answered 503 by the breaker;
//   failing  >= 200 requests that each end in a final status >= 500 and/or in a
//            handler panic before anything was written: cut off at least once;
//   mixed    anything, incl. "writes a status, then panics" (background load).

import (
	"fmt"
	"net/http"
	"net/http/httptest"
	"sort"
	"testing"
	"time"

	"github.com/gotid/god/lib/logx"
	"github.com/gotid/god/lib/stat"
	"pgregory.net/rapid"
	"verif.local/kit"
)

// c01Writer models what net/http does with WriteHeader: 1xx codes (except 101)
// are interim responses, the first other code is final, later calls are ignored;
// the first Write implies 200.
type c01Writer struct {
	h       http.Header
	interim []int
	code    int
	body    []byte
}

func (w *c01Writer) Header() http.Header { return w.h }
func (w *c01Writer) WriteHeader(code int) {
	if w.code != 0 {
		return
	}
	if code >= 100 && code <= 199 && code != http.StatusSwitchingProtocols {
		w.interim = append(w.interim, code)
		return
	}
	w.code = code
}
func (w *c01Writer) Write(b []byte) (int, error) {
	if w.code == 0 {
		w.code = http.StatusOK
	}
	w.body = append(w.body, b...)
	return len(b), nil
}

type c01CStep struct {
	N int   `json:"n"`           // route index; -1: no request, the whole case sleeps 11 s (longer than the 10 s window)
	K int   `json:"k,omitempty"` // 0 answer status C; 1 panic before writing anything; 2 answer status C, then panic
	C int   `json:"c,omitempty"` // final status; 0 = body without WriteHeader
	I []int `json:"i,omitempty"` // interim 1xx responses sent first
}

type c01CCase struct {
	K     int        `json:"k"`            // routes: index i has method M[i] and path /c01/r<i>
	M     []string   `json:"m"`            // per route: HTTP method
	WS    []bool     `json:"ws,omitempty"` // per route: requests carry "Upgrade: websocket" (the timeout guard steps aside)
	T     int        `json:"t"`            // Config.Timeout in ms (0: no timeout guard, no buffering)
	Kind  []int      `json:"kind"`         // per route: 0 benign, 1 failing, 2 mixed, 3 outage - recovery - second outage (phases separated by the 11 s sleeps)
	Steps []c01CStep `json:"steps"`
	Skew  int64      `json:"skew,omitempty"`
}

func (s c01CStep) failing() bool { return s.K == 1 || (s.K == 0 && s.C >= 500) }
func (s c01CStep) benign() bool  { return s.K == 0 && s.C < 500 }

func c01GenChain(rt *rapid.T) c01CCase {
	c := c01CCase{K: rapid.IntRange(1, 4).Draw(rt, "k"), T: rapid.SampledFrom([]int{0, 3000}).Draw(rt, "t")}
	c.Skew = rapid.Int64Range(0, 1_000_000_000).Draw(rt, "skew")
	benignCode := rapid.OneOf(rapid.SampledFrom([]int{0, 200, 204, 301, 400, 401, 404, 429, 499, 499}), rapid.IntRange(200, 499))
	failingCode := rapid.OneOf(rapid.SampledFrom([]int{500, 500, 502, 503, 504, 599}), rapid.IntRange(500, 599))
	interim := func() []int {
		// with and without the buffering timeout guard: since f1e5d0a the guard passes over
		// informational statuses, the first other status is the response status in both set-ups
		n := rapid.SampledFrom([]int{0, 0, 1, 1, 2}).Draw(rt, "ni")
		var out []int
		for i := 0; i < n; i++ {
			out = append(out, rapid.SampledFrom([]int{100, 102, 103}).Draw(rt, "interim"))
		}
		return out
	}
	scripts := make([][]c01CStep, c.K)
	recovery := rapid.IntRange(0, 3).Draw(rt, "recovery") == 0 // a case with two 11 s sleeps: no plain failing route in it
	phases := make([][2]int, c.K)                              // per route: script positions at which phase 1 and phase 2 start
	for n := 0; n < c.K; n++ {
		kind := rapid.SampledFrom([]int{0, 0, 1, 1, 2}).Draw(rt, "kind")
		if recovery {
			kind = rapid.SampledFrom([]int{3, 3, 0, 2}).Draw(rt, "rkind")
		}
		c.Kind = append(c.Kind, kind)
		c.M = append(c.M, rapid.SampledFrom([]string{http.MethodGet, http.MethodPost, http.MethodPut, http.MethodDelete, http.MethodPatch, http.MethodHead, http.MethodOptions}).Draw(rt, "method"))
		c.WS = append(c.WS, rapid.IntRange(0, 5).Draw(rt, "ws") == 0)
		switch kind {
		case 3:
			failStep := func() c01CStep {
				if rapid.Bool().Draw(rt, "p") {
					return c01CStep{N: n, K: 1}
				}
				return c01CStep{N: n, C: failingCode.Draw(rt, "code")}
			}
			for ph := 0; ph < 3; ph++ {
				ln := rapid.IntRange(200, 240).Draw(rt, "n")
				for i := 0; i < ln; i++ {
					if ph == 1 {
						scripts[n] = append(scripts[n], c01CStep{N: n, C: benignCode.Draw(rt, "code")})
					} else {
						scripts[n] = append(scripts[n], failStep())
					}
				}
				if ph < 2 {
					phases[n][ph] = len(scripts[n])
				}
			}
		case 0:
			ln := rapid.IntRange(200, 280).Draw(rt, "n")
			single := rapid.Bool().Draw(rt, "single")
			the := c01CStep{N: n, C: benignCode.Draw(rt, "the"), I: interim()}
			for i := 0; i < ln; i++ {
				if single {
					scripts[n] = append(scripts[n], the)
				} else {
					scripts[n] = append(scripts[n], c01CStep{N: n, C: benignCode.Draw(rt, "code"), I: interim()})
				}
			}
			nf := rapid.IntRange(0, 5).Draw(rt, "nfail")
			for i := 0; i < nf; i++ {
				f := c01CStep{N: n, C: failingCode.Draw(rt, "f"), I: interim()}
				if rapid.Bool().Draw(rt, "fpanic") {
					f = c01CStep{N: n, K: 1}
				}
				scripts[n][rapid.IntRange(0, ln-1).Draw(rt, "pos")] = f
			}
		case 1:
			ln := rapid.IntRange(200, 280).Draw(rt, "n")
			mode := rapid.SampledFrom([]string{"status", "status", "panic", "panic", "both"}).Draw(rt, "fmode")
			the := c01CStep{N: n, C: failingCode.Draw(rt, "the"), I: interim()}
			for i := 0; i < ln; i++ {
				switch {
				case mode == "panic", mode == "both" && rapid.Bool().Draw(rt, "p"):
					scripts[n] = append(scripts[n], c01CStep{N: n, K: 1})
				default:
					scripts[n] = append(scripts[n], the)
				}
			}
		default:
			ln := rapid.IntRange(20, 200).Draw(rt, "n")
			for i := 0; i < ln; i++ {
				st := c01CStep{N: n, K: rapid.SampledFrom([]int{0, 0, 1, 2, 2}).Draw(rt, "mk")}
				if st.K != 1 {
					if rapid.Bool().Draw(rt, "bad") {
						st.C = failingCode.Draw(rt, "code")
					} else {
						st.C = benignCode.Draw(rt, "code")
					}
					st.I = interim()
				}
				scripts[n] = append(scripts[n], st)
			}
		}
	}
	pos := make([]int, c.K)
	nph := 1
	if recovery {
		nph = 3
	}
	for ph := 0; ph < nph; ph++ {
		// end of this phase per route
		end := make([]int, c.K)
		for n := range scripts {
			switch {
			case !recovery || ph == 2:
				end[n] = len(scripts[n])
			case c.Kind[n] == 3:
				end[n] = phases[n][ph]
			default:
				end[n] = len(scripts[n]) * (ph + 1) / 3
			}
		}
		for {
			var active []int
			for n := range scripts {
				if pos[n] < end[n] {
					active = append(active, n)
				}
			}
			if len(active) == 0 {
				break
			}
			n := rapid.SampledFrom(active).Draw(rt, "route")
			chunk := rapid.SampledFrom([]int{1, 1, 2, 5, 20, 100, 400}).Draw(rt, "chunk")
			for ; chunk > 0 && pos[n] < end[n]; chunk-- {
				c.Steps = append(c.Steps, scripts[n][pos[n]])
				pos[n]++
			}
		}
		if ph < nph-1 {
			c.Steps = append(c.Steps, c01CStep{N: -1})
		}
	}
	return c
}

func c01Methods(k int, ms []string) (methods, paths []string) {
	for n := 0; n < k; n++ {
		m := http.MethodGet
		if n < len(ms) && ms[n] != "" {
			m = ms[n]
		}
		methods = append(methods, m)
		paths = append(paths, fmt.Sprintf("/c01/r%d", n))
	}
	return
}

// c01BuildServer: public API + the engine's own binding, as Server.Start does before it listens.
func c01BuildServer(k int, ms []string, timeoutMS int, h func(n int) http.HandlerFunc) (*Server, error) {
	cfg := Config{Timeout: int64(timeoutMS)}
	cfg.Name = "c01" // CpuThreshold 0: no shedder; MaxConns 0: no latch
	srv, err := NewServer(cfg)
	if err != nil {
		return nil, err
	}
	methods, paths := c01Methods(k, ms)
	for n := 0; n < k; n++ {
		srv.AddRoutes([]Route{{Method: methods[n], Path: paths[n], Handler: h(n)}})
	}
	if err := srv.ng.bindRoutes(srv.router); err != nil {
		return nil, err
	}
	return srv, nil
}

func init() {
	logx.Disable()
	stat.DisableLog()
	// warm up process-wide singletons (prometheus vectors, otel globals) outside any bubble
	for _, t := range []int{0, 1000} {
		srv, err := c01BuildServer(1, nil, t, func(int) http.HandlerFunc {
			return func(w http.ResponseWriter, r *http.Request) { _, _ = w.Write([]byte("warm")) }
		})
		if err != nil {
			panic(err)
		}
		srv.router.ServeHTTP(httptest.NewRecorder(), httptest.NewRequest(http.MethodGet, "/c01/r0", nil))
	}
}

func c01InterpChain(t *testing.T, c c01CCase) (v kit.Verdict) {
	var fail string
	rejected := make([]int, c.K)
	rejPhase := make([][3]int, c.K)
	nfail := make([]int, c.K)
	calls := make([]int, c.K)
	classes := map[string]bool{}
	res := kit.Bubble(t, func() {
		if c.Skew > 0 {
			time.Sleep(time.Duration(c.Skew))
		}
		ran := make([]int, c.K)
		var cur c01CStep
		srv, err := c01BuildServer(c.K, c.M, c.T, func(n int) http.HandlerFunc {
			return func(w http.ResponseWriter, r *http.Request) {
				ran[n]++
				if cur.K == 1 {
					panic("c01: handler panics before writing")
				}
				for _, ic := range cur.I {
					w.WriteHeader(ic)
				}
				if cur.C != 0 {
					w.WriteHeader(cur.C)
				}
				_, _ = w.Write([]byte("c01"))
				if cur.K == 2 {
					panic("c01: handler panics after writing")
				}
			}
		})
		if err != nil {
			fail = "harness: server construction: " + err.Error()
			return
		}
		methods, paths := c01Methods(c.K, c.M)
		phase := 0
		for i, st := range c.Steps {
			if st.N < 0 {
				time.Sleep(11 * time.Second)
				phase++
				continue
			}
			n := st.N % c.K
			cur = st
			if st.failing() {
				nfail[n]++
			}
			calls[n]++
			before := ran[n]
			w := &c01Writer{h: http.Header{}}
			var escaped any
			req := httptest.NewRequest(methods[n], "http://localhost"+paths[n], http.NoBody)
			if n < len(c.WS) && c.WS[n] {
				req.Header.Set("Upgrade", "websocket")
			}
			func() {
				defer func() { escaped = recover() }()
				srv.router.ServeHTTP(w, req)
			}()
			what := fmt.Sprintf("step %d %+v (%s %s, request %d of that route)", i, st, methods[n], paths[n], calls[n])
			if escaped != nil {
				fail = fmt.Sprintf("%s: panic escaped the chain: %v", what, escaped)
				return
			}
			if ran[n] == before {
				rejected[n]++
				if phase < 3 {
					rejPhase[n][phase]++
				}
				if w.code != http.StatusServiceUnavailable {
					fail = fmt.Sprintf("%s: handler not run but the response status is %d, want 503", what, w.code)
					return
				}
				if c.Kind[n] == 0 {
					fail = fmt.Sprintf("%s rejected although this route produced only final statuses below 500 and %d (<=5) failures; kinds of all routes: %v", what, nfail[n], c.Kind)
					return
				}
				if c.Kind[n] == 3 && phase == 1 {
					fail = fmt.Sprintf("%s rejected in the recovery phase: the outage ended more than 10 s ago (11 s sleep), every failure has aged out of the window and the route has only answered below 500 since", what)
					return
				}
				continue
			}
			if ran[n] != before+1 {
				fail = fmt.Sprintf("%s: handler ran %d times", what, ran[n]-before)
				return
			}
			// pass-through of clear-cut outcomes (panics after a write are C02's subject)
			switch st.K {
			case 0:
				want := st.C
				if want == 0 {
					want = 200
				}
				if w.code != want || string(w.body) != "c01" {
					fail = fmt.Sprintf("%s: client got %d %q, handler wrote %d \"c01\"", what, w.code, w.body, want)
					return
				}
			case 1:
				if w.code != http.StatusInternalServerError {
					fail = fmt.Sprintf("%s: client got %d for a handler that panicked before writing, want 500", what, w.code)
					return
				}
			}
		}
		for n := 0; n < c.K; n++ {
			if c.Kind[n] == 3 && (rejPhase[n][0] == 0 || rejPhase[n][2] == 0) {
				fail = fmt.Sprintf("%s %s: rejections per phase %v: each outage (>= 200 consecutive failures, nothing else in the window) must be cut off at least once", methods[n], paths[n], rejPhase[n])
				return
			}
			if c.Kind[n] == 1 && rejected[n] == 0 {
				fail = fmt.Sprintf("%s %s: %d consecutive requests ending in a status >= 500 or a handler panic were all admitted: the breaker never cut off; route kinds %v", methods[n], paths[n], calls[n], c.Kind)
				return
			}
		}
	})
	hasB, hasF := false, false
	for _, kd := range c.Kind {
		classes[[]string{"benign-route", "failing-route", "mixed-route", "outage-recovery-outage-route"}[kd]] = true
		hasB = hasB || kd == 0
		hasF = hasF || kd == 1
	}
	for n := 0; n < c.K && n < len(c.M); n++ {
		classes["method-"+c.M[n]] = true
		if n < len(c.WS) && c.WS[n] {
			classes["upgrade-websocket-header"] = true
		}
	}
	for _, st := range c.Steps {
		if st.N < 0 {
			continue
		}
		kd := c.Kind[st.N%c.K]
		switch {
		case kd == 1 && st.K == 1:
			classes["failing-route-panics"] = true
		case kd == 1 && len(st.I) > 0:
			classes["failing-route-interim-then-5xx"] = true
			if c.T != 0 {
				classes["failing-route-interim-then-5xx-behind-timeout-guard"] = true
			}
		case kd == 0 && len(st.I) > 0 && st.benign():
			classes["benign-route-interim"] = true
			if c.T != 0 {
				classes["benign-route-interim-behind-timeout-guard"] = true
			}
		case kd == 2 && st.K == 2:
			classes["mixed-write-then-panic"] = true
		}
	}
	if c.T == 0 {
		classes["no-timeout-guard"] = true
	} else {
		classes["timeout-guard-3s"] = true
	}
	if c.K > 1 {
		classes["several-routes"] = true
	}
	v.NonTrivial = hasB || hasF || classes["outage-recovery-outage-route"]
	for k := range classes {
		v.Classes = append(v.Classes, k)
	}
	sort.Strings(v.Classes)
	if fail != "" {
		v.Fail = fail
	} else if res.Hang || res.Panic != "" { // the engine's stat.Metrics flusher is immortal: a leak is expected
		v.Fail = "bubble: " + res.String()
	}
	return v
}

func TestVerif_C01_http_chain(t *testing.T) {
	kit.Run(t, "C01", "http-chain-run", kit.Opts{Quick: 150, Thorough: 3200}, c01GenChain,
		func(c c01CCase) kit.Verdict { return c01InterpChain(t, c) })
}
