package httpc

// C01 — the REST CLIENT integration (api/httpc named services): every named
// service sends its requests through breaker.Get(name) and declares "a response
// arrived and its status is below 500" benign. One step beyond the anchored
// files: httpc/service.go is the fifth place of the repository that installs the
// breaker. 1..3 services per case (own registry names), each with its own outcome
// script, interleaved in generated chunks, through Service.Do and
// Service.DoRequest on an http.Client whose RoundTripper is owned by the harness:
//   benign   >= 200 responses with a status in 200..499 plus at most five
//            failures: never rejected, and 500 probes of its breaker are admitted;
//   failing  >= 200 responses with a status >= 500 (incl. exactly 500) or
//            transport errors: cut off at least once;
//   mixed    anything (background load).
// A rejected request never reaches the RoundTripper and yields
// breaker.ErrServiceUnavailable; an admitted one returns what the transport gave.

import (
	"context"
	"errors"
	"fmt"
	"net/http"
	"sort"
	"sync/atomic"
	"testing"
	"time"

	"github.com/gotid/god/lib/breaker"
	"github.com/gotid/god/lib/logx"
	"pgregory.net/rapid"
	"verif.local/kit"
)

func init() { logx.Disable() }

var c01Down = errors.New("c01: connection refused")

type c01RT struct {
	calls int
	code  int // 0: transport error
}

func (rt *c01RT) RoundTrip(r *http.Request) (*http.Response, error) {
	rt.calls++
	if rt.code == 0 {
		return nil, c01Down
	}
	return &http.Response{StatusCode: rt.code, Status: fmt.Sprintf("%d c01", rt.code), Proto: "HTTP/1.1", ProtoMajor: 1, ProtoMinor: 1,
		Header: http.Header{}, Body: http.NoBody, Request: r}, nil
}

type c01HStep struct {
	N int `json:"n"`           // service index
	C int `json:"c,omitempty"` // status the remote service answers; 0: the transport fails
	V int `json:"v,omitempty"` // 0 Service.Do, 1 Service.DoRequest
}

type c01HCase struct {
	K     int        `json:"k"`
	Kind  []int      `json:"kind"` // per service: 0 benign, 1 failing, 2 mixed
	Steps []c01HStep `json:"steps"`
	Skew  int64      `json:"skew,omitempty"`
}

func c01GenHTTPC(rt *rapid.T) c01HCase {
	c := c01HCase{K: rapid.IntRange(1, 3).Draw(rt, "k")}
	c.Skew = rapid.Int64Range(0, 1_000_000_000).Draw(rt, "skew")
	benign := rapid.OneOf(rapid.SampledFrom([]int{200, 204, 301, 304, 400, 401, 404, 429, 499, 499}), rapid.IntRange(200, 499))
	failing := rapid.OneOf(rapid.SampledFrom([]int{500, 500, 502, 503, 504, 599, 0, 0}), rapid.IntRange(500, 599))
	scripts := make([][]c01HStep, c.K)
	for n := 0; n < c.K; n++ {
		kind := rapid.SampledFrom([]int{0, 0, 1, 1, 2}).Draw(rt, "kind")
		c.Kind = append(c.Kind, kind)
		via := func() int { return rapid.IntRange(0, 1).Draw(rt, "v") }
		switch kind {
		case 0:
			ln := rapid.IntRange(200, 260).Draw(rt, "n")
			the, single := benign.Draw(rt, "the"), rapid.Bool().Draw(rt, "single")
			for i := 0; i < ln; i++ {
				code := the
				if !single {
					code = benign.Draw(rt, "code")
				}
				scripts[n] = append(scripts[n], c01HStep{N: n, C: code, V: via()})
			}
			for i, nf := 0, rapid.IntRange(0, 5).Draw(rt, "nfail"); i < nf; i++ {
				scripts[n][rapid.IntRange(0, ln-1).Draw(rt, "pos")].C = failing.Draw(rt, "f")
			}
		case 1:
			ln := rapid.IntRange(200, 260).Draw(rt, "n")
			the, single := failing.Draw(rt, "the"), rapid.Bool().Draw(rt, "single")
			for i := 0; i < ln; i++ {
				code := the
				if !single {
					code = failing.Draw(rt, "code")
				}
				scripts[n] = append(scripts[n], c01HStep{N: n, C: code, V: via()})
			}
		default:
			ln := rapid.IntRange(20, 150).Draw(rt, "n")
			for i := 0; i < ln; i++ {
				code := benign.Draw(rt, "code")
				if rapid.Bool().Draw(rt, "bad") {
					code = failing.Draw(rt, "fcode")
				}
				scripts[n] = append(scripts[n], c01HStep{N: n, C: code, V: via()})
			}
		}
	}
	pos := make([]int, c.K)
	for {
		var active []int
		for n := range scripts {
			if pos[n] < len(scripts[n]) {
				active = append(active, n)
			}
		}
		if len(active) == 0 {
			break
		}
		n := rapid.SampledFrom(active).Draw(rt, "svc")
		chunk := rapid.SampledFrom([]int{1, 1, 2, 5, 20, 100, 400}).Draw(rt, "chunk")
		for ; chunk > 0 && pos[n] < len(scripts[n]); chunk-- {
			c.Steps = append(c.Steps, scripts[n][pos[n]])
			pos[n]++
		}
	}
	return c
}

var c01HSeq int64

func c01InterpHTTPC(t *testing.T, c c01HCase) (v kit.Verdict) {
	var fail string
	classes := map[string]bool{}
	rejected := make([]int, c.K)
	nfail := make([]int, c.K)
	calls := make([]int, c.K)
	res := kit.Bubble(t, func() {
		if c.Skew > 0 {
			time.Sleep(time.Duration(c.Skew))
		}
		// registry names are process-wide: every case gets names of its own
		id := atomic.AddInt64(&c01HSeq, 1)
		names := make([]string, c.K)
		rts := make([]*c01RT, c.K)
		svcs := make([]Service, c.K)
		for n := 0; n < c.K; n++ {
			names[n] = fmt.Sprintf("c01-remote-%d-%d", id, n)
			rts[n] = &c01RT{}
			svcs[n] = NewServiceWithClient(names[n], &http.Client{Transport: rts[n]})
		}
		for i, st := range c.Steps {
			n := st.N % c.K
			rts[n].code = st.C
			if st.C == 0 || st.C >= 500 {
				nfail[n]++
			}
			calls[n]++
			before := rts[n].calls
			var resp *http.Response
			var err error
			url := fmt.Sprintf("http://c01-%d.invalid/x", n)
			if st.V == 1 {
				req, e := http.NewRequest(http.MethodGet, url, nil)
				if e != nil {
					fail = "harness: " + e.Error()
					return
				}
				resp, err = svcs[n].DoRequest(req)
			} else {
				resp, err = svcs[n].Do(context.Background(), http.MethodGet, url, nil)
			}
			what := fmt.Sprintf("step %d %+v (request %d of service %d)", i, st, calls[n], n)
			if rts[n].calls == before {
				rejected[n]++
				if err != breaker.ErrServiceUnavailable {
					fail = fmt.Sprintf("%s: the request did not reach the transport but the result is (%v, %v), want ErrServiceUnavailable", what, resp, err)
					return
				}
				if c.Kind[n] == 0 {
					fail = fmt.Sprintf("%s rejected by the breaker although this service answered only statuses below 500 and %d (<=5) failures; kinds of all services: %v", what, nfail[n], c.Kind)
					return
				}
				continue
			}
			if rts[n].calls != before+1 {
				fail = fmt.Sprintf("%s: the request was sent %d times", what, rts[n].calls-before)
				return
			}
			if st.C == 0 {
				if !errors.Is(err, c01Down) {
					fail = fmt.Sprintf("%s: transport error came back as %v", what, err)
					return
				}
			} else if err != nil || resp == nil || resp.StatusCode != st.C {
				fail = fmt.Sprintf("%s: caller got (%v, %v), the remote service answered %d", what, resp, err, st.C)
				return
			}
		}
		for n := 0; n < c.K; n++ {
			switch c.Kind[n] {
			case 0:
				b := breaker.Get(names[n])
				for j := 0; j < 500; j++ {
					if _, err := b.Allow(); err != nil {
						fail = fmt.Sprintf("service %d: after only statuses below 500 and %d (<=5) failures its breaker rejects (probe %d); kinds %v", n, nfail[n], j, c.Kind)
						return
					}
				}
			case 1:
				if rejected[n] == 0 {
					fail = fmt.Sprintf("service %d: %d consecutive requests answered with a status >= 500 or a transport error were all admitted: never cut off", n, calls[n])
					return
				}
			}
		}
	})
	hasB, hasF := false, false
	for _, kd := range c.Kind {
		classes[[]string{"benign-service", "failing-service", "mixed-service"}[kd]] = true
		hasB = hasB || kd == 0
		hasF = hasF || kd == 1
	}
	for _, st := range c.Steps {
		kd := c.Kind[st.N%c.K]
		switch {
		case kd == 1 && st.C == 0:
			classes["failing-service-transport-error"] = true
		case kd == 1 && st.C == 500:
			classes["failing-service-exactly-500"] = true
		case kd == 0 && st.C == 499:
			classes["benign-service-499"] = true
		}
		classes[[]string{"via-Do", "via-DoRequest"}[st.V%2]] = true
	}
	if c.K > 1 {
		classes["several-services"] = true
	}
	v.NonTrivial = hasB || hasF
	for k := range classes {
		v.Classes = append(v.Classes, k)
	}
	sort.Strings(v.Classes)
	if fail != "" {
		v.Fail = fail
	} else if !res.OK() {
		v.Fail = "bubble: " + res.String()
	}
	return v
}

func TestVerif_C01_httpc_run(t *testing.T) {
	// warm up process-wide singletons (otel globals, the log interceptor) outside any bubble
	svc := NewServiceWithClient("c01-warm", &http.Client{Transport: &c01RT{code: 200}})
	if _, err := svc.Do(context.Background(), http.MethodGet, "http://c01-warm.invalid/x", nil); err != nil {
		t.Fatalf("warm-up: %v", err)
	}
	kit.Run(t, "C01", "httpc-run", kit.Opts{Quick: 200, Thorough: 4800}, c01GenHTTPC,
		func(c c01HCase) kit.Verdict { return c01InterpHTTPC(t, c) })
}
