package handler

// C01 — HTTP integration: responses with a status below 500 (or no explicit
// status at all) are benign for BreakerHandler's breaker; a handler that keeps
// answering >= 500 is cut off with 503 without being run.

import (
	"fmt"
	"net/http"
	"net/http/httptest"
	"sort"
	"testing"
	"time"

	"github.com/gotid/god/lib/logx"
	"github.com/gotid/god/lib/stat"
	"pgregory.net/rapid"
	"verif.local/kit"
)

func init() { logx.Disable() }

type c01HCase struct {
	Benign bool  `json:"benign"`
	Codes  []int `json:"codes"` // 0 = handler writes a body without WriteHeader
	Skew   int64 `json:"skew,omitempty"`
}

func c01GenHTTP(rt *rapid.T) c01HCase {
	c := c01HCase{Benign: rapid.IntRange(0, 3).Draw(rt, "benign") != 0}
	c.Skew = rapid.Int64Range(0, 1_000_000_000).Draw(rt, "skew")
	n := rapid.IntRange(200, 320).Draw(rt, "n")
	benign := rapid.OneOf(rapid.SampledFrom([]int{0, 200, 204, 301, 400, 401, 404, 429, 498, 499, 499}), rapid.IntRange(100, 499))
	failing := rapid.OneOf(rapid.SampledFrom([]int{500, 500, 500, 501, 502, 503, 504, 599}), rapid.IntRange(500, 599))
	if c.Benign {
		single := rapid.Bool().Draw(rt, "single")
		the := benign.Draw(rt, "the")
		for i := 0; i < n; i++ {
			if single {
				c.Codes = append(c.Codes, the)
			} else {
				c.Codes = append(c.Codes, benign.Draw(rt, "code"))
			}
		}
		nf := rapid.IntRange(0, 5).Draw(rt, "nfail")
		for i := 0; i < nf; i++ {
			c.Codes[rapid.IntRange(0, n-1).Draw(rt, "pos")] = failing.Draw(rt, "f")
		}
	} else {
		the := failing.Draw(rt, "the")
		for i := 0; i < n; i++ {
			c.Codes = append(c.Codes, the)
		}
	}
	return c
}

func c01InterpHTTP(t *testing.T, c c01HCase) (v kit.Verdict) {
	var fail string
	rejected, nfail := 0, 0
	classes := map[string]bool{}
	res := kit.Bubble(t, func() {
		if c.Skew > 0 {
			time.Sleep(time.Duration(c.Skew))
		}
		metrics := stat.NewMetrics("c01") // owns an immortal flusher: the bubble is expected to end with a leak
		ran := 0
		code := 0
		h := BreakerHandler(http.MethodGet, "/c01", metrics)(http.HandlerFunc(func(w http.ResponseWriter, r *http.Request) {
			ran++
			if code != 0 {
				w.WriteHeader(code)
			}
			_, _ = w.Write([]byte("c01"))
		}))
		for i, sc := range c.Codes {
			code = sc
			if sc >= 500 {
				nfail++
			}
			before := ran
			rec := httptest.NewRecorder()
			h.ServeHTTP(rec, httptest.NewRequest(http.MethodGet, "http://localhost/c01", http.NoBody))
			what := fmt.Sprintf("request %d (handler status %d)", i, sc)
			if ran == before {
				rejected++
				if rec.Code != http.StatusServiceUnavailable {
					fail = fmt.Sprintf("%s: handler not run but the response status is %d, want 503", what, rec.Code)
					return
				}
				if c.Benign {
					fail = fmt.Sprintf("%s rejected by the breaker after only statuses below 500 and %d (<=5) failures", what, nfail)
					return
				}
				continue
			}
			if ran != before+1 {
				fail = fmt.Sprintf("%s: handler ran %d times", what, ran-before)
				return
			}
			want := sc
			if want == 0 {
				want = 200
			}
			if rec.Code != want || rec.Body.String() != "c01" {
				fail = fmt.Sprintf("%s: response %d %q differs from what the handler wrote", what, rec.Code, rec.Body.String())
				return
			}
		}
		if !c.Benign && rejected == 0 {
			fail = fmt.Sprintf("%d consecutive responses with status %d were all admitted: the breaker never cut off", len(c.Codes), c.Codes[0])
		}
	})
	v.NonTrivial = true
	if c.Benign {
		classes["benign-run"] = true
		for _, sc := range c.Codes {
			switch {
			case sc == 499:
				classes["status-499"] = true
			case sc == 0:
				classes["no-explicit-status"] = true
			case sc >= 500:
				classes["benign-run-with<=5-failures"] = true
			}
		}
	} else {
		classes["failing-run"] = true
		if c.Codes[0] == 500 {
			classes["failing-run-status-500"] = true
		}
	}
	for k := range classes {
		v.Classes = append(v.Classes, k)
	}
	sort.Strings(v.Classes)
	if fail != "" {
		v.Fail = fail
	} else if res.Hang || res.Panic != "" {
		v.Fail = "bubble: " + res.String()
	}
	return v
}

func TestVerif_C01_http_run(t *testing.T) {
	kit.Run(t, "C01", "http-run", kit.Opts{Quick: 300, Thorough: 6400}, c01GenHTTP,
		func(c c01HCase) kit.Verdict { return c01InterpHTTP(t, c) })
}
