package handler

// C01 — HTTP integration. Every (method, path) pair wrapped by BreakerHandler is
// its own breaker. A case drives 1..4 pairs, each with its own script,
// interleaved in generated chunks:
// A response may start with 0..2 interim 1xx responses (100/102/103); the FINAL
// status decides (the harness' own recording writer treats 1xx as net/http does).
//   benign  statuses below 500 (or no explicit status), plus at most five
//           statuses >= 500: never answered 503 by the breaker, whatever the
//           other routes do;
//   failing >= 200 responses of one status >= 500 (incl. exactly 500): cut off
//           with 503, without running the handler, at least once;
//   mixed   arbitrary statuses (background load; only pass-through is judged).

import (
	"fmt"
	"net/http"
	"net/http/httptest"
	"sort"
	"testing"
	"time"

	"github.com/gotid/god/lib/logx"
	"github.com/gotid/god/lib/stat"
	"pgregory.net/rapid"
	"verif.local/kit"
)

func init() { logx.Disable() }

type c01HStep struct {
	N int   `json:"n"`           // route index
	C int   `json:"c"`           // final status written by the handler; 0 = body without WriteHeader
	I []int `json:"i,omitempty"` // interim 1xx responses (100/102/103) sent before the final status
}

// c01Writer models what net/http does with WriteHeader (httptest.ResponseRecorder
// does not): 1xx codes except 101 are interim responses, the first other code is
// final, later calls are ignored; the first Write implies 200.
type c01Writer struct {
	h       http.Header
	interim []int
	code    int
	body    []byte
}

func (w *c01Writer) Header() http.Header { return w.h }
func (w *c01Writer) WriteHeader(code int) {
	if w.code != 0 {
		return
	}
	if code >= 100 && code <= 199 && code != http.StatusSwitchingProtocols {
		w.interim = append(w.interim, code)
		return
	}
	w.code = code
}
func (w *c01Writer) Write(b []byte) (int, error) {
	if w.code == 0 {
		w.code = http.StatusOK
	}
	w.body = append(w.body, b...)
	return len(b), nil
}

type c01HCase struct {
	K     int        `json:"k"`    // routes: index i has method M[i] and path /c01/{a,b}[i/2]
	M     []string   `json:"m"`    // per route: HTTP method
	Kind  []int      `json:"kind"` // per route: 0 benign, 1 failing, 2 mixed
	Steps []c01HStep `json:"steps"`
	Skew  int64      `json:"skew,omitempty"`
}

func c01HInterleave(rt *rapid.T, scripts [][]c01HStep) []c01HStep {
	pos := make([]int, len(scripts))
	var steps []c01HStep
	for {
		var active []int
		for n := range scripts {
			if pos[n] < len(scripts[n]) {
				active = append(active, n)
			}
		}
		if len(active) == 0 {
			return steps
		}
		n := rapid.SampledFrom(active).Draw(rt, "route")
		chunk := rapid.SampledFrom([]int{1, 1, 2, 5, 20, 100, 400}).Draw(rt, "chunk")
		for ; chunk > 0 && pos[n] < len(scripts[n]); chunk-- {
			st := scripts[n][pos[n]]
			st.N = n
			steps = append(steps, st)
			pos[n]++
		}
	}
}

func c01GenHTTP(rt *rapid.T) c01HCase {
	c := c01HCase{K: rapid.IntRange(1, 4).Draw(rt, "k")}
	c.Skew = rapid.Int64Range(0, 1_000_000_000).Draw(rt, "skew")
	benign := rapid.OneOf(rapid.SampledFrom([]int{0, 200, 204, 301, 400, 401, 404, 429, 498, 499, 499}), rapid.IntRange(200, 499))
	interim := func() []int {
		n := rapid.SampledFrom([]int{0, 0, 0, 1, 1, 2}).Draw(rt, "ni")
		var out []int
		for i := 0; i < n; i++ {
			out = append(out, rapid.SampledFrom([]int{100, 102, 103}).Draw(rt, "interim"))
		}
		return out
	}
	mk := func(code int) c01HStep { return c01HStep{C: code, I: interim()} }
	// 600..999 are legal for net/http and are not "below 500" either
	failing := rapid.OneOf(rapid.SampledFrom([]int{500, 500, 500, 501, 502, 503, 504, 599, 600, 999}), rapid.IntRange(500, 599), rapid.IntRange(600, 999))
	var scripts [][]c01HStep
	for n := 0; n < c.K; n++ {
		kind := rapid.SampledFrom([]int{0, 0, 1, 1, 2}).Draw(rt, "kind")
		c.Kind = append(c.Kind, kind)
		c.M = append(c.M, rapid.SampledFrom([]string{http.MethodGet, http.MethodPost, http.MethodPut, http.MethodDelete, http.MethodPatch, http.MethodHead, http.MethodOptions}).Draw(rt, "method"))
		var s []c01HStep
		switch kind {
		case 0:
			ln := rapid.IntRange(200, 300).Draw(rt, "n")
			single := rapid.Bool().Draw(rt, "single")
			the := mk(benign.Draw(rt, "the"))
			for i := 0; i < ln; i++ {
				if single {
					s = append(s, the)
				} else {
					s = append(s, mk(benign.Draw(rt, "code")))
				}
			}
			nf := rapid.IntRange(0, 5).Draw(rt, "nfail")
			for i := 0; i < nf; i++ {
				s[rapid.IntRange(0, ln-1).Draw(rt, "pos")] = mk(failing.Draw(rt, "f"))
			}
		case 1:
			ln := rapid.IntRange(200, 300).Draw(rt, "n")
			the := mk(failing.Draw(rt, "the"))
			for i := 0; i < ln; i++ {
				s = append(s, the)
			}
		default:
			ln := rapid.IntRange(20, 200).Draw(rt, "n")
			for i := 0; i < ln; i++ {
				if rapid.Bool().Draw(rt, "bad") {
					s = append(s, mk(failing.Draw(rt, "code")))
				} else {
					s = append(s, mk(benign.Draw(rt, "code")))
				}
			}
		}
		scripts = append(scripts, s)
	}
	c.Steps = c01HInterleave(rt, scripts)
	return c
}

func c01InterpHTTP(t *testing.T, c c01HCase) (v kit.Verdict) {
	var fail string
	rejected := make([]int, c.K)
	nfail := make([]int, c.K)
	calls := make([]int, c.K)
	classes := map[string]bool{}
	res := kit.Bubble(t, func() {
		if c.Skew > 0 {
			time.Sleep(time.Duration(c.Skew))
		}
		metrics := stat.NewMetrics("c01") // owns an immortal flusher: the bubble is expected to end with a leak
		ran := make([]int, c.K)
		var cur c01HStep
		handlers := make([]http.Handler, c.K)
		methods := make([]string, c.K)
		paths := make([]string, c.K)
		for n := 0; n < c.K; n++ {
			n := n
			methods[n] = http.MethodGet
			if n < len(c.M) && c.M[n] != "" {
				methods[n] = c.M[n]
			}
			classes["method-"+methods[n]] = true
			paths[n] = []string{"/c01/a", "/c01/b"}[n/2]
			handlers[n] = BreakerHandler(methods[n], paths[n], metrics)(http.HandlerFunc(func(w http.ResponseWriter, r *http.Request) {
				ran[n]++
				for _, ic := range cur.I {
					w.WriteHeader(ic)
				}
				if cur.C != 0 {
					w.WriteHeader(cur.C)
				}
				_, _ = w.Write([]byte("c01"))
			}))
		}
		for i, st := range c.Steps {
			n := st.N % c.K
			cur = st
			if st.C >= 500 {
				nfail[n]++
			}
			calls[n]++
			before := ran[n]
			rec := &c01Writer{h: http.Header{}}
			handlers[n].ServeHTTP(rec, httptest.NewRequest(methods[n], "http://localhost"+paths[n], http.NoBody))
			what := fmt.Sprintf("step %d (%s %s, request %d of that route, interim %v, final handler status %d)", i, methods[n], paths[n], calls[n], st.I, st.C)
			if ran[n] == before {
				rejected[n]++
				if rec.code != http.StatusServiceUnavailable {
					fail = fmt.Sprintf("%s: handler not run but the response status is %d, want 503", what, rec.code)
					return
				}
				if c.Kind[n] == 0 {
					fail = fmt.Sprintf("%s rejected by the breaker although this route answered only statuses below 500 and %d (<=5) failures; kinds of all routes: %v", what, nfail[n], c.Kind)
					return
				}
				continue
			}
			if ran[n] != before+1 {
				fail = fmt.Sprintf("%s: handler ran %d times", what, ran[n]-before)
				return
			}
			want := st.C
			if want == 0 {
				want = 200
			}
			if rec.code != want || string(rec.body) != "c01" || len(rec.interim) != len(st.I) {
				fail = fmt.Sprintf("%s: response %d %q differs from what the handler wrote", what, rec.code, string(rec.body))
				return
			}
		}
		for n := 0; n < c.K; n++ {
			if c.Kind[n] == 1 && rejected[n] == 0 {
				fail = fmt.Sprintf("%s %s: %d consecutive responses with a status >= 500 were all admitted: the breaker never cut off", methods[n], paths[n], calls[n])
				return
			}
		}
	})
	hasB, hasF := false, false
	for _, kd := range c.Kind {
		classes[[]string{"benign-route", "failing-route", "mixed-route"}[kd]] = true
		hasB = hasB || kd == 0
		hasF = hasF || kd == 1
	}
	for _, st := range c.Steps {
		kd := c.Kind[st.N%c.K]
		switch {
		case kd == 0 && st.C == 499:
			classes["benign-status-499"] = true
		case kd == 0 && st.C == 0:
			classes["benign-no-explicit-status"] = true
		case kd == 0 && st.C >= 500:
			classes["benign-route-with<=5-failures"] = true
		case kd == 1 && st.C == 500:
			classes["failing-route-status-500"] = true
		case kd == 1 && st.C >= 600:
			classes["failing-route-status>=600"] = true
		}
		if len(st.I) > 0 {
			classes[[]string{"benign-route-interim", "failing-route-interim-then-5xx", "mixed-route-interim"}[kd]] = true
		}
	}
	if c.K > 1 {
		classes["several-routes"] = true
	}
	v.NonTrivial = hasB || hasF
	for k := range classes {
		v.Classes = append(v.Classes, k)
	}
	sort.Strings(v.Classes)
	if fail != "" {
		v.Fail = fail
	} else if res.Hang || res.Panic != "" {
		v.Fail = "bubble: " + res.String()
	}
	return v
}

func TestVerif_C01_http_run(t *testing.T) {
	kit.Run(t, "C01", "http-run", kit.Opts{Quick: 200, Thorough: 4800}, c01GenHTTP,
		func(c c01HCase) kit.Verdict { return c01InterpHTTP(t, c) })
}
