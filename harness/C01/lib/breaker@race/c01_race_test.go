package breaker

// C01 — race shard: this unit (lib/breaker@race) is built with -race (see
// verif.json). Several goroutines use one named breaker through every entry
// point at the same real time; the race detector is the oracle for
// unsynchronised access inside lib/breaker and lib/collection, plus the
// functional checks that need no view of the window.

import (
	"errors"
	"fmt"
	"sync"
	"sync/atomic"
	"testing"

	"github.com/gotid/god/lib/logx"
	"pgregory.net/rapid"
	"verif.local/kit"
)

func init() { logx.Disable() }

var (
	c01RaceBenign = errors.New("c01 race: benign error")
	c01RaceFatal  = errors.New("c01 race: failure")
)

// c01RaceAcceptable is the caller's predicate: nil and the benign error are successes.
func c01RaceAcceptable(err error) bool { return err == nil || err == c01RaceBenign }

type c01RaceCase struct {
	G      int  `json:"g"`
	K      int  `json:"k"`
	Benign bool `json:"benign"`
}

var c01RaceSeq int64

func TestVerif_C01_race(t *testing.T) {
	kit.Run(t, "C01", "breaker-race-shard", kit.Opts{Quick: 12, Thorough: 320}, func(rt *rapid.T) c01RaceCase {
		return c01RaceCase{
			G:      rapid.SampledFrom([]int{2, 4, 8}).Draw(rt, "g"),
			K:      rapid.SampledFrom([]int{200, 1000, 3000}).Draw(rt, "k"),
			Benign: rapid.Bool().Draw(rt, "benign"),
		}
	}, func(c c01RaceCase) (v kit.Verdict) {
		name := fmt.Sprintf("c01-race-%d", atomic.AddInt64(&c01RaceSeq, 1))
		var bad, rejected int64
		var firstBad atomic.Value
		var wg sync.WaitGroup
		for g := 0; g < c.G; g++ {
			g := g
			wg.Add(1)
			go func() {
				defer wg.Done()
				for j := 0; j < c.K; j++ {
					// benign: benign error / nil only; otherwise every third call fails
					var want error
					switch {
					case !c.Benign && j%3 == 2:
						want = c01RaceFatal
					case j%2 == 1:
						want = c01RaceBenign
					}
					ran := false
					req := func() error { ran = true; return want }
					var err error
					switch (g + j) % 5 {
					case 0:
						err = DoWithAcceptable(name, req, c01RaceAcceptable)
					case 1:
						err = Get(name).DoWithAcceptable(req, c01RaceAcceptable)
					case 2:
						err = DoWithFallbackAcceptable(name, req, func(e error) error { return e }, c01RaceAcceptable)
					case 3:
						p, e := Get(name).Allow()
						if e == nil {
							ran = true
							if c01RaceAcceptable(want) {
								p.Accept()
							} else {
								p.Reject("c01")
							}
							err = want
						} else {
							err = e
						}
					default:
						want = nil
						err = Do(name, req)
					}
					if !ran {
						atomic.AddInt64(&rejected, 1)
						if err != ErrServiceUnavailable {
							atomic.AddInt64(&bad, 1)
							firstBad.Store(fmt.Sprintf("rejected call returned %v", err))
						}
					} else if err != want {
						atomic.AddInt64(&bad, 1)
						firstBad.Store(fmt.Sprintf("admitted call returned %v, want %v", err, want))
					}
				}
			}()
		}
		wg.Wait()
		v.NonTrivial = true
		if rejected > 0 {
			v.Classes = append(v.Classes, "rejections")
		}
		if bad != 0 {
			return v.Failf("%d inconsistent calls, e.g. %v", bad, firstBad.Load())
		}
		if c.Benign && rejected != 0 {
			return v.Failf("%d calls rejected although only nil / benign outcomes were recorded", rejected)
		}
		return v
	})
}
