package sqlx

// C01 — SQL integration: sql.ErrNoRows, sql.ErrTxDone, context.Canceled and nil
// are benign for the connection's breaker. Table over commonConn.acceptable and
// generated runs through Exec/QueryRow/QueryRows/Prepare/Transact on a fake
// database/sql driver owned by this harness.

import (
	"context"
	"database/sql"
	"database/sql/driver"
	"errors"
	"fmt"
	"io"
	"sort"
	"strings"
	"sync"
	"sync/atomic"
	"testing"
	"time"

	"github.com/gotid/god/lib/breaker"
	"pgregory.net/rapid"
	"verif.local/kit"
)

// ---- fake driver

type c01Cfg struct {
	next error // returned by Prepare/Exec/Query when non-nil
	rows int   // rows of a single int64 column produced by Query
	hits int   // driver entry points reached
}

type c01Connector struct{ cfg *c01Cfg }

func (c c01Connector) Connect(context.Context) (driver.Conn, error) { return &c01Conn{c.cfg}, nil }
func (c c01Connector) Driver() driver.Driver                        { return c01Driver{c.cfg} }

type c01Driver struct{ cfg *c01Cfg }

func (d c01Driver) Open(string) (driver.Conn, error) { return &c01Conn{d.cfg}, nil }

type c01Conn struct{ cfg *c01Cfg }

func (c *c01Conn) Prepare(q string) (driver.Stmt, error) {
	if q == "prepare" {
		c.cfg.hits++
		if c.cfg.next != nil {
			return nil, c.cfg.next
		}
	}
	return &c01Stmt{c.cfg}, nil
}
func (c *c01Conn) Close() error              { return nil }
func (c *c01Conn) Begin() (driver.Tx, error) { return c01Tx{}, nil }

type c01Tx struct{}

func (c01Tx) Commit() error   { return nil }
func (c01Tx) Rollback() error { return nil }

type c01Stmt struct{ cfg *c01Cfg }

func (s *c01Stmt) Close() error  { return nil }
func (s *c01Stmt) NumInput() int { return -1 }
func (s *c01Stmt) Exec([]driver.Value) (driver.Result, error) {
	s.cfg.hits++
	if s.cfg.next != nil {
		return nil, s.cfg.next
	}
	return driver.RowsAffected(1), nil
}
func (s *c01Stmt) Query([]driver.Value) (driver.Rows, error) {
	s.cfg.hits++
	if s.cfg.next != nil {
		return nil, s.cfg.next
	}
	return &c01Rows{n: s.cfg.rows}, nil
}

type c01Rows struct{ n int }

func (r *c01Rows) Columns() []string { return []string{"x"} }
func (r *c01Rows) Close() error      { return nil }
func (r *c01Rows) Next(dest []driver.Value) error {
	if r.n <= 0 {
		return io.EOF
	}
	r.n--
	dest[0] = int64(7)
	return nil
}

// c01RegDriver: the same fake database reached through database/sql's driver registry,
// the way sqlx.NewConn(driverName, dataSourceName) opens it; the data source name selects
// the case's configuration.
type c01RegDriver struct{}

var (
	c01RegMu   sync.Mutex
	c01RegCfgs = map[string]*c01Cfg{}
	c01RegSeq  int64
)

func (c01RegDriver) Open(dsn string) (driver.Conn, error) {
	c01RegMu.Lock()
	cfg := c01RegCfgs[dsn]
	c01RegMu.Unlock()
	if cfg == nil {
		return nil, fmt.Errorf("c01: unknown data source %q", dsn)
	}
	return &c01Conn{cfg}, nil
}

func init() { sql.Register("c01fake", c01RegDriver{}) }

func c01NewDSN(cfg *c01Cfg) string {
	dsn := fmt.Sprintf("c01-dsn-%d", atomic.AddInt64(&c01RegSeq, 1))
	c01RegMu.Lock()
	c01RegCfgs[dsn] = cfg
	c01RegMu.Unlock()
	return dsn
}

func c01DropDSN(dsn string) {
	c01RegMu.Lock()
	delete(c01RegCfgs, dsn)
	c01RegMu.Unlock()
}

// ---- table

var c01DBDown = errors.New("c01: database down")

// c01PtrErr: an error whose nil pointer is a usable error value
type c01PtrErr struct{}

func (e *c01PtrErr) Error() string { return "c01 typed nil" }

type c01AccCase struct {
	Err    string `json:"e"` // nil norows txdone canceled plain eof unavailable
	Accept string `json:"a"` // none never plain
}

func c01ErrOf(k string) error {
	switch k {
	case "norows":
		return sql.ErrNoRows
	case "txdone":
		return sql.ErrTxDone
	case "canceled":
		return context.Canceled
	case "plain":
		return c01DBDown
	case "eof":
		return io.EOF
	case "unavailable":
		return breaker.ErrServiceUnavailable
	}
	return nil
}

func TestVerif_C01_sqlx_table(t *testing.T) {
	each := func(yield func(c01AccCase) bool) {
		for _, e := range []string{"nil", "norows", "txdone", "canceled", "plain", "eof", "unavailable"} {
			for _, a := range []string{"none", "never", "plain"} {
				if !yield(c01AccCase{e, a}) {
					return
				}
			}
		}
		// UNSPECIFIED by the statement (it names the sentinel values; the code compares with ==):
		// wrapped / joined sentinels and a typed nil are run for panics only
		for _, e := range []string{"wrapped-norows", "wrapped-txdone", "wrapped-canceled", "joined", "typednil"} {
			if !yield(c01AccCase{e, "none"}) {
				return
			}
		}
	}
	kit.Enumerate(t, "C01", "sqlx-acceptable-table", each, func(c c01AccCase) (v kit.Verdict) {
		conn := &commonConn{}
		switch c.Accept {
		case "never":
			conn.accept = func(error) bool { return false }
		case "plain":
			conn.accept = func(err error) bool { return err == c01DBDown }
		}
		switch c.Err {
		case "wrapped-norows", "wrapped-txdone", "wrapped-canceled", "joined", "typednil":
			var err error
			switch c.Err {
			case "wrapped-norows":
				err = fmt.Errorf("c01 wrap: %w", sql.ErrNoRows)
			case "wrapped-txdone":
				err = fmt.Errorf("c01 wrap: %w", sql.ErrTxDone)
			case "wrapped-canceled":
				err = fmt.Errorf("c01 wrap: %w", context.Canceled)
			case "joined":
				err = errors.Join(sql.ErrNoRows, c01DBDown)
			case "typednil":
				var p *c01PtrErr
				err = p
			}
			v.Classes = []string{"unspecified-error-value"}
			_ = conn.acceptable(err) // a panic here crashes the check: that is the only verdict
			return v
		}
		err := c01ErrOf(c.Err)
		got := conn.acceptable(err)
		benign := c.Err == "nil" || c.Err == "norows" || c.Err == "txdone" || c.Err == "canceled"
		v.NonTrivial = true
		switch {
		case benign:
			v.Classes = []string{"benign-sentinel"}
			if !got {
				return v.Failf("commonConn.acceptable(%v) = false with accept option %q: the statement declares it benign", err, c.Accept)
			}
		case c.Accept == "plain" && c.Err == "plain":
			v.Classes = []string{"caller-accepted"}
			if !got {
				return v.Failf("commonConn.acceptable(%v) = false although the caller's accept option accepts it", err)
			}
		default:
			v.Classes = []string{"failure"}
			if got {
				return v.Failf("commonConn.acceptable(%v) = true with accept option %q: an error nobody declared benign counts as success", err, c.Accept)
			}
		}
		return v
	})
}

// ---- behaviour: several connections, each with its own breaker

type c01SQLStep struct {
	N int `json:"n"` // connection index
	// E: exec queryrow queryrowpartial queryrows queryrowspartial prepare transact transactnoctx, "...plain" = the
	// form without ctx; "stmt..." = Prepare (through the breaker) and then that call on the returned statement
	// session, where outcome O is produced (statement sessions do not pass through the breaker)
	E string `json:"e"`
	O int    `json:"o"` // 0 ok 1 no rows 2 tx done 3 driver returns context.Canceled 4 caller's ctx cancelled 8 connection provider fails (refused connection) 9 database down
	// B: how a transaction body produces outcome O (transact entries only):
	// 0 through s.ExecCtx (the driver returns the error); 1 the body returns the
	// error itself; 2 the body commits the tx itself and returns nil, 3 rolls it
	// back itself and returns nil (O=2 only: the final Commit yields sql.ErrTxDone);
	// 4 the body queries an empty result set (O=1 only: ErrNotFound path).
	B int `json:"b,omitempty"`
}

type c01SQLCase struct {
	K     int          `json:"k"`              // connections (all on one fake database)
	Kind  []int        `json:"kind"`           // per connection: 0 benign, 1 one non-benign outcome only, 2 mixed
	Opt   []int        `json:"opt,omitempty"`  // per connection: 0 no option, 1 an accept option that declares "database down" acceptable
	Ctor  []int        `json:"ctor,omitempty"` // per connection: 0 NewConnFromDB(db, opts...), 1 NewConn(driverName, dataSourceName, opts...) through the driver registry and the connection manager
	Steps []c01SQLStep `json:"steps"`
	Skew  int64        `json:"skew,omitempty"`
}

func c01GenSQL(rt *rapid.T) c01SQLCase {
	c := c01SQLCase{K: rapid.IntRange(1, 3).Draw(rt, "k")}
	c.Skew = rapid.Int64Range(0, 1_000_000_000).Draw(rt, "skew")
	all := []string{"exec", "queryrow", "queryrowpartial", "queryrows", "queryrowspartial", "prepare", "transact", "transact", "transactnoctx",
		"execplain", "queryrowplain", "queryrowpartialplain", "queryrowsplain", "queryrowspartialplain", "prepareplain"}
	// a failing statement session records nothing: only for benign and mixed connections
	stmts := []string{"stmtexec", "stmtqueryrow", "stmtqueryrowpartial", "stmtqueryrows", "stmtqueryrowspartial",
		"stmtexecplain", "stmtqueryrowplain", "stmtqueryrowpartialplain", "stmtqueryrowsplain", "stmtqueryrowspartialplain"}
	// mk draws the body mode for transaction entries
	fixB := -1 // per connection: one fixed body mode (where valid), so that a miscounting mode is not diluted
	mk := func(n int, e string, o int) c01SQLStep {
		st := c01SQLStep{N: n, E: e, O: o}
		valid := map[int][]int{1: {0, 1, 4}, 2: {0, 1, 2, 3}, 3: {0, 1}, 9: {0, 1}}
		if e == "transact" || e == "transactnoctx" {
			for _, b := range valid[o] {
				if b == fixB {
					st.B = b
					return st
				}
			}
			switch o {
			case 1:
				st.B = rapid.SampledFrom([]int{0, 1, 4}).Draw(rt, "b")
			case 2:
				st.B = rapid.SampledFrom([]int{0, 1, 2, 2, 3, 3}).Draw(rt, "b")
			case 3, 9:
				st.B = rapid.IntRange(0, 1).Draw(rt, "b")
			}
		}
		return st
	}
	scripts := make([][]c01SQLStep, c.K)
	for n := 0; n < c.K; n++ {
		kind := rapid.SampledFrom([]int{0, 0, 1, 1, 2}).Draw(rt, "kind")
		c.Kind = append(c.Kind, kind)
		c.Opt = append(c.Opt, rapid.SampledFrom([]int{0, 0, 1}).Draw(rt, "opt"))
		c.Ctor = append(c.Ctor, rapid.IntRange(0, 1).Draw(rt, "ctor"))
		fixB = rapid.IntRange(-1, 4).Draw(rt, "fixb")
		avail := all
		if kind != 1 {
			avail = append(append([]string{}, all...), stmts...)
		}
		entries := avail
		if rapid.Bool().Draw(rt, "oneentry") { // a miscounting entry point must not be diluted by the others
			entries = []string{rapid.SampledFrom(avail).Draw(rt, "theentry")}
		}
		switch kind {
		case 0:
			ln := rapid.IntRange(200, 280).Draw(rt, "n")
			pool := []int{0, 1, 2, 3, 4}
			if rapid.Bool().Draw(rt, "single") {
				pool = []int{rapid.IntRange(1, 4).Draw(rt, "the")}
			}
			if rapid.Bool().Draw(rt, "focused") {
				// one entry point x one benign outcome x one way of producing it, so that a
				// single miscounting path is not diluted by the healthy ones
				if rapid.Bool().Draw(rt, "tx") {
					entries = []string{rapid.SampledFrom([]string{"transact", "transactnoctx"}).Draw(rt, "txentry")}
				} else {
					entries = []string{rapid.SampledFrom(append(append(append([]string{}, all[:6]...), all[9:]...), stmts...)).Draw(rt, "entry")}
				}
				o := rapid.IntRange(1, 4).Draw(rt, "fo")
				pool = []int{o}
				fixB = rapid.SampledFrom(map[int][]int{1: {0, 1, 4}, 2: {0, 1, 2, 3}, 3: {0, 1}, 4: {0}}[o]).Draw(rt, "fb")
			}
			for i := 0; i < ln; i++ {
				scripts[n] = append(scripts[n], mk(n, rapid.SampledFrom(entries).Draw(rt, "e"), rapid.SampledFrom(pool).Draw(rt, "o")))
			}
			nf := rapid.IntRange(0, 5).Draw(rt, "nfail")
			for i := 0; i < nf; i++ {
				k := rapid.IntRange(0, ln-1).Draw(rt, "pos")
				scripts[n][k].O, scripts[n][k].B = 9, scripts[n][k].B%2
			}
		case 1:
			ln := rapid.IntRange(200, 280).Draw(rt, "n")
			for i := 0; i < ln; i++ {
				scripts[n] = append(scripts[n], mk(n, rapid.SampledFrom(entries).Draw(rt, "e"), 9))
			}
			if rapid.IntRange(0, 3).Draw(rt, "refused") == 0 { // the other fault kind: no connection at all
				for i := range scripts[n] {
					scripts[n][i].O, scripts[n][i].B = 8, 0
				}
			}
		default:
			ln := rapid.IntRange(20, 200).Draw(rt, "n")
			for i := 0; i < ln; i++ {
				scripts[n] = append(scripts[n], mk(n, rapid.SampledFrom(entries).Draw(rt, "e"), rapid.SampledFrom([]int{0, 1, 2, 3, 4, 8, 9, 9, 9}).Draw(rt, "o")))
			}
		}
	}
	// interleave in generated chunks
	pos := make([]int, c.K)
	for {
		var active []int
		for n := range scripts {
			if pos[n] < len(scripts[n]) {
				active = append(active, n)
			}
		}
		if len(active) == 0 {
			break
		}
		n := rapid.SampledFrom(active).Draw(rt, "conn")
		chunk := rapid.SampledFrom([]int{1, 1, 2, 5, 20, 100, 400}).Draw(rt, "chunk")
		for ; chunk > 0 && pos[n] < len(scripts[n]); chunk-- {
			c.Steps = append(c.Steps, scripts[n][pos[n]])
			pos[n]++
		}
	}
	return c
}

var c01Refused = errors.New("c01: connection refused")

func c01InterpSQL(t *testing.T, c c01SQLCase) (v kit.Verdict) {
	var fail string
	opt := func(n int) int {
		if n < len(c.Opt) {
			return c.Opt[n]
		}
		return 0
	}
	ctor := func(n int) int {
		if n < len(c.Ctor) {
			return c.Ctor[n]
		}
		return 0
	}
	// what the statement requires of a connection follows from ITS script and ITS option:
	// benignFor: nil, the sentinels and whatever the connection's accept option accepts
	benignFor := func(n, o int) bool { return o <= 4 || (o == 9 && opt(n) == 1) }
	total := make([]int, c.K)
	nonBenign := make([]int, c.K)
	for _, st := range c.Steps {
		n := st.N % c.K
		total[n]++
		if !benignFor(n, st.O) {
			nonBenign[n]++
		}
	}
	mustNever := func(n int) bool { return c.Kind[n] != 2 && nonBenign[n] <= 5 }
	mustCut := func(n int) bool { return c.Kind[n] == 1 && nonBenign[n] == total[n] && total[n] >= 200 }
	rejected := make([]int, c.K)
	nfail := make([]int, c.K)
	calls := make([]int, c.K)
	classes := map[string]bool{}
	res := kit.Bubble(t, func() {
		if c.Skew > 0 {
			time.Sleep(time.Duration(c.Skew))
		}
		cfg := &c01Cfg{}
		db := sql.OpenDB(c01Connector{cfg})
		provided := make([]int, c.K)
		refuse := false
		conns := make([]*commonConn, c.K)
		var dsns []string
		defer func() {
			refuse = false
			for n, cc := range conns { // the connection manager keeps the *sql.DB of a NewConn connection: close it
				if cc != nil && ctor(n) == 1 {
					if raw, err := cc.RawDB(); err == nil && raw != nil {
						_ = raw.Close()
					}
				}
			}
			for _, d := range dsns {
				c01DropDSN(d)
			}
			_ = db.Close()
			kit.Wait()
		}()
		for n := 0; n < c.K; n++ {
			n := n
			var opts []Option
			if opt(n) == 1 { // same shape as the package's own withMySQLAcceptable option
				opts = append(opts, func(cc *commonConn) { cc.accept = func(err error) bool { return err == c01DBDown } })
			}
			if ctor(n) == 1 {
				dsn := c01NewDSN(cfg)
				dsns = append(dsns, dsn)
				conns[n] = NewConn("c01fake", dsn, opts...).(*commonConn)
			} else {
				conns[n] = NewConnFromDB(db, opts...).(*commonConn)
			}
			orig := conns[n].provider
			conns[n].provider = func() (*sql.DB, error) {
				provided[n]++
				if refuse {
					return nil, c01Refused
				}
				return orig()
			}
		}
		cancelled, cancel := context.WithCancel(context.Background())
		cancel()
		for i, o := range c.Steps {
			n := o.N % c.K
			conn := conns[n]
			ctx := context.Background()
			var want error
			cfg.next, cfg.rows = nil, 1
			switch o.O {
			case 1:
				want = sql.ErrNoRows
				if e := strings.TrimPrefix(o.E, "stmt"); e == "queryrow" || e == "queryrowpartial" || e == "queryrowplain" || e == "queryrowpartialplain" {
					cfg.rows = 0 // the natural way: empty result set
				} else {
					cfg.next = sql.ErrNoRows
				}
			case 2:
				want, cfg.next = sql.ErrTxDone, sql.ErrTxDone
			case 3:
				want, cfg.next = context.Canceled, context.Canceled
			case 4:
				want, ctx = context.Canceled, cancelled
			case 8:
				want = c01Refused
			case 9:
				want, cfg.next = c01DBDown, c01DBDown
			}
			refuse = o.O == 8
			if !benignFor(n, o.O) {
				nfail[n]++
			}
			calls[n]++
			before := provided[n]
			var err error
			switch o.E {
			case "exec":
				_, err = conn.ExecCtx(ctx, "exec")
			case "queryrow":
				var x int64
				err = conn.QueryRowCtx(ctx, &x, "queryrow")
			case "queryrows":
				var xs []int64
				err = conn.QueryRowsCtx(ctx, &xs, "queryrows")
			case "execplain", "queryrowplain", "queryrowpartialplain", "queryrowsplain", "queryrowspartialplain", "prepareplain":
				if o.O == 4 { // the forms without ctx cannot carry a cancelled context: use the Ctx twin
					var x int64
					err = conn.QueryRowCtx(ctx, &x, "queryrow")
					break
				}
				var x int64
				var xs []int64
				switch o.E {
				case "execplain":
					_, err = conn.Exec("exec")
				case "queryrowplain":
					err = conn.QueryRow(&x, "queryrow")
				case "queryrowpartialplain":
					err = conn.QueryRowPartial(&x, "queryrow")
				case "queryrowsplain":
					err = conn.QueryRows(&xs, "queryrows")
				case "queryrowspartialplain":
					err = conn.QueryRowsPartial(&xs, "queryrows")
				case "prepareplain":
					var st StmtSession
					st, err = conn.Prepare("prepare")
					if err == nil && st != nil {
						_ = st.Close()
					}
				}
			case "stmtexec", "stmtqueryrow", "stmtqueryrowpartial", "stmtqueryrows", "stmtqueryrowspartial",
				"stmtexecplain", "stmtqueryrowplain", "stmtqueryrowpartialplain", "stmtqueryrowsplain", "stmtqueryrowspartialplain":
				next := cfg.next
				cfg.next = nil // the database is healthy while the statement is prepared
				var st StmtSession
				st, err = conn.PrepareCtx(context.Background(), "prepare")
				if err != nil || st == nil {
					break
				}
				cfg.next = next
				var x int64
				var xs []int64
				e := strings.TrimPrefix(o.E, "stmt")
				if o.O == 4 { // the forms without ctx cannot carry a cancelled context
					e = strings.TrimSuffix(e, "plain")
				}
				switch e {
				case "exec":
					_, err = st.ExecCtx(ctx)
				case "queryrow":
					err = st.QueryRowCtx(ctx, &x)
				case "queryrowpartial":
					err = st.QueryRowPartialCtx(ctx, &x)
				case "queryrows":
					err = st.QueryRowsCtx(ctx, &xs)
				case "queryrowspartial":
					err = st.QueryRowsPartialCtx(ctx, &xs)
				case "execplain":
					_, err = st.Exec()
				case "queryrowplain":
					err = st.QueryRow(&x)
				case "queryrowpartialplain":
					err = st.QueryRowPartial(&x)
				case "queryrowsplain":
					err = st.QueryRows(&xs)
				case "queryrowspartialplain":
					err = st.QueryRowsPartial(&xs)
				}
				_ = st.Close()
				classes["statement-session"] = true
			case "prepare":
				var st StmtSession
				st, err = conn.PrepareCtx(ctx, "prepare")
				if err == nil && st != nil {
					_ = st.Close()
				}
			case "queryrowpartial":
				var x int64
				err = conn.QueryRowPartialCtx(ctx, &x, "queryrow")
			case "queryrowspartial":
				var xs []int64
				err = conn.QueryRowsPartialCtx(ctx, &xs, "queryrows")
			case "transact", "transactnoctx":
				b := o.B
				// keep the step total for shrunk / hand-written cases
				if (b == 2 || b == 3) && o.O != 2 || b == 4 && o.O != 1 || b == 1 && (o.O == 0 || o.O == 4) || b < 0 || b > 4 {
					b = 0
				}
				switch b {
				case 1, 2, 3:
					cfg.next = nil // the driver itself is healthy
				case 4:
					cfg.next, cfg.rows = nil, 0
				}
				body := func(ctx context.Context, s Session) error {
					switch b {
					case 1:
						return want
					case 2:
						if e := s.(trans).Commit(); e != nil {
							return fmt.Errorf("harness: body commit: %v", e)
						}
						return nil
					case 3:
						if e := s.(trans).Rollback(); e != nil {
							return fmt.Errorf("harness: body rollback: %v", e)
						}
						return nil
					case 4:
						var x int64
						return s.QueryRowCtx(ctx, &x, "queryrow")
					}
					_, e := s.ExecCtx(ctx, "exec")
					return e
				}
				classes[fmt.Sprintf("tx-body-%d/outcome-%d", b, o.O)] = true
				if o.E == "transactnoctx" && o.O != 4 {
					err = conn.Transact(func(s Session) error { return body(context.Background(), s) })
				} else {
					err = conn.TransactCtx(ctx, body)
				}
			}
			classes[o.E] = true
			what := fmt.Sprintf("step %d %+v (call %d of connection %d)", i, o, calls[n], n)
			if provided[n] == before {
				rejected[n]++
				if err != breaker.ErrServiceUnavailable {
					fail = fmt.Sprintf("%s: connection provider not consulted but the result is %v", what, err)
					return
				}
				if mustNever(n) {
					fail = fmt.Sprintf("%s rejected by the breaker although this connection (accept option %d) saw only outcomes that are benign for it and %d (<=5) failures; kinds %v options %v", what, opt(n), nfail[n], c.Kind, c.Opt)
					return
				}
				continue
			}
			// what the caller gets back is judged by identity, except where the error
			// is produced by the final Commit of a transaction the body ended itself:
			// there only the breaker's reaction is the subject (errors.Is suffices)
			selfEnded := (o.E == "transact" || o.E == "transactnoctx") && (o.B == 2 || o.B == 3) && o.O == 2
			if err != want && !(selfEnded && errors.Is(err, want)) {
				fail = fmt.Sprintf("%s: returned %v, expected the environment's %v", what, err, want)
				return
			}
		}
		for n := 0; n < c.K; n++ {
			switch {
			case mustNever(n):
				for j := 0; j < 500; j++ {
					if _, err := conns[n].brk.Allow(); err != nil {
						fail = fmt.Sprintf("connection %d (accept option %d): after only outcomes benign for it and %d (<=5) failures its breaker rejects (probe %d); kinds %v options %v", n, opt(n), nfail[n], j, c.Kind, c.Opt)
						return
					}
				}
			case mustCut(n):
				if rejected[n] == 0 {
					fail = fmt.Sprintf("connection %d: %d consecutive database failures were all admitted: the breaker never cut off", n, calls[n])
					return
				}
			}
		}
	})
	hasB, hasF := false, false
	for n, kd := range c.Kind {
		switch {
		case mustNever(n) && kd == 1:
			classes["conn-whose-failures-its-accept-option-accepts"] = true
			hasB = true
		case mustNever(n):
			classes["benign-conn"] = true
			hasB = true
		case mustCut(n):
			classes["failing-conn"] = true
			hasF = true
		default:
			classes["mixed-conn"] = true
		}
		if opt(n) == 1 {
			classes["conn-with-accept-option"] = true
		}
		if ctor(n) == 1 {
			classes["conn-from-NewConn"] = true
			if opt(n) == 1 {
				classes["conn-from-NewConn-with-accept-option"] = true
			}
		}
	}
	for _, st := range c.Steps {
		if st.O == 8 {
			classes["fault-provider-refused"] = true
		}
		if strings.HasSuffix(st.E, "plain") || st.E == "transactnoctx" {
			classes["form-without-ctx"] = true
		}
	}
	if c.K > 1 {
		classes["several-connections"] = true
	}
	v.NonTrivial = hasB || hasF
	for k := range classes {
		v.Classes = append(v.Classes, k)
	}
	sort.Strings(v.Classes)
	if fail != "" {
		v.Fail = fail
	} else if !res.OK() {
		v.Fail = "bubble: " + res.String()
	}
	return v
}

func TestVerif_C01_sqlx_run(t *testing.T) {
	kit.Run(t, "C01", "sqlx-run", kit.Opts{Quick: 400, Thorough: 6400}, c01GenSQL,
		func(c c01SQLCase) kit.Verdict { return c01InterpSQL(t, c) })
}
