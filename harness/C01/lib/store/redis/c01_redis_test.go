package redis

// C01 — Redis integration: redis.Nil, context.Canceled and nil are benign for
// the node's breaker. Table over acceptable() and generated runs of real
// commands against a miniredis (missing hash fields / list elements / zset
// members give redis.Nil, a cancelled context gives context.Canceled, a command
// on a key of the wrong type gives a real failure).

import (
	"context"
	"errors"
	"fmt"
	"io"
	"sort"
	"testing"
	"time"

	"github.com/alicebob/miniredis/v2"
	red "github.com/go-redis/redis/v8"
	"github.com/gotid/god/lib/breaker"
	"github.com/gotid/god/lib/logx"
	"pgregory.net/rapid"
	"verif.local/kit"
)

func init() { logx.Disable() }

type c01RTab struct {
	Err string `json:"e"`
}

func TestVerif_C01_redis_table(t *testing.T) {
	plain := errors.New("c01: redis down")
	each := func(yield func(c01RTab) bool) {
		for _, e := range []string{"nil", "redis.Nil", "canceled", "plain", "eof", "unavailable", "deadline"} {
			if !yield(c01RTab{e}) {
				return
			}
		}
	}
	kit.Enumerate(t, "C01", "redis-acceptable-table", each, func(c c01RTab) (v kit.Verdict) {
		var err error
		benign := false
		switch c.Err {
		case "nil":
			benign = true
		case "redis.Nil":
			err, benign = red.Nil, true
		case "canceled":
			err, benign = context.Canceled, true
		case "plain":
			err = plain
		case "eof":
			err = io.EOF
		case "unavailable":
			err = breaker.ErrServiceUnavailable
		case "deadline":
			err = context.DeadlineExceeded
		}
		v.NonTrivial = true
		if benign {
			v.Classes = []string{"benign-sentinel"}
		} else {
			v.Classes = []string{"failure"}
		}
		if got := acceptable(err); got != benign {
			return v.Failf("redis acceptable(%v) = %v, statement: benign=%v", err, got, benign)
		}
		return v
	})
}

type c01ROp struct {
	C string `json:"c"` // get hget lpop rpop zscore zrank set
	O int    `json:"o"` // 0 ok/value present 1 missing (redis.Nil) 2 cancelled ctx 9 wrong type (failure)
}

type c01RCase struct {
	Benign bool     `json:"benign"`
	Ops    []c01ROp `json:"ops"`
	Skew   int64    `json:"skew,omitempty"`
}

func c01GenRedis(rt *rapid.T) c01RCase {
	c := c01RCase{Benign: rapid.IntRange(0, 3).Draw(rt, "benign") != 0}
	c.Skew = rapid.Int64Range(0, 1_000_000_000).Draw(rt, "skew")
	n := rapid.IntRange(200, 300).Draw(rt, "n")
	cmds := []string{"hget", "lpop", "rpop", "zscore", "zrank", "get"}
	if c.Benign {
		pool := []int{0, 1, 1, 2}
		if rapid.Bool().Draw(rt, "single") {
			pool = []int{rapid.IntRange(1, 2).Draw(rt, "the")}
		}
		if rapid.Bool().Draw(rt, "onecmd") { // a miscounting command must not be diluted by the others
			cmds = []string{rapid.SampledFrom(cmds).Draw(rt, "thecmd")}
		}
		for i := 0; i < n; i++ {
			c.Ops = append(c.Ops, c01ROp{rapid.SampledFrom(cmds).Draw(rt, "c"), rapid.SampledFrom(pool).Draw(rt, "o")})
		}
		nf := rapid.IntRange(0, 5).Draw(rt, "nfail")
		for i := 0; i < nf; i++ {
			c.Ops[rapid.IntRange(0, n-1).Draw(rt, "pos")].O = 9
		}
	} else {
		for i := 0; i < n; i++ {
			c.Ops = append(c.Ops, c01ROp{rapid.SampledFrom(cmds).Draw(rt, "c"), 9})
		}
	}
	return c
}

func c01InterpRedis(t *testing.T, s *miniredis.Miniredis, c c01RCase) (v kit.Verdict) {
	var fail string
	rejected, nfail := 0, 0
	classes := map[string]bool{}
	res := kit.Bubble(t, func() {
		if c.Skew > 0 {
			time.Sleep(time.Duration(c.Skew))
		}
		r := New(s.Addr()) // fresh breaker, shared client
		cancelled, cancel := context.WithCancel(context.Background())
		cancel()
		for i, o := range c.Ops {
			ctx := context.Background()
			// keys: "h" hash{f:v}, "l" list (refilled), "z" zset{m:1}, "s" string; "none" is missing
			key := map[string]string{"hget": "h", "lpop": "l", "rpop": "l", "zscore": "z", "zrank": "z", "get": "s"}[o.C]
			var want error
			wantNil := false
			switch o.O {
			case 0:
				if o.C == "lpop" || o.C == "rpop" {
					s.Lpush("l", "x")
				}
			case 1:
				key = "none"
				if o.C != "get" { // Get maps a missing key to ("", nil) itself
					want, wantNil = red.Nil, true
				}
			case 2:
				ctx, want = cancelled, context.Canceled
			case 9:
				key = "s"
				if o.C == "get" {
					key = "h"
				}
				nfail++
			}
			before := s.CommandCount()
			var err error
			switch o.C {
			case "hget":
				_, err = r.HGetCtx(ctx, key, "f")
			case "lpop":
				_, err = r.LPopCtx(ctx, key)
			case "rpop":
				_, err = r.RPopCtx(ctx, key)
			case "zscore":
				_, err = r.ZScoreCtx(ctx, key, "m")
			case "zrank":
				_, err = r.ZRankCtx(ctx, key, "m")
			case "get":
				_, err = r.GetCtx(ctx, key)
			}
			what := fmt.Sprintf("call %d %+v", i, o)
			classes[fmt.Sprintf("%s/%d", o.C, o.O)] = true
			if err == breaker.ErrServiceUnavailable {
				rejected++
				if s.CommandCount() != before {
					fail = fmt.Sprintf("%s: rejected by the breaker but the command reached the server", what)
					return
				}
				if c.Benign {
					fail = fmt.Sprintf("%s rejected by the breaker after only benign outcomes and %d (<=5) failures", what, nfail)
					return
				}
				continue
			}
			switch {
			case o.O == 9:
				if err == nil || err == red.Nil || err == context.Canceled {
					fail = fmt.Sprintf("%s: harness environment: wrong-type command did not fail (%v)", what, err)
					return
				}
			case err != want:
				fail = fmt.Sprintf("%s: harness environment: got %v, expected %v (redis.Nil expected: %v)", what, err, want, wantNil)
				return
			}
		}
		if c.Benign {
			for j := 0; j < 500; j++ {
				if _, err := r.brk.Allow(); err != nil {
					fail = fmt.Sprintf("after a run of benign outcomes and %d (<=5) failures the node's breaker rejects (probe %d)", nfail, j)
					return
				}
			}
		} else if rejected == 0 {
			fail = fmt.Sprintf("%d consecutive failing commands were all admitted: the breaker never cut off", len(c.Ops))
		}
	})
	v.NonTrivial = true
	if c.Benign {
		classes["benign-run"] = true
	} else {
		classes["failing-run"] = true
	}
	for k := range classes {
		v.Classes = append(v.Classes, k)
	}
	sort.Strings(v.Classes)
	if fail != "" {
		v.Fail = fail
	} else if res.Hang || res.Panic != "" {
		v.Fail = "bubble: " + res.String()
	}
	return v
}

func TestVerif_C01_redis_run(t *testing.T) {
	s, err := miniredis.Run()
	if err != nil {
		t.Fatalf("miniredis: %v", err)
	}
	defer s.Close()
	s.HSet("h", "f", "v")
	s.ZAdd("z", 1, "m")
	_ = s.Set("s", "str")
	if !New(s.Addr()).Ping() { // warm the shared client up outside any bubble
		t.Fatalf("miniredis does not answer")
	}
	kit.Run(t, "C01", "redis-run", kit.Opts{Quick: 200, Thorough: 3200}, c01GenRedis,
		func(c c01RCase) kit.Verdict { return c01InterpRedis(t, s, c) })
}
