package redis

// C01 — Redis integration: redis.Nil, context.Canceled and nil are benign for
// the node's breaker. Table over acceptable() and generated runs of real
// commands against a miniredis (missing hash fields / list elements / zset
// members give redis.Nil, a cancelled context gives context.Canceled, a command
// on a key of the wrong type gives a real failure).

import (
	"context"
	"errors"
	"fmt"
	"io"
	"sort"
	"testing"
	"time"

	"github.com/alicebob/miniredis/v2"
	red "github.com/go-redis/redis/v8"
	"github.com/gotid/god/lib/breaker"
	"github.com/gotid/god/lib/logx"
	"pgregory.net/rapid"
	"verif.local/kit"
)

func init() { logx.Disable() }

// c01PtrErr: an error whose nil pointer is a usable error value
type c01PtrErr struct{}

func (e *c01PtrErr) Error() string { return "c01 typed nil" }

type c01RTab struct {
	Err string `json:"e"`
}

func TestVerif_C01_redis_table(t *testing.T) {
	plain := errors.New("c01: redis down")
	each := func(yield func(c01RTab) bool) {
		// the last four are UNSPECIFIED by the statement (it names the sentinel values; the code
		// compares with ==): wrapped / joined sentinels and a typed nil are run for panics only
		for _, e := range []string{"nil", "redis.Nil", "canceled", "plain", "eof", "unavailable", "deadline",
			"wrapped-redis.Nil", "wrapped-canceled", "joined", "typednil"} {
			if !yield(c01RTab{e}) {
				return
			}
		}
	}
	kit.Enumerate(t, "C01", "redis-acceptable-table", each, func(c c01RTab) (v kit.Verdict) {
		var err error
		benign := false
		switch c.Err {
		case "nil":
			benign = true
		case "redis.Nil":
			err, benign = red.Nil, true
		case "canceled":
			err, benign = context.Canceled, true
		case "plain":
			err = plain
		case "eof":
			err = io.EOF
		case "unavailable":
			err = breaker.ErrServiceUnavailable
		case "deadline":
			err = context.DeadlineExceeded
		case "wrapped-redis.Nil", "wrapped-canceled", "joined", "typednil":
			switch c.Err {
			case "wrapped-redis.Nil":
				err = fmt.Errorf("c01 wrap: %w", red.Nil)
			case "wrapped-canceled":
				err = fmt.Errorf("c01 wrap: %w", context.Canceled)
			case "joined":
				err = errors.Join(red.Nil, plain)
			case "typednil":
				var p *c01PtrErr
				err = p
			}
			v.Classes = []string{"unspecified-error-value"}
			_ = acceptable(err) // a panic here crashes the check: that is the only verdict
			return v
		}
		v.NonTrivial = true
		if benign {
			v.Classes = []string{"benign-sentinel"}
		} else {
			v.Classes = []string{"failure"}
		}
		if got := acceptable(err); got != benign {
			return v.Failf("redis acceptable(%v) = %v, statement: benign=%v", err, got, benign)
		}
		return v
	})
}

type c01ROp struct {
	N int    `json:"n"` // node (address) index
	C string `json:"c"` // get hget lpop rpop zscore zrank
	O int    `json:"o"` // 0 ok/value present 1 missing (redis.Nil) 2 cancelled ctx 9 wrong type (failure)
}

type c01RCase struct {
	K    int      `json:"k"`    // redis nodes = addresses, each Redis value has its own breaker
	Kind []int    `json:"kind"` // per node: 0 benign, 1 failing, 2 mixed
	Ops  []c01ROp `json:"ops"`
	Skew int64    `json:"skew,omitempty"`
}

func c01GenRedis(rt *rapid.T) c01RCase {
	c := c01RCase{K: rapid.IntRange(1, 3).Draw(rt, "k")}
	c.Skew = rapid.Int64Range(0, 1_000_000_000).Draw(rt, "skew")
	all := []string{"hget", "lpop", "rpop", "zscore", "zrank", "get"}
	scripts := make([][]c01ROp, c.K)
	for n := 0; n < c.K; n++ {
		kind := rapid.SampledFrom([]int{0, 0, 1, 1, 2}).Draw(rt, "kind")
		c.Kind = append(c.Kind, kind)
		cmds := all
		if rapid.Bool().Draw(rt, "onecmd") { // a miscounting command must not be diluted by the others
			cmds = []string{rapid.SampledFrom(all).Draw(rt, "thecmd")}
		}
		switch kind {
		case 0:
			ln := rapid.IntRange(200, 260).Draw(rt, "n")
			pool := []int{0, 1, 1, 2}
			if rapid.Bool().Draw(rt, "single") {
				pool = []int{rapid.IntRange(1, 2).Draw(rt, "the")}
			}
			for i := 0; i < ln; i++ {
				scripts[n] = append(scripts[n], c01ROp{n, rapid.SampledFrom(cmds).Draw(rt, "c"), rapid.SampledFrom(pool).Draw(rt, "o")})
			}
			nf := rapid.IntRange(0, 5).Draw(rt, "nfail")
			for i := 0; i < nf; i++ {
				scripts[n][rapid.IntRange(0, ln-1).Draw(rt, "pos")].O = 9
			}
		case 1:
			ln := rapid.IntRange(200, 260).Draw(rt, "n")
			for i := 0; i < ln; i++ {
				scripts[n] = append(scripts[n], c01ROp{n, rapid.SampledFrom(cmds).Draw(rt, "c"), 9})
			}
		default:
			ln := rapid.IntRange(20, 150).Draw(rt, "n")
			for i := 0; i < ln; i++ {
				scripts[n] = append(scripts[n], c01ROp{n, rapid.SampledFrom(cmds).Draw(rt, "c"), rapid.SampledFrom([]int{0, 1, 2, 9, 9}).Draw(rt, "o")})
			}
		}
	}
	pos := make([]int, c.K)
	for {
		var active []int
		for n := range scripts {
			if pos[n] < len(scripts[n]) {
				active = append(active, n)
			}
		}
		if len(active) == 0 {
			break
		}
		n := rapid.SampledFrom(active).Draw(rt, "node")
		chunk := rapid.SampledFrom([]int{1, 1, 2, 5, 20, 100, 400}).Draw(rt, "chunk")
		for ; chunk > 0 && pos[n] < len(scripts[n]); chunk-- {
			c.Ops = append(c.Ops, scripts[n][pos[n]])
			pos[n]++
		}
	}
	return c
}

func c01InterpRedis(t *testing.T, servers []*miniredis.Miniredis, c c01RCase) (v kit.Verdict) {
	var fail string
	rejected := make([]int, c.K)
	nfail := make([]int, c.K)
	calls := make([]int, c.K)
	classes := map[string]bool{}
	stalled := -1
	defer func() {
		if stalled >= 0 { // control measurement, see c01RealNow: excluded, never a failure
			v = kit.Verdict{Excluded: true, Classes: []string{"env:stalled-call"}}
			servers[stalled].Close()
			servers[stalled] = c01RunServer(t)
		}
	}()
	res := kit.Bubble(t, func() {
		if c.Skew > 0 {
			time.Sleep(time.Duration(c.Skew))
		}
		nodes := make([]*Redis, c.K)
		for n := range nodes {
			nodes[n] = New(servers[n].Addr()) // fresh breaker named after the address, shared client
		}
		cancelled, cancel := context.WithCancel(context.Background())
		cancel()
		for i, o := range c.Ops {
			n := o.N % c.K
			r, s := nodes[n], servers[n]
			ctx := context.Background()
			// keys: "h" hash{f:v}, "l" list (refilled), "z" zset{m:1}, "s" string; "none" is missing
			key := map[string]string{"hget": "h", "lpop": "l", "rpop": "l", "zscore": "z", "zrank": "z", "get": "s"}[o.C]
			var want error
			switch o.O {
			case 0:
				if o.C == "lpop" || o.C == "rpop" {
					s.Lpush("l", "x")
				}
			case 1:
				key = "none"
				if o.C != "get" { // Get maps a missing key to ("", nil) itself
					want = red.Nil
				}
			case 2:
				ctx, want = cancelled, context.Canceled
			case 9:
				key = "s"
				if o.C == "get" {
					key = "h"
				}
				nfail[n]++
			}
			calls[n]++
			before := s.CommandCount()
			var err error
			t0 := c01RealNow()
			switch o.C {
			case "hget":
				_, err = r.HGetCtx(ctx, key, "f")
			case "lpop":
				_, err = r.LPopCtx(ctx, key)
			case "rpop":
				_, err = r.RPopCtx(ctx, key)
			case "zscore":
				_, err = r.ZScoreCtx(ctx, key, "m")
			case "zrank":
				_, err = r.ZRankCtx(ctx, key, "m")
			case "get":
				_, err = r.GetCtx(ctx, key)
			}
			if c01RealNow()-t0 > c01Stall {
				stalled = n
				return
			}
			what := fmt.Sprintf("op %d %+v (call %d of node %d)", i, o, calls[n], n)
			classes[fmt.Sprintf("%s/%d", o.C, o.O)] = true
			if err == breaker.ErrServiceUnavailable {
				rejected[n]++
				if s.CommandCount() != before {
					fail = fmt.Sprintf("%s: rejected by the breaker but the command reached the server", what)
					return
				}
				if c.Kind[n] == 0 {
					fail = fmt.Sprintf("%s rejected by the breaker although this node saw only benign outcomes and %d (<=5) failures; kinds of all nodes: %v", what, nfail[n], c.Kind)
					return
				}
				continue
			}
			switch {
			case o.O == 9:
				if err == nil || err == red.Nil || err == context.Canceled {
					fail = fmt.Sprintf("%s: harness environment: wrong-type command did not fail (%v)", what, err)
					return
				}
			case err != want:
				fail = fmt.Sprintf("%s: harness environment: got %v, expected %v", what, err, want)
				return
			}
		}
		for n := 0; n < c.K; n++ {
			switch c.Kind[n] {
			case 0:
				for j := 0; j < 500; j++ {
					if _, err := nodes[n].brk.Allow(); err != nil {
						fail = fmt.Sprintf("node %d: after only benign outcomes and %d (<=5) failures its breaker rejects (probe %d); kinds of all nodes: %v", n, nfail[n], j, c.Kind)
						return
					}
				}
			case 1:
				if rejected[n] == 0 {
					fail = fmt.Sprintf("node %d: %d consecutive failing commands were all admitted: the breaker never cut off", n, calls[n])
					return
				}
			}
		}
	})
	hasB, hasF := false, false
	for _, kd := range c.Kind {
		classes[[]string{"benign-node", "failing-node", "mixed-node"}[kd]] = true
		hasB = hasB || kd == 0
		hasF = hasF || kd == 1
	}
	if c.K > 1 {
		classes["several-addresses"] = true
	}
	v.NonTrivial = hasB || hasF
	for k := range classes {
		v.Classes = append(v.Classes, k)
	}
	sort.Strings(v.Classes)
	if fail != "" {
		v.Fail = fail
	} else if res.Hang || res.Panic != "" {
		v.Fail = "bubble: " + res.String()
	}
	return v
}

// c01RunServer: a miniredis with the keys of redis-run; the shared client of its address
// is warmed up outside any bubble.
func c01RunServer(t *testing.T) *miniredis.Miniredis {
	s, err := miniredis.Run()
	if err != nil {
		t.Fatalf("miniredis: %v", err)
	}
	s.HSet("h", "f", "v")
	s.ZAdd("z", 1, "m")
	_ = s.Set("s", "str")
	if !New(s.Addr()).Ping() {
		t.Fatalf("miniredis does not answer")
	}
	return s
}

func TestVerif_C01_redis_run(t *testing.T) {
	servers := make([]*miniredis.Miniredis, 3)
	for i := range servers {
		servers[i] = c01RunServer(t)
	}
	defer func() {
		for _, s := range servers {
			s.Close()
		}
	}()
	kit.Run(t, "C01", "redis-run", kit.Opts{Quick: 120, Thorough: 2400}, c01GenRedis,
		func(c c01RCase) kit.Verdict { return c01InterpRedis(t, servers, c) })
}
