package redis

// C01 — Redis integration, the whole command surface: EVERY method of *Redis that
// goes through the node's breaker (96 Ctx methods and their forms without ctx,
// Pipelined included), on a node client and on a cluster client (WithCluster),
// must treat nil / redis.Nil / context.Canceled as benign (never a step towards
// open) and an error reply of the server as a failure (a node that only fails is
// cut off). One case = one fresh *Redis (fresh breaker) x one command x one form
// x one client type x one script of outcomes; the catalogue is enumerated.
//
// Outcomes ("modes") of a call:
//   0 the command succeeds on a key of the right type
//   1 the key / member is missing: the commands that have no value to return
//     yield redis.Nil (Get and GetSet map it to ("", nil) themselves)
//   2 the caller's context is cancelled (Ctx forms only)
//   8 the server answers the command with an error reply (miniredis SetError)
//   9 the key holds a value of the wrong type (WRONGTYPE, where redis checks it)
//   7 the *Redis was given a Type the package does not support by a caller-written
//     Option (the Option type is exported): every command fails before it reaches a
//     server - scripts of failures only
// BLPop*/ScriptLoad do not pass through the breaker (documented in redis.go) and
// are therefore not in the catalogue.

import (
	"context"
	"crypto/sha1"
	"encoding/hex"
	"fmt"
	"os"
	"sort"
	"strings"
	"syscall"
	"testing"
	"time"

	"github.com/alicebob/miniredis/v2"
	red "github.com/go-redis/redis/v8"
	"github.com/gotid/god/lib/breaker"
	"verif.local/kit"
)

func c01e2[T any](_ T, err error) error         { return err }
func c01e3[A, B any](_ A, _ B, err error) error { return err }

const c01Lua = `return redis.call('GET', KEYS[1])`

var c01LuaSha = func() string { h := sha1.Sum([]byte(c01Lua)); return hex.EncodeToString(h[:]) }()

type c01Cmd struct {
	name  string
	typ   string // type of the key argument: string hash list set zset geo hll none
	nilOK bool   // missing key => redis.Nil reaches the caller
	noOK  bool   // miniredis cannot answer this command successfully (mode 0 not generated)
	wrong bool   // a key of the wrong type makes the server answer WRONGTYPE / an error
	noErr bool   // the method has no error result (Ping): only the benign direction is judged
	local bool   // never contacts the server with these arguments: every call is a success
	ctx   func(r *Redis, ctx context.Context, k string) error
	plain func(r *Redis, k string) error
}

var c01GeoQ = &GeoRadiusQuery{Radius: 500, Unit: "km"}

func c01Catalogue() []c01Cmd {
	bg := context.Background
	_ = bg
	return []c01Cmd{
		{name: "BitCount", typ: "string", wrong: true,
			ctx:   func(r *Redis, c context.Context, k string) error { return c01e2(r.BitCountCtx(c, k, 0, -1)) },
			plain: func(r *Redis, k string) error { return c01e2(r.BitCount(k, 0, -1)) }},
		{name: "BitOpAnd", typ: "string", wrong: true,
			ctx:   func(r *Redis, c context.Context, k string) error { return c01e2(r.BitOpAndCtx(c, "w", k, "s2")) },
			plain: func(r *Redis, k string) error { return c01e2(r.BitOpAnd("w", k, "s2")) }},
		{name: "BitOpOr", typ: "string", wrong: true,
			ctx:   func(r *Redis, c context.Context, k string) error { return c01e2(r.BitOpOrCtx(c, "w", k, "s2")) },
			plain: func(r *Redis, k string) error { return c01e2(r.BitOpOr("w", k, "s2")) }},
		{name: "BitOpXor", typ: "string", wrong: true,
			ctx:   func(r *Redis, c context.Context, k string) error { return c01e2(r.BitOpXorCtx(c, "w", k, "s2")) },
			plain: func(r *Redis, k string) error { return c01e2(r.BitOpXor("w", k, "s2")) }},
		{name: "BitOpNot", typ: "string", wrong: true,
			ctx:   func(r *Redis, c context.Context, k string) error { return c01e2(r.BitOpNotCtx(c, "w", k)) },
			plain: func(r *Redis, k string) error { return c01e2(r.BitOpNot("w", k)) }},
		{name: "BitPos", typ: "string", wrong: true,
			ctx:   func(r *Redis, c context.Context, k string) error { return c01e2(r.BitPosCtx(c, k, 1, 0, -1)) },
			plain: func(r *Redis, k string) error { return c01e2(r.BitPos(k, 1, 0, -1)) }},
		{name: "Decr", typ: "string", wrong: true,
			ctx:   func(r *Redis, c context.Context, k string) error { return c01e2(r.DecrCtx(c, k)) },
			plain: func(r *Redis, k string) error { return c01e2(r.Decr(k)) }},
		{name: "DecrBy", typ: "string", wrong: true,
			ctx:   func(r *Redis, c context.Context, k string) error { return c01e2(r.DecrByCtx(c, k, 2)) },
			plain: func(r *Redis, k string) error { return c01e2(r.DecrBy(k, 2)) }},
		{name: "Del", typ: "string",
			ctx:   func(r *Redis, c context.Context, k string) error { return c01e2(r.DelCtx(c, k, "w")) },
			plain: func(r *Redis, k string) error { return c01e2(r.Del(k, "w")) }},
		{name: "Eval", typ: "string", nilOK: true, wrong: true,
			ctx:   func(r *Redis, c context.Context, k string) error { return c01e2(r.EvalCtx(c, c01Lua, []string{k})) },
			plain: func(r *Redis, k string) error { return c01e2(r.Eval(c01Lua, []string{k})) }},
		{name: "EvalSha", typ: "string", nilOK: true, wrong: true,
			ctx: func(r *Redis, c context.Context, k string) error {
				return c01e2(r.EvalShaCtx(c, c01LuaSha, []string{k}))
			},
			plain: func(r *Redis, k string) error { return c01e2(r.EvalSha(c01LuaSha, []string{k})) }},
		{name: "Exists", typ: "string",
			ctx:   func(r *Redis, c context.Context, k string) error { return c01e2(r.ExistsCtx(c, k)) },
			plain: func(r *Redis, k string) error { return c01e2(r.Exists(k)) }},
		{name: "Expire", typ: "string",
			ctx:   func(r *Redis, c context.Context, k string) error { return r.ExpireCtx(c, k, 100) },
			plain: func(r *Redis, k string) error { return r.Expire(k, 100) }},
		{name: "ExpireAt", typ: "string",
			ctx:   func(r *Redis, c context.Context, k string) error { return r.ExpireAtCtx(c, k, 4102444800) },
			plain: func(r *Redis, k string) error { return r.ExpireAt(k, 4102444800) }},
		{name: "GeoAdd", typ: "geo", wrong: true,
			ctx: func(r *Redis, c context.Context, k string) error {
				return c01e2(r.GeoAddCtx(c, k, &GeoLocation{Name: "p", Longitude: 13.361389, Latitude: 38.115556}))
			},
			plain: func(r *Redis, k string) error {
				return c01e2(r.GeoAdd(k, &GeoLocation{Name: "p", Longitude: 13.361389, Latitude: 38.115556}))
			}},
		{name: "GeoDist", typ: "geo", nilOK: true, wrong: true,
			ctx:   func(r *Redis, c context.Context, k string) error { return c01e2(r.GeoDistCtx(c, k, "p", "q", "km")) },
			plain: func(r *Redis, k string) error { return c01e2(r.GeoDist(k, "p", "q", "km")) }},
		{name: "GeoHash", typ: "geo", noOK: true,
			ctx:   func(r *Redis, c context.Context, k string) error { return c01e2(r.GeoHashCtx(c, k, "p")) },
			plain: func(r *Redis, k string) error { return c01e2(r.GeoHash(k, "p")) }},
		{name: "GeoRadius", typ: "geo", // miniredis answers an empty result for a key of the wrong type

			ctx:   func(r *Redis, c context.Context, k string) error { return c01e2(r.GeoRadiusCtx(c, k, 15, 37, c01GeoQ)) },
			plain: func(r *Redis, k string) error { return c01e2(r.GeoRadius(k, 15, 37, c01GeoQ)) }},
		{name: "GeoRadiusByMember", typ: "geo", nilOK: true, wrong: true, // miniredis: nil reply for a missing key

			ctx: func(r *Redis, c context.Context, k string) error {
				return c01e2(r.GeoRadiusByMemberCtx(c, k, "p", c01GeoQ))
			},
			plain: func(r *Redis, k string) error { return c01e2(r.GeoRadiusByMember(k, "p", c01GeoQ)) }},
		{name: "GeoPos", typ: "geo", wrong: true,
			ctx:   func(r *Redis, c context.Context, k string) error { return c01e2(r.GeoPosCtx(c, k, "p")) },
			plain: func(r *Redis, k string) error { return c01e2(r.GeoPos(k, "p")) }},
		{name: "Get", typ: "string", wrong: true,
			ctx:   func(r *Redis, c context.Context, k string) error { return c01e2(r.GetCtx(c, k)) },
			plain: func(r *Redis, k string) error { return c01e2(r.Get(k)) }},
		{name: "GetBit", typ: "string", wrong: true,
			ctx:   func(r *Redis, c context.Context, k string) error { return c01e2(r.GetBitCtx(c, k, 0)) },
			plain: func(r *Redis, k string) error { return c01e2(r.GetBit(k, 0)) }},
		{name: "GetSet", typ: "string", wrong: true,
			ctx:   func(r *Redis, c context.Context, k string) error { return c01e2(r.GetSetCtx(c, k, "10")) },
			plain: func(r *Redis, k string) error { return c01e2(r.GetSet(k, "10")) }},
		{name: "HDel", typ: "hash", wrong: true,
			ctx:   func(r *Redis, c context.Context, k string) error { return c01e2(r.HDelCtx(c, k, "g")) },
			plain: func(r *Redis, k string) error { return c01e2(r.HDel(k, "g")) }},
		{name: "HExists", typ: "hash", wrong: true,
			ctx:   func(r *Redis, c context.Context, k string) error { return c01e2(r.HExistsCtx(c, k, "f")) },
			plain: func(r *Redis, k string) error { return c01e2(r.HExists(k, "f")) }},
		{name: "HGet", typ: "hash", nilOK: true, wrong: true,
			ctx:   func(r *Redis, c context.Context, k string) error { return c01e2(r.HGetCtx(c, k, "f")) },
			plain: func(r *Redis, k string) error { return c01e2(r.HGet(k, "f")) }},
		{name: "HGetAll", typ: "hash", wrong: true,
			ctx:   func(r *Redis, c context.Context, k string) error { return c01e2(r.HGetAllCtx(c, k)) },
			plain: func(r *Redis, k string) error { return c01e2(r.HGetAll(k)) }},
		{name: "HIncrBy", typ: "hash", wrong: true,
			ctx:   func(r *Redis, c context.Context, k string) error { return c01e2(r.HIncrByCtx(c, k, "f", 1)) },
			plain: func(r *Redis, k string) error { return c01e2(r.HIncrBy(k, "f", 1)) }},
		{name: "HKeys", typ: "hash", wrong: true,
			ctx:   func(r *Redis, c context.Context, k string) error { return c01e2(r.HKeysCtx(c, k)) },
			plain: func(r *Redis, k string) error { return c01e2(r.HKeys(k)) }},
		{name: "HLen", typ: "hash", wrong: true,
			ctx:   func(r *Redis, c context.Context, k string) error { return c01e2(r.HLenCtx(c, k)) },
			plain: func(r *Redis, k string) error { return c01e2(r.HLen(k)) }},
		{name: "HMGet", typ: "hash", wrong: true,
			ctx:   func(r *Redis, c context.Context, k string) error { return c01e2(r.HMGetCtx(c, k, "f", "g")) },
			plain: func(r *Redis, k string) error { return c01e2(r.HMGet(k, "f", "g")) }},
		{name: "HSet", typ: "hash", wrong: true,
			ctx:   func(r *Redis, c context.Context, k string) error { return r.HSetCtx(c, k, "f", "1") },
			plain: func(r *Redis, k string) error { return r.HSet(k, "f", "1") }},
		{name: "HSetNX", typ: "hash", wrong: true,
			ctx:   func(r *Redis, c context.Context, k string) error { return c01e2(r.HSetNXCtx(c, k, "new", "1")) },
			plain: func(r *Redis, k string) error { return c01e2(r.HSetNX(k, "new", "1")) }},
		{name: "HMSet", typ: "hash", wrong: true,
			ctx: func(r *Redis, c context.Context, k string) error {
				return r.HMSetCtx(c, k, map[string]string{"f": "1", "g": "2"})
			},
			plain: func(r *Redis, k string) error { return r.HMSet(k, map[string]string{"f": "1", "g": "2"}) }},
		{name: "HScan", typ: "hash", wrong: true,
			ctx:   func(r *Redis, c context.Context, k string) error { return c01e3(r.HScanCtx(c, k, 0, "*", 10)) },
			plain: func(r *Redis, k string) error { return c01e3(r.HScan(k, 0, "*", 10)) }},
		{name: "HVals", typ: "hash", wrong: true,
			ctx:   func(r *Redis, c context.Context, k string) error { return c01e2(r.HValsCtx(c, k)) },
			plain: func(r *Redis, k string) error { return c01e2(r.HVals(k)) }},
		{name: "Incr", typ: "string", wrong: true,
			ctx:   func(r *Redis, c context.Context, k string) error { return c01e2(r.IncrCtx(c, k)) },
			plain: func(r *Redis, k string) error { return c01e2(r.Incr(k)) }},
		{name: "IncrBy", typ: "string", wrong: true,
			ctx:   func(r *Redis, c context.Context, k string) error { return c01e2(r.IncrByCtx(c, k, 2)) },
			plain: func(r *Redis, k string) error { return c01e2(r.IncrBy(k, 2)) }},
		{name: "Keys", typ: "string",
			ctx:   func(r *Redis, c context.Context, k string) error { return c01e2(r.KeysCtx(c, k+"*")) },
			plain: func(r *Redis, k string) error { return c01e2(r.Keys(k + "*")) }},
		{name: "LLen", typ: "list", wrong: true,
			ctx:   func(r *Redis, c context.Context, k string) error { return c01e2(r.LLenCtx(c, k)) },
			plain: func(r *Redis, k string) error { return c01e2(r.LLen(k)) }},
		{name: "LIndex", typ: "list", nilOK: true, wrong: true,
			ctx:   func(r *Redis, c context.Context, k string) error { return c01e2(r.LIndexCtx(c, k, 0)) },
			plain: func(r *Redis, k string) error { return c01e2(r.LIndex(k, 0)) }},
		{name: "LPop", typ: "list", nilOK: true, wrong: true,
			ctx:   func(r *Redis, c context.Context, k string) error { return c01e2(r.LPopCtx(c, k)) },
			plain: func(r *Redis, k string) error { return c01e2(r.LPop(k)) }},
		{name: "LPush", typ: "list", wrong: true,
			ctx:   func(r *Redis, c context.Context, k string) error { return c01e2(r.LPushCtx(c, k, "v", 7)) },
			plain: func(r *Redis, k string) error { return c01e2(r.LPush(k, "v", 7)) }},
		{name: "LRange", typ: "list", wrong: true,
			ctx:   func(r *Redis, c context.Context, k string) error { return c01e2(r.LRangeCtx(c, k, 0, -1)) },
			plain: func(r *Redis, k string) error { return c01e2(r.LRange(k, 0, -1)) }},
		{name: "LRem", typ: "list", wrong: true,
			ctx:   func(r *Redis, c context.Context, k string) error { return c01e2(r.LRemCtx(c, k, 1, "x")) },
			plain: func(r *Redis, k string) error { return c01e2(r.LRem(k, 1, "x")) }},
		{name: "LTrim", typ: "list", wrong: true,
			ctx:   func(r *Redis, c context.Context, k string) error { return r.LTrimCtx(c, k, 0, 10) },
			plain: func(r *Redis, k string) error { return r.LTrim(k, 0, 10) }},
		{name: "MGet", typ: "string",
			ctx:   func(r *Redis, c context.Context, k string) error { return c01e2(r.MGetCtx(c, k, "s2", "none")) },
			plain: func(r *Redis, k string) error { return c01e2(r.MGet(k, "s2", "none")) }},
		{name: "Persist", typ: "string",
			ctx:   func(r *Redis, c context.Context, k string) error { return c01e2(r.PersistCtx(c, k)) },
			plain: func(r *Redis, k string) error { return c01e2(r.Persist(k)) }},
		{name: "PFAdd", typ: "hll", wrong: true,
			ctx:   func(r *Redis, c context.Context, k string) error { return c01e2(r.PFAddCtx(c, k, "a", "b")) },
			plain: func(r *Redis, k string) error { return c01e2(r.PFAdd(k, "a", "b")) }},
		{name: "PFCount", typ: "hll", wrong: true,
			ctx:   func(r *Redis, c context.Context, k string) error { return c01e2(r.PFCountCtx(c, k)) },
			plain: func(r *Redis, k string) error { return c01e2(r.PFCount(k)) }},
		{name: "PFMerge", typ: "hll", wrong: true,
			ctx:   func(r *Redis, c context.Context, k string) error { return r.PFMergeCtx(c, "w", k) },
			plain: func(r *Redis, k string) error { return r.PFMerge("w", k) }},
		{name: "Ping", typ: "none", noErr: true,
			ctx:   func(r *Redis, c context.Context, k string) error { _ = r.PingCtx(c); return nil },
			plain: func(r *Redis, k string) error { _ = r.Ping(); return nil }},
		{name: "Pipelined", typ: "string", nilOK: true, wrong: true,
			ctx: func(r *Redis, c context.Context, k string) error {
				return r.PipelinedCtx(c, func(p Pipeliner) error { p.Get(c, k); return nil })
			},
			plain: func(r *Redis, k string) error {
				return r.Pipelined(func(p Pipeliner) error { p.Get(context.Background(), k); return nil })
			}},
		{name: "RPop", typ: "list", nilOK: true, wrong: true,
			ctx:   func(r *Redis, c context.Context, k string) error { return c01e2(r.RPopCtx(c, k)) },
			plain: func(r *Redis, k string) error { return c01e2(r.RPop(k)) }},
		{name: "RPush", typ: "list", wrong: true,
			ctx:   func(r *Redis, c context.Context, k string) error { return c01e2(r.RPushCtx(c, k, "v", 7)) },
			plain: func(r *Redis, k string) error { return c01e2(r.RPush(k, "v", 7)) }},
		{name: "SAdd", typ: "set", wrong: true,
			ctx:   func(r *Redis, c context.Context, k string) error { return c01e2(r.SAddCtx(c, k, "a", 7)) },
			plain: func(r *Redis, k string) error { return c01e2(r.SAdd(k, "a", 7)) }},
		{name: "Scan", typ: "string",
			ctx:   func(r *Redis, c context.Context, k string) error { return c01e3(r.ScanCtx(c, 0, k+"*", 10)) },
			plain: func(r *Redis, k string) error { return c01e3(r.Scan(0, k+"*", 10)) }},
		{name: "SetBit", typ: "string", wrong: true,
			ctx:   func(r *Redis, c context.Context, k string) error { return c01e2(r.SetBitCtx(c, k, 1, 1)) },
			plain: func(r *Redis, k string) error { return c01e2(r.SetBit(k, 1, 1)) }},
		{name: "SScan", typ: "set", wrong: true,
			ctx:   func(r *Redis, c context.Context, k string) error { return c01e3(r.SScanCtx(c, k, 0, "*", 10)) },
			plain: func(r *Redis, k string) error { return c01e3(r.SScan(k, 0, "*", 10)) }},
		{name: "SCard", typ: "set", wrong: true,
			ctx:   func(r *Redis, c context.Context, k string) error { return c01e2(r.SCardCtx(c, k)) },
			plain: func(r *Redis, k string) error { return c01e2(r.SCard(k)) }},
		{name: "Set", typ: "string",
			ctx:   func(r *Redis, c context.Context, k string) error { return r.SetCtx(c, k, "10") },
			plain: func(r *Redis, k string) error { return r.Set(k, "10") }},
		{name: "SetEx", typ: "string",
			ctx:   func(r *Redis, c context.Context, k string) error { return r.SetExCtx(c, k, "10", 100) },
			plain: func(r *Redis, k string) error { return r.SetEx(k, "10", 100) }},
		{name: "SetNX", typ: "string",
			ctx:   func(r *Redis, c context.Context, k string) error { return c01e2(r.SetNXCtx(c, k, "10")) },
			plain: func(r *Redis, k string) error { return c01e2(r.SetNX(k, "10")) }},
		{name: "SetNXEx", typ: "string",
			ctx:   func(r *Redis, c context.Context, k string) error { return c01e2(r.SetNXExCtx(c, k, "10", 100)) },
			plain: func(r *Redis, k string) error { return c01e2(r.SetNXEx(k, "10", 100)) }},
		{name: "SIsMember", typ: "set", wrong: true,
			ctx:   func(r *Redis, c context.Context, k string) error { return c01e2(r.SIsMemberCtx(c, k, "a")) },
			plain: func(r *Redis, k string) error { return c01e2(r.SIsMember(k, "a")) }},
		{name: "SMembers", typ: "set", wrong: true,
			ctx:   func(r *Redis, c context.Context, k string) error { return c01e2(r.SMembersCtx(c, k)) },
			plain: func(r *Redis, k string) error { return c01e2(r.SMembers(k)) }},
		{name: "SPop", typ: "set", nilOK: true, wrong: true,
			ctx:   func(r *Redis, c context.Context, k string) error { return c01e2(r.SPopCtx(c, k)) },
			plain: func(r *Redis, k string) error { return c01e2(r.SPop(k)) }},
		{name: "SRandMember", typ: "set", nilOK: true, wrong: true, // miniredis: nil reply for a missing key

			ctx:   func(r *Redis, c context.Context, k string) error { return c01e2(r.SRandMemberCtx(c, k, 1)) },
			plain: func(r *Redis, k string) error { return c01e2(r.SRandMember(k, 1)) }},
		{name: "SRem", typ: "set", wrong: true,
			ctx:   func(r *Redis, c context.Context, k string) error { return c01e2(r.SRemCtx(c, k, "a", 7)) },
			plain: func(r *Redis, k string) error { return c01e2(r.SRem(k, "a", 7)) }},
		{name: "SUnion", typ: "set", wrong: true,
			ctx:   func(r *Redis, c context.Context, k string) error { return c01e2(r.SUnionCtx(c, k, "set2")) },
			plain: func(r *Redis, k string) error { return c01e2(r.SUnion(k, "set2")) }},
		{name: "SUnionStore", typ: "set", wrong: true,
			ctx:   func(r *Redis, c context.Context, k string) error { return c01e2(r.SUnionStoreCtx(c, "w", k, "set2")) },
			plain: func(r *Redis, k string) error { return c01e2(r.SUnionStore("w", k, "set2")) }},
		{name: "SDiff", typ: "set", wrong: true,
			ctx:   func(r *Redis, c context.Context, k string) error { return c01e2(r.SDiffCtx(c, k, "set2")) },
			plain: func(r *Redis, k string) error { return c01e2(r.SDiff(k, "set2")) }},
		{name: "SDiffStore", typ: "set", wrong: true,
			ctx:   func(r *Redis, c context.Context, k string) error { return c01e2(r.SDiffStoreCtx(c, "w", k, "set2")) },
			plain: func(r *Redis, k string) error { return c01e2(r.SDiffStore("w", k, "set2")) }},
		{name: "SInter", typ: "set", wrong: true,
			ctx:   func(r *Redis, c context.Context, k string) error { return c01e2(r.SInterCtx(c, k, "set2")) },
			plain: func(r *Redis, k string) error { return c01e2(r.SInter(k, "set2")) }},
		{name: "SInterStore", typ: "set", wrong: true,
			ctx:   func(r *Redis, c context.Context, k string) error { return c01e2(r.SInterStoreCtx(c, "w", k, "set2")) },
			plain: func(r *Redis, k string) error { return c01e2(r.SInterStore("w", k, "set2")) }},
		{name: "TTL", typ: "string",
			ctx:   func(r *Redis, c context.Context, k string) error { return c01e2(r.TTLCtx(c, k)) },
			plain: func(r *Redis, k string) error { return c01e2(r.TTL(k)) }},
		{name: "ZAdd", typ: "zset", wrong: true,
			ctx:   func(r *Redis, c context.Context, k string) error { return c01e2(r.ZAddCtx(c, k, 3, "o")) },
			plain: func(r *Redis, k string) error { return c01e2(r.ZAdd(k, 3, "o")) }},
		{name: "ZAddFloat", typ: "zset", wrong: true,
			ctx:   func(r *Redis, c context.Context, k string) error { return c01e2(r.ZAddFloatCtx(c, k, 3.5, "o")) },
			plain: func(r *Redis, k string) error { return c01e2(r.ZAddFloat(k, 3.5, "o")) }},
		{name: "ZAdds", typ: "zset", wrong: true,
			ctx: func(r *Redis, c context.Context, k string) error {
				return c01e2(r.ZAddsCtx(c, k, Pair{Member: "o", Score: 3}, Pair{Member: "oo", Score: 4}))
			},
			plain: func(r *Redis, k string) error {
				return c01e2(r.ZAdds(k, Pair{Member: "o", Score: 3}, Pair{Member: "oo", Score: 4}))
			}},
		{name: "ZCard", typ: "zset", wrong: true,
			ctx:   func(r *Redis, c context.Context, k string) error { return c01e2(r.ZCardCtx(c, k)) },
			plain: func(r *Redis, k string) error { return c01e2(r.ZCard(k)) }},
		{name: "ZCount", typ: "zset", wrong: true,
			ctx:   func(r *Redis, c context.Context, k string) error { return c01e2(r.ZCountCtx(c, k, 0, 10)) },
			plain: func(r *Redis, k string) error { return c01e2(r.ZCount(k, 0, 10)) }},
		{name: "ZIncrBy", typ: "zset", wrong: true,
			ctx:   func(r *Redis, c context.Context, k string) error { return c01e2(r.ZIncrByCtx(c, k, 1, "m")) },
			plain: func(r *Redis, k string) error { return c01e2(r.ZIncrBy(k, 1, "m")) }},
		{name: "ZScore", typ: "zset", nilOK: true, wrong: true,
			ctx:   func(r *Redis, c context.Context, k string) error { return c01e2(r.ZScoreCtx(c, k, "m")) },
			plain: func(r *Redis, k string) error { return c01e2(r.ZScore(k, "m")) }},
		{name: "ZRank", typ: "zset", nilOK: true, wrong: true,
			ctx:   func(r *Redis, c context.Context, k string) error { return c01e2(r.ZRankCtx(c, k, "m")) },
			plain: func(r *Redis, k string) error { return c01e2(r.ZRank(k, "m")) }},
		{name: "ZRem", typ: "zset", wrong: true,
			ctx:   func(r *Redis, c context.Context, k string) error { return c01e2(r.ZRemCtx(c, k, "n", 7)) },
			plain: func(r *Redis, k string) error { return c01e2(r.ZRem(k, "n", 7)) }},
		{name: "ZRemRangeByScore", typ: "zset", wrong: true,
			ctx:   func(r *Redis, c context.Context, k string) error { return c01e2(r.ZRemRangeByScoreCtx(c, k, 5, 6)) },
			plain: func(r *Redis, k string) error { return c01e2(r.ZRemRangeByScore(k, 5, 6)) }},
		{name: "ZRemRangeByRank", typ: "zset", wrong: true,
			ctx:   func(r *Redis, c context.Context, k string) error { return c01e2(r.ZRemRangeByRankCtx(c, k, 5, 6)) },
			plain: func(r *Redis, k string) error { return c01e2(r.ZRemRangeByRank(k, 5, 6)) }},
		{name: "ZRange", typ: "zset", wrong: true,
			ctx:   func(r *Redis, c context.Context, k string) error { return c01e2(r.ZRangeCtx(c, k, 0, -1)) },
			plain: func(r *Redis, k string) error { return c01e2(r.ZRange(k, 0, -1)) }},
		{name: "ZRangeWithScores", typ: "zset", wrong: true,
			ctx:   func(r *Redis, c context.Context, k string) error { return c01e2(r.ZRangeWithScoresCtx(c, k, 0, -1)) },
			plain: func(r *Redis, k string) error { return c01e2(r.ZRangeWithScores(k, 0, -1)) }},
		{name: "ZRevRangeWithScores", typ: "zset", wrong: true,
			ctx:   func(r *Redis, c context.Context, k string) error { return c01e2(r.ZRevRangeWithScoresCtx(c, k, 0, -1)) },
			plain: func(r *Redis, k string) error { return c01e2(r.ZRevRangeWithScores(k, 0, -1)) }},
		{name: "ZRangeByScoreWithScores", typ: "zset", wrong: true,
			ctx: func(r *Redis, c context.Context, k string) error {
				return c01e2(r.ZRangeByScoreWithScoresCtx(c, k, 0, 10))
			},
			plain: func(r *Redis, k string) error { return c01e2(r.ZRangeByScoreWithScores(k, 0, 10)) }},
		{name: "ZRangeByScoreWithScoresAndLimit", typ: "zset", wrong: true,
			ctx: func(r *Redis, c context.Context, k string) error {
				return c01e2(r.ZRangeByScoreWithScoresAndLimitCtx(c, k, 0, 10, 0, 5))
			},
			plain: func(r *Redis, k string) error { return c01e2(r.ZRangeByScoreWithScoresAndLimit(k, 0, 10, 0, 5)) }},
		{name: "ZRangeByScoreWithScoresAndLimit/size0", typ: "zset", local: true,
			ctx: func(r *Redis, c context.Context, k string) error {
				return c01e2(r.ZRangeByScoreWithScoresAndLimitCtx(c, k, 0, 10, 0, 0))
			},
			plain: func(r *Redis, k string) error { return c01e2(r.ZRangeByScoreWithScoresAndLimit(k, 0, 10, 0, 0)) }},
		{name: "ZRevRange", typ: "zset", wrong: true,
			ctx:   func(r *Redis, c context.Context, k string) error { return c01e2(r.ZRevRangeCtx(c, k, 0, -1)) },
			plain: func(r *Redis, k string) error { return c01e2(r.ZRevRange(k, 0, -1)) }},
		{name: "ZRevRangeByScoreWithScores", typ: "zset", wrong: true,
			ctx: func(r *Redis, c context.Context, k string) error {
				return c01e2(r.ZRevRangeByScoreWithScoresCtx(c, k, 0, 10))
			},
			plain: func(r *Redis, k string) error { return c01e2(r.ZRevRangeByScoreWithScores(k, 0, 10)) }},
		{name: "ZRevRangeByScoreWithScoresAndLimit", typ: "zset", wrong: true,
			ctx: func(r *Redis, c context.Context, k string) error {
				return c01e2(r.ZRevRangeByScoreWithScoresAndLimitCtx(c, k, 0, 10, 0, 5))
			},
			plain: func(r *Redis, k string) error {
				return c01e2(r.ZRevRangeByScoreWithScoresAndLimit(k, 0, 10, 0, 5))
			}},
		{name: "ZRevRangeByScoreWithScoresAndLimit/size0", typ: "zset", local: true,
			ctx: func(r *Redis, c context.Context, k string) error {
				return c01e2(r.ZRevRangeByScoreWithScoresAndLimitCtx(c, k, 0, 10, 0, -1))
			},
			plain: func(r *Redis, k string) error {
				return c01e2(r.ZRevRangeByScoreWithScoresAndLimit(k, 0, 10, 0, -1))
			}},
		{name: "ZRevRank", typ: "zset", nilOK: true, wrong: true,
			ctx:   func(r *Redis, c context.Context, k string) error { return c01e2(r.ZRevRankCtx(c, k, "m")) },
			plain: func(r *Redis, k string) error { return c01e2(r.ZRevRank(k, "m")) }},
		{name: "ZUnionStore", typ: "zset", wrong: true,
			ctx: func(r *Redis, c context.Context, k string) error {
				return c01e2(r.ZUnionStoreCtx(c, "w", &ZStore{Keys: []string{k, "z2"}, Weights: []float64{1, 2}}))
			},
			plain: func(r *Redis, k string) error {
				return c01e2(r.ZUnionStore("w", &ZStore{Keys: []string{k, "z2"}, Weights: []float64{1, 2}}))
			}},
	}
}

// c01Fixtures puts the keys every command works on back into place (direct
// miniredis API, no network). "geo" is created once by c01AllSetup.
func c01Fixtures(s *miniredis.Miniredis) {
	for _, k := range []string{"s", "s2", "h", "l", "set", "set2", "z", "z2", "hll", "w", "none"} {
		s.Del(k)
	}
	_ = s.Set("s", "10")
	_ = s.Set("s2", "7")
	s.HSet("h", "f", "1", "g", "2")
	_, _ = s.RPush("l", "x", "y")
	_, _ = s.SAdd("set", "a", "b")
	_, _ = s.SAdd("set2", "b", "c")
	_, _ = s.ZAdd("z", 1, "m")
	_, _ = s.ZAdd("z", 2, "n")
	_, _ = s.ZAdd("z2", 5, "m")
	_, _ = s.PfAdd("hll", "a")
}

func c01KeyFor(cmd c01Cmd, mode int) string {
	typed := map[string]string{"string": "s", "hash": "h", "list": "l", "set": "set", "zset": "z", "geo": "geo", "hll": "hll", "none": "s"}[cmd.typ]
	switch mode {
	case 1:
		return "none"
	case 9:
		if cmd.typ == "string" {
			return "h"
		}
		return "s"
	}
	return typed
}

type c01ACase struct {
	Cmd     string `json:"cmd"`
	Plain   bool   `json:"plain,omitempty"`   // the form without ctx
	Cluster bool   `json:"cluster,omitempty"` // New(addr, WithCluster())
	Failing bool   `json:"failing,omitempty"` // script of failures only: must be cut off
	BadType bool   `json:"badtype,omitempty"` // New(addr, <option that sets an unsupported Type>)
	Unspec  bool   `json:"unspec,omitempty"`  // the statement does not determine the result: run for panics / hangs only
	Modes   []int  `json:"modes"`
	Skew    int64  `json:"skew,omitempty"`
}

// c01ACases enumerates the catalogue; the seed moves script lengths, the order of
// the outcomes inside a script and the position of the tolerated failures.
func c01ACases(cat []c01Cmd) []c01ACase {
	s := kit.Seed()*2862933555777941757 + 3037000493
	rnd := func(n int) int {
		s = s*6364136223846793005 + 1442695040888963407
		return int((s >> 33) % uint64(n))
	}
	var out []c01ACase
	benign := func(cmd c01Cmd, plain, cluster bool, pool []int, tolerated bool) {
		if len(pool) == 0 {
			return
		}
		c := c01ACase{Cmd: cmd.name, Plain: plain, Cluster: cluster, Skew: int64(rnd(1_000_000_000))}
		n := 24 + rnd(17)
		for i := 0; i < n; i++ {
			c.Modes = append(c.Modes, pool[rnd(len(pool))])
		}
		if tolerated && !cmd.noErr && !cmd.local {
			for i, nf := 0, 1+rnd(5); i < nf; i++ { // at most five failures are always tolerated (total-5 <= ... )
				c.Modes[rnd(n)] = 8
			}
		}
		out = append(out, c)
	}
	failing := func(cmd c01Cmd, plain, cluster bool, mode int) {
		if cmd.noErr || cmd.local {
			return
		}
		c := c01ACase{Cmd: cmd.name, Plain: plain, Cluster: cluster, Failing: true, Skew: int64(rnd(1_000_000_000))}
		for i, n := 0, 60+rnd(21); i < n; i++ {
			c.Modes = append(c.Modes, mode)
		}
		out = append(out, c)
	}
	for _, cmd := range cat {
		var data []int // benign outcomes that do not need a context
		if !cmd.noOK {
			data = append(data, 0)
		}
		if cmd.nilOK || cmd.name == "Get" || cmd.name == "GetSet" {
			data = append(data, 1)
		}
		all := append(append([]int{}, data...), 2)
		benign(cmd, false, false, all, rnd(2) == 0)
		benign(cmd, false, false, []int{2}, false)
		if cmd.nilOK {
			benign(cmd, false, false, []int{1}, rnd(2) == 0)
		}
		failing(cmd, false, false, 8)
		if cmd.wrong {
			failing(cmd, false, false, 9)
		}
		benign(cmd, true, false, data, rnd(2) == 0)
		failing(cmd, true, false, 8)
		benign(cmd, false, true, all, rnd(2) == 0)
		failing(cmd, false, true, 8)
		benign(cmd, true, true, data, false)
		if !cmd.noErr && !cmd.local {
			failing(cmd, rnd(2) == 0, false, 7)
			out[len(out)-1].BadType = true
		} else if cmd.noErr {
			// Ping on an unsupported Type: it reports false and, by design, no error; what the
			// breaker should record for it is not stated
			out = append(out, c01ACase{Cmd: cmd.name, BadType: true, Unspec: true, Modes: []int{7, 7, 7, 7, 7, 7, 7, 7}})
		}
	}
	return out
}

type c01AllEnv struct {
	server *miniredis.Miniredis
	cat    map[string]c01Cmd
}

// c01RealNow: the machine's real clock (a direct system call: inside a bubble the
// time package is virtual). Used only as a CONTROL measurement: go-redis gives up on
// a reply after 3 s of real time and then re-sends the command; on this shared,
// loaded machine a process can be descheduled for that long. A call that took more
// than c01Stall of real time makes its case EXCLUDED (never a failure) and the
// miniredis server is replaced, so that a command re-sent late cannot disturb the
// fixtures of a later case.
func c01RealNow() time.Duration {
	var tv syscall.Timeval
	_ = syscall.Gettimeofday(&tv)
	return time.Duration(tv.Nano())
}

const c01Stall = time.Second

// c01NewServer starts a miniredis with the fixtures and warms the shared clients of its
// address up outside any bubble: node client, cluster client (slot table, command
// table), the Lua script and the geo key.
func c01NewServer(t *testing.T) *miniredis.Miniredis {
	s, err := miniredis.Run()
	if err != nil {
		t.Fatalf("miniredis: %v", err)
	}
	node, cluster := New(s.Addr()), New(s.Addr(), WithCluster())
	if !node.Ping() {
		t.Fatalf("miniredis does not answer")
	}
	_ = cluster.Ping() // a cluster client that does not work is the cases' business, not the set-up's
	if sha, err := node.ScriptLoad(c01Lua); err != nil || sha != c01LuaSha {
		t.Fatalf("script load: %v %q", err, sha)
	}
	if _, err := node.GeoAdd("geo", &GeoLocation{Name: "p", Longitude: 13.361389, Latitude: 38.115556},
		&GeoLocation{Name: "q", Longitude: 15.087269, Latitude: 37.502669}); err != nil {
		t.Fatalf("geoadd: %v", err)
	}
	c01Fixtures(s)
	for _, r := range []*Redis{node, cluster} {
		for i := 0; i < 12; i++ {
			if _, err := r.Get("s"); err != nil && r == node {
				t.Fatalf("warm-up get: %v", err)
			}
		}
	}
	return s
}

func c01BenignErr(err error) bool { return err == nil || err == red.Nil || err == context.Canceled }

func c01InterpAll(t *testing.T, env *c01AllEnv, c c01ACase) (v kit.Verdict) {
	cmd, ok := env.cat[c.Cmd]
	if !ok {
		return v.Failf("harness: unknown command %q", c.Cmd)
	}
	s := env.server
	var fail string
	classes := map[string]bool{}
	rejected, nfail := 0, 0
	stalled := false
	defer func() {
		s.SetError("")
		if stalled {
			v = kit.Verdict{Excluded: true, Classes: []string{"env:stalled-call"}}
			s.Close()
			env.server = c01NewServer(t)
		}
	}()
	res := kit.Bubble(t, func() {
		if c.Skew > 0 {
			time.Sleep(time.Duration(c.Skew))
		}
		var r *Redis
		switch {
		case c.BadType:
			r = New(s.Addr(), func(r *Redis) { r.Type = "c01-unsupported" })
		case c.Cluster:
			r = New(s.Addr(), WithCluster())
		default:
			r = New(s.Addr())
		}
		cancelled, cancel := context.WithCancel(context.Background())
		cancel()
		for i, mode := range c.Modes {
			if mode == 2 && c.Plain {
				mode = 0 // forms without ctx cannot carry a cancelled context (hand-written cases)
			}
			c01Fixtures(s)
			key := c01KeyFor(cmd, mode)
			ctx := context.Background()
			if mode == 2 {
				ctx = cancelled
			}
			if mode == 8 {
				s.SetError("ERR c01 injected server fault")
				nfail++
			} else if mode == 9 || mode == 7 {
				nfail++
			}
			before := s.CommandCount()
			var err error
			t0 := c01RealNow()
			if c.Plain {
				err = cmd.plain(r, key)
			} else {
				err = cmd.ctx(r, ctx, key)
			}
			s.SetError("")
			if c01RealNow()-t0 > c01Stall {
				stalled = true
				return
			}
			what := fmt.Sprintf("call %d (outcome %d) of %s", i, mode, c.Cmd)
			if c.Unspec {
				continue
			}
			if err == breaker.ErrServiceUnavailable {
				rejected++
				if s.CommandCount() != before {
					fail = fmt.Sprintf("%s: rejected by the breaker but a command reached the server", what)
					return
				}
				if !c.Failing {
					fail = fmt.Sprintf("%s rejected by the breaker although this node saw only benign outcomes (nil, redis.Nil, context.Canceled) and %d (<=5) failures", what, nfail)
					return
				}
				continue
			}
			if cmd.noErr || cmd.local {
				if err != nil {
					fail = fmt.Sprintf("%s: returned %v, this call has no error to report", what, err)
					return
				}
				continue
			}
			switch mode {
			case 0:
				if err != nil {
					fail = fmt.Sprintf("%s: harness environment: the command failed on a key of the right type: %v", what, err)
				}
			case 1:
				want := error(red.Nil)
				if !cmd.nilOK {
					want = nil
				}
				if err != want {
					fail = fmt.Sprintf("%s: harness environment: missing key gave %v, expected %v", what, err, want)
				}
			case 2:
				if err != context.Canceled {
					fail = fmt.Sprintf("%s: cancelled context gave %v, expected context.Canceled itself", what, err)
				}
			default:
				if c01BenignErr(err) {
					fail = fmt.Sprintf("%s: harness environment: the faulty command did not fail (%v)", what, err)
				}
			}
			if fail != "" {
				return
			}
		}
		if c.Unspec {
			return
		}
		if !c.Failing {
			for j := 0; j < 500; j++ {
				if _, err := r.brk.Allow(); err != nil {
					fail = fmt.Sprintf("after %d calls of %s with only benign outcomes and %d (<=5) failures the node's breaker rejects (probe %d)", len(c.Modes), c.Cmd, nfail, j)
					return
				}
			}
		} else if rejected == 0 {
			fail = fmt.Sprintf("%d consecutive failing calls of %s were all admitted: the breaker never cut off", len(c.Modes), c.Cmd)
		}
	})
	classes["cmd-"+strings.SplitN(c.Cmd, "/", 2)[0]] = true
	if c.Plain {
		classes["form-without-ctx"] = true
	}
	switch {
	case c.BadType:
		classes["unsupported-type"] = true
	case c.Cluster:
		classes["cluster-client"] = true
	default:
		classes["node-client"] = true
	}
	if c.Failing {
		classes["failing-script"] = true
	} else {
		classes["benign-script"] = true
	}
	for _, m := range c.Modes {
		classes[fmt.Sprintf("outcome-%d", m)] = true
	}
	if c.Cmd == "Pipelined" {
		classes["pipelined"] = true
	}
	v.NonTrivial = !c.Unspec
	if c.Unspec {
		classes["unspecified-run-for-panics-only"] = true
	}
	for k := range classes {
		v.Classes = append(v.Classes, k)
	}
	sort.Strings(v.Classes)
	if fail != "" {
		v.Fail = fail
	} else if res.Hang || res.Panic != "" {
		v.Fail = "bubble: " + res.String()
	}
	return v
}

func TestVerif_C01_redis_allcmds(t *testing.T) {
	s := c01NewServer(t)
	cat := c01Catalogue()
	env := &c01AllEnv{server: s, cat: map[string]c01Cmd{}}
	defer func() { env.server.Close() }()
	for _, c := range cat {
		env.cat[c.name] = c
	}
	if os.Getenv("C01_DISCOVER") != "" { // development aid: print what the environment answers
		node, cluster := New(s.Addr()), New(s.Addr(), WithCluster())
		for _, r := range []*Redis{node, cluster} {
			for _, c := range cat {
				for _, mode := range []int{0, 1, 9} {
					c01Fixtures(s)
					e1 := c.ctx(r, context.Background(), c01KeyFor(c, mode))
					c01Fixtures(s)
					e2 := c.plain(r, c01KeyFor(c, mode))
					fmt.Printf("DISCOVER type=%s %s mode=%d ctx=%v plain=%v flags nilOK=%v noOK=%v wrong=%v\n", r.Type, c.name, mode, e1, e2, c.nilOK, c.noOK, c.wrong)
				}
			}
		}
		return
	}
	cases := c01ACases(cat)
	kit.Enumerate(t, "C01", "redis-allcmds-run", func(yield func(c01ACase) bool) {
		for _, c := range cases {
			if !yield(c) {
				return
			}
		}
	}, func(c c01ACase) kit.Verdict { return c01InterpAll(t, env, c) })
}
