package redis

// C01 — Redis integration, the SHAPE of a pipeline as a generated dimension
// (rule redis-pipeline-run). Pipelined / PipelinedCtx is the one breaker-guarded
// method whose single call carries 0..n commands and therefore 0..n replies: a
// pipeline whose commands succeed or merely miss (nil replies: GET / HGET / LPOP /
// ZSCORE / ZRANK of absent keys, fields, members) is a benign outcome however many
// of its commands miss; a pipeline whose first failed command got a real error
// (WRONGTYPE), whose every command got an error reply of the server, or whose
// function returns an error of its own is a failure. One case = one fresh *Redis
// (node or cluster client, Ctx form or the form without ctx) x one script:
//   benign   24..40 pipelines of 0..n commands with 0, 1, 2, 3, 8 or 30 nil replies
//            mixed with 0..4 successes in a generated order (one shape per case in
//            most cases, so that a miscounted shape is not diluted), some with a
//            cancelled context, some single commands in between, at most five
//            failing pipelines: never rejected, 500 probes of the breaker admitted;
//   failing  60..80 failing pipelines: cut off at least once;
//   mixed    anything, incl. a nil reply BEFORE a real error in one pipeline (which
//            of the two go-redis reports is its business; not judged).
// What PipelinedCtx returns for a pipeline with nil replies is not judged either
// (the statement only fixes that the outcome is benign); for all-success pipelines
// it must be nil, for a cancelled context context.Canceled itself, for a failing
// pipeline an error that is none of nil / redis.Nil / context.Canceled.

import (
	"context"
	"errors"
	"fmt"
	"sort"
	"testing"
	"time"

	"github.com/alicebob/miniredis/v2"
	red "github.com/go-redis/redis/v8"
	"github.com/gotid/god/lib/breaker"
	"pgregory.net/rapid"
	"verif.local/kit"
)

var c01FnErr = errors.New("c01: the pipeline function gives up")

// commands of a pipeline: 0 GET s (value) 1 GET none (nil) 2 HGET h nofield (nil) 3 LPOP none (nil)
// 4 ZSCORE z nomember (nil) 5 SET w 6 INCR s 7 HGET h f (value) 8 ZRANK z nomember (nil)
// 20 GET h (WRONGTYPE) 21 HGET s f (WRONGTYPE)
func c01PipeCmd(p Pipeliner, ctx context.Context, k int) {
	switch k {
	case 0:
		p.Get(ctx, "s")
	case 1:
		p.Get(ctx, "none")
	case 2:
		p.HGet(ctx, "h", "nofield")
	case 3:
		p.LPop(ctx, "none")
	case 4:
		p.ZScore(ctx, "z", "nomember")
	case 5:
		p.Set(ctx, "w", "1", 0)
	case 6:
		p.Incr(ctx, "s")
	case 7:
		p.HGet(ctx, "h", "f")
	case 8:
		p.ZRank(ctx, "z", "nomember")
	case 20:
		p.Get(ctx, "h")
	case 21:
		p.HGet(ctx, "s", "f")
	}
}

func c01PipeIsNil(k int) bool { return k == 1 || k == 2 || k == 3 || k == 4 || k == 8 }
func c01PipeIsBad(k int) bool { return k >= 20 }

type c01PStep struct {
	P []int `json:"p,omitempty"` // the commands of the pipeline, in order
	X int   `json:"x,omitempty"` // 1: the caller's context is cancelled (Ctx form)
	F int   `json:"f,omitempty"` // 1: the server answers every command with an error reply; 2: the pipeline function returns an error of its own
	S int   `json:"s,omitempty"` // 1: no pipeline, a single GET of an existing key; 2: a single GET of an absent key
}

type c01PCaseR struct {
	Cluster bool       `json:"cluster,omitempty"`
	Plain   bool       `json:"plain,omitempty"`
	Kind    int        `json:"kind"` // 0 benign 1 failing 2 mixed
	Steps   []c01PStep `json:"steps"`
	Skew    int64      `json:"skew,omitempty"`
}

func (s c01PStep) nils() (n int) {
	for _, k := range s.P {
		if c01PipeIsNil(k) {
			n++
		}
	}
	return
}

// failing: the statement makes this pipeline a failure (first failed command has a real error,
// or the whole exchange fails); benign: it makes it a benign outcome; neither: not judged.
func (s c01PStep) failing() bool {
	if s.S != 0 || s.X == 1 {
		return false
	}
	if s.F != 0 {
		return s.F == 2 || len(s.P) > 0 // an empty pipeline never reaches the server
	}
	for _, k := range s.P {
		if c01PipeIsNil(k) {
			return false
		}
		if c01PipeIsBad(k) {
			return true
		}
	}
	return false
}

func (s c01PStep) benign() bool {
	if s.S != 0 || s.X == 1 {
		return true
	}
	if s.F != 0 {
		return s.F == 1 && len(s.P) == 0
	}
	for _, k := range s.P {
		if c01PipeIsBad(k) {
			return false
		}
	}
	return true
}

func c01GenPipe(rt *rapid.T) c01PCaseR {
	c := c01PCaseR{Cluster: rapid.Bool().Draw(rt, "cluster"), Plain: rapid.Bool().Draw(rt, "plain")}
	c.Kind = rapid.SampledFrom([]int{0, 0, 0, 1, 2}).Draw(rt, "kind")
	c.Skew = rapid.Int64Range(0, 1_000_000_000).Draw(rt, "skew")
	nilCmds, okCmds, badCmds := []int{1, 2, 3, 4, 8}, []int{0, 5, 6, 7}, []int{20, 21}
	shuffle := func(p []int) []int {
		if len(p) < 2 {
			return p
		}
		return rapid.Permutation(p).Draw(rt, "order")
	}
	mkBenign := func(nils, oks int) c01PStep {
		var p []int
		theNil := -1
		if rapid.Bool().Draw(rt, "onenilcmd") {
			theNil = rapid.SampledFrom(nilCmds).Draw(rt, "nilcmd")
		}
		for i := 0; i < nils; i++ {
			if theNil >= 0 {
				p = append(p, theNil)
			} else {
				p = append(p, rapid.SampledFrom(nilCmds).Draw(rt, "nil"))
			}
		}
		for i := 0; i < oks; i++ {
			p = append(p, rapid.SampledFrom(okCmds).Draw(rt, "ok"))
		}
		return c01PStep{P: shuffle(p)}
	}
	mkFailing := func() c01PStep {
		switch rapid.IntRange(0, 5).Draw(rt, "fkind") {
		case 0:
			return c01PStep{F: 1, P: mkBenign(rapid.IntRange(0, 2).Draw(rt, "n"), rapid.IntRange(1, 3).Draw(rt, "o")).P}
		case 1:
			return c01PStep{F: 2, P: mkBenign(0, rapid.IntRange(0, 2).Draw(rt, "o")).P}
		}
		var p []int
		for i, n := 0, rapid.IntRange(1, 3).Draw(rt, "nbad"); i < n; i++ {
			p = append(p, rapid.SampledFrom(badCmds).Draw(rt, "bad"))
		}
		for i, n := 0, rapid.IntRange(0, 3).Draw(rt, "noks"); i < n; i++ {
			p = append(p, rapid.SampledFrom(okCmds).Draw(rt, "ok"))
		}
		return c01PStep{P: shuffle(p)}
	}
	nilCounts := []int{0, 1, 2, 2, 3, 8, 30}
	switch c.Kind {
	case 0:
		n := rapid.IntRange(24, 40).Draw(rt, "n")
		fixedNils, fixedOks := -1, -1
		if rapid.IntRange(0, 3).Draw(rt, "fixedshape") != 0 { // one shape per case: not diluted by the others
			fixedNils = rapid.SampledFrom(nilCounts).Draw(rt, "thenils")
			fixedOks = rapid.IntRange(0, 4).Draw(rt, "theoks")
		}
		extras := rapid.Bool().Draw(rt, "extras")
		for i := 0; i < n; i++ {
			nils, oks := fixedNils, fixedOks
			if nils < 0 {
				nils, oks = rapid.SampledFrom(nilCounts).Draw(rt, "nils"), rapid.IntRange(0, 4).Draw(rt, "oks")
			}
			st := mkBenign(nils, oks)
			if extras {
				switch rapid.IntRange(0, 9).Draw(rt, "extra") {
				case 0:
					if !c.Plain {
						st.X = 1
					}
				case 1:
					st = c01PStep{S: rapid.IntRange(1, 2).Draw(rt, "single")}
				}
			}
			c.Steps = append(c.Steps, st)
		}
		for i, nf := 0, rapid.IntRange(0, 5).Draw(rt, "nfail"); i < nf; i++ {
			c.Steps[rapid.IntRange(0, n-1).Draw(rt, "pos")] = mkFailing()
		}
	case 1:
		for i, n := 0, rapid.IntRange(60, 80).Draw(rt, "n"); i < n; i++ {
			c.Steps = append(c.Steps, mkFailing())
		}
	default:
		for i, n := 0, rapid.IntRange(10, 60).Draw(rt, "n"); i < n; i++ {
			switch rapid.IntRange(0, 3).Draw(rt, "mk") {
			case 0:
				c.Steps = append(c.Steps, mkFailing())
			case 1: // nil replies and real errors in one pipeline, any order
				st := mkBenign(rapid.IntRange(1, 3).Draw(rt, "nils"), rapid.IntRange(0, 2).Draw(rt, "oks"))
				st.P = shuffle(append(st.P, rapid.SampledFrom(badCmds).Draw(rt, "bad")))
				c.Steps = append(c.Steps, st)
			default:
				c.Steps = append(c.Steps, mkBenign(rapid.SampledFrom(nilCounts).Draw(rt, "nils"), rapid.IntRange(0, 4).Draw(rt, "oks")))
			}
		}
	}
	return c
}

type c01PipeEnv struct{ server *miniredis.Miniredis }

func c01InterpPipe(t *testing.T, env *c01PipeEnv, c c01PCaseR) (v kit.Verdict) {
	s := env.server
	var fail string
	classes := map[string]bool{}
	rejected, nfail := 0, 0
	stalled := false
	defer func() {
		s.SetError("")
		if stalled { // control measurement, see c01RealNow: excluded, never a failure
			v = kit.Verdict{Excluded: true, Classes: []string{"env:stalled-call"}}
			s.Close()
			env.server = c01NewServer(t)
		}
	}()
	res := kit.Bubble(t, func() {
		if c.Skew > 0 {
			time.Sleep(time.Duration(c.Skew))
		}
		var r *Redis
		if c.Cluster {
			r = New(s.Addr(), WithCluster())
		} else {
			r = New(s.Addr())
		}
		cancelled, cancel := context.WithCancel(context.Background())
		cancel()
		for i, st := range c.Steps {
			c01Fixtures(s)
			ctx := context.Background()
			if st.X == 1 && !c.Plain && st.S == 0 {
				ctx = cancelled
			} else {
				st.X = 0
			}
			if st.failing() {
				nfail++
			}
			if st.F == 1 && st.S == 0 {
				s.SetError("ERR c01 injected server fault")
			}
			before := s.CommandCount()
			fnRuns := 0
			fn := func(p Pipeliner) error {
				fnRuns++
				for _, k := range st.P {
					c01PipeCmd(p, ctx, k)
				}
				if st.F == 2 {
					return c01FnErr
				}
				return nil
			}
			var err error
			t0 := c01RealNow()
			switch {
			case st.S == 1:
				_, err = r.Get("s")
			case st.S == 2:
				_, err = r.Get("none")
			case c.Plain:
				err = r.Pipelined(fn)
			default:
				err = r.PipelinedCtx(ctx, fn)
			}
			s.SetError("")
			if c01RealNow()-t0 > c01Stall {
				stalled = true
				return
			}
			what := fmt.Sprintf("step %d %+v", i, st)
			if err == breaker.ErrServiceUnavailable {
				rejected++
				if s.CommandCount() != before || fnRuns != 0 {
					fail = fmt.Sprintf("%s: rejected by the breaker but the pipeline function ran %d times / %d commands reached the server", what, fnRuns, s.CommandCount()-before)
					return
				}
				if c.Kind == 0 {
					fail = fmt.Sprintf("%s rejected by the breaker although this node saw only benign outcomes (pipelines whose commands succeeded or replied nil, cancelled contexts) and %d (<=5) failing pipelines", what, nfail)
					return
				}
				continue
			}
			switch {
			case st.S == 0 && len(st.P) == 0 && st.F != 2:
				// an empty pipeline: go-redis has nothing to send, whatever the context; benign, result not judged
			case st.S != 0:
				if err != nil {
					fail = fmt.Sprintf("%s: harness environment: single GET gave %v", what, err)
				}
			case st.X == 1:
				if err != context.Canceled {
					fail = fmt.Sprintf("%s: cancelled context gave %v, expected context.Canceled itself", what, err)
				}
			case st.F == 2:
				if err != c01FnErr {
					fail = fmt.Sprintf("%s: the pipeline function's own error came back as %v", what, err)
				}
			case st.failing():
				if c01BenignErr(err) {
					fail = fmt.Sprintf("%s: harness environment: the failing pipeline did not fail (%v)", what, err)
				}
			case st.benign() && st.nils() == 0:
				if err != nil {
					fail = fmt.Sprintf("%s: harness environment: a pipeline of successful commands gave %v", what, err)
				}
			}
			if fail != "" {
				return
			}
		}
		switch c.Kind {
		case 0:
			for j := 0; j < 500; j++ {
				if _, err := r.brk.Allow(); err != nil {
					fail = fmt.Sprintf("after %d benign steps (pipelines whose commands succeeded or replied nil) and %d (<=5) failing pipelines the node's breaker rejects (probe %d)", len(c.Steps), nfail, j)
					return
				}
			}
		case 1:
			if rejected == 0 {
				fail = fmt.Sprintf("%d consecutive failing pipelines were all admitted: the breaker never cut off", len(c.Steps))
			}
		}
	})
	for _, st := range c.Steps {
		if st.S != 0 {
			classes["single-command-between-pipelines"] = true
			continue
		}
		n := st.nils()
		switch {
		case len(st.P) == 0:
			classes["pipeline-empty"] = true
		case st.benign() && n == 0:
			classes["pipeline-all-success"] = true
		case st.benign() && n == 1:
			classes["pipeline-1-nil"] = true
		case st.benign() && n == 2:
			classes["pipeline-2-nils"] = true
		case st.benign() && n < 8:
			classes["pipeline-3..7-nils"] = true
		case st.benign():
			classes["pipeline-many-nils"] = true
		}
		if st.benign() && n >= 2 && n < len(st.P) {
			classes["pipeline-nils-mixed-with-successes"] = true
		}
		if st.benign() && n >= 2 && n == len(st.P) {
			classes["pipeline-only-nils"] = true
		}
		switch {
		case st.X == 1:
			classes["pipeline-cancelled-context"] = true
		case st.F == 1 && len(st.P) > 0:
			classes["pipeline-server-error-replies"] = true
		case st.F == 2:
			classes["pipeline-function-error"] = true
		case st.failing():
			classes["pipeline-real-error-and-successes"] = true
		case !st.benign():
			classes["pipeline-nil-and-real-error-unjudged"] = true
		}
	}
	classes[[]string{"benign-node", "failing-node", "mixed-node"}[c.Kind%3]] = true
	if c.Cluster {
		classes["cluster-client"] = true
	}
	if c.Plain {
		classes["form-without-ctx"] = true
	}
	v.NonTrivial = c.Kind != 2
	for k := range classes {
		v.Classes = append(v.Classes, k)
	}
	sort.Strings(v.Classes)
	if fail != "" {
		v.Fail = fail
	} else if res.Hang || res.Panic != "" {
		v.Fail = "bubble: " + res.String()
	}
	_ = red.Nil
	return v
}

func TestVerif_C01_redis_pipeline(t *testing.T) {
	env := &c01PipeEnv{server: c01NewServer(t)}
	defer func() { env.server.Close() }()
	kit.Run(t, "C01", "redis-pipeline-run", kit.Opts{Quick: 160, Thorough: 3200}, c01GenPipe,
		func(c c01PCaseR) kit.Verdict { return c01InterpPipe(t, env, c) })
}
