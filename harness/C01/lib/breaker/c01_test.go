package breaker

// C01 — circuit breaker: trips only on real failure excess, never runs rejected
// calls, records exactly one outcome per admitted call.
// Harness injected by /verif (overlay); see /verif/DESIGN.md "C01".
//
// Rules in this file
//   breaker-model      sequential histories (issued from several goroutines, one
//                      at a time) against a reference window model on the 250 ms
//                      grid; the breaker's own window is read after EVERY call.
//   breaker-parallel   truly overlapping calls from several goroutines inside one
//                      bubble; accounting invariant over the observed history.
//   breaker-stress     real parallelism without a bubble: exact accounting after
//                      G goroutines x K calls (judged when the run took < 5 s).
// The benign-outcome tables / runs live in the other directories of harness/C01.

import (
	"encoding/hex"
	"errors"
	"fmt"
	"math"
	"runtime"
	"runtime/debug"
	"sort"
	"strconv"
	"strings"
	"sync"
	"sync/atomic"
	"testing"
	"time"

	"github.com/gotid/god/lib/logx"
	"pgregory.net/rapid"
	"verif.local/kit"
)

func init() { logx.Disable() }

const (
	c01Bucket  = 250 * time.Millisecond // statement: 10 s window, 40 buckets
	c01Buckets = 40
	// false-alarm probability of one statistical assertion (two-sided)
	c01Alpha = 1e-12
)

var (
	c01ErrA = errors.New("c01: error A")
	c01ErrB = errors.New("c01: error B")
	// an error that WRAPS the breaker's sentinel (what a caller gets from a nested, open
	// breaker further down once some layer in between has added context with %w)
	c01ErrWrapped = fmt.Errorf("c01: inner dependency: %w", ErrServiceUnavailable)
)

type c01PanicT struct{ x int }

var c01PanicPtr = &c01PanicT{7}

// outcomes of the protected function that are errors: 0 nil, 1 errA, 2 errB,
// 3 ErrServiceUnavailable (returned by req itself), 5 an error wrapping ErrServiceUnavailable
// (4 is "panics"). Error ids (bits of an acceptable-predicate): 0..3 as the outcomes, 4 = wrapped.
func c01Err(out int) error {
	switch out {
	case 1:
		return c01ErrA
	case 2:
		return c01ErrB
	case 3:
		return ErrServiceUnavailable
	case 5:
		return c01ErrWrapped
	}
	return nil
}

// c01AccBit: the bit of an acceptable-predicate that decides outcome out.
func c01AccBit(out int) uint {
	if out == 5 {
		return 4
	}
	return uint(out)
}

func c01ErrID(err error) int {
	switch err {
	case nil:
		return 0
	case c01ErrA:
		return 1
	case c01ErrB:
		return 2
	case ErrServiceUnavailable:
		return 3
	case c01ErrWrapped:
		return 4
	}
	return -1
}

var c01PanicSlice = []int{1, 2, 3} // an uncomparable panic value

func c01PanicVal(pv int) any {
	switch pv {
	case 1:
		return c01ErrA
	case 2:
		return 42
	case 3:
		return c01PanicPtr
	case 4:
		return c01PanicSlice
	}
	return "c01 boom"
}

// c01DoPanic raises the panic of kind pv; kind 5 is a genuine runtime error, kind 6 is
// panic(nil) (the check is built with Go >= 1.21 semantics: recover() then yields a
// *runtime.PanicNilError, i.e. it is a panic like any other).
func c01DoPanic(pv int) {
	if pv == 5 {
		var m map[string]int
		m["c01"] = 1
	}
	if pv == 6 {
		var nothing any
		panic(nothing)
	}
	panic(c01PanicVal(pv))
}

// c01PanicSame: was the value re-raised unchanged? (no == on uncomparable values)
func c01PanicSame(pv int, got any) bool {
	switch pv {
	case 4:
		g, ok := got.([]int)
		return ok && len(g) == len(c01PanicSlice) && &g[0] == &c01PanicSlice[0]
	case 5:
		re, ok := got.(runtime.Error)
		return ok && strings.Contains(re.Error(), "nil map")
	case 6:
		_, ok := got.(*runtime.PanicNilError)
		return ok
	}
	defer func() { _ = recover() }()
	return got == c01PanicVal(pv)
}

// c01ExpandName turns a name spec of a case into the breaker name: "long:<n>:<tag>"
// is n bytes of filler followed by the tag, "hex:<bytes>" raw bytes (invalid UTF-8
// survives the JSON round trip this way), anything else is the name itself.
func c01ExpandName(spec string) string {
	switch {
	case strings.HasPrefix(spec, "long:"):
		parts := strings.SplitN(spec, ":", 3)
		n, _ := strconv.Atoi(parts[1])
		return strings.Repeat("x", n) + parts[2]
	case strings.HasPrefix(spec, "hex:"):
		b, _ := hex.DecodeString(spec[4:])
		return string(b)
	}
	return spec
}

func c01Short(name string) string {
	if len(name) > 40 {
		return fmt.Sprintf("%q...(%d bytes)...%q", name[:12], len(name), name[len(name)-4:])
	}
	return fmt.Sprintf("%q", name)
}

type c01Op struct {
	K   string `json:"k"`             // call allow resolve pburst adv probe nobrk
	T   int    `json:"t,omitempty"`   // target: 0..ND-1 direct breakers, ND.. registry names
	G   int    `json:"g,omitempty"`   // goroutine that issues the op
	Via int    `json:"via,omitempty"` // 0 Do 1 DoWithAcceptable 2 DoWithFallback 3 DoWithFallbackAcceptable
	Rt  int    `json:"rt,omitempty"`  // registry targets: 0 package func, 1 Get(name).X, 2 handle obtained earlier
	Out int    `json:"out,omitempty"` // 0 nil 1 errA 2 errB 3 ErrServiceUnavailable 4 panic 5 an error wrapping ErrServiceUnavailable
	PV  int    `json:"pv,omitempty"`  // panic value kind (of req, of the acceptable-predicate, of the fallback)
	Acc int    `json:"acc,omitempty"` // acceptable predicate: bit i set <=> error id i acceptable
	AP  int    `json:"ap,omitempty"`  // 1: the acceptable-predicate itself panics (value kind PV)
	Fb  int    `json:"fb,omitempty"`  // fallback returns: 0 nil 1 errB 2 its argument; 3: the fallback panics (value kind PV)
	Sl  int64  `json:"sl,omitempty"`  // ns slept inside req before it returns
	N   int    `json:"n,omitempty"`   // repeat count (call, pburst)
	Ok  bool   `json:"ok,omitempty"`  // resolve/pburst: Accept (true) or Reject (false)
	I   int    `json:"i,omitempty"`   // resolve: index into pending promises
	AK  int    `json:"ak,omitempty"`  // adv: 0 fixed D; 1 next grid boundary of T +D; 2 expiry of oldest visible bucket of T +D; 3 expiry of newest bucket +D
	D   int64  `json:"d,omitempty"`   // ns
	M   int    `json:"m,omitempty"`   // probe size
	In  int    `json:"in,omitempty"`  // call: the protected function itself calls a breaker before returning: 1 same target, succeeds; 2 same target, fails; 3 next target, succeeds
}

type c01Case struct {
	ND    int      `json:"nd"`
	Names []string `json:"names"`
	NG    int      `json:"ng"`
	Ops   []c01Op  `json:"ops"`
}

// ---------------------------------------------------------------- reference model

// c01Model: outcomes per grid bucket; grid anchored at the breaker's creation.
type c01Model struct {
	created time.Duration
	acc     map[int64]int64
	tot     map[int64]int64
	minG    int64
	maxG    int64
	any     bool
	// non-trivial rule
	sawPos    bool
	recovered bool
	// memo of the last visible() result (pure optimisation of the model)
	memoOK           bool
	memoG            int64
	memoAcc, memoTot int64
}

func c01NewModel(created time.Duration) *c01Model {
	return &c01Model{created: created, acc: map[int64]int64{}, tot: map[int64]int64{}}
}

func (m *c01Model) grid(now time.Duration) int64 { return int64((now - m.created) / c01Bucket) }

func (m *c01Model) record(now time.Duration, ok bool) {
	g := m.grid(now)
	m.tot[g]++
	if ok {
		m.acc[g]++
	}
	if m.memoOK && g == m.memoG {
		m.memoTot++
		if ok {
			m.memoAcc++
		}
	} else {
		m.memoOK = false
	}
	if !m.any || g < m.minG {
		m.minG = g
	}
	if !m.any || g > m.maxG {
		m.maxG = g
	}
	m.any = true
}

// visible: the last 40 buckets including the current one.
func (m *c01Model) visible(now time.Duration) (acc, total int64) {
	g := m.grid(now)
	if m.memoOK && g == m.memoG {
		return m.memoAcc, m.memoTot
	}
	for i := g - c01Buckets + 1; i <= g; i++ {
		acc += m.acc[i]
		total += m.tot[i]
	}
	m.memoOK, m.memoG, m.memoAcc, m.memoTot = true, g, acc, total
	return
}

// oldestVisible returns the grid index of the oldest visible non-empty bucket.
func (m *c01Model) oldestVisible(now time.Duration) (int64, bool) {
	g := m.grid(now)
	for i := g - c01Buckets + 1; i <= g; i++ {
		if m.tot[i] > 0 {
			return i, true
		}
	}
	return 0, false
}

// c01Eligible: statement's hard condition, (total - 5) exceeds 1.5 x successes.
func c01Eligible(acc, total int64) bool { return 2*(total-5) > 3*acc }

// c01P: rejection probability of the mechanism named in the property anchors.
func c01P(acc, total int64) float64 {
	if !c01Eligible(acc, total) {
		return 0
	}
	return (float64(total-5) - 1.5*float64(acc)) / float64(total+1)
}

// c01BinomTail: exact tail probability of Binomial(m,p) on the side of x
// (P(X<=x) when x is below the mean, P(X>=x) otherwise).
func c01BinomTail(m int, p float64, x int) float64 {
	lp, lq := math.Log(p), math.Log1p(-p)
	lgm, _ := math.Lgamma(float64(m + 1))
	logpmf := func(i int) float64 {
		a, _ := math.Lgamma(float64(i + 1))
		b, _ := math.Lgamma(float64(m - i + 1))
		return lgm - a - b + float64(i)*lp + float64(m-i)*lq
	}
	sum := 0.0
	if float64(x) <= float64(m)*p {
		for i := 0; i <= x; i++ {
			sum += math.Exp(logpmf(i))
		}
	} else {
		for i := x; i <= m; i++ {
			sum += math.Exp(logpmf(i))
		}
	}
	return sum
}

// c01ProbeVerdict judges x rejections out of m independent admissions tests at
// rejection probability p. Returns "" when consistent.
func c01ProbeVerdict(m int, p float64, x int) string {
	if p <= 0 {
		if x != 0 {
			return fmt.Sprintf("%d of %d probes rejected while the window does not satisfy total-5 > 1.5*successes", x, m)
		}
		return ""
	}
	if tail := c01BinomTail(m, p, x); tail < c01Alpha/2 {
		return fmt.Sprintf("%d of %d probes rejected, model rejection probability %.4f: exact binomial tail %.3g < %.1g", x, m, p, tail, c01Alpha/2)
	}
	if eps := kit.HoeffdingEps(m, c01Alpha); math.Abs(float64(x)/float64(m)-p) > eps {
		return fmt.Sprintf("%d of %d probes rejected, model rejection probability %.4f: |freq-p| > Hoeffding eps %.4f", x, m, p, eps)
	}
	return ""
}

// ---------------------------------------------------------------- in-package window access

func c01Hist(b Breaker) (acc, total int64, ok bool) {
	cb, ok1 := b.(*circuitBreaker)
	if !ok1 {
		return 0, 0, false
	}
	lt, ok2 := cb.throttle.(loggedThrottle)
	if !ok2 {
		return 0, 0, false
	}
	gb, ok3 := lt.internalThrottle.(*googleBreaker)
	if !ok3 {
		return 0, 0, false
	}
	acc, total = gb.history()
	return acc, total, true
}

func c01ResetRegistry() {
	lock.Lock()
	breakers = make(map[string]Breaker)
	lock.Unlock()
}

// ---------------------------------------------------------------- interpreter (sequential rule)

type c01Brk struct {
	direct bool
	name   string
	b      Breaker // google-style breaker once created
	m      *c01Model
	pend   []Promise
	nop    bool // registry entry replaced through NoBreakerFor
}

type c01Worker struct {
	in   chan func()
	done chan struct{}
}

type c01Interp struct {
	start    time.Time
	brks     []*c01Brk
	workers  []*c01Worker
	classes  map[string]bool
	fail     string
	onWorker bool
	rep      int // repetition index inside a burst op (for messages)
}

func (in *c01Interp) now() time.Duration { return time.Since(in.start) }

// on runs f on worker goroutine g and waits for it. Every op of a case is
// executed as a whole on the goroutine it names; nested calls run in place.
func (in *c01Interp) on(g int, f func()) {
	if in.onWorker {
		f()
		return
	}
	in.onWorker = true
	w := in.workers[g%len(in.workers)]
	w.in <- f
	<-w.done
	in.onWorker = false
}

// ensure creates the google-style breaker behind a target when the op about to
// run would create it anyway (direct: New; registry: lazily by Get).
func (in *c01Interp) ensureDirect(br *c01Brk, idx int) {
	if br.b != nil {
		return
	}
	br.m = c01NewModel(in.now())
	if idx%2 == 0 {
		br.b = New()
	} else {
		br.b = New(WithName(fmt.Sprintf("direct-%d", idx)))
	}
	_ = br.b.Name() // executed only: the statement says nothing about what Name() reports
}

// checkWindows: after every op the breaker's own window must equal the model.
func (in *c01Interp) checkWindows(what string, lastKind string) bool {
	now := in.now()
	for _, br := range in.brks {
		if br.b == nil {
			continue
		}
		acc, total, ok := c01Hist(br.b)
		if !ok {
			in.fail = fmt.Sprintf("%s: harness cannot reach the window of breaker %s (type %T)", what, c01Short(br.name), br.b)
			return false
		}
		macc, mtot := br.m.visible(now)
		if acc != macc || total != mtot {
			in.fail = fmt.Sprintf("%s: breaker %s window (successes=%d,total=%d) != model (successes=%d,total=%d) at t=%v (breaker created at %v, grid bucket %d)",
				what, c01Short(br.name), acc, total, macc, mtot, now, br.m.created, br.m.grid(now))
			return false
		}
		if c01Eligible(macc, mtot) {
			br.m.sawPos = true
			br.m.recovered = false
			if c01P(macc, mtot) > 0.9 {
				in.classes["state-p>0.9"] = true
			}
		} else if br.m.sawPos && !br.m.recovered {
			br.m.recovered = true
			if lastKind == "adv" {
				in.classes["recovered-by-ageing"] = true
			} else {
				in.classes["recovered-by-outcomes"] = true
			}
		}
	}
	return true
}

// resolve returns (breaker handle to use, model, nopSemantics)
func (in *c01Interp) route(o c01Op) (br *c01Brk, useHandle bool, nop bool) {
	br = in.brks[o.T%len(in.brks)]
	if br.direct {
		return br, true, false
	}
	if o.Rt == 2 && br.b != nil {
		if br.nop {
			in.classes["stale-handle-after-nobreaker"] = true
		}
		return br, true, false
	}
	return br, false, br.nop
}

// afterRegistryTouch captures the lazily created registry breaker.
func (in *c01Interp) afterRegistryTouch(br *c01Brk, what string) bool {
	if br.direct || br.nop {
		return true
	}
	h := Get(br.name)
	if br.b == nil {
		br.b = h
		return true
	}
	if h != br.b {
		in.fail = fmt.Sprintf("%s: Get(%s) returned a different breaker than before", what, c01Short(br.name))
		return false
	}
	return true
}

type c01Obs struct {
	reqRuns, fbRuns int
	fbArg           error
	ret             error
	panicked        bool
	pval            any
	markAt          time.Duration
	accRuns         int
}

func (in *c01Interp) call(br *c01Brk, useHandle, nop bool, o c01Op, what string) bool {
	var obs c01Obs
	req := func() error {
		obs.reqRuns++
		if o.Sl > 0 {
			time.Sleep(time.Duration(o.Sl))
		}
		if o.In != 0 {
			in.inner(br, o)
		}
		obs.markAt = in.now()
		if o.Out == 4 {
			c01DoPanic(o.PV)
		}
		return c01Err(o.Out)
	}
	fallback := func(err error) error {
		obs.fbRuns++
		obs.fbArg = err
		switch o.Fb {
		case 1:
			return c01ErrB
		case 2:
			return err
		case 3:
			c01DoPanic(o.PV)
		}
		return nil
	}
	acceptable := func(err error) bool {
		obs.accRuns++
		if o.AP == 1 {
			c01DoPanic(o.PV)
		}
		id := c01ErrID(err)
		return id >= 0 && o.Acc&(1<<uint(id)) != 0
	}
	if !br.direct && !nop && br.b == nil {
		br.m = c01NewModel(in.now()) // created lazily by this very call
	}
	var acc0, tot0 int64
	if !nop {
		acc0, tot0 = br.m.visible(in.now())
	}
	invoke := func() error {
		if useHandle || o.Rt == 1 {
			var b Breaker
			if useHandle {
				b = br.b
			} else {
				b = Get(br.name)
			}
			switch o.Via {
			case 0:
				return b.Do(req)
			case 1:
				return b.DoWithAcceptable(req, acceptable)
			case 2:
				return b.DoWithFallback(req, fallback)
			default:
				return b.DoWithFallbackAcceptable(req, fallback, acceptable)
			}
		}
		switch o.Via {
		case 0:
			return Do(br.name, req)
		case 1:
			return DoWithAcceptable(br.name, req, acceptable)
		case 2:
			return DoWithFallback(br.name, req, fallback)
		default:
			return DoWithFallbackAcceptable(br.name, req, fallback, acceptable)
		}
	}
	in.on(o.G, func() {
		defer func() {
			if r := recover(); r != nil {
				obs.panicked = true
				obs.pval = r
			}
		}()
		obs.ret = invoke()
	})
	if in.fail != "" {
		return false
	}
	hasFb := o.Via == 2 || o.Via == 3
	wantErr := c01Err(o.Out)
	switch {
	case obs.reqRuns > 1:
		in.fail = fmt.Sprintf("%s: protected function ran %d times", what, obs.reqRuns)
		return false
	case obs.reqRuns == 0:
		// rejected
		if nop {
			in.fail = fmt.Sprintf("%s: breaker disabled with NoBreakerFor did not run the protected function", what)
			return false
		}
		if !c01Eligible(acc0, tot0) {
			in.fail = fmt.Sprintf("%s: call rejected although the window (successes=%d,total=%d) does not satisfy total-5 > 1.5*successes", what, acc0, tot0)
			return false
		}
		if obs.panicked && !(hasFb && o.Fb == 3) {
			in.fail = fmt.Sprintf("%s: rejected call panicked with %v", what, obs.pval)
			return false
		}
		if hasFb {
			in.classes["rejected-with-fallback"] = true
			if obs.fbRuns != 1 || obs.fbArg != ErrServiceUnavailable {
				in.fail = fmt.Sprintf("%s: rejected call: fallback ran %d times with %v, want once with ErrServiceUnavailable", what, obs.fbRuns, obs.fbArg)
				return false
			}
			if o.Fb == 3 {
				// the fallback of a rejected call panics: the statement fixes that the protected
				// function did not run, what the fallback received and (checkWindows, after this
				// call) that nothing is recorded for a rejected call; what the caller sees of
				// the fallback's panic is not stated and not judged
				in.classes["rejected-fallback-panics"] = true
				return true
			}
			want := []error{nil, c01ErrB, ErrServiceUnavailable}[o.Fb%3]
			if obs.ret != want {
				in.fail = fmt.Sprintf("%s: rejected call returned %v, fallback returned %v", what, obs.ret, want)
				return false
			}
		} else {
			in.classes["rejected-call"] = true
			if obs.fbRuns != 0 || obs.ret != ErrServiceUnavailable {
				in.fail = fmt.Sprintf("%s: rejected call without fallback returned %v (fallback runs %d), want ErrServiceUnavailable", what, obs.ret, obs.fbRuns)
				return false
			}
		}
	default:
		// admitted
		if obs.fbRuns != 0 {
			in.fail = fmt.Sprintf("%s: admitted call also ran the fallback", what)
			return false
		}
		// the caller's acceptable-predicate panics while it judges the result of an admitted
		// call (a disabled breaker never consults the predicate): a panic of the admitted
		// call like one of the protected function - one outcome, a failure, re-raised
		predPanics := (o.Via == 1 || o.Via == 3) && o.AP == 1 && o.Out != 4 && !nop
		switch {
		case o.Out == 4:
			in.classes["panic-admitted"] = true
			in.classes[fmt.Sprintf("panic-value-kind-%d", o.PV)] = true
			if !obs.panicked || !c01PanicSame(o.PV, obs.pval) {
				in.fail = fmt.Sprintf("%s: panic (value kind %d) in the protected function not re-raised unchanged (panicked=%v value=%v)", what, o.PV, obs.panicked, obs.pval)
				return false
			}
		case predPanics:
			in.classes["acceptable-predicate-panics"] = true
			if !obs.panicked || !c01PanicSame(o.PV, obs.pval) {
				in.fail = fmt.Sprintf("%s: panic (value kind %d) in the acceptable-predicate of an admitted call not re-raised unchanged (panicked=%v value=%v)", what, o.PV, obs.panicked, obs.pval)
				return false
			}
		case obs.panicked || obs.ret != wantErr:
			in.fail = fmt.Sprintf("%s: admitted call returned %v (panicked=%v %v), protected function returned %v", what, obs.ret, obs.panicked, obs.pval, wantErr)
			return false
		}
		if !nop {
			ok := false
			if o.Out != 4 && !predPanics {
				if o.Via == 1 || o.Via == 3 {
					ok = o.Acc&(1<<c01AccBit(o.Out)) != 0
					if ok && o.Out != 0 {
						in.classes["acceptable-error-success"] = true
					}
					if !ok && o.Out == 0 {
						in.classes["nil-declared-unacceptable"] = true
					}
				} else {
					ok = o.Out == 0
				}
			}
			if o.Out == 3 {
				in.classes["req-returns-ErrServiceUnavailable"] = true
			}
			if o.Out == 5 {
				in.classes["req-returns-wrapped-ErrServiceUnavailable"] = true
			}
			br.m.record(obs.markAt, ok)
		}
	}
	return true
}

// inner: the protected function of an admitted call itself goes through a breaker
// (same name or another one) before it returns - a nested / re-entrant call.
func (in *c01Interp) inner(outer *c01Brk, o c01Op) {
	br := outer
	if o.In == 3 {
		for i, b := range in.brks {
			if b == outer {
				br = in.brks[(i+1)%len(in.brks)]
			}
		}
	}
	if br.b == nil || br.m == nil {
		return
	}
	in.classes["re-entrant-call"] = true
	acc0, tot0 := br.m.visible(in.now())
	ran := false
	var want error
	if o.In == 2 {
		want = c01ErrB
	}
	err := br.b.Do(func() error { ran = true; return want })
	switch {
	case !ran:
		if !c01Eligible(acc0, tot0) || err != ErrServiceUnavailable {
			in.fail = fmt.Sprintf("nested call inside the protected function on breaker %s rejected (err=%v) with window (successes=%d,total=%d)", c01Short(br.name), err, acc0, tot0)
		}
	case err != want:
		in.fail = fmt.Sprintf("nested call inside the protected function returned %v, want %v", err, want)
	default:
		br.m.record(in.now(), want == nil)
	}
}

func (in *c01Interp) allowOnce(br *c01Brk, useHandle, nop bool, g int, what string) (Promise, bool, bool) {
	if !br.direct && !nop && br.b == nil {
		br.m = c01NewModel(in.now())
	}
	var acc0, tot0 int64
	if !nop {
		acc0, tot0 = br.m.visible(in.now())
	}
	var p Promise
	var err error
	in.on(g, func() {
		if useHandle {
			p, err = br.b.Allow()
		} else {
			p, err = Get(br.name).Allow()
		}
	})
	if err != nil {
		if nop {
			in.fail = fmt.Sprintf("%s: disabled breaker rejected Allow: %v", what, err)
			return nil, false, false
		}
		if err != ErrServiceUnavailable {
			in.fail = fmt.Sprintf("%s: Allow returned error %v, want ErrServiceUnavailable", what, err)
			return nil, false, false
		}
		if !c01Eligible(acc0, tot0) {
			in.fail = fmt.Sprintf("%s: Allow rejected although the window (successes=%d,total=%d) does not satisfy total-5 > 1.5*successes", what, acc0, tot0)
			return nil, false, false
		}
		in.classes["rejected-allow"] = true
		return nil, false, true
	}
	if p == nil {
		in.fail = fmt.Sprintf("%s: Allow returned neither promise nor error", what)
		return nil, false, false
	}
	return p, true, true
}

func c01InterpSeq(t *testing.T, c c01Case) (v kit.Verdict) {
	in := &c01Interp{classes: map[string]bool{}}
	res := kit.Bubble(t, func() {
		c01ResetRegistry()
		in.start = time.Now()
		for i := 0; i < c.ND; i++ {
			in.brks = append(in.brks, &c01Brk{direct: true, name: fmt.Sprintf("direct-%d", i)})
		}
		for _, n := range c.Names {
			in.brks = append(in.brks, &c01Brk{name: c01ExpandName(n)})
			if n != "" && n != "a" && n != "b" {
				in.classes["name-special"] = true
			}
			if strings.HasPrefix(n, "long:") {
				in.classes["name-long"] = true
			}
		}
		if len(in.brks) == 0 {
			return
		}
		ng := c.NG
		if ng < 1 {
			ng = 1
		}
		for i := 0; i < ng; i++ {
			w := &c01Worker{in: make(chan func()), done: make(chan struct{})}
			in.workers = append(in.workers, w)
			go func() {
				for f := range w.in {
					f()
					w.done <- struct{}{}
				}
			}()
		}
		defer func() {
			for _, w := range in.workers {
				close(w.in)
			}
			kit.Wait()
		}()
		usedG := map[int]bool{}
		step := func(i int, o c01Op) {
			in.rep = 0
			what := fmt.Sprintf("op %d %+v", i, o)
			br, useHandle, nop := in.route(o)
			idx := o.T % len(in.brks)
			switch o.K {
			case "call":
				usedG[o.G%ng] = true
				if br.direct {
					in.ensureDirect(br, idx)
				} else {
					in.classes["registry"] = true
				}
				if nop {
					in.classes["nop-breaker"] = true
				}
				n := o.N
				if n < 1 {
					n = 1
				}
				if o.Sl > 0 {
					in.classes["sleep-in-req"] = true
				}
				for j := 0; j < n; j++ {
					w := what
					in.rep = j
					if !in.call(br, useHandle, nop, o, w) {
						return
					}
					if !in.afterRegistryTouch(br, w) || !in.checkWindows(w, "call") {
						return
					}
				}
			case "allow", "pburst":
				usedG[o.G%ng] = true
				if br.direct {
					in.ensureDirect(br, idx)
				}
				n := 1
				if o.K == "pburst" {
					n = o.N
					in.classes["promise-burst"] = true
				}
				var got []Promise
				for j := 0; j < n; j++ {
					p, admitted, ok := in.allowOnce(br, useHandle, nop, o.G, what)
					if !ok {
						return
					}
					if !in.afterRegistryTouch(br, what) || !in.checkWindows(what, "allow") {
						return
					}
					if admitted {
						got = append(got, p)
					}
				}
				if o.K == "allow" {
					if !nop {
						br.pend = append(br.pend, got...)
					} else {
						for _, p := range got {
							p.Accept()
							p.Reject("nop")
						}
					}
				} else {
					for _, p := range got {
						p := p
						in.on(o.G, func() {
							if o.Ok {
								p.Accept()
							} else {
								p.Reject("c01 burst")
							}
						})
						if !nop {
							br.m.record(in.now(), o.Ok)
						}
					}
					if !in.checkWindows(what, "resolve") {
						return
					}
				}
			case "resolve":
				if len(br.pend) == 0 {
					in.classes["resolve-nothing-pending"] = true
					return
				}
				j := o.I % len(br.pend)
				p := br.pend[j]
				br.pend = append(br.pend[:j], br.pend[j+1:]...)
				in.on(o.G, func() {
					if o.Ok {
						p.Accept()
					} else {
						p.Reject("c01 reject")
					}
				})
				in.classes["promise-resolved-later"] = true
				br.m.record(in.now(), o.Ok)
				if !in.checkWindows(what, "resolve") {
					return
				}
			case "adv":
				d := time.Duration(o.D)
				now := in.now()
				switch o.AK {
				case 1:
					if br.m != nil {
						d = c01Bucket - (now-br.m.created)%c01Bucket + time.Duration(o.D)
						in.classes["adv-to-grid-boundary"] = true
					}
				case 2, 3:
					if br.m != nil {
						g, ok := br.m.oldestVisible(now)
						if o.AK == 3 && br.m.any {
							g, ok = br.m.maxG, true
						}
						if ok {
							at := br.m.created + time.Duration(g+c01Buckets)*c01Bucket
							d = at - now + time.Duration(o.D)
							if o.D == 0 {
								in.classes["adv-exactly-to-expiry"] = true
							} else if o.D < 0 {
								in.classes["adv-just-before-expiry"] = true
							}
						}
					}
				}
				if d < 0 {
					d = 0
				}
				if now+d > 200*365*24*time.Hour { // keep the virtual clock below year 2262 (UnixNano range)
					d = 0
					in.classes["adv-capped"] = true
				}
				if d >= 30*24*time.Hour {
					in.classes["adv>=30days"] = true
				}
				if d >= 100*365*24*time.Hour {
					in.classes["adv-100years"] = true
				}
				if d > 0 {
					time.Sleep(d)
				}
				if d > 10*time.Second {
					in.classes["adv>10s"] = true
				}
				if !in.checkWindows(what, "adv") {
					return
				}
			case "probe":
				if br.direct {
					in.ensureDirect(br, idx)
				}
				if !br.direct && !nop && br.b == nil {
					br.m = c01NewModel(in.now())
				}
				var p float64
				if !nop {
					acc0, tot0 := br.m.visible(in.now())
					p = c01P(acc0, tot0)
				}
				rej := 0
				bad := ""
				in.on(o.G, func() {
					var b Breaker
					if useHandle {
						b = br.b
					} else {
						b = Get(br.name)
					}
					for j := 0; j < o.M; j++ {
						if _, err := b.Allow(); err != nil {
							rej++
							if err != ErrServiceUnavailable {
								bad = err.Error()
							}
						}
					}
				})
				if bad != "" {
					in.fail = fmt.Sprintf("%s: Allow returned error %q, want ErrServiceUnavailable", what, bad)
					return
				}
				switch {
				case p == 0:
					in.classes["probe-p=0"] = true
				case p > 0.9:
					in.classes["probe-p>0.9"] = true
				default:
					in.classes["probe-0<p<=0.9"] = true
				}
				if msg := c01ProbeVerdict(o.M, p, rej); msg != "" {
					in.fail = what + ": " + msg
					return
				}
				if !in.afterRegistryTouch(br, what) || !in.checkWindows(what, "probe") {
					return
				}
			case "nobrk":
				if br.direct {
					return
				}
				NoBreakerFor(br.name)
				br.nop = true
				in.classes["NoBreakerFor"] = true
				if !in.checkWindows(what, "nobrk") {
					return
				}
			}
		}
		for i, o := range c.Ops {
			i, o := i, o
			in.on(o.G, func() { step(i, o) })
			if in.fail != "" {
				return
			}
		}
		if len(usedG) > 1 {
			in.classes["several-goroutines"] = true
		}
	})
	for _, br := range in.brks {
		if br.m != nil && br.m.sawPos && br.m.recovered {
			v.NonTrivial = true
		}
	}
	for k := range in.classes {
		v.Classes = append(v.Classes, k)
	}
	sort.Strings(v.Classes)
	if in.fail != "" {
		v.Fail = in.fail
		if in.rep > 0 {
			v.Fail += fmt.Sprintf(" [repetition #%d of the op]", in.rep)
		}
	} else if !res.OK() {
		v.Fail = "bubble: " + res.String()
	}
	return v
}

// ---------------------------------------------------------------- generator (sequential rule)

// name specs (see c01ExpandName): plain, case pair, format verbs, multi-byte, NUL,
// invalid UTF-8, glob/regexp metacharacters, blanks, long names sharing a 64 KiB prefix
var c01NamePool = []string{"a", "A", "b", "GET://x", "svc/method", "", "%s%d%!v(%", "名字/方法", "a\x00b", "hex:fffe80", "*?[a-z]+(\\", " a ",
	"long:100:p", "long:65536:p", "long:65536:q"}

func c01GenCall(rt *rapid.T, ntargets, ng int, budget *int) c01Op {
	o := c01Op{K: "call"}
	o.T = rapid.IntRange(0, ntargets-1).Draw(rt, "t")
	o.G = rapid.IntRange(0, ng-1).Draw(rt, "g")
	o.Via = rapid.IntRange(0, 3).Draw(rt, "via")
	o.Rt = rapid.IntRange(0, 2).Draw(rt, "rt")
	o.Out = rapid.SampledFrom([]int{0, 0, 0, 0, 1, 1, 1, 1, 2, 3, 4, 4, 5}).Draw(rt, "out")
	if o.Out == 4 {
		o.PV = rapid.IntRange(0, 6).Draw(rt, "pv")
	}
	if o.Via == 1 || o.Via == 3 {
		o.Acc = rapid.SampledFrom([]int{1, 1, 1, 3, 5, 9, 15, 0, 2, 14, 6, 17, 31, 16}).Draw(rt, "acc")
		if o.Out != 4 && rapid.IntRange(0, 7).Draw(rt, "ap") == 0 {
			o.AP = 1
			o.PV = rapid.IntRange(0, 6).Draw(rt, "appv")
		}
	}
	if o.Via >= 2 {
		o.Fb = rapid.IntRange(0, 3).Draw(rt, "fb")
		if o.Fb == 3 && o.Out != 4 && o.AP == 0 {
			o.PV = rapid.IntRange(0, 6).Draw(rt, "fbpv")
		}
	}
	o.N = rapid.SampledFrom([]int{1, 1, 1, 1, 2, 3, 6, 7, 8, 12, 30, 100, 400, 2000}).Draw(rt, "n")
	if o.N > *budget {
		o.N = 1
	}
	*budget -= o.N
	if o.N <= 30 {
		o.Sl = rapid.SampledFrom([]int64{0, 0, 0, 0, 0, 0, 0, 0, 1, int64(time.Millisecond), int64(c01Bucket), int64(3 * time.Second), int64(10 * time.Second),
			int64(time.Minute), int64(time.Hour)}).Draw(rt, "sl")
		o.In = rapid.SampledFrom([]int{0, 0, 0, 0, 0, 1, 2, 3}).Draw(rt, "in")
	}
	return o
}

func c01GenAdv(rt *rapid.T, ntargets int) c01Op {
	o := c01Op{K: "adv"}
	o.T = rapid.IntRange(0, ntargets-1).Draw(rt, "t")
	o.AK = rapid.SampledFrom([]int{0, 0, 0, 1, 2, 2, 3, 3}).Draw(rt, "ak")
	switch o.AK {
	case 0:
		ms := int64(time.Millisecond)
		if rapid.Bool().Draw(rt, "fixed") {
			o.D = rapid.SampledFrom([]int64{0, 1, 100 * ms, 249 * ms, 250 * ms, 251 * ms, 1000 * ms, 2500 * ms,
				9500 * ms, 9750 * ms, 10000 * ms, 10250 * ms, 11000 * ms, 60000 * ms, 3600000 * ms,
				30 * 24 * 3600000 * ms, 100 * 365 * 24 * 3600000 * ms}).Draw(rt, "d")
		} else {
			o.D = rapid.Int64Range(0, 12000*ms).Draw(rt, "d")
		}
	case 1:
		o.D = rapid.SampledFrom([]int64{-1, 0, 1}).Draw(rt, "d")
	default:
		o.D = rapid.SampledFrom([]int64{-1, 0, 0, 1, -int64(c01Bucket), int64(c01Bucket)}).Draw(rt, "d")
	}
	return o
}

func c01GenSeq(rt *rapid.T) c01Case {
	var c c01Case
	c.ND = rapid.IntRange(0, 2).Draw(rt, "nd")
	nn := rapid.IntRange(0, 4).Draw(rt, "nn")
	if c.ND+nn == 0 {
		c.ND = 1
	}
	perm := rapid.Permutation(c01NamePool).Draw(rt, "names")
	c.Names = append([]string{}, perm[:nn]...)
	c.NG = rapid.IntRange(1, 4).Draw(rt, "ng")
	nt := c.ND + nn
	budget := 6000
	nops := rapid.IntRange(1, 60).Draw(rt, "nops")
	kinds := []string{"call", "call", "call", "call", "call", "call", "call", "call",
		"allow", "allow", "resolve", "resolve", "pburst", "adv", "adv", "adv", "adv", "adv", "probe", "probe", "probe"}
	if nn > 0 {
		kinds = append(kinds, "nobrk")
	}
	for i := 0; i < nops; i++ {
		k := rapid.SampledFrom(kinds).Draw(rt, "kind")
		var o c01Op
		switch k {
		case "call":
			o = c01GenCall(rt, nt, c.NG, &budget)
		case "allow":
			o = c01Op{K: "allow", T: rapid.IntRange(0, nt-1).Draw(rt, "t"), G: rapid.IntRange(0, c.NG-1).Draw(rt, "g"), Rt: rapid.IntRange(1, 2).Draw(rt, "rt")}
		case "resolve":
			o = c01Op{K: "resolve", T: rapid.IntRange(0, nt-1).Draw(rt, "t"), G: rapid.IntRange(0, c.NG-1).Draw(rt, "g"),
				I: rapid.IntRange(0, 5).Draw(rt, "i"), Ok: rapid.Bool().Draw(rt, "ok")}
		case "pburst":
			o = c01Op{K: "pburst", T: rapid.IntRange(0, nt-1).Draw(rt, "t"), G: rapid.IntRange(0, c.NG-1).Draw(rt, "g"), Rt: rapid.IntRange(1, 2).Draw(rt, "rt"),
				N: rapid.SampledFrom([]int{1, 5, 6, 7, 20, 100, 2000}).Draw(rt, "n"), Ok: rapid.SampledFrom([]bool{false, false, false, true}).Draw(rt, "ok")}
			if o.N > budget {
				o.N = 6
			}
			budget -= o.N
		case "adv":
			o = c01GenAdv(rt, nt)
		case "probe":
			o = c01Op{K: "probe", T: rapid.IntRange(0, nt-1).Draw(rt, "t"), G: rapid.IntRange(0, c.NG-1).Draw(rt, "g"), Rt: rapid.IntRange(1, 2).Draw(rt, "rt"),
				M: rapid.SampledFrom([]int{200, 2000, 2000, 5000, 20000}).Draw(rt, "m")}
		case "nobrk":
			o = c01Op{K: "nobrk", T: rapid.IntRange(c.ND, nt-1).Draw(rt, "t")}
		}
		c.Ops = append(c.Ops, o)
	}
	return c
}

func TestVerif_C01_model(t *testing.T) {
	kit.Run(t, "C01", "breaker-model", kit.Opts{Quick: 700, Thorough: 32000}, c01GenSeq,
		func(c c01Case) kit.Verdict { return c01InterpSeq(t, c) })
}

// ---------------------------------------------------------------- overlapping calls (parallel rule)

// All instants of a parallel case are multiples of 1 µs; a monitor goroutine
// reads the windows at instants i*Period+500ns, when every caller is asleep, so
// the comparison with the model is exact even though calls overlap.

type c01PCall struct {
	T     int   `json:"t,omitempty"`
	Allow bool  `json:"al,omitempty"` // Allow ... Accept/Reject instead of Do*
	Via   int   `json:"via,omitempty"`
	Out   int   `json:"out,omitempty"`
	PV    int   `json:"pv,omitempty"`
	Acc   int   `json:"acc,omitempty"`
	Fb    int   `json:"fb,omitempty"`
	Delay int64 `json:"dl,omitempty"` // µs before the call
	Dur   int64 `json:"du,omitempty"` // µs spent inside the protected function
}

type c01Pre struct {
	T    int  `json:"t,omitempty"`
	N    int  `json:"n"`
	Fail bool `json:"f,omitempty"`
}

type c01PCase struct {
	Names  []string     `json:"names"` // "" => direct breaker (New), else registry name created lazily by the callers
	Pre    []c01Pre     `json:"pre,omitempty"`
	Gs     [][]c01PCall `json:"gs"`
	Period int64        `json:"per"` // µs between monitor samples
}

type c01PObs struct {
	call            c01PCall
	startAt, markAt time.Duration
	reqRuns, fbRuns int
	fbArg, ret      error
	allowErr        error
	panicked        bool
	pval            any
	handle          Breaker
}

type c01Sample struct {
	at         time.Duration
	acc, total []int64
}

func c01InterpPar(t *testing.T, c c01PCase) (v kit.Verdict) {
	classes := map[string]bool{}
	var fail string
	res := kit.Bubble(t, func() {
		c01ResetRegistry()
		start := time.Now()
		now := func() time.Duration { return time.Since(start) }
		nb := len(c.Names)
		if nb == 0 {
			return
		}
		direct := make([]Breaker, nb)
		regName := make([]string, nb)
		for i, n := range c.Names {
			if n == "" {
				direct[i] = New()
			} else {
				regName[i] = fmt.Sprintf("%s#%d", n, i)
			}
		}
		get := func(i int) Breaker {
			if direct[i] != nil {
				return direct[i]
			}
			return Get(regName[i])
		}
		models := make([]*c01Model, nb)
		for i := range models {
			models[i] = c01NewModel(0)
		}
		// prelude: sequential outcomes that put the breakers into a state
		for _, p := range c.Pre {
			i := p.T % nb
			b := get(i)
			for j := 0; j < p.N; j++ {
				ran := false
				err := b.Do(func() error {
					ran = true
					if p.Fail {
						return c01ErrA
					}
					return nil
				})
				acc0, tot0 := models[i].visible(0)
				if !ran {
					if !c01Eligible(acc0, tot0) || err != ErrServiceUnavailable {
						fail = fmt.Sprintf("prelude %+v #%d: rejected (err=%v) with window (successes=%d,total=%d)", p, j, err, acc0, tot0)
						return
					}
					continue
				}
				models[i].record(0, !p.Fail)
			}
		}
		obs := make([][]*c01PObs, len(c.Gs))
		var wg sync.WaitGroup
		for gi, calls := range c.Gs {
			gi, calls := gi, calls
			obs[gi] = make([]*c01PObs, 0, len(calls))
			wg.Add(1)
			go func() {
				defer wg.Done()
				for _, pc := range calls {
					pc := pc
					o := &c01PObs{call: pc}
					obs[gi] = append(obs[gi], o)
					i := pc.T % nb
					if pc.Delay > 0 {
						time.Sleep(time.Duration(pc.Delay) * time.Microsecond)
					}
					o.startAt = now()
					b := get(i)
					o.handle = b
					if pc.Allow {
						p, err := b.Allow()
						o.allowErr = err
						if err != nil {
							continue
						}
						o.reqRuns = 1
						if pc.Dur > 0 {
							time.Sleep(time.Duration(pc.Dur) * time.Microsecond)
						}
						o.markAt = now()
						if pc.Out == 0 {
							p.Accept()
						} else {
							p.Reject("c01 parallel")
						}
						continue
					}
					req := func() error {
						o.reqRuns++
						if pc.Dur > 0 {
							time.Sleep(time.Duration(pc.Dur) * time.Microsecond)
						}
						o.markAt = now()
						if pc.Out == 4 {
							panic(c01PanicVal(pc.PV))
						}
						return c01Err(pc.Out)
					}
					fallback := func(err error) error {
						o.fbRuns++
						o.fbArg = err
						switch pc.Fb {
						case 1:
							return c01ErrB
						case 2:
							return err
						}
						return nil
					}
					acceptable := func(err error) bool {
						id := c01ErrID(err)
						return id >= 0 && pc.Acc&(1<<uint(id)) != 0
					}
					func() {
						defer func() {
							if r := recover(); r != nil {
								o.panicked, o.pval = true, r
							}
						}()
						switch pc.Via {
						case 0:
							o.ret = b.Do(req)
						case 1:
							o.ret = b.DoWithAcceptable(req, acceptable)
						case 2:
							o.ret = b.DoWithFallback(req, fallback)
						default:
							o.ret = b.DoWithFallbackAcceptable(req, fallback, acceptable)
						}
					}()
				}
			}()
		}
		// monitor
		stop := make(chan struct{})
		monDone := make(chan struct{})
		var samples []c01Sample
		period := time.Duration(c.Period) * time.Microsecond
		if period < time.Microsecond {
			period = time.Microsecond
		}
		go func() {
			defer close(monDone)
			time.Sleep(500 * time.Nanosecond)
			tk := time.NewTicker(period)
			defer tk.Stop()
			for {
				s := c01Sample{at: now(), acc: make([]int64, nb), total: make([]int64, nb)}
				for i := 0; i < nb; i++ {
					if direct[i] == nil {
						lock.RLock()
						_, exists := breakers[regName[i]]
						lock.RUnlock()
						if !exists {
							s.acc[i], s.total[i] = -1, -1
							continue
						}
					}
					s.acc[i], s.total[i], _ = c01Hist(get(i))
				}
				samples = append(samples, s)
				select {
				case <-stop:
					return
				case <-tk.C:
				}
			}
		}()
		wg.Wait()
		time.Sleep(time.Microsecond) // one more sample after the last outcome
		kit.Wait()
		close(stop)
		<-monDone

		// ---- judge
		type ev struct {
			at time.Duration
			ok bool
		}
		events := make([][]ev, nb)
		type iv struct {
			s, e time.Duration
			g    int
		}
		ivs := make([][]iv, nb)
		handles := make([]Breaker, nb)
		// grid anchor = creation instant: direct breakers and names touched by the
		// prelude exist from t=0, other names are created by their first caller
		anchored := make([]bool, nb)
		for i := range anchored {
			anchored[i] = direct[i] != nil
		}
		for _, p := range c.Pre {
			if p.N > 0 {
				anchored[p.T%nb] = true
			}
		}
		seen := make([]bool, nb)
		for gi := range obs {
			for _, o := range obs[gi] {
				i := o.call.T % nb
				if !anchored[i] && (!seen[i] || o.startAt < models[i].created) {
					models[i].created = o.startAt
					seen[i] = true
				}
			}
		}
		for i := range anchored {
			if !anchored[i] && models[i].created > 0 {
				classes["created-lazily-by-callers"] = true
			}
		}
		for gi := range obs {
			for ci, o := range obs[gi] {
				pc := o.call
				i := pc.T % nb
				what := fmt.Sprintf("goroutine %d call %d %+v (start %v)", gi, ci, pc, o.startAt)
				if handles[i] == nil {
					handles[i] = o.handle
				} else if handles[i] != o.handle {
					fail = fmt.Sprintf("%s: callers of breaker %q obtained different breakers", what, regName[i])
					return
				}
				if pc.Allow {
					if o.allowErr != nil {
						if o.allowErr != ErrServiceUnavailable {
							fail = fmt.Sprintf("%s: Allow returned %v", what, o.allowErr)
							return
						}
						continue
					}
					events[i] = append(events[i], ev{o.markAt, pc.Out == 0})
					ivs[i] = append(ivs[i], iv{o.startAt, o.markAt, gi})
					continue
				}
				hasFb := pc.Via >= 2
				switch {
				case o.reqRuns > 1:
					fail = fmt.Sprintf("%s: protected function ran %d times", what, o.reqRuns)
					return
				case o.reqRuns == 0:
					if o.panicked {
						fail = fmt.Sprintf("%s: rejected call panicked: %v", what, o.pval)
						return
					}
					if hasFb {
						want := []error{nil, c01ErrB, ErrServiceUnavailable}[pc.Fb%3]
						if o.fbRuns != 1 || o.fbArg != ErrServiceUnavailable || o.ret != want {
							fail = fmt.Sprintf("%s: rejected: fallback ran %d times with %v, call returned %v", what, o.fbRuns, o.fbArg, o.ret)
							return
						}
					} else if o.fbRuns != 0 || o.ret != ErrServiceUnavailable {
						fail = fmt.Sprintf("%s: rejected call returned %v", what, o.ret)
						return
					}
				default:
					if o.fbRuns != 0 {
						fail = fmt.Sprintf("%s: admitted call also ran the fallback", what)
						return
					}
					ok := false
					if pc.Out == 4 {
						if !o.panicked || o.pval != c01PanicVal(pc.PV) {
							fail = fmt.Sprintf("%s: panic not re-raised unchanged (panicked=%v value=%v)", what, o.panicked, o.pval)
							return
						}
					} else {
						if o.panicked || o.ret != c01Err(pc.Out) {
							fail = fmt.Sprintf("%s: admitted call returned %v (panicked=%v)", what, o.ret, o.panicked)
							return
						}
						if pc.Via == 1 || pc.Via == 3 {
							ok = pc.Acc&(1<<c01AccBit(pc.Out)) != 0
						} else {
							ok = pc.Out == 0
						}
					}
					events[i] = append(events[i], ev{o.markAt, ok})
					ivs[i] = append(ivs[i], iv{o.startAt, o.markAt, gi})
				}
			}
		}
		// window at an instant: prelude model + events strictly before (or up to) it
		windowAt := func(i int, at time.Duration, inclusive bool, onlyFailuresAtInstant bool) (acc, total int64) {
			acc, total = models[i].visible(at)
			g := models[i].grid(at)
			for _, e := range events[i] {
				if e.at > at || (e.at == at && !inclusive) {
					continue
				}
				if e.at == at && onlyFailuresAtInstant && e.ok {
					continue
				}
				if eg := models[i].grid(e.at); g-eg >= c01Buckets {
					continue
				}
				total++
				if e.ok {
					acc++
				}
			}
			return
		}
		// rejections must be justified by a state reachable at that instant
		for gi := range obs {
			for ci, o := range obs[gi] {
				rejected := (o.call.Allow && o.allowErr != nil) || (!o.call.Allow && o.reqRuns == 0)
				if !rejected {
					continue
				}
				classes["rejected"] = true
				i := o.call.T % nb
				acc, total := windowAt(i, o.startAt, true, true)
				if !c01Eligible(acc, total) {
					fail = fmt.Sprintf("goroutine %d call %d %+v rejected at %v although even the most failure-heavy window possible then (successes=%d,total=%d) does not satisfy total-5 > 1.5*successes",
						gi, ci, o.call, o.startAt, acc, total)
					return
				}
			}
		}
		for _, s := range samples {
			for i := 0; i < nb; i++ {
				macc, mtot := windowAt(i, s.at, false, false)
				if s.acc[i] == -1 {
					if mtot != 0 {
						fail = fmt.Sprintf("monitor at %v: breaker %q not registered but outcomes were recorded", s.at, regName[i])
						return
					}
					continue
				}
				if s.acc[i] != macc || s.total[i] != mtot {
					fail = fmt.Sprintf("monitor at %v: breaker %d (%q) window (successes=%d,total=%d) != outcomes of admitted calls so far (successes=%d,total=%d)",
						s.at, i, c.Names[i], s.acc[i], s.total[i], macc, mtot)
					return
				}
			}
		}
		if len(samples) > 3 {
			classes["monitor>3-samples"] = true
		}
		for i := 0; i < nb; i++ {
			hasOK, hasFail := false, false
			for _, e := range events[i] {
				if e.ok {
					hasOK = true
				} else {
					hasFail = true
				}
			}
			for a := 0; a < len(ivs[i]); a++ {
				for b := a + 1; b < len(ivs[i]); b++ {
					x, y := ivs[i][a], ivs[i][b]
					if x.g != y.g && x.s <= y.e && y.s <= x.e {
						classes["overlapping-calls"] = true
						if x.e == y.e {
							classes["same-instant-outcomes"] = true
						}
						if hasOK && hasFail {
							v.NonTrivial = true
						}
					}
				}
			}
		}
	})
	for k := range classes {
		v.Classes = append(v.Classes, k)
	}
	sort.Strings(v.Classes)
	if fail != "" {
		v.Fail = fail
	} else if !res.OK() {
		v.Fail = "bubble: " + res.String()
	}
	return v
}

func c01GenPar(rt *rapid.T) c01PCase {
	var c c01PCase
	nb := rapid.IntRange(1, 2).Draw(rt, "nb")
	for i := 0; i < nb; i++ {
		c.Names = append(c.Names, rapid.SampledFrom([]string{"", "a", "b"}).Draw(rt, "name"))
	}
	npre := rapid.IntRange(0, 2).Draw(rt, "npre")
	for i := 0; i < npre; i++ {
		c.Pre = append(c.Pre, c01Pre{T: rapid.IntRange(0, nb-1).Draw(rt, "t"),
			N:    rapid.SampledFrom([]int{1, 5, 6, 8, 12, 40}).Draw(rt, "n"),
			Fail: rapid.SampledFrom([]bool{true, true, false}).Draw(rt, "f")})
	}
	ng := rapid.IntRange(2, 8).Draw(rt, "ng")
	durs := []int64{0, 0, 1, 1000, 250000, 250000, 1000000, 3000000, 10000000}
	for g := 0; g < ng; g++ {
		n := rapid.IntRange(1, 12).Draw(rt, "ncalls")
		var calls []c01PCall
		for j := 0; j < n; j++ {
			pc := c01PCall{T: rapid.IntRange(0, nb-1).Draw(rt, "t")}
			pc.Allow = rapid.IntRange(0, 4).Draw(rt, "allow") == 0
			pc.Out = rapid.SampledFrom([]int{0, 0, 0, 1, 1, 1, 2, 3, 4, 5}).Draw(rt, "out")
			if !pc.Allow {
				pc.Via = rapid.IntRange(0, 3).Draw(rt, "via")
				if pc.Out == 4 {
					pc.PV = rapid.IntRange(0, 3).Draw(rt, "pv")
				}
				if pc.Via == 1 || pc.Via == 3 {
					pc.Acc = rapid.SampledFrom([]int{1, 1, 3, 9, 15, 0, 14, 17, 31}).Draw(rt, "acc")
				}
				if pc.Via >= 2 {
					pc.Fb = rapid.IntRange(0, 2).Draw(rt, "fb")
				}
			}
			pc.Delay = rapid.SampledFrom(durs).Draw(rt, "delay")
			pc.Dur = rapid.SampledFrom(durs).Draw(rt, "dur")
			calls = append(calls, pc)
		}
		c.Gs = append(c.Gs, calls)
	}
	c.Period = rapid.SampledFrom([]int64{125000, 250000, 333000, 1000000}).Draw(rt, "period")
	return c
}

func TestVerif_C01_parallel(t *testing.T) {
	kit.Run(t, "C01", "breaker-parallel", kit.Opts{Quick: 2500, Thorough: 64000}, c01GenPar,
		func(c c01PCase) kit.Verdict { return c01InterpPar(t, c) })
}

// ---------------------------------------------------------------- real-parallel stress (no bubble)

// G goroutines hammer one breaker at the same real time. Every admitted call
// must be in the window exactly once afterwards (the run is judged only when it
// took less than 5 s of real time, so nothing can have aged out of the 10 s window).
type c01SCase struct {
	G     int  `json:"g"`
	K     int  `json:"k"`
	FailP int  `json:"fp"` // every FailP-th call of a goroutine fails (0: none)
	Named bool `json:"named,omitempty"`
	Allow bool `json:"allow,omitempty"`
}

var c01StressSeq int64

func c01InterpStress(c c01SCase) (v kit.Verdict) {
	t0 := time.Now()
	var b Breaker
	name := ""
	if c.Named {
		name = fmt.Sprintf("c01-stress-%d", atomic.AddInt64(&c01StressSeq, 1))
	} else {
		b = New()
	}
	var wg sync.WaitGroup
	type tally struct{ okRuns, failRuns, rejected, bad int64 }
	tallies := make([]tally, c.G)
	handles := make([]Breaker, c.G)
	startGate := make(chan struct{})
	for g := 0; g < c.G; g++ {
		g := g
		wg.Add(1)
		go func() {
			defer wg.Done()
			<-startGate
			tl := &tallies[g]
			bb := b
			if c.Named {
				bb = Get(name)
			}
			handles[g] = bb
			for j := 0; j < c.K; j++ {
				failing := c.FailP > 0 && j%c.FailP == c.FailP-1
				if c.Allow {
					p, err := bb.Allow()
					if err != nil {
						tl.rejected++
						if err != ErrServiceUnavailable {
							tl.bad++
						}
						continue
					}
					if failing {
						tl.failRuns++
						p.Reject("c01 stress")
					} else {
						tl.okRuns++
						p.Accept()
					}
					continue
				}
				ran := false
				err := bb.Do(func() error {
					ran = true
					if failing {
						return c01ErrA
					}
					return nil
				})
				switch {
				case !ran:
					tl.rejected++
					if err != ErrServiceUnavailable {
						tl.bad++
					}
				case failing:
					tl.failRuns++
					if err != c01ErrA {
						tl.bad++
					}
				default:
					tl.okRuns++
					if err != nil {
						tl.bad++
					}
				}
			}
		}()
	}
	close(startGate)
	wg.Wait()
	for g := 1; g < c.G; g++ {
		if handles[g] != handles[0] {
			return v.Failf("goroutines racing on Get(%q) obtained different breakers", name)
		}
	}
	acc, total, ok := c01Hist(handles[0])
	elapsed := time.Since(t0)
	if !ok {
		return v.Failf("harness cannot reach the window")
	}
	var sum tally
	for _, tl := range tallies {
		sum.okRuns += tl.okRuns
		sum.failRuns += tl.failRuns
		sum.rejected += tl.rejected
		sum.bad += tl.bad
	}
	v.NonTrivial = c.G > 1
	if sum.rejected > 0 {
		v.Classes = append(v.Classes, "rejections")
	}
	if c.Named {
		v.Classes = append(v.Classes, "named")
	}
	if sum.bad != 0 {
		return v.Failf("%d calls returned something else than the protected function's error / ErrServiceUnavailable", sum.bad)
	}
	if c.FailP == 0 && sum.rejected != 0 {
		return v.Failf("%d calls rejected although every recorded outcome is a success", sum.rejected)
	}
	if elapsed > 5*time.Second {
		v.Excluded = true
		return v
	}
	if acc != sum.okRuns || total != sum.okRuns+sum.failRuns {
		return v.Failf("after %d goroutines x %d calls: window (successes=%d,total=%d) != admitted calls (successes=%d,total=%d)",
			c.G, c.K, acc, total, sum.okRuns, sum.okRuns+sum.failRuns)
	}
	return v
}

func TestVerif_C01_stress(t *testing.T) {
	kit.Run(t, "C01", "breaker-stress", kit.Opts{Quick: 24, Thorough: 640}, func(rt *rapid.T) c01SCase {
		return c01SCase{
			G:     rapid.SampledFrom([]int{2, 4, 8, 16}).Draw(rt, "g"),
			K:     rapid.SampledFrom([]int{1000, 5000, 20000}).Draw(rt, "k"),
			FailP: rapid.SampledFrom([]int{0, 0, 2, 3, 10}).Draw(rt, "fp"),
			Named: rapid.Bool().Draw(rt, "named"),
			Allow: rapid.Bool().Draw(rt, "allow"),
		}
	}, c01InterpStress)
}

// ---------------------------------------------------------------- many names in one process (bulk rule)

// A long-lived process registers many names (target/method pairs). However many
// names the registry already holds, every name must keep a history of its own.
// A case registers N bulk names through Get / Do / DoWithAcceptable and places
// probe pairs (one name that only fails, one that only succeeds, used
// alternately) before, inside, around the end of and after the bulk.
type c01BulkCase struct {
	N     int   `json:"n"`     // bulk names
	Pairs []int `json:"pairs"` // a pair is placed when this many bulk names are registered
	Skew  int64 `json:"skew,omitempty"`
}

func c01BulkName(i int) string { return "n" + strconv.FormatInt(int64(i), 36) }

func c01InterpBulk(t *testing.T, c c01BulkCase) (v kit.Verdict) {
	var fail string
	classes := map[string]bool{}
	type pair struct {
		at           int
		bad, good    string
		hBad, hGood  Breaker
		okRuns       int64 // admitted calls of the healthy name
		failRuns     int64 // admitted calls of the failing name
		rejectedBad  int
		registeredAt int // names in the registry when the pair was created
	}
	var pairs []*pair
	res := kit.Bubble(t, func() {
		c01ResetRegistry()
		defer func() {
			// hygiene only: do not keep tens of thousands of breakers alive for the other rules
			c01ResetRegistry()
			debug.FreeOSMemory()
		}()
		if c.Skew > 0 {
			time.Sleep(time.Duration(c.Skew))
		}
		registered := 0
		type sample struct {
			name string
			h    Breaker
		}
		var samples []sample
		pred := func(err error) bool { return err == nil }
		// use drives one pair: failures on the bad name alternate with successes on the good one
		use := func(p *pair, rounds int, what string) bool {
			for j := 0; j < rounds; j++ {
				ranBad := false
				err := Do(p.bad, func() error { ranBad = true; return c01ErrA })
				switch {
				case !ranBad && err == ErrServiceUnavailable:
					p.rejectedBad++
				case ranBad && err == c01ErrA:
					p.failRuns++
				default:
					fail = fmt.Sprintf("%s: failing name %q call %d: ran=%v err=%v", what, p.bad, j, ranBad, err)
					return false
				}
				ranGood := false
				var errG error
				if j%2 == 0 {
					errG = DoWithAcceptable(p.good, func() error { ranGood = true; return nil }, pred)
				} else {
					errG = Get(p.good).Do(func() error { ranGood = true; return nil })
				}
				if !ranGood || errG != nil {
					fail = fmt.Sprintf("%s: name %q has only ever succeeded (%d calls) but its call %d was rejected (ran=%v err=%v); %d names registered when it was created, %d now",
						what, p.good, p.okRuns, j, ranGood, errG, p.registeredAt, registered)
					return false
				}
				p.okRuns++
			}
			return true
		}
		check := func(p *pair, what string) bool {
			if hb, hg := Get(p.bad), Get(p.good); hb != p.hBad || hg != p.hGood {
				fail = fmt.Sprintf("%s: Get(%q)/Get(%q) no longer return the breakers they returned first", what, p.bad, p.good)
				return false
			}
			if p.hBad == p.hGood {
				fail = fmt.Sprintf("%s: names %q and %q are served by the same breaker (%d names registered when they were created)", what, p.bad, p.good, p.registeredAt)
				return false
			}
			acc, tot, ok := c01Hist(p.hGood)
			if !ok || acc != p.okRuns || tot != p.okRuns {
				fail = fmt.Sprintf("%s: window of the only-succeeding name %q is (successes=%d,total=%d), its admitted calls are (%d,%d)", what, p.good, acc, tot, p.okRuns, p.okRuns)
				return false
			}
			acc, tot, ok = c01Hist(p.hBad)
			if !ok || acc != 0 || tot != p.failRuns {
				fail = fmt.Sprintf("%s: window of the only-failing name %q is (successes=%d,total=%d), its admitted calls are (0,%d)", what, p.bad, acc, tot, p.failRuns)
				return false
			}
			return true
		}
		place := func(at int) bool {
			p := &pair{at: at, bad: fmt.Sprintf("bad@%d", at), good: fmt.Sprintf("good@%d", at), registeredAt: registered}
			pairs = append(pairs, p)
			p.hBad, p.hGood = Get(p.bad), Get(p.good)
			registered += 2
			what := fmt.Sprintf("pair placed after %d bulk names", at)
			return use(p, 120, what) && check(p, what)
		}
		next := 0
		sorted := append([]int{}, c.Pairs...)
		sort.Ints(sorted)
		for i := 0; i <= c.N; i++ {
			for next < len(sorted) && sorted[next] <= i {
				if !place(sorted[next]) {
					return
				}
				next++
			}
			if i == c.N {
				break
			}
			name := c01BulkName(i)
			ran := true
			var err error
			switch i % 3 {
			case 0:
				_ = Get(name)
			case 1:
				ran = false
				err = Do(name, func() error { ran = true; return nil })
			default:
				ran = false
				err = DoWithAcceptable(name, func() error { ran = true; return c01ErrB }, func(error) bool { return true })
				if err == c01ErrB {
					err = nil
				}
			}
			if !ran || err != nil {
				fail = fmt.Sprintf("bulk name %d (%q): first call on a fresh name ran=%v err=%v", i, name, ran, err)
				return
			}
			registered++
			if i%997 == 0 || i >= c.N-3 {
				samples = append(samples, sample{name, Get(name)})
			}
		}
		for next < len(sorted) {
			if !place(sorted[next]) {
				return
			}
			next++
		}
		// afterwards: every pair again, every sampled bulk name still maps to its own breaker
		for _, p := range pairs {
			what := fmt.Sprintf("end of case (%d names registered): pair placed after %d bulk names", registered, p.at)
			if !use(p, 40, what) || !check(p, what) {
				return
			}
			if p.rejectedBad == 0 {
				fail = fmt.Sprintf("%s: %d consecutive failures on %q were all admitted: never cut off", what, p.failRuns, p.bad)
				return
			}
		}
		seen := map[Breaker]string{}
		for _, s := range samples {
			if Get(s.name) != s.h {
				fail = fmt.Sprintf("Get(%q) returns another breaker than at registration", s.name)
				return
			}
			if other, dup := seen[s.h]; dup {
				fail = fmt.Sprintf("bulk names %q and %q share one breaker", other, s.name)
				return
			}
			seen[s.h] = s.name
		}
	})
	for _, p := range c.Pairs {
		switch {
		case p <= 0:
			classes["pair-before-bulk"] = true
		case p >= c.N:
			classes["pair-after-bulk"] = true
		default:
			classes["pair-inside-bulk"] = true
		}
	}
	switch {
	case c.N >= 65536:
		classes["names>=65536"] = true
	case c.N >= 4096:
		classes["names>=4096"] = true
	}
	v.NonTrivial = c.N >= 500 && len(c.Pairs) > 1
	for k := range classes {
		v.Classes = append(v.Classes, k)
	}
	sort.Strings(v.Classes)
	if fail != "" {
		v.Fail = fail
	} else if !res.OK() {
		v.Fail = "bubble: " + res.String()
	}
	return v
}

// c01BulkCases: sizes around round thresholds; the seed moves the sizes by a few
// names and the pairs inside the bulk. Quick: a small case and one just above
// 65 536 names; thorough: every threshold (one case per shard).
func c01BulkCases(thorough bool) []c01BulkCase {
	s := kit.Seed()
	rnd := func(n int) int { // tiny LCG, a function of the seed only
		s = s*6364136223846793005 + 1442695040888963407
		return int((s >> 33) % uint64(n))
	}
	mk := func(n int) c01BulkCase {
		n += rnd(7) - 3
		return c01BulkCase{N: n, Skew: int64(rnd(1_000_000_000)),
			Pairs: []int{0, 1 + rnd(n-1), n - 1 - rnd(3), n, n + 1}}
	}
	sizes := []int{1000, 65536 + 4}
	if thorough {
		sizes = []int{1000, 4096, 10000, 32768, 65536 - 4, 65536, 65536 + 4, 70000, 100000}
	}
	var out []c01BulkCase
	for _, n := range sizes {
		out = append(out, mk(n))
	}
	return out
}

func TestVerif_C01_bulk_names(t *testing.T) {
	kit.Enumerate(t, "C01", "breaker-many-names", func(yield func(c01BulkCase) bool) {
		for _, c := range c01BulkCases(kit.Thorough()) {
			if !yield(c) {
				return
			}
		}
	}, func(c c01BulkCase) kit.Verdict { return c01InterpBulk(t, c) })
}
