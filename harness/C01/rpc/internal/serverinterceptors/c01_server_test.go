package serverinterceptors

// C01 — gRPC server integration. Every full method is its own breaker
// name. A case drives 1..4 full methods, each name with its own
// outcome script, interleaved in generated chunks:
//   benign  nil, non-status errors, context.Canceled, every code outside the
//           failing five, plus at most five failing outcomes: never rejected,
//           whatever happens under the other names;
//   failing >= 200 outcomes of one failing code: cut off at least once;
//   mixed   arbitrary outcomes (background load, only the pass-through of the
//           invoker's result is judged).

import (
	"context"
	"errors"
	"fmt"
	"sort"
	"sync/atomic"
	"testing"
	"time"

	"github.com/gotid/god/lib/breaker"
	"github.com/gotid/god/lib/logx"
	"google.golang.org/grpc"
	gcodes "google.golang.org/grpc/codes"
	"google.golang.org/grpc/status"
	"pgregory.net/rapid"
	"verif.local/kit"
)

func init() { logx.Disable() }

type c01Step struct {
	N int `json:"n"` // name index = target*NM + method; -1: no call, the whole case sleeps 11 s (longer than the 10 s window)
	O int `json:"o"` // 0..16 gRPC code, 100 nil, 101 plain error, 102 context.Canceled
}

type c01RunCase struct {
	NT    int       `json:"nt"`            // targets (client) / 1 (server)
	NM    int       `json:"nm"`            // methods
	Kind  []int     `json:"kind"`          // per name: 0 benign, 1 failing, 2 mixed, 3 outage - recovery - second outage (phases separated by the 11 s sleeps)
	Sfx   int       `json:"sfx,omitempty"` // alphabet of the method names, see c01MethodSuffix
	Steps []c01Step `json:"steps"`
	Skew  int64     `json:"skew,omitempty"` // ns slept first (varies the breakers' PRNG seeds)
}

var (
	c01Failing  = []int{int(gcodes.DeadlineExceeded), int(gcodes.Internal), int(gcodes.Unavailable), int(gcodes.DataLoss), int(gcodes.Unimplemented)}
	c01Plain    = errors.New("c01 plain error")
	c01NameSeq  int64
	c01BenignIn = func() []int {
		bad := map[int]bool{}
		for _, c := range c01Failing {
			bad[c] = true
		}
		out := []int{100, 101, 102}
		for c := 0; c <= 16; c++ {
			if !bad[c] {
				out = append(out, c)
			}
		}
		return out
	}()
)

// c01MethodSuffix: method names are arbitrary strings for the breaker registry
// (format verbs, multi-byte, glob metacharacters, blanks; no path separators or
// dots, which path.Join in the client interceptor would normalise).
func c01MethodSuffix(k int) string {
	return []string{"", "%s%d%!v(%", "方法", "*?[a-z]+(", " m ", "M"}[((k%6)+6)%6]
}

func c01IsFailing(o int) bool {
	for _, f := range c01Failing {
		if f == o {
			return true
		}
	}
	return false
}

func c01Outcome(o int) error {
	switch o {
	case 100:
		return nil
	case 101:
		return c01Plain
	case 102:
		return context.Canceled
	}
	return status.Error(gcodes.Code(o), "c01")
}

// c01Interleave merges the per-name scripts in generated chunks (so that one
// name may run 300 calls in a row while another waits, or strictly alternate).
// With phases (outage-recovery cases) the scripts are cut into three parts at
// cuts[n] (names without cuts: thirds) and an 11 s sleep separates the parts.
func c01Interleave(rt *rapid.T, scripts [][]int, cuts [][2]int, nph int) []c01Step {
	pos := make([]int, len(scripts))
	var steps []c01Step
	for ph := 0; ph < nph; ph++ {
		end := make([]int, len(scripts))
		for n := range scripts {
			switch {
			case ph == nph-1:
				end[n] = len(scripts[n])
			case cuts[n][1] > 0:
				end[n] = cuts[n][ph]
			default:
				end[n] = len(scripts[n]) * (ph + 1) / nph
			}
		}
		for {
			var active []int
			for n := range scripts {
				if pos[n] < end[n] {
					active = append(active, n)
				}
			}
			if len(active) == 0 {
				break
			}
			n := rapid.SampledFrom(active).Draw(rt, "name")
			chunk := rapid.SampledFrom([]int{1, 1, 2, 5, 20, 100, 400}).Draw(rt, "chunk")
			for ; chunk > 0 && pos[n] < end[n]; chunk-- {
				steps = append(steps, c01Step{N: n, O: scripts[n][pos[n]]})
				pos[n]++
			}
		}
		if ph < nph-1 {
			steps = append(steps, c01Step{N: -1})
		}
	}
	return steps
}

func c01GenRun(minT, maxT int) func(rt *rapid.T) c01RunCase {
	return func(rt *rapid.T) c01RunCase {
		c := c01RunCase{NT: rapid.IntRange(minT, maxT).Draw(rt, "nt"), NM: rapid.IntRange(1, 2).Draw(rt, "nm")}
		if minT == 1 && maxT == 1 {
			c.NM = rapid.IntRange(1, 4).Draw(rt, "nm4")
		}
		c.Skew = rapid.Int64Range(0, 1_000_000_000).Draw(rt, "skew")
		c.Sfx = rapid.IntRange(0, 5).Draw(rt, "sfx")
		recovery := rapid.IntRange(0, 3).Draw(rt, "recovery") == 0 // two 11 s sleeps in the case: no plain failing name in it
		cuts := make([][2]int, c.NT*c.NM)
		var scripts [][]int
		for n := 0; n < c.NT*c.NM; n++ {
			kind := rapid.SampledFrom([]int{0, 0, 1, 1, 2}).Draw(rt, "kind")
			if recovery {
				kind = rapid.SampledFrom([]int{3, 3, 0, 2}).Draw(rt, "rkind")
			}
			c.Kind = append(c.Kind, kind)
			var s []int
			switch kind {
			case 3:
				for ph := 0; ph < 3; ph++ {
					ln := rapid.IntRange(200, 240).Draw(rt, "n")
					f := rapid.SampledFrom(c01Failing).Draw(rt, "the")
					for i := 0; i < ln; i++ {
						if ph == 1 {
							s = append(s, rapid.SampledFrom(c01BenignIn).Draw(rt, "o"))
						} else {
							s = append(s, f)
						}
					}
					if ph < 2 {
						cuts[n][ph] = len(s)
					}
				}
			case 0:
				ln := rapid.IntRange(200, 300).Draw(rt, "n")
				pool := c01BenignIn
				if rapid.Bool().Draw(rt, "single") {
					pool = []int{rapid.SampledFrom(c01BenignIn).Draw(rt, "the")}
				}
				for i := 0; i < ln; i++ {
					s = append(s, rapid.SampledFrom(pool).Draw(rt, "o"))
				}
				nf := rapid.IntRange(0, 5).Draw(rt, "nfail")
				for i := 0; i < nf; i++ {
					s[rapid.IntRange(0, ln-1).Draw(rt, "pos")] = rapid.SampledFrom(c01Failing).Draw(rt, "f")
				}
			case 1:
				ln := rapid.IntRange(200, 300).Draw(rt, "n")
				f := rapid.SampledFrom(c01Failing).Draw(rt, "the")
				for i := 0; i < ln; i++ {
					s = append(s, f)
				}
			default:
				ln := rapid.IntRange(20, 200).Draw(rt, "n")
				all := append(append([]int{}, c01BenignIn...), c01Failing...)
				for i := 0; i < ln; i++ {
					s = append(s, rapid.SampledFrom(all).Draw(rt, "o"))
				}
			}
			scripts = append(scripts, s)
		}
		nph := 1
		if recovery {
			nph = 3
		}
		c.Steps = c01Interleave(rt, scripts, cuts, nph)
		return c
	}
}

// c01Judge: every name must behave as an independent breaker. call(run, t, m,
// want) performs one request under name (t,m) and reports whether the protected
// function ran and what came back.
func c01Judge(t *testing.T, c c01RunCase, call func(run int64, ti, mi int, want error) (ran bool, got error)) (v kit.Verdict) {
	var fail string
	k := c.NT * c.NM
	rejected := make([]int, k)
	rejPhase := make([][3]int, k)
	nfail := make([]int, k)
	calls := make([]int, k)
	res := kit.Bubble(t, func() {
		if c.Skew > 0 {
			time.Sleep(time.Duration(c.Skew))
		}
		run := atomic.AddInt64(&c01NameSeq, 1)
		phase := 0
		for i, st := range c.Steps {
			if st.N < 0 {
				time.Sleep(11 * time.Second)
				phase++
				continue
			}
			n := st.N % k
			want := c01Outcome(st.O)
			if c01IsFailing(st.O) {
				nfail[n]++
			}
			calls[n]++
			ran, got := call(run*8+int64(c.Sfx%6), n/c.NM, n%c.NM, want)
			what := fmt.Sprintf("step %d (target %d, method %d, call %d of that name, outcome %v)", i, n/c.NM, n%c.NM, calls[n], want)
			if !ran {
				rejected[n]++
				if phase < 3 {
					rejPhase[n][phase]++
				}
				if got != breaker.ErrServiceUnavailable {
					fail = fmt.Sprintf("%s: protected function not run but result is %v", what, got)
					return
				}
				if c.Kind[n] == 0 {
					fail = fmt.Sprintf("%s rejected by the breaker although this name recorded only benign outcomes and %d (<=5) failing ones; kinds of all names: %v", what, nfail[n], c.Kind)
					return
				}
				if c.Kind[n] == 3 && phase == 1 {
					fail = fmt.Sprintf("%s rejected in the recovery phase: the outage ended more than 10 s ago (11 s sleep), every failure has aged out of the window and only benign outcomes followed", what)
					return
				}
				continue
			}
			if got != want {
				fail = fmt.Sprintf("%s: returned %v, protected function returned %v", what, got, want)
				return
			}
		}
		for n := 0; n < k; n++ {
			if c.Kind[n] == 3 && (rejPhase[n][0] == 0 || rejPhase[n][2] == 0) {
				fail = fmt.Sprintf("name (target %d, method %d): rejections per phase %v: each outage (>= 200 consecutive failing outcomes, nothing else in the window) must be cut off at least once", n/c.NM, n%c.NM, rejPhase[n])
				return
			}
			if c.Kind[n] == 1 && rejected[n] == 0 {
				fail = fmt.Sprintf("name (target %d, method %d): %d consecutive failing outcomes were all admitted: the breaker never cut off a dependency that keeps failing", n/c.NM, n%c.NM, calls[n])
				return
			}
		}
	})
	classes := map[string]bool{}
	hasB, hasF := false, false
	for n, kd := range c.Kind {
		classes[[]string{"benign-name", "failing-name", "mixed-name", "outage-recovery-outage-name"}[kd]] = true
		if kd == 0 {
			hasB = true
			if nfail[n] > 0 {
				classes["benign-name-with<=5-failures"] = true
			}
			// the scenario of a shared name: same method, other target, failing
			for o, ko := range c.Kind {
				if ko == 1 && o%c.NM == n%c.NM && o != n {
					classes["benign+failing-same-method-other-target"] = true
				}
			}
		}
		if kd == 1 {
			hasF = true
		}
	}
	if k > 1 {
		classes["several-names"] = true
	}
	if c.Sfx%6 != 0 {
		classes["method-name-special-characters"] = true
	}
	v.NonTrivial = (k > 1 && hasB && hasF) || classes["outage-recovery-outage-name"]
	for c := range classes {
		v.Classes = append(v.Classes, c)
	}
	sort.Strings(v.Classes)
	v.Fail = fail
	if fail == "" && !res.OK() {
		v.Fail = "bubble: " + res.String()
	}
	return v
}

// ---- entry points

func TestVerif_C01_grpc_server_unary(t *testing.T) {
	kit.Run(t, "C01", "grpc-server-unary-run", kit.Opts{Quick: 300, Thorough: 6400}, c01GenRun(1, 1), func(c c01RunCase) kit.Verdict {
		return c01Judge(t, c, func(run int64, ti, mi int, want error) (bool, error) {
			ran := false
			resp, err := UnaryBreakerInterceptor(context.Background(), nil, &grpc.UnaryServerInfo{FullMethod: fmt.Sprintf("/verif.C01/run%d/unary%d%s", run/8, mi, c01MethodSuffix(int(run%8)))},
				func(ctx context.Context, req interface{}) (interface{}, error) {
					ran = true
					return "c01-resp", want
				})
			if ran && resp != "c01-resp" {
				return ran, fmt.Errorf("response of the handler lost: %v", resp)
			}
			return ran, err
		})
	})
}

func TestVerif_C01_grpc_server_stream(t *testing.T) {
	kit.Run(t, "C01", "grpc-server-stream-run", kit.Opts{Quick: 300, Thorough: 6400}, c01GenRun(1, 1), func(c c01RunCase) kit.Verdict {
		return c01Judge(t, c, func(run int64, ti, mi int, want error) (bool, error) {
			ran := false
			err := StreamBreakerInterceptor(nil, nil, &grpc.StreamServerInfo{FullMethod: fmt.Sprintf("/verif.C01/run%d/stream%d%s", run/8, mi, c01MethodSuffix(int(run%8)))},
				func(srv interface{}, stream grpc.ServerStream) error {
					ran = true
					return want
				})
			return ran, err
		})
	})
}
