package serverinterceptors

// C01 — gRPC server integration: a run of benign outcomes (nil, non-status
// errors, context.Canceled, every code outside the failing five, plus at most
// five failing outcomes) sent through UnaryBreakerInterceptor and StreamBreakerInterceptor is never rejected and
// every invoker result is returned unchanged; a run made only of one failing
// code is cut off.

import (
	"context"
	"errors"
	"fmt"
	"sync/atomic"
	"testing"
	"time"

	"github.com/gotid/god/lib/breaker"
	"github.com/gotid/god/lib/logx"
	"google.golang.org/grpc"
	gcodes "google.golang.org/grpc/codes"
	"google.golang.org/grpc/status"
	"pgregory.net/rapid"
	"verif.local/kit"
)

func init() { logx.Disable() }

type c01RunCase struct {
	Benign bool  `json:"benign"`
	Out    []int `json:"out"`            // per call: 0..16 gRPC code, 100 nil, 101 plain error, 102 context.Canceled
	Skew   int64 `json:"skew,omitempty"` // ns slept before the breaker is created (varies its PRNG seed)
}

var (
	c01Failing  = []int{int(gcodes.DeadlineExceeded), int(gcodes.Internal), int(gcodes.Unavailable), int(gcodes.DataLoss), int(gcodes.Unimplemented)}
	c01Plain    = errors.New("c01 plain error")
	c01NameSeq  int64
	c01BenignIn = func() []int {
		bad := map[int]bool{}
		for _, c := range c01Failing {
			bad[c] = true
		}
		out := []int{100, 101, 102}
		for c := 0; c <= 16; c++ {
			if !bad[c] {
				out = append(out, c)
			}
		}
		return out
	}()
)

func c01Outcome(o int) error {
	switch o {
	case 100:
		return nil
	case 101:
		return c01Plain
	case 102:
		return context.Canceled
	}
	return status.Error(gcodes.Code(o), "c01")
}

func c01GenRun(rt *rapid.T) c01RunCase {
	c := c01RunCase{Benign: rapid.IntRange(0, 3).Draw(rt, "benign") != 0}
	c.Skew = rapid.Int64Range(0, 1_000_000_000).Draw(rt, "skew")
	n := rapid.IntRange(200, 400).Draw(rt, "n")
	if c.Benign {
		// one dominant benign outcome or a mixture, plus at most five failing ones
		var pool []int
		if rapid.Bool().Draw(rt, "single") {
			pool = []int{rapid.SampledFrom(c01BenignIn).Draw(rt, "the")}
		} else {
			pool = c01BenignIn
		}
		for i := 0; i < n; i++ {
			c.Out = append(c.Out, rapid.SampledFrom(pool).Draw(rt, "o"))
		}
		nf := rapid.IntRange(0, 5).Draw(rt, "nfail")
		for i := 0; i < nf; i++ {
			c.Out[rapid.IntRange(0, n-1).Draw(rt, "pos")] = rapid.SampledFrom(c01Failing).Draw(rt, "f")
		}
	} else {
		f := rapid.SampledFrom(c01Failing).Draw(rt, "the")
		for i := 0; i < n; i++ {
			c.Out = append(c.Out, f)
		}
	}
	return c
}

// c01Judge: shared verdict logic. call(i, outcome) runs one request and reports
// whether the protected function ran and what came back.
func c01Judge(t *testing.T, c c01RunCase, call func(name string, want error) (ran bool, got error)) (v kit.Verdict) {
	var fail string
	rejected := 0
	nfail := 0
	isFailing := map[int]bool{}
	for _, f := range c01Failing {
		isFailing[f] = true
	}
	res := kit.Bubble(t, func() {
		if c.Skew > 0 {
			time.Sleep(time.Duration(c.Skew))
		}
		name := fmt.Sprintf("/verif.C01/run%d", atomic.AddInt64(&c01NameSeq, 1))
		for i, o := range c.Out {
			want := c01Outcome(o)
			if isFailing[o] {
				nfail++
			}
			ran, got := call(name, want)
			if !ran {
				rejected++
				if got != breaker.ErrServiceUnavailable {
					fail = fmt.Sprintf("call %d: protected function not run but result is %v", i, got)
					return
				}
				if c.Benign {
					fail = fmt.Sprintf("call %d rejected by the breaker after only benign outcomes and %d (<=5) failing ones", i, nfail)
					return
				}
				continue
			}
			if got != want {
				fail = fmt.Sprintf("call %d: returned %v, protected function returned %v", i, got, want)
				return
			}
		}
		if !c.Benign && rejected == 0 {
			fail = fmt.Sprintf("%d consecutive outcomes %v were all admitted: the breaker never cut off a dependency that keeps failing", len(c.Out), c01Outcome(c.Out[0]))
		}
	})
	v.NonTrivial = true
	if c.Benign {
		v.Classes = append(v.Classes, "benign-run")
		if nfail > 0 {
			v.Classes = append(v.Classes, "benign-run-with<=5-failures")
		}
	} else {
		v.Classes = append(v.Classes, fmt.Sprintf("failing-run-code-%d", c.Out[0]))
	}
	v.Fail = fail
	if fail == "" && !res.OK() {
		v.Fail = "bubble: " + res.String()
	}
	return v
}

func TestVerif_C01_grpc_server_unary(t *testing.T) {
	kit.Run(t, "C01", "grpc-server-unary-run", kit.Opts{Quick: 400, Thorough: 8000}, c01GenRun, func(c c01RunCase) kit.Verdict {
		return c01Judge(t, c, func(name string, want error) (bool, error) {
			ran := false
			resp, err := UnaryBreakerInterceptor(context.Background(), nil, &grpc.UnaryServerInfo{FullMethod: name + "/unary"},
				func(ctx context.Context, req interface{}) (interface{}, error) {
					ran = true
					return "c01-resp", want
				})
			if ran && resp != "c01-resp" {
				return ran, fmt.Errorf("response of the handler lost: %v", resp)
			}
			return ran, err
		})
	})
}

func TestVerif_C01_grpc_server_stream(t *testing.T) {
	kit.Run(t, "C01", "grpc-server-stream-run", kit.Opts{Quick: 400, Thorough: 8000}, c01GenRun, func(c c01RunCase) kit.Verdict {
		return c01Judge(t, c, func(name string, want error) (bool, error) {
			ran := false
			err := StreamBreakerInterceptor(nil, nil, &grpc.StreamServerInfo{FullMethod: name + "/stream"},
				func(srv interface{}, stream grpc.ServerStream) error {
					ran = true
					return want
				})
			return ran, err
		})
	})
}
