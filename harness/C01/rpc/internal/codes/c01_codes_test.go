package codes

// C01 — benign-outcome table of the gRPC integration: codes.Acceptable must
// accept nil, every non-status error and every gRPC code except
// DeadlineExceeded / Internal / Unavailable / DataLoss / Unimplemented.
// Exhaustive over the 17 defined codes (x three ways of carrying a status),
// a band of undefined codes, nil, context.Canceled and plain errors.

import (
	"context"
	"errors"
	"fmt"
	"testing"

	gcodes "google.golang.org/grpc/codes"
	"google.golang.org/grpc/status"
	"verif.local/kit"
)

type c01CodeCase struct {
	Kind string `json:"k"` // status | statusnew | iface | nil | plain | canceled
	Code uint32 `json:"c,omitempty"`
}

type c01IfaceErr struct{ st *status.Status }

func (e c01IfaceErr) Error() string              { return "c01 iface error" }
func (e c01IfaceErr) GRPCStatus() *status.Status { return e.st }

// c01PtrErr: an error whose nil pointer is a usable error value
type c01PtrErr struct{}

func (e *c01PtrErr) Error() string { return "c01 typed nil" }

// failing set copied from the property statement
var c01Failing = map[gcodes.Code]bool{
	gcodes.DeadlineExceeded: true,
	gcodes.Internal:         true,
	gcodes.Unavailable:      true,
	gcodes.DataLoss:         true,
	gcodes.Unimplemented:    true,
}

func TestVerif_C01_codes_table(t *testing.T) {
	each := func(yield func(c01CodeCase) bool) {
		for _, k := range []string{"nil", "plain", "canceled"} {
			if !yield(c01CodeCase{Kind: k}) {
				return
			}
		}
		codes := []uint32{}
		for code := uint32(0); code <= 40; code++ {
			codes = append(codes, code)
		}
		// magnitudes: aliases of the failing five modulo 2^8 / 2^16 / 2^31, and the type's limits
		for _, base := range []uint32{1 << 7, 1 << 8, 1 << 15, 1 << 16, 1 << 31} {
			for _, low := range []uint32{0, 4, 12, 13, 14, 15} {
				codes = append(codes, base+low, base-1)
			}
		}
		codes = append(codes, 1000, 65535, 1<<31-1, 1<<32-1)
		for _, code := range codes {
			for _, k := range []string{"status", "statusnew", "iface"} {
				if !yield(c01CodeCase{Kind: k, Code: code}) {
					return
				}
			}
		}
		// unspecified by the statement (wrapped status, typed nil): must not panic, not judged
		for _, k := range []string{"wrapped-internal", "wrapped-notfound", "typednil", "joined"} {
			if !yield(c01CodeCase{Kind: k}) {
				return
			}
		}
	}
	kit.Enumerate(t, "C01", "grpc-codes-table", each, func(c c01CodeCase) (v kit.Verdict) {
		var err error
		code := gcodes.Code(c.Code)
		wantBenign := true
		switch c.Kind {
		case "nil":
		case "plain":
			err = errors.New("c01 plain error")
		case "canceled":
			err = context.Canceled
		case "status":
			err = status.Error(code, "c01")
			wantBenign = !c01Failing[code]
		case "statusnew":
			err = status.New(code, "c01").Err()
			wantBenign = !c01Failing[code]
		case "iface":
			err = c01IfaceErr{st: status.New(code, "c01")}
			wantBenign = !c01Failing[code]
		case "wrapped-internal", "wrapped-notfound", "typednil", "joined":
			switch c.Kind {
			case "wrapped-internal":
				err = fmt.Errorf("c01 wrap: %w", status.Error(gcodes.Internal, "c01"))
			case "wrapped-notfound":
				err = fmt.Errorf("c01 wrap: %w", status.Error(gcodes.NotFound, "c01"))
			case "typednil":
				var p *c01PtrErr
				err = p
			case "joined":
				err = errors.Join(context.Canceled, status.Error(gcodes.Unavailable, "c01"))
			}
			v.Classes = []string{"unspecified-error-value"}
			_ = Acceptable(err) // a panic here crashes the check: that is the only verdict
			return v
		}

		if code == gcodes.OK && err != nil && c.Kind != "iface" && c.Kind != "plain" && c.Kind != "canceled" {
			return v.Failf("harness: status with code OK produced a non-nil error")
		}
		v.NonTrivial = c.Kind == "status" || c.Kind == "statusnew" || c.Kind == "iface"
		if wantBenign {
			v.Classes = []string{"benign"}
		} else {
			v.Classes = []string{"failing"}
		}
		if c.Code > 16 {
			v.Classes = append(v.Classes, "undefined-code")
		}
		if c.Code > 40 {
			v.Classes = append(v.Classes, "code-magnitude")
		}
		if got := Acceptable(err); got != wantBenign {
			return v.Failf("codes.Acceptable(%s %v) = %v, statement says benign=%v", c.Kind, fmt.Sprint(code), got, wantBenign)
		}
		return v
	})
}
