package codes

// C01 — race shard: this unit is built with -race (see verif.json). Several
// goroutines use one named breaker through every public entry point at the same
// real time with codes.Acceptable as predicate; the race detector is the oracle
// for unsynchronised access inside lib/breaker and lib/collection, the
// functional checks are the ones that need no view of the window.

import (
	"fmt"
	"sync"
	"sync/atomic"
	"testing"

	"github.com/gotid/god/lib/breaker"
	"github.com/gotid/god/lib/logx"
	gcodes "google.golang.org/grpc/codes"
	"google.golang.org/grpc/status"
	"pgregory.net/rapid"
	"verif.local/kit"
)

func init() { logx.Disable() }

type c01RaceCase struct {
	G      int  `json:"g"`
	K      int  `json:"k"`
	Benign bool `json:"benign"`
}

var c01RaceSeq int64

func TestVerif_C01_race(t *testing.T) {
	kit.Run(t, "C01", "breaker-race-shard", kit.Opts{Quick: 12, Thorough: 320}, func(rt *rapid.T) c01RaceCase {
		return c01RaceCase{
			G:      rapid.SampledFrom([]int{2, 4, 8}).Draw(rt, "g"),
			K:      rapid.SampledFrom([]int{200, 1000, 3000}).Draw(rt, "k"),
			Benign: rapid.Bool().Draw(rt, "benign"),
		}
	}, func(c c01RaceCase) (v kit.Verdict) {
		name := fmt.Sprintf("c01-race-%d", atomic.AddInt64(&c01RaceSeq, 1))
		var bad, rejected int64
		var firstBad atomic.Value
		var wg sync.WaitGroup
		for g := 0; g < c.G; g++ {
			g := g
			wg.Add(1)
			go func() {
				defer wg.Done()
				for j := 0; j < c.K; j++ {
					// benign: NotFound / nil only; otherwise every third call is Unavailable
					var want error
					switch {
					case !c.Benign && j%3 == 2:
						want = status.Error(gcodes.Unavailable, "c01")
					case j%2 == 1:
						want = status.Error(gcodes.NotFound, "c01")
					}
					ran := false
					req := func() error { ran = true; return want }
					var err error
					switch (g + j) % 5 {
					case 0:
						err = breaker.DoWithAcceptable(name, req, Acceptable)
					case 1:
						err = breaker.Get(name).DoWithAcceptable(req, Acceptable)
					case 2:
						err = breaker.DoWithFallbackAcceptable(name, req, func(e error) error { return e }, Acceptable)
					case 3:
						p, e := breaker.Get(name).Allow()
						if e == nil {
							ran = true
							if Acceptable(want) {
								p.Accept()
							} else {
								p.Reject("c01")
							}
							err = want
						} else {
							err = e
						}
					default:
						want = nil
						err = breaker.Do(name, req)
					}
					if !ran {
						atomic.AddInt64(&rejected, 1)
						if err != breaker.ErrServiceUnavailable {
							atomic.AddInt64(&bad, 1)
							firstBad.Store(fmt.Sprintf("rejected call returned %v", err))
						}
					} else if err != want {
						atomic.AddInt64(&bad, 1)
						firstBad.Store(fmt.Sprintf("admitted call returned %v, want %v", err, want))
					}
				}
			}()
		}
		wg.Wait()
		v.NonTrivial = true
		if rejected > 0 {
			v.Classes = append(v.Classes, "rejections")
		}
		if bad != 0 {
			return v.Failf("%d inconsistent calls, e.g. %v", bad, firstBad.Load())
		}
		if c.Benign && rejected != 0 {
			return v.Failf("%d calls rejected although only nil / NotFound outcomes were recorded", rejected)
		}
		return v
	})
}
