package stat

// C16 — integration site stat.Metrics: a PeriodicalExecutor whose TaskContainer
// is metricsContainer. Harness injected by /verif (overlay), in-package.
//
// "Exactly once" at this site: every Add(Task) and every AddDrop() is counted
// in exactly one StatReport, whichever trigger (the one-minute tick, an
// explicit Flush, the final Wait) flushes it.
//
// Observation: the public report writer (SetReportWriter) receives every
// StatReport; size = ReqsPerSecond*60, Drops, Average*size = sum of the
// durations (ms), Top99p9th = largest duration (reports of < 100 tasks). In
// half of the cases the Metrics value is built the way NewMetrics builds it
// but with a recording wrapper around the metricsContainer, which also shows
// WHICH tasks every Execute received (tasks carry their id in Description).
//
// metricsContainer.RemoveAll returns a struct, so the executor's hasTasks is
// always true and the background flusher never retires: the leak verdict at
// bubble exit is expected residue and ignored; hangs and panics are judged.

import (
	"fmt"
	"math"
	"os"
	"runtime"
	"sort"
	"strconv"
	"sync"
	"testing"
	"time"

	"github.com/gotid/god/lib/executors"
	"github.com/gotid/god/lib/logx"
	"pgregory.net/rapid"
	"verif.local/kit"
)

func init() {
	logx.Disable()
	DisableLog()
	if p := os.Getenv("VERIF_KNOWN_C16"); p != "" {
		os.Setenv("VERIF_KNOWN", p)
	}
}

type c16sEv struct {
	G   int    `json:"g"`
	Gap int    `json:"d,omitempty"`  // quarter intervals (15 s) since the previous event of the timeline
	K   string `json:"k"`            // add | drop | flush
	Us  int    `json:"us,omitempty"` // add: duration in microseconds
	Y   int    `json:"y,omitempty"`
}

type c16sCase struct {
	W  bool     `json:"w,omitempty"` // true: recording wrapper around metricsContainer; false: NewMetrics as is
	Ev []c16sEv `json:"ev"`
}

type c16sPair struct {
	ids   []int
	durs  []time.Duration
	sum   time.Duration
	drops int
}

// c16sWrap delegates to the real metricsContainer and records what Execute receives.
type c16sWrap struct {
	inner *metricsContainer
	mu    sync.Mutex
	cur   *c16sPair
	rec   *c16sRecorder
}

func (w *c16sWrap) AddTask(v any) bool { return w.inner.AddTask(v) }
func (w *c16sWrap) RemoveAll() any     { return w.inner.RemoveAll() }
func (w *c16sWrap) Execute(v any) {
	w.mu.Lock()
	defer w.mu.Unlock()
	p := &c16sPair{}
	if pair, ok := v.(tasksDurationPair); ok {
		p.sum, p.drops = pair.duration, pair.drops
		for _, t := range pair.tasks {
			id, _ := strconv.Atoi(t.Description)
			p.ids = append(p.ids, id)
			p.durs = append(p.durs, t.Duration)
		}
	}
	w.cur = p
	w.inner.Execute(v)
	w.cur = nil
}

type c16sReport struct {
	r    StatReport
	pair *c16sPair // wrapper mode
	at   time.Duration
}

type c16sRecorder struct {
	mu      sync.Mutex
	reports []c16sReport
	wrap    *c16sWrap
	t0      time.Time
}

func (r *c16sRecorder) Write(report *StatReport) error {
	r.mu.Lock()
	defer r.mu.Unlock()
	e := c16sReport{r: *report, at: time.Since(r.t0)}
	if r.wrap != nil {
		e.pair = r.wrap.cur
	}
	r.reports = append(r.reports, e)
	return nil
}

func c16sSize(r StatReport) int {
	return int(math.Round(float64(r.ReqsPerSecond) * float64(logInterval/time.Second)))
}

func c16sInterp(t *testing.T, c c16sCase) (v kit.Verdict) {
	cl := map[string]bool{}
	var fail string
	failf := func(format string, a ...any) {
		if fail == "" {
			fail = fmt.Sprintf(format, a...)
		}
	}
	U := logInterval / 4
	res := kit.Bubble(t, func() {
		rec := &c16sRecorder{t0: time.Now()}
		var m *Metrics
		if c.W {
			container := &metricsContainer{name: "c16", pid: os.Getpid()}
			w := &c16sWrap{inner: container, rec: rec}
			rec.wrap = w
			m = &Metrics{executor: executors.NewPeriodicalExecutor(logInterval, w), container: container}
			cl["wrapped-container"] = true
		} else {
			m = NewMetrics("c16")
			cl["NewMetrics"] = true
		}
		SetReportWriter(rec)
		defer SetReportWriter(nil)

		ng := 0
		at := make([]time.Duration, len(c.Ev))
		var acc time.Duration
		for i, e := range c.Ev {
			acc += time.Duration(e.Gap) * U
			at[i] = acc
			if e.G+1 > ng {
				ng = e.G + 1
			}
		}
		var wg sync.WaitGroup
		for g := 0; g < ng; g++ {
			wg.Add(1)
			g := g
			go func() {
				defer wg.Done()
				for i, e := range c.Ev {
					if e.G != g {
						continue
					}
					if d := at[i] - time.Since(rec.t0); d > 0 {
						time.Sleep(d)
					}
					for y := 0; y < e.Y; y++ {
						runtime.Gosched()
					}
					switch e.K {
					case "add":
						m.Add(Task{Duration: time.Duration(e.Us) * time.Microsecond, Description: strconv.Itoa(i)})
					case "drop":
						m.AddDrop()
					case "dropd": // a drop handed over through Add, with a duration that must not be counted
						m.Add(Task{Drop: true, Duration: time.Duration(e.Us) * time.Microsecond, Description: strconv.Itoa(i)})
					case "flush":
						m.executor.Flush()
					}
				}
			}()
		}
		done := make(chan struct{})
		go func() { wg.Wait(); close(done) }()
		select {
		case <-done:
		case <-time.After(acc + 100*logInterval):
			failf("operations did not return within the virtual horizon")
			return
		}
		m.executor.Wait()

		// ---- oracle over the whole history
		judge := func(when string) {
			rec.mu.Lock()
			defer rec.mu.Unlock()
			adds, drops := 0, 0
			var sumUs, maxUs int
			for _, e := range c.Ev {
				switch e.K {
				case "add":
					adds++
					sumUs += e.Us
					if e.Us > maxUs {
						maxUs = e.Us
					}
				case "drop", "dropd":
					drops++
					if e.K == "dropd" {
						cl["drop-with-duration"] = true
					}
				}
			}
			gotAdds, gotDrops, nonEmpty := 0, 0, 0
			var gotSumMs float64
			var gotMax float32
			seen := map[int]int{}
			for ri, e := range rec.reports {
				size := c16sSize(e.r)
				gotAdds += size
				gotDrops += e.r.Drops
				gotSumMs += float64(e.r.Average) * float64(size)
				if e.r.Top99p9th > gotMax {
					gotMax = e.r.Top99p9th
				}
				if size > 0 || e.r.Drops > 0 {
					nonEmpty++
				}
				if e.r.Drops < 0 || size < 0 {
					failf("%s: report %d has negative counts: %+v", when, ri, e.r)
				}
				if c.W {
					p := e.pair
					if p == nil {
						failf("%s: report %d written outside Execute", when, ri)
						continue
					}
					for _, id := range p.ids {
						seen[id]++
						if seen[id] > 1 {
							failf("%s: task %d was handed to Execute more than once (report %d at %v)", when, id, ri, e.at)
						}
						if id < 0 || id >= len(c.Ev) || c.Ev[id].K != "add" {
							failf("%s: report %d holds task %d that was never added", when, ri, id)
						}
					}
					// the report must describe exactly the batch that Execute received
					var sum time.Duration
					var mx time.Duration
					for k, id := range p.ids {
						if id >= 0 && id < len(c.Ev) && p.durs[k] != time.Duration(c.Ev[id].Us)*time.Microsecond {
							failf("%s: task %d reached Execute with duration %v, added with %dus", when, id, p.durs[k], c.Ev[id].Us)
						}
						sum += p.durs[k]
						if p.durs[k] > mx {
							mx = p.durs[k]
						}
					}
					if size != len(p.ids) || e.r.Drops != p.drops {
						failf("%s: report %d says %d tasks / %d drops, Execute received %d tasks / %d drops", when, ri, size, e.r.Drops, len(p.ids), p.drops)
					}
					if p.sum != sum {
						failf("%s: report %d: batch duration %v handed to Execute, its tasks sum up to %v", when, ri, p.sum, sum)
					}
					if len(p.ids) > 0 {
						if want := float32(sum/time.Millisecond) / float32(len(p.ids)); e.r.Average != want {
							failf("%s: report %d: Average %v, tasks give %v", when, ri, e.r.Average, want)
						}
						if want := float32(mx) / float32(time.Millisecond); e.r.Top99p9th != want {
							failf("%s: report %d: Top99p9th %v, largest task %v", when, ri, e.r.Top99p9th, want)
						}
					}
				}
			}
			if gotAdds != adds {
				failf("%s: %d tasks were added, the reports account for %d (%d reports)", when, adds, gotAdds, len(rec.reports))
			}
			if gotDrops != drops {
				failf("%s: %d drops were added, the reports account for %d (%d reports: %s)", when, drops, gotDrops, len(rec.reports), c16sDrops(rec.reports))
			}
			if c.W {
				for i, e := range c.Ev {
					if e.K == "add" && seen[i] != 1 {
						failf("%s: task %d was handed to Execute %d times", when, i, seen[i])
					}
				}
			}
			// every non-empty report truncates its duration sum to whole milliseconds
			wantMs := float64(sumUs) / 1000
			if tol := float64(nonEmpty)*1.001 + 1e-5*wantMs; gotSumMs > wantMs+tol || gotSumMs < wantMs-tol {
				failf("%s: durations add up to %.3fms, the reports (Average*size) account for %.3fms", when, wantMs, gotSumMs)
			}
			if adds > 0 {
				if want := float32(time.Duration(maxUs)*time.Microsecond) / float32(time.Millisecond); gotMax != want {
					failf("%s: largest duration %v ms, largest Top99p9th of all reports %v", when, want, gotMax)
				}
			}
			if nonEmpty >= 2 {
				cl["2+non-empty-reports"] = true
			}
			if drops > 0 {
				cl["drops"] = true
			}
			if adds > 0 {
				cl["adds"] = true
			}
			v.NonTrivial = nonEmpty >= 2 && drops > 0 && adds > 0
		}
		judge("after the final Wait")
		// nothing may be reported again later: two and a half more periods
		time.Sleep(2*logInterval + logInterval/2)
		judge("2.5 periods after the final Wait")
	})
	for k := range cl {
		v.Classes = append(v.Classes, k)
	}
	sort.Strings(v.Classes)
	switch {
	case fail != "":
		v.Fail = fail
	case res.Hang:
		v.Fail = "hang: " + res.Raw
	case res.Panic != "":
		v.Fail = "panic: " + res.Panic
	}
	// res.Leak: expected residue (the Metrics flusher never retires)
	return v
}

func c16sDrops(rs []c16sReport) string {
	s := ""
	for _, e := range rs {
		s += fmt.Sprintf("%v:%d ", e.at, e.r.Drops)
	}
	return s
}

func c16sGen(rt *rapid.T) c16sCase {
	c := c16sCase{W: rapid.Bool().Draw(rt, "w")}
	ng := rapid.IntRange(1, 4).Draw(rt, "ng")
	n := rapid.IntRange(1, 40).Draw(rt, "nev")
	for i := 0; i < n; i++ {
		e := c16sEv{G: rapid.IntRange(0, ng-1).Draw(rt, "g")}
		e.K = rapid.SampledFrom([]string{"add", "add", "add", "add", "drop", "drop", "dropd", "flush"}).Draw(rt, "k")
		switch rapid.IntRange(0, 9).Draw(rt, "gapclass") {
		case 0, 1, 2, 3, 4:
		case 5, 6:
			e.Gap = 1
		case 7:
			e.Gap = rapid.IntRange(2, 4).Draw(rt, "gap") // up to one period
		default:
			e.Gap = rapid.IntRange(5, 14).Draw(rt, "gap") // several periods
		}
		if e.K == "add" || e.K == "dropd" {
			if rapid.IntRange(0, 9).Draw(rt, "durmag") == 0 { // 1 us, 1 ms, 1 s, 1 min, 1 h, 30 days
				e.Us = rapid.SampledFrom([]int{1, 1000, 1_000_000, 60_000_000, 3_600_000_000, 2_592_000_000_000}).Draw(rt, "usmag")
			} else {
				e.Us = rapid.IntRange(0, 5_000_000).Draw(rt, "us")
			}
		}
		e.Y = rapid.SampledFrom([]int{0, 0, 0, 1, 2}).Draw(rt, "y")
		c.Ev = append(c.Ev, e)
	}
	return c
}

func TestVerif_C16_metrics(t *testing.T) {
	defer runtime.GOMAXPROCS(runtime.GOMAXPROCS(1))
	kit.Run(t, "C16", "metrics-reports", kit.Opts{Quick: 6000, Thorough: 160000}, c16sGen,
		func(c c16sCase) kit.Verdict { return c16sInterp(t, c) })
}
