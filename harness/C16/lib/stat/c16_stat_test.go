package stat

// C16 — integration site stat.Metrics: a PeriodicalExecutor whose TaskContainer
// is metricsContainer. Harness injected by /verif (overlay), in-package.
//
// "Exactly once" at this site: every Add(Task) and every AddDrop() is counted
// in exactly one StatReport, whichever trigger (the one-minute tick, an
// explicit Flush, the final Wait) flushes it.
//
// Observation: the public report writer (SetReportWriter) receives every
// StatReport; size = ReqsPerSecond*60, Drops, Average*size = sum of the
// durations (ms), Top99p9th = largest duration (reports of < 1000 tasks). In
// half of the instances the Metrics value is built the way NewMetrics builds it
// but with a recording wrapper around the metricsContainer, which also shows
// WHICH tasks every Execute received (tasks carry their id in Description).
//
// A case runs 1..3 Metrics instances in one process (every api/rpc server owns
// several) behind ONE report writer (the writer is process-wide). The writer may
// return an error for chosen reports (the instance stays fully judged) or PANIC on
// chosen reports of chosen instances: an instance whose own report made the writer
// panic is damaged by construction (on the tick path the panic kills its flusher,
// threading.GoSafe swallows it) and is not judged; every OTHER instance is an
// executor whose execute function never failed, so the statement applies to it in
// full: all its tasks and drops are reported exactly once, its Wait returns.
//
// metricsContainer.RemoveAll returns a struct, so the executor's hasTasks is
// always true and the background flusher never retires: the leak verdict at
// bubble exit is expected residue and ignored; hangs and panics are judged.
//
// A goroutine blocked on a sync.Mutex is not durably blocked for synctest: if a
// flusher waits for ever for a process-wide lock the bubble's clock stops and the
// case never ends. c16sRun therefore runs the bubble in its own goroutine and
// reports "wedged" when the case has not ended after c16sWedgeAfter of real time
// AND a control measurement shows that the process is idle (no CPU used, no thread
// waiting for a CPU) - a slow or starved machine fails the control and is left
// alone. After a wedge the process-wide state of the package is unusable: later
// cases of the process are not run (so a wedge replay is not shrunk).

import (
	"bytes"
	"errors"
	"fmt"
	"math"
	"os"
	"path/filepath"
	"runtime"
	"sort"
	"strconv"
	"strings"
	"sync"
	"syscall"
	"testing"
	"time"

	"github.com/gotid/god/lib/executors"
	"github.com/gotid/god/lib/logx"
	"pgregory.net/rapid"
	"verif.local/kit"
)

func init() {
	logx.Disable()
	DisableLog()
	if p := os.Getenv("VERIF_KNOWN_C16"); p != "" {
		os.Setenv("VERIF_KNOWN", p)
	}
}

type c16sEv struct {
	G   int    `json:"g"`
	Gap int    `json:"d,omitempty"`  // quarter intervals (15 s) since the previous event of the timeline
	K   string `json:"k"`            // add | drop | dropd | flush | name
	Us  int    `json:"us,omitempty"` // add: duration in microseconds
	Y   int    `json:"y,omitempty"`
	M   int    `json:"m,omitempty"` // instance
	N   int    `json:"n,omitempty"` // add: burst of N adds back to back (durations Us, Us+1, ... microseconds)
}

// c16sInst: one Metrics instance of the case.
type c16sInst struct {
	W bool `json:"w,omitempty"` // true: recording wrapper around metricsContainer; false: NewMetrics as is
	// P: ordinals (0-based, counted per instance) of the reports of THIS instance on which the
	// process-wide writer panics; PK: panic value (0 string, 1 error, 2 runtime error, 3 int)
	P  []int `json:"p,omitempty"`
	PK int   `json:"pk,omitempty"`
	// E: ordinals of the reports of this instance for which the writer returns an error
	// (after it has taken the report)
	E []int `json:"e,omitempty"`
}

type c16sCase struct {
	W   bool       `json:"w,omitempty"` // single instance (In empty): its W
	Ev  []c16sEv   `json:"ev"`
	In  []c16sInst `json:"in,omitempty"`
	Log bool       `json:"log,omitempty"` // the stat log line is enabled (the package default; logx itself stays silent)
}

func (c c16sCase) insts() []c16sInst {
	if len(c.In) == 0 {
		return []c16sInst{{W: c.W}}
	}
	return c.In
}

const c16sIDMod = 1000 // task id = event index + c16sIDMod * position in the burst

type c16sPair struct {
	ids   []int
	durs  []time.Duration
	sum   time.Duration
	drops int
}

// c16sWrap delegates to the real metricsContainer and records what Execute receives.
type c16sWrap struct {
	inner *metricsContainer
	mu    sync.Mutex
	cur   *c16sPair
}

func (w *c16sWrap) AddTask(v any) bool { return w.inner.AddTask(v) }
func (w *c16sWrap) RemoveAll() any     { return w.inner.RemoveAll() }
func (w *c16sWrap) Execute(v any) {
	w.mu.Lock()
	defer w.mu.Unlock()
	p := &c16sPair{}
	if pair, ok := v.(tasksDurationPair); ok {
		p.sum, p.drops = pair.duration, pair.drops
		for _, t := range pair.tasks {
			id, _ := strconv.Atoi(t.Description)
			p.ids = append(p.ids, id)
			p.durs = append(p.durs, t.Duration)
		}
	}
	w.cur = p
	w.inner.Execute(v)
	w.cur = nil
}

type c16sReport struct {
	r    StatReport
	pair *c16sPair // wrapper mode
	at   time.Duration
}

// c16sLive: an instance at run time
type c16sLive struct {
	spec    c16sInst
	m       *Metrics
	wrap    *c16sWrap
	reports []c16sReport
	writes  int // Write calls for this instance (ordinal of the next report)
	panics  int // ... on which the writer panicked
	errs    int
}

type c16sRecorder struct {
	mu      sync.Mutex
	inst    []*c16sLive
	t0      time.Time
	foreign []string
}

type c16sRuntimeErr struct{ m map[int]int }

func c16sHas(xs []int, x int) bool {
	for _, v := range xs {
		if v == x {
			return true
		}
	}
	return false
}

// Write is the process-wide report writer: routes the report to its instance by name
// ("c16-<k>" or, after SetName, "c16-<k>-r<event>").
func (r *c16sRecorder) Write(report *StatReport) error {
	r.mu.Lock()
	k := -1
	if strings.HasPrefix(report.Name, "c16-") {
		s := report.Name[4:]
		if i := strings.IndexByte(s, '-'); i >= 0 {
			s = s[:i]
		}
		if n, err := strconv.Atoi(s); err == nil && n >= 0 && n < len(r.inst) {
			k = n
		}
	}
	if k < 0 {
		r.foreign = append(r.foreign, report.Name)
		r.mu.Unlock()
		return nil
	}
	in := r.inst[k]
	ord := in.writes
	in.writes++
	if c16sHas(in.spec.P, ord) {
		in.panics++
		r.mu.Unlock()
		switch in.spec.PK {
		case 1:
			panic(errors.New("c16: the report writer cannot handle this report"))
		case 2:
			var e c16sRuntimeErr
			e.m[ord] = 1 // assignment to entry in nil map: runtime.Error
		case 3:
			panic(16)
		}
		panic("c16: the report writer cannot handle this report")
	}
	e := c16sReport{r: *report, at: time.Since(r.t0)}
	if in.wrap != nil {
		e.pair = in.wrap.cur
	}
	in.reports = append(in.reports, e)
	var err error
	if c16sHas(in.spec.E, ord) {
		in.errs++
		err = fmt.Errorf("c16: report %d of instance %d could not be delivered", ord, k)
	}
	r.mu.Unlock()
	return err
}

func c16sSize(r StatReport) int {
	return int(math.Round(float64(r.ReqsPerSecond) * float64(logInterval/time.Second)))
}

// ---------------------------------------------------------------- wedge control (see the file comment)

var (
	c16sWedgeAfter = 3 * time.Second
	c16sWedged     bool // a case of this process wedged: process-wide package state is stuck
)

func c16sCPU() time.Duration {
	var ru syscall.Rusage
	if err := syscall.Getrusage(syscall.RUSAGE_SELF, &ru); err != nil {
		return -1
	}
	return time.Duration(ru.Utime.Nano() + ru.Stime.Nano())
}

// c16sRunDelay: time the threads of the process spent runnable but waiting for a CPU
func c16sRunDelay() (d time.Duration, ok bool) {
	files, _ := filepath.Glob("/proc/self/task/*/schedstat")
	for _, f := range files {
		b, err := os.ReadFile(f)
		if err != nil {
			continue
		}
		fs := bytes.Fields(b)
		if len(fs) < 2 {
			continue
		}
		n, err := strconv.ParseInt(string(fs[1]), 10, 64)
		if err != nil {
			continue
		}
		d += time.Duration(n)
		ok = true
	}
	return d, ok
}

// c16sQuiet observes the process for d: true if it neither used CPU nor had threads waiting for one.
func c16sQuiet(d time.Duration) bool {
	c0 := c16sCPU()
	r0, rok := c16sRunDelay()
	time.Sleep(d)
	c1 := c16sCPU()
	r1, _ := c16sRunDelay()
	if c0 < 0 || c1 < 0 || c1-c0 > 20*time.Millisecond {
		return false
	}
	if rok && r1-r0 > 100*time.Millisecond {
		return false
	}
	return true
}

type c16sOut struct {
	v    kit.Verdict
	fail string
	res  kit.BubbleResult
}

func c16sInterp(t *testing.T, c c16sCase) kit.Verdict {
	if c16sWedged {
		return kit.Verdict{Excluded: true, Classes: []string{"not-run (an earlier case of this process wedged the package)"}}
	}
	done := make(chan c16sOut, 1)
	go func() {
		returned := false
		defer func() {
			if !returned {
				done <- c16sOut{fail: "the synctest sub-test was aborted (see the log)"}
			}
		}()
		o := c16sRun(t, c)
		returned = true
		done <- o
	}()
	var o c16sOut
	timer := time.NewTimer(c16sWedgeAfter)
	defer timer.Stop()
wait:
	for {
		select {
		case o = <-done:
			break wait
		case <-timer.C:
			// not finished after seconds of real time (a case needs milliseconds): wedged, or a stalled machine?
			quiet := 0
			for quiet < 2 {
				if c16sQuiet(1500 * time.Millisecond) {
					quiet++
				} else {
					quiet = 0
				}
				select {
				case o = <-done:
					break wait
				default:
				}
			}
			c16sWedged = true
			n := len(c.insts())
			return kit.Verdict{Classes: []string{"wedged"},
				Fail: fmt.Sprintf("wedged: the case (%d Metrics instances behind one report writer) did not end although the process is idle: "+
					"a goroutine (a background flusher inside its tick flush, or the final Wait) waits for ever for a sync.Mutex that nothing will release, "+
					"so the tasks of an instance whose own reports never failed are never executed/reported (virtual time cannot advance; synctest does not see mutex waits)", n)}
		}
	}
	v := o.v
	switch {
	case o.fail != "":
		v.Fail = o.fail
	case o.res.Hang:
		v.Fail = "hang: " + o.res.Raw
	case o.res.Panic != "":
		v.Fail = "panic: " + o.res.Panic
	}
	// res.Leak: expected residue (the Metrics flusher never retires)
	return v
}

func c16sRun(t *testing.T, c c16sCase) (out c16sOut) {
	cl := map[string]bool{}
	var fail string
	var fmu sync.Mutex
	failf := func(format string, a ...any) {
		fmu.Lock()
		if fail == "" {
			fail = fmt.Sprintf(format, a...)
		}
		fmu.Unlock()
	}
	U := logInterval / 4
	specs := c.insts()
	v := &out.v
	out.res = kit.Bubble(t, func() {
		rec := &c16sRecorder{t0: time.Now()}
		logEnabled.Set(c.Log)
		defer logEnabled.Set(false)
		if c.Log {
			cl["stat-log-enabled"] = true
		}
		for k, sp := range specs {
			in := &c16sLive{spec: sp}
			name := "c16-" + strconv.Itoa(k)
			if sp.W {
				container := &metricsContainer{name: name, pid: os.Getpid()}
				in.wrap = &c16sWrap{inner: container}
				in.m = &Metrics{executor: executors.NewPeriodicalExecutor(logInterval, in.wrap), container: container}
				cl["wrapped-container"] = true
			} else {
				in.m = NewMetrics(name)
				cl["NewMetrics"] = true
			}
			rec.inst = append(rec.inst, in)
		}
		cl["instances:"+strconv.Itoa(len(specs))] = true
		SetReportWriter(rec)
		defer SetReportWriter(nil)

		ng := 0
		at := make([]time.Duration, len(c.Ev))
		var acc time.Duration
		for i, e := range c.Ev {
			acc += time.Duration(e.Gap) * U
			at[i] = acc
			if e.G+1 > ng {
				ng = e.G + 1
			}
		}
		callerPanics := 0
		var wg sync.WaitGroup
		for g := 0; g < ng; g++ {
			wg.Add(1)
			g := g
			go func() {
				defer wg.Done()
				for i, e := range c.Ev {
					if e.G != g {
						continue
					}
					if d := at[i] - time.Since(rec.t0); d > 0 {
						time.Sleep(d)
					}
					for y := 0; y < e.Y; y++ {
						runtime.Gosched()
					}
					m := rec.inst[e.M%len(rec.inst)].m
					switch e.K {
					case "add":
						n := e.N
						if n < 1 {
							n = 1
						}
						for k := 0; k < n; k++ {
							m.Add(Task{Duration: time.Duration(e.Us+k) * time.Microsecond, Description: strconv.Itoa(i + k*c16sIDMod)})
						}
					case "drop":
						m.AddDrop()
					case "dropd": // a drop handed over through Add, with a duration that must not be counted
						m.Add(Task{Drop: true, Duration: time.Duration(e.Us) * time.Microsecond, Description: strconv.Itoa(i)})
					case "name":
						m.SetName(fmt.Sprintf("c16-%d-r%d", e.M%len(rec.inst), i))
					case "flush":
						func() {
							defer func() { // a panic of the writer reaches the caller of Flush
								if r := recover(); r != nil {
									fmu.Lock()
									callerPanics++
									fmu.Unlock()
								}
							}()
							m.executor.Flush()
						}()
					}
				}
			}()
		}
		done := make(chan struct{})
		go func() { wg.Wait(); close(done) }()
		select {
		case <-done:
		case <-time.After(acc + 100*logInterval):
			failf("operations did not return within the virtual horizon")
			return
		}
		for _, in := range rec.inst {
			func() {
				defer func() {
					if r := recover(); r != nil {
						fmu.Lock()
						callerPanics++
						fmu.Unlock()
					}
				}()
				in.m.executor.Wait()
			}()
		}

		// ---- oracle over the whole history, instance by instance
		judge := func(when string) {
			rec.mu.Lock()
			defer rec.mu.Unlock()
			if len(rec.foreign) > 0 {
				failf("%s: reports with names no instance of the case ever had: %q", when, rec.foreign)
			}
			totalPanics := 0
			for _, in := range rec.inst {
				totalPanics += in.panics
			}
			nontrivial := false
			for k, in := range rec.inst {
				if in.errs > 0 {
					cl["writer-error"] = true
				}
				if in.panics > 0 {
					// its own report made the writer panic: damaged by construction, not judged
					cl["faulty-instance (own report panicked, not judged)"] = true
					continue
				}
				if totalPanics > 0 {
					cl["healthy-instance-judged-after-foreign-writer-panic"] = true
				}
				who := ""
				if len(rec.inst) > 1 {
					who = fmt.Sprintf("instance %d of %d", k, len(rec.inst))
					if totalPanics > 0 {
						who += fmt.Sprintf(" (its own reports never failed; the writer panicked %d times on reports of other instances)", totalPanics)
					}
					who += ": "
				}
				adds, drops := 0, 0
				var sumUs, maxUs int
				for _, e := range c.Ev {
					if e.M%len(rec.inst) != k {
						continue
					}
					switch e.K {
					case "add":
						n := e.N
						if n < 1 {
							n = 1
						}
						adds += n
						sumUs += n*e.Us + n*(n-1)/2
						if e.Us+n-1 > maxUs {
							maxUs = e.Us + n - 1
						}
					case "drop", "dropd":
						drops++
						if e.K == "dropd" {
							cl["drop-with-duration"] = true
						}
					case "name":
						cl["SetName"] = true
					}
				}
				// lib/stat sums a batch's durations in a time.Duration (int64 ns). All durations are >= 0, so
				// the sum of ALL durations added to the instance bounds the sum of every single report: if it
				// fits an int64, no report's sum can wrap. Otherwise what Average says is not determined by the
				// statement: the duration-sum part of the oracle is skipped (counts, ids, order, single
				// durations and the largest duration are still judged).
				sumFits := sumUs <= math.MaxInt64/1000
				if !sumFits {
					cl["duration-sum-exceeds-int64 (sum/Average not judged, counts only)"] = true
				}
				durOf := func(id int) (time.Duration, bool) {
					i, pos := id%c16sIDMod, id/c16sIDMod
					if id < 0 || i >= len(c.Ev) || c.Ev[i].K != "add" || c.Ev[i].M%len(rec.inst) != k {
						return 0, false
					}
					n := c.Ev[i].N
					if n < 1 {
						n = 1
					}
					if pos >= n {
						return 0, false
					}
					return time.Duration(c.Ev[i].Us+pos) * time.Microsecond, true
				}
				gotAdds, gotDrops, nonEmpty := 0, 0, 0
				var gotSumMs float64
				var gotMax float32
				big := false // a report of >= 1000 tasks: Top99p9th is no longer the largest duration
				seen := map[int]int{}
				for ri, e := range in.reports {
					size := c16sSize(e.r)
					gotAdds += size
					gotDrops += e.r.Drops
					gotSumMs += float64(e.r.Average) * float64(size)
					if e.r.Top99p9th > gotMax {
						gotMax = e.r.Top99p9th
					}
					if size > 0 || e.r.Drops > 0 {
						nonEmpty++
					}
					if size >= 100 {
						cl["report>=100-tasks"] = true
					}
					if size >= 1000 {
						cl["report>=1000-tasks"] = true
						big = true
					}
					if e.r.Drops < 0 || size < 0 {
						failf("%s: %sreport %d has negative counts: %+v", when, who, ri, e.r)
					}
					if in.wrap != nil {
						p := e.pair
						if p == nil {
							failf("%s: %sreport %d written outside Execute", when, who, ri)
							continue
						}
						lastOfG := map[int]int{}
						for _, id := range p.ids {
							seen[id]++
							if seen[id] > 1 {
								failf("%s: %stask %d was handed to Execute more than once (report %d at %v)", when, who, id, ri, e.at)
							}
							if _, ok := durOf(id); !ok {
								failf("%s: %sreport %d holds task %d that was never added to this instance", when, who, ri, id)
								continue
							}
							// inside a batch the tasks of one adder are in the order they were added
							// (an adder's events are in index order, a burst in position order)
							g := c.Ev[id%c16sIDMod].G
							key := (id%c16sIDMod)*10000 + id/c16sIDMod
							if last, ok := lastOfG[g]; ok && key < last {
								failf("%s: %sreport %d: the batch handed to Execute holds the tasks of goroutine %d out of addition order (task %d after task %d): %v",
									when, who, ri, g, id, (last/10000)+(last%10000)*c16sIDMod, c16sHead(p.ids))
							}
							lastOfG[g] = key
						}
						// the report must describe exactly the batch that Execute received
						var sum time.Duration
						var mx time.Duration
						for j, id := range p.ids {
							if d, ok := durOf(id); ok && p.durs[j] != d {
								failf("%s: %stask %d reached Execute with duration %v, added with %v", when, who, id, p.durs[j], d)
							}
							sum += p.durs[j]
							if p.durs[j] > mx {
								mx = p.durs[j]
							}
						}
						if size != len(p.ids) || e.r.Drops != p.drops {
							failf("%s: %sreport %d says %d tasks / %d drops, Execute received %d tasks / %d drops", when, who, ri, size, e.r.Drops, len(p.ids), p.drops)
						}
						if sumFits && p.sum != sum {
							failf("%s: %sreport %d: batch duration %v handed to Execute, its tasks sum up to %v", when, who, ri, p.sum, sum)
						}
						if len(p.ids) > 0 {
							if want := float32(sum/time.Millisecond) / float32(len(p.ids)); sumFits && e.r.Average != want {
								failf("%s: %sreport %d: Average %v, tasks give %v", when, who, ri, e.r.Average, want)
							}
							if want := float32(mx) / float32(time.Millisecond); len(p.ids) < 1000 && e.r.Top99p9th != want {
								failf("%s: %sreport %d: Top99p9th %v, largest task %v", when, who, ri, e.r.Top99p9th, want)
							}
						}
					}
				}
				if gotAdds != adds {
					failf("%s: %s%d tasks were added, the reports account for %d (%d reports)", when, who, adds, gotAdds, len(in.reports))
				}
				if gotDrops != drops {
					failf("%s: %s%d drops were added, the reports account for %d (%d reports: %s)", when, who, drops, gotDrops, len(in.reports), c16sDrops(in.reports))
				}
				if in.wrap != nil {
					for i, e := range c.Ev {
						if e.K != "add" || e.M%len(rec.inst) != k {
							continue
						}
						n := e.N
						if n < 1 {
							n = 1
						}
						for pos := 0; pos < n; pos++ {
							if id := i + pos*c16sIDMod; seen[id] != 1 {
								failf("%s: %stask %d was handed to Execute %d times", when, who, id, seen[id])
							}
						}
					}
				}
				// every non-empty report truncates its duration sum to whole milliseconds
				wantMs := float64(sumUs) / 1000
				if tol := float64(nonEmpty)*1.001 + 1e-5*wantMs; sumFits && (gotSumMs > wantMs+tol || gotSumMs < wantMs-tol) {
					failf("%s: %sdurations add up to %.3fms, the reports (Average*size) account for %.3fms", when, who, wantMs, gotSumMs)
				}
				if adds > 0 && !big {
					if want := float32(time.Duration(maxUs)*time.Microsecond) / float32(time.Millisecond); gotMax != want {
						failf("%s: %slargest duration %v ms, largest Top99p9th of all reports %v", when, who, want, gotMax)
					}
				}
				if nonEmpty >= 2 {
					cl["2+non-empty-reports"] = true
				}
				if drops > 0 {
					cl["drops"] = true
				}
				if adds > 0 {
					cl["adds"] = true
				}
				if nonEmpty >= 2 && drops > 0 && adds > 0 {
					nontrivial = true
				}
			}
			fmu.Lock()
			if callerPanics > 0 {
				cl["writer-panic-reached-caller-of-Flush/Wait"] = true
			}
			if totalPanics > callerPanics {
				cl["writer-panic-in-background-flusher"] = true
			}
			fmu.Unlock()
			v.NonTrivial = nontrivial
		}
		judge("after the final Wait")
		// nothing may be reported again later: two and a half more periods
		time.Sleep(2*logInterval + logInterval/2)
		judge("2.5 periods after the final Wait")
	})
	for k := range cl {
		v.Classes = append(v.Classes, k)
	}
	sort.Strings(v.Classes)
	out.fail = fail
	return out
}

func c16sHead(ids []int) []int {
	if len(ids) > 24 {
		return ids[:24]
	}
	return ids
}

func c16sDrops(rs []c16sReport) string {
	s := ""
	for _, e := range rs {
		s += fmt.Sprintf("%v:%d ", e.at, e.r.Drops)
	}
	return s
}

func c16sOrdinals(rt *rapid.T, label string) []int {
	var out []int
	switch rapid.IntRange(0, 3).Draw(rt, label+"shape") {
	case 0: // one early report
		out = []int{rapid.IntRange(0, 3).Draw(rt, label)}
	case 1: // two reports
		a := rapid.IntRange(0, 3).Draw(rt, label)
		out = []int{a, a + rapid.IntRange(1, 3).Draw(rt, label+"2")}
	case 2: // every report from some point on
		a := rapid.IntRange(0, 3).Draw(rt, label)
		for k := a; k < a+40; k++ {
			out = append(out, k)
		}
	default: // a later one
		out = []int{rapid.IntRange(2, 8).Draw(rt, label)}
	}
	return out
}

func c16sGen(rt *rapid.T) c16sCase {
	c := c16sCase{}
	ni := []int{1, 1, 2, 2, 2, 3}[rapid.IntRange(0, 5).Draw(rt, "ni")]
	faulty := ni > 1 && rapid.IntRange(0, 1).Draw(rt, "faulty") == 0
	for k := 0; k < ni; k++ {
		in := c16sInst{W: rapid.Bool().Draw(rt, "w")}
		if faulty && (k == 0 || (ni == 3 && k == 1 && rapid.IntRange(0, 3).Draw(rt, "second") == 0)) {
			in.P = c16sOrdinals(rt, "p")
			in.PK = rapid.IntRange(0, 3).Draw(rt, "pk")
		}
		if rapid.IntRange(0, 4).Draw(rt, "errs") == 0 {
			in.E = c16sOrdinals(rt, "e")
		}
		c.In = append(c.In, in)
	}
	if faulty && rapid.Bool().Draw(rt, "rot") { // the faulty instance is not always the first one created
		c.In[0], c.In[ni-1] = c.In[ni-1], c.In[0]
	}
	c.Log = rapid.IntRange(0, 2).Draw(rt, "log") == 0
	ng := rapid.IntRange(1, 4).Draw(rt, "ng")
	n := rapid.IntRange(1, 40).Draw(rt, "nev")
	bursts := rapid.IntRange(0, 11).Draw(rt, "bursts") == 0
	for i := 0; i < n; i++ {
		e := c16sEv{G: rapid.IntRange(0, ng-1).Draw(rt, "g")}
		if ni > 1 {
			e.M = rapid.IntRange(0, ni-1).Draw(rt, "m")
		}
		e.K = rapid.SampledFrom([]string{"add", "add", "add", "add", "add", "add", "add", "add", "drop", "drop", "drop", "drop", "dropd", "dropd", "flush", "flush", "name"}).Draw(rt, "k")
		switch rapid.IntRange(0, 9).Draw(rt, "gapclass") {
		case 0, 1, 2, 3, 4:
		case 5, 6:
			e.Gap = 1
		case 7:
			e.Gap = rapid.IntRange(2, 4).Draw(rt, "gap") // up to one period
		default:
			e.Gap = rapid.IntRange(5, 14).Draw(rt, "gap") // several periods
		}
		if e.K == "add" || e.K == "dropd" {
			if rapid.IntRange(0, 9).Draw(rt, "durmag") == 0 { // 1 us, 1 ms, 1 s, 1 min, 1 h, 30 days
				e.Us = rapid.SampledFrom([]int{1, 1000, 1_000_000, 60_000_000, 3_600_000_000, 2_592_000_000_000}).Draw(rt, "usmag")
			} else {
				e.Us = rapid.IntRange(0, 5_000_000).Draw(rt, "us")
			}
		}
		if e.K == "add" && bursts && rapid.IntRange(0, 4).Draw(rt, "burst") == 0 {
			// reports of 100+ / 1000+ tasks (the percentile branches of Execute)
			e.N = rapid.SampledFrom([]int{99, 100, 101, 199, 200, 640, 999, 1000, 1001, 1999, 2000, 2500}).Draw(rt, "n")
		}
		e.Y = rapid.SampledFrom([]int{0, 0, 0, 1, 2}).Draw(rt, "y")
		c.Ev = append(c.Ev, e)
	}
	return c
}

func TestVerif_C16_metrics(t *testing.T) {
	defer runtime.GOMAXPROCS(runtime.GOMAXPROCS(1))
	kit.Run(t, "C16", "metrics-reports", kit.Opts{Quick: 6000, Thorough: 160000}, c16sGen,
		func(c c16sCase) kit.Verdict { return c16sInterp(t, c) })
}
