package sqlx_test

// C16 — integration site sqlx.BulkInserter: a PeriodicalExecutor whose
// TaskContainer is dbInserter (threshold maxBulkRows = 1000 rows, flush
// interval 1 s, both constants of the package). Harness injected by /verif
// (overlay), external test package.
//
// Environment: the harness's own database/sql driver; it records the text of
// every statement that reaches Exec (optionally sleeps a generated virtual
// latency, optionally fails one statement). "Exactly once" at this site:
// every row handed to Insert appears in exactly one executed bulk statement,
// rows of one goroutine in insertion order inside a statement, a statement
// never carries more than 1000 rows, the result handler is called once per
// executed statement with that statement's result or error, whichever trigger
// (row threshold, 1 s tick, Flush / UpdateOrDelete) flushes.

import (
	"context"
	"database/sql"
	"database/sql/driver"
	"errors"
	"fmt"
	"os"
	"regexp"
	"runtime"
	"sort"
	"strconv"
	"strings"
	"sync"
	"testing"
	"time"

	"github.com/gotid/god/lib/logx"
	"github.com/gotid/god/lib/store/sqlx"
	"pgregory.net/rapid"
	"verif.local/kit"
)

func init() {
	logx.Disable()
	if p := os.Getenv("VERIF_KNOWN_C16"); p != "" {
		os.Setenv("VERIF_KNOWN", p)
	}
}

const (
	c16bInterval = time.Second // sqlx.flushInterval
	c16bMaxRows  = 1000        // sqlx.maxBulkRows
	c16bPrefix   = "insert into t (id, g, seq) values"
	c16bSuffix   = "on duplicate key update seq = seq"
)

// ---------------------------------------------------------------- fake driver

var errC16bInjected = errors.New("c16 injected exec fault")

type c16bStmt struct {
	query  string
	at     time.Duration
	failed bool
}

type c16bFake struct {
	mu     sync.Mutex
	t0     time.Time
	stmts  []c16bStmt
	lat    []int
	failAt int
	unit   time.Duration
}

type c16bConnector struct{ f *c16bFake }

func (c c16bConnector) Connect(context.Context) (driver.Conn, error) { return &c16bConn{f: c.f}, nil }
func (c c16bConnector) Driver() driver.Driver                        { return c16bDriver{} }

type c16bDriver struct{}

func (c16bDriver) Open(string) (driver.Conn, error) { return nil, errors.New("use the connector") }

type c16bConn struct{ f *c16bFake }

func (c *c16bConn) Prepare(string) (driver.Stmt, error) { return nil, errors.New("not used") }
func (c *c16bConn) Close() error                        { return nil }
func (c *c16bConn) Begin() (driver.Tx, error)           { return nil, errors.New("not used") }
func (c *c16bConn) ExecContext(_ context.Context, q string, _ []driver.NamedValue) (driver.Result, error) {
	f := c.f
	f.mu.Lock()
	k := len(f.stmts)
	fail := k == f.failAt
	f.stmts = append(f.stmts, c16bStmt{query: q, at: time.Since(f.t0), failed: fail})
	f.mu.Unlock()
	if len(f.lat) > 0 {
		if l := f.lat[k%len(f.lat)]; l > 0 {
			time.Sleep(time.Duration(l) * f.unit)
		}
	}
	if fail {
		return nil, errC16bInjected
	}
	// one "(" in the column list of the prefix, one per row
	return driver.RowsAffected(int64(strings.Count(q, "(") - 1)), nil
}

// ---------------------------------------------------------------- case

type c16bEv struct {
	G   int    `json:"g"`
	Gap int    `json:"d,omitempty"` // quarter intervals (250 ms) since the previous event
	K   string `json:"k"`           // insert | flush | uod
	N   int    `json:"n,omitempty"` // insert: number of consecutive rows
	Y   int    `json:"y,omitempty"`
}

type c16bCase struct {
	Ev      []c16bEv `json:"ev"`
	Lat     []int    `json:"lat,omitempty"` // Exec latency of the k-th statement, quarter intervals
	FailAt  int      `json:"fail"`          // index of the statement the driver fails (-1: none)
	Handler bool     `json:"h,omitempty"`   // SetResultHandler
	Suffix  bool     `json:"sfx,omitempty"`
}

type c16bRow struct{ id, g, seq int }

func c16bMax(a, b int) int {
	if a > b {
		return a
	}
	return b
}

var c16bRowRe = regexp.MustCompile(`^\((\d+), (\d+), (\d+)\)$`)

func c16bParse(q string, suffix bool) ([]c16bRow, error) {
	if !strings.HasPrefix(q, c16bPrefix+" ") {
		return nil, fmt.Errorf("statement does not start with the insert prefix: %.80q", q)
	}
	body := q[len(c16bPrefix)+1:]
	if suffix {
		if !strings.HasSuffix(body, " "+c16bSuffix) {
			return nil, fmt.Errorf("statement does not end with the suffix: ...%.60q", body[c16bMax(0, len(body)-60):])
		}
		body = body[:len(body)-len(c16bSuffix)-1]
	}
	var rows []c16bRow
	for _, part := range strings.Split(body, "), ") {
		if !strings.HasSuffix(part, ")") {
			part += ")"
		}
		m := c16bRowRe.FindStringSubmatch(part)
		if m == nil {
			return nil, fmt.Errorf("malformed row %.40q", part)
		}
		id, _ := strconv.Atoi(m[1])
		g, _ := strconv.Atoi(m[2])
		seq, _ := strconv.Atoi(m[3])
		rows = append(rows, c16bRow{id, g, seq})
	}
	return rows, nil
}

type c16bHandled struct {
	rows int64
	err  error
}

func c16bInterp(t *testing.T, c c16bCase) (v kit.Verdict) {
	cl := map[string]bool{}
	var fail string
	failf := func(format string, a ...any) {
		if fail == "" {
			fail = fmt.Sprintf(format, a...)
		}
	}
	U := c16bInterval / 4
	res := kit.Bubble(t, func() {
		fake := &c16bFake{t0: time.Now(), lat: c.Lat, failAt: c.FailAt, unit: U}
		db := sql.OpenDB(c16bConnector{fake})
		defer db.Close()
		stmt := "insert into t (id, g, seq) values (?, ?, ?)"
		if c.Suffix {
			stmt += " " + c16bSuffix
		}
		bi, err := sqlx.NewBulkInserter(sqlx.NewConnFromDB(db), stmt)
		if err != nil {
			failf("NewBulkInserter: %v", err)
			return
		}
		var hmu sync.Mutex
		var handled []c16bHandled
		if c.Handler {
			bi.SetResultHandler(func(r sql.Result, err error) {
				h := c16bHandled{err: err, rows: -1}
				if err == nil && r != nil {
					h.rows, _ = r.RowsAffected()
				}
				hmu.Lock()
				handled = append(handled, h)
				hmu.Unlock()
			})
		}

		type ins struct {
			g, seq   int
			returned bool
		}
		var imu sync.Mutex
		inserted := map[int]*ins{}
		ng := 0
		at := make([]time.Duration, len(c.Ev))
		var acc time.Duration
		for i, e := range c.Ev {
			acc += time.Duration(e.Gap) * U
			at[i] = acc
			if e.G+1 > ng {
				ng = e.G + 1
			}
		}
		var wg sync.WaitGroup
		for g := 0; g < ng; g++ {
			wg.Add(1)
			g := g
			go func() {
				defer wg.Done()
				seq := 0
				for i, e := range c.Ev {
					if e.G != g {
						continue
					}
					if d := at[i] - time.Since(fake.t0); d > 0 {
						time.Sleep(d)
					}
					for y := 0; y < e.Y; y++ {
						runtime.Gosched()
					}
					switch e.K {
					case "insert":
						for k := 0; k < e.N; k++ {
							id := i*10000 + k
							rec := &ins{g: g, seq: seq}
							imu.Lock()
							inserted[id] = rec
							imu.Unlock()
							if err := bi.Insert(id, g, seq); err != nil {
								failf("Insert(%d, %d, %d): %v", id, g, seq, err)
								return
							}
							imu.Lock()
							rec.returned = true
							imu.Unlock()
							seq++
						}
					case "flush":
						bi.Flush()
					case "uod":
						bi.UpdateOrDelete(func() {})
					}
				}
			}()
		}
		done := make(chan struct{})
		go func() { wg.Wait(); close(done) }()
		maxLat := 0
		for _, l := range c.Lat {
			maxLat = c16bMax(maxLat, l)
		}
		horizon := acc + time.Duration((len(c.Ev)+20)*(maxLat+1))*U + 100*c16bInterval
		select {
		case <-done:
		case <-time.After(horizon):
			failf("operations did not return within the virtual horizon %v", horizon)
			return
		}
		bi.Flush()
		// BulkInserter has no Wait: let batches that the flusher still holds finish, and let the flusher retire
		time.Sleep(13*c16bInterval + time.Duration(3*maxLat)*U)

		// ---- oracle
		fake.mu.Lock()
		defer fake.mu.Unlock()
		where := map[int]int{}
		var sizes []int64
		failedStmts := 0
		for si, st := range fake.stmts {
			rows, err := c16bParse(st.query, c.Suffix)
			if err != nil {
				failf("statement %d: %v", si, err)
				continue
			}
			if len(rows) > c16bMaxRows {
				failf("statement %d carries %d rows > %d", si, len(rows), c16bMaxRows)
			}
			if len(rows) == c16bMaxRows {
				cl["threshold-statement"] = true
			}
			if st.failed {
				failedStmts++
				cl["failed-exec"] = true
			} else {
				sizes = append(sizes, int64(len(rows)))
			}
			lastSeq := map[int]int{}
			for _, r := range rows {
				in, ok := inserted[r.id]
				if !ok {
					failf("statement %d holds row id %d that was never inserted", si, r.id)
					continue
				}
				if in.g != r.g || in.seq != r.seq {
					failf("statement %d: row id %d reached the driver as (g %d, seq %d), inserted as (g %d, seq %d)", si, r.id, r.g, r.seq, in.g, in.seq)
				}
				if prev, dup := where[r.id]; dup {
					failf("row id %d (g %d seq %d) executed twice: statements %d (at %v) and %d (at %v)", r.id, r.g, r.seq, prev, fake.stmts[prev].at, si, st.at)
				}
				where[r.id] = si
				if ls, ok := lastSeq[r.g]; ok && r.seq < ls {
					failf("statement %d: rows of goroutine %d out of insertion order (seq %d after %d)", si, r.g, r.seq, ls)
				}
				lastSeq[r.g] = r.seq
			}
		}
		gs := map[int]bool{}
		for id, in := range inserted {
			gs[in.g] = true
			if _, ok := where[id]; !ok && in.returned {
				failf("row id %d (g %d seq %d) was never executed: %d statements, 13 s after the final Flush", id, in.g, in.seq, len(fake.stmts))
			}
		}
		if c.Handler {
			hmu.Lock()
			var got []int64
			herrs := 0
			for _, h := range handled {
				if h.err != nil {
					herrs++
					if !errors.Is(h.err, errC16bInjected) {
						failf("result handler got an unexpected error: %v", h.err)
					}
				} else {
					got = append(got, h.rows)
				}
			}
			hmu.Unlock()
			if len(handled) != len(fake.stmts) {
				failf("%d statements reached the driver, the result handler was called %d times", len(fake.stmts), len(handled))
			}
			if herrs != failedStmts {
				failf("%d statements failed in the driver, the result handler saw %d errors", failedStmts, herrs)
			}
			sort.Slice(got, func(i, j int) bool { return got[i] < got[j] })
			sort.Slice(sizes, func(i, j int) bool { return sizes[i] < sizes[j] })
			if fmt.Sprint(got) != fmt.Sprint(sizes) {
				failf("rows affected seen by the result handler %v differ from the executed statements' row counts %v", got, sizes)
			}
			cl["result-handler"] = true
		}
		if len(fake.stmts) >= 2 {
			cl["2+statements"] = true
		}
		if len(c.Lat) > 0 && maxLat > 0 {
			cl["exec-latency"] = true
		}
		v.NonTrivial = len(fake.stmts) >= 2 && len(gs) >= 2
	})
	for k := range cl {
		v.Classes = append(v.Classes, k)
	}
	sort.Strings(v.Classes)
	switch {
	case fail != "":
		v.Fail = fail
	case res.Hang:
		v.Fail = "hang: " + res.Raw
	case res.Leak:
		v.Fail = "leak: 13 s after the final Flush a goroutine (the background flusher) is still alive at bubble exit"
	case res.Panic != "":
		v.Fail = "panic: " + res.Panic
	}
	return v
}

func c16bGen(rt *rapid.T) c16bCase {
	c := c16bCase{FailAt: -1}
	c.Handler = rapid.IntRange(0, 3).Draw(rt, "handler") > 0
	c.Suffix = rapid.Bool().Draw(rt, "suffix")
	ng := rapid.IntRange(1, 4).Draw(rt, "ng")
	n := rapid.IntRange(1, 24).Draw(rt, "nev")
	big := rapid.IntRange(0, 7).Draw(rt, "big") == 0 // cases that reach the 1000-row threshold
	for i := 0; i < n; i++ {
		e := c16bEv{G: rapid.IntRange(0, ng-1).Draw(rt, "g")}
		e.K = rapid.SampledFrom([]string{"insert", "insert", "insert", "insert", "insert", "flush", "uod"}).Draw(rt, "k")
		switch rapid.IntRange(0, 9).Draw(rt, "gapclass") {
		case 0, 1, 2, 3, 4:
		case 5, 6:
			e.Gap = 1
		case 7:
			e.Gap = rapid.IntRange(2, 5).Draw(rt, "gap")
		case 8:
			e.Gap = rapid.IntRange(6, 20).Draw(rt, "gap")
		default:
			e.Gap = rapid.IntRange(40, 60).Draw(rt, "gap") // beyond the idle quit (10 s)
		}
		if e.K == "insert" {
			switch {
			case big && rapid.IntRange(0, 2).Draw(rt, "bigev") == 0:
				e.N = rapid.SampledFrom([]int{400, 600, 999, 1000, 1001, 1500, 2100}).Draw(rt, "n")
			default:
				e.N = rapid.IntRange(1, 4).Draw(rt, "n")
			}
		}
		e.Y = rapid.SampledFrom([]int{0, 0, 0, 1, 2}).Draw(rt, "y")
		c.Ev = append(c.Ev, e)
	}
	nl := rapid.IntRange(0, 3).Draw(rt, "nlat")
	for i := 0; i < nl; i++ {
		c.Lat = append(c.Lat, rapid.SampledFrom([]int{0, 0, 1, 3, 6, 45}).Draw(rt, "lat"))
	}
	if rapid.IntRange(0, 3).Draw(rt, "fail") == 0 {
		c.FailAt = rapid.IntRange(0, 4).Draw(rt, "failAt") // at most one failing statement: the connection's breaker stays closed
	}
	return c
}

func TestVerif_C16_bulkinserter(t *testing.T) {
	defer runtime.GOMAXPROCS(runtime.GOMAXPROCS(1))
	kit.Run(t, "C16", "bulkinserter-rows", kit.Opts{Quick: 3000, Thorough: 48000}, c16bGen,
		func(c c16bCase) kit.Verdict { return c16bInterp(t, c) })
}
