package sqlx_test

// C16 — integration site sqlx.BulkInserter: a PeriodicalExecutor whose
// TaskContainer is dbInserter (threshold maxBulkRows = 1000 rows, flush
// interval 1 s, both constants of the package). Harness injected by /verif
// (overlay), external test package.
//
// Environment: the harness's own database/sql driver; it records the text of
// every statement that reaches Exec (optionally sleeps a generated virtual
// latency, optionally fails one statement). "Exactly once" at this site:
// every row handed to Insert appears in exactly one executed bulk statement,
// rows of one goroutine in insertion order inside a statement, a statement
// never carries more than 1000 rows, the result handler is called once per
// executed statement with that statement's result or error, whichever trigger
// (row threshold, 1 s tick, Flush / UpdateOrDelete / UpdateStmt) flushes.
// UpdateStmt(stmt') switches between statement texts of the same arity: a row
// is executed with its own values by a statement whose text was in force at
// some moment between its Insert and its execution.

import (
	"context"
	"database/sql"
	"database/sql/driver"
	"errors"
	"fmt"
	"os"
	"regexp"
	"runtime"
	"sort"
	"strconv"
	"strings"
	"sync"
	"testing"
	"time"

	"github.com/gotid/god/lib/logx"
	"github.com/gotid/god/lib/store/sqlx"
	"pgregory.net/rapid"
	"verif.local/kit"
)

func init() {
	logx.Disable()
	if p := os.Getenv("VERIF_KNOWN_C16"); p != "" {
		os.Setenv("VERIF_KNOWN", p)
	}
}

const (
	c16bInterval = time.Second // sqlx.flushInterval
	c16bMaxRows  = 1000        // sqlx.maxBulkRows
)

// statement variants (same columns, same arity) for NewBulkInserter / UpdateStmt
type c16bVariant struct{ prefix, suffix string }

var c16bVariants = []c16bVariant{
	{"insert into t (id, g, seq) values", ""},
	{"insert into t2 (id, g, seq) values", ""},
	{"insert into t3 (id, g, seq) values", "on duplicate key update seq = seq"},
	{"insert into t (id, g, seq) values", "on duplicate key update seq = seq"},
}

func (v c16bVariant) text() string {
	s := v.prefix + " (?, ?, ?)"
	if v.suffix != "" {
		s += " " + v.suffix
	}
	return s
}

// ---------------------------------------------------------------- fake driver

var errC16bInjected = errors.New("c16 injected exec fault")

type c16bStmt struct {
	query  string
	at     time.Duration
	clk    int64 // logical clock when the statement reached the driver
	failed bool
}

type c16bFake struct {
	mu     sync.Mutex
	clk    int64
	t0     time.Time
	stmts  []c16bStmt
	lat    []int
	failAt int
	unit   time.Duration
}

type c16bConnector struct{ f *c16bFake }

func (c c16bConnector) Connect(context.Context) (driver.Conn, error) { return &c16bConn{f: c.f}, nil }
func (c c16bConnector) Driver() driver.Driver                        { return c16bDriver{} }

type c16bDriver struct{}

func (f *c16bFake) tick() int64 {
	f.mu.Lock()
	defer f.mu.Unlock()
	f.clk++
	return f.clk
}

func (c16bDriver) Open(string) (driver.Conn, error) { return nil, errors.New("use the connector") }

type c16bConn struct{ f *c16bFake }

func (c *c16bConn) Prepare(string) (driver.Stmt, error) { return nil, errors.New("not used") }
func (c *c16bConn) Close() error                        { return nil }
func (c *c16bConn) Begin() (driver.Tx, error)           { return nil, errors.New("not used") }
func (c *c16bConn) ExecContext(_ context.Context, q string, _ []driver.NamedValue) (driver.Result, error) {
	f := c.f
	f.mu.Lock()
	k := len(f.stmts)
	fail := k == f.failAt
	f.clk++
	f.stmts = append(f.stmts, c16bStmt{query: q, at: time.Since(f.t0), clk: f.clk, failed: fail})
	f.mu.Unlock()
	if len(f.lat) > 0 {
		if l := f.lat[k%len(f.lat)]; l > 0 {
			time.Sleep(time.Duration(l) * f.unit)
		}
	}
	if fail {
		return nil, errC16bInjected
	}
	// one "(" in the column list of the prefix, one per row
	return driver.RowsAffected(int64(strings.Count(q, "(") - 1)), nil
}

// ---------------------------------------------------------------- case

type c16bEv struct {
	G   int    `json:"g"`
	Gap int    `json:"d,omitempty"` // quarter intervals (250 ms) since the previous event
	K   string `json:"k"`           // insert | flush | uod | upd
	N   int    `json:"n,omitempty"` // insert: number of consecutive rows
	V   int    `json:"v,omitempty"` // upd: statement variant passed to UpdateStmt
	Y   int    `json:"y,omitempty"`
}

type c16bCase struct {
	Ev      []c16bEv `json:"ev"`
	Lat     []int    `json:"lat,omitempty"` // Exec latency of the k-th statement, quarter intervals
	FailAt  int      `json:"fail"`          // index of the statement the driver fails (-1: none)
	Handler bool     `json:"h,omitempty"`   // SetResultHandler
	V0      int      `json:"v0,omitempty"`  // statement variant passed to NewBulkInserter
}

type c16bRow struct{ id, g, seq int }

func c16bMax(a, b int) int {
	if a > b {
		return a
	}
	return b
}

var c16bRowRe = regexp.MustCompile(`^\((\d+), (\d+), (\d+)\)$`)

// c16bParse recognises the variant of a statement text and returns its rows.
func c16bParse(q string) (variant int, rows []c16bRow, err error) {
	variant = -1
	body := ""
	for pass := 0; pass < 2 && variant < 0; pass++ { // variants with a suffix first (two variants share a prefix)
		for vi, v := range c16bVariants {
			if (v.suffix != "") != (pass == 0) || !strings.HasPrefix(q, v.prefix+" ") {
				continue
			}
			b := q[len(v.prefix)+1:]
			if v.suffix != "" {
				if !strings.HasSuffix(b, " "+v.suffix) {
					continue
				}
				b = b[:len(b)-len(v.suffix)-1]
			}
			variant, body = vi, b
			break
		}
	}
	if variant < 0 {
		return -1, nil, fmt.Errorf("statement text is none of the statements passed to NewBulkInserter/UpdateStmt: %.90q", q)
	}
	for _, part := range strings.Split(body, "), ") {
		if !strings.HasSuffix(part, ")") {
			part += ")"
		}
		m := c16bRowRe.FindStringSubmatch(part)
		if m == nil {
			return variant, nil, fmt.Errorf("malformed row %.40q", part)
		}
		id, _ := strconv.Atoi(m[1])
		g, _ := strconv.Atoi(m[2])
		seq, _ := strconv.Atoi(m[3])
		rows = append(rows, c16bRow{id, g, seq})
	}
	return variant, rows, nil
}

type c16bHandled struct {
	rows int64
	err  error
}

func c16bInterp(t *testing.T, c c16bCase) (v kit.Verdict) {
	cl := map[string]bool{}
	var fail string
	failf := func(format string, a ...any) {
		if fail == "" {
			fail = fmt.Sprintf(format, a...)
		}
	}
	U := c16bInterval / 4
	res := kit.Bubble(t, func() {
		fake := &c16bFake{t0: time.Now(), lat: c.Lat, failAt: c.FailAt, unit: U}
		db := sql.OpenDB(c16bConnector{fake})
		defer db.Close()
		bi, err := sqlx.NewBulkInserter(sqlx.NewConnFromDB(db), c16bVariants[c.V0].text())
		if err != nil {
			failf("NewBulkInserter: %v", err)
			return
		}
		var hmu sync.Mutex
		var handled []c16bHandled
		if c.Handler {
			bi.SetResultHandler(func(r sql.Result, err error) {
				h := c16bHandled{err: err, rows: -1}
				if err == nil && r != nil {
					h.rows, _ = r.RowsAffected()
				}
				hmu.Lock()
				handled = append(handled, h)
				hmu.Unlock()
			})
		}

		type ins struct {
			g, seq    int
			call, ret int64 // logical clock; ret == 0: Insert never returned
			returned  bool
		}
		type upd struct {
			v         int
			call, ret int64
		}
		var upds []*upd
		var imu sync.Mutex
		inserted := map[int]*ins{}
		ng := 0
		at := make([]time.Duration, len(c.Ev))
		var acc time.Duration
		for i, e := range c.Ev {
			acc += time.Duration(e.Gap) * U
			at[i] = acc
			if e.G+1 > ng {
				ng = e.G + 1
			}
		}
		var wg sync.WaitGroup
		for g := 0; g < ng; g++ {
			wg.Add(1)
			g := g
			go func() {
				defer wg.Done()
				seq := 0
				for i, e := range c.Ev {
					if e.G != g {
						continue
					}
					if d := at[i] - time.Since(fake.t0); d > 0 {
						time.Sleep(d)
					}
					for y := 0; y < e.Y; y++ {
						runtime.Gosched()
					}
					switch e.K {
					case "insert":
						for k := 0; k < e.N; k++ {
							id := i*10000 + k
							rec := &ins{g: g, seq: seq, call: fake.tick()}
							imu.Lock()
							inserted[id] = rec
							imu.Unlock()
							if err := bi.Insert(id, g, seq); err != nil {
								failf("Insert(%d, %d, %d): %v", id, g, seq, err)
								return
							}
							imu.Lock()
							rec.returned, rec.ret = true, fake.tick()
							imu.Unlock()
							seq++
						}
					case "flush":
						bi.Flush()
					case "uod":
						bi.UpdateOrDelete(func() {})
					case "upd":
						u := &upd{v: e.V, call: fake.tick()}
						imu.Lock()
						upds = append(upds, u)
						imu.Unlock()
						if err := bi.UpdateStmt(c16bVariants[e.V].text()); err != nil {
							failf("UpdateStmt(%q): %v", c16bVariants[e.V].text(), err)
							return
						}
						imu.Lock()
						u.ret = fake.tick()
						imu.Unlock()
					}
				}
			}()
		}
		done := make(chan struct{})
		go func() { wg.Wait(); close(done) }()
		maxLat := 0
		for _, l := range c.Lat {
			maxLat = c16bMax(maxLat, l)
		}
		horizon := acc + time.Duration((len(c.Ev)+20)*(maxLat+1))*U + 100*c16bInterval
		select {
		case <-done:
		case <-time.After(horizon):
			failf("operations did not return within the virtual horizon %v", horizon)
			return
		}
		bi.Flush()
		// BulkInserter has no Wait: let batches that the flusher still holds finish, and let the flusher retire
		time.Sleep(13*c16bInterval + time.Duration(3*maxLat)*U)

		// ---- oracle
		fake.mu.Lock()
		defer fake.mu.Unlock()
		where := map[int]int{}
		var sizes []int64
		failedStmts := 0
		for si, st := range fake.stmts {
			variant, rows, err := c16bParse(st.query)
			if err != nil {
				failf("statement %d: %v", si, err)
				continue
			}
			if len(rows) > c16bMaxRows {
				failf("statement %d carries %d rows > %d", si, len(rows), c16bMaxRows)
			}
			if len(rows) == c16bMaxRows {
				cl["threshold-statement"] = true
			}
			if st.failed {
				failedStmts++
				cl["failed-exec"] = true
			} else {
				sizes = append(sizes, int64(len(rows)))
			}
			// the text must have been handed to the inserter before this statement was executed
			introduced := variant == c.V0
			for _, u := range upds {
				if u.v == variant && u.call < st.clk {
					introduced = true
				}
			}
			if !introduced {
				failf("statement %d (at %v) uses the text of variant %d, which had not been passed to NewBulkInserter/UpdateStmt by then", si, st.at, variant)
			}
			if variant != c.V0 {
				cl["executed-with-updated-stmt"] = true
			}
			lastSeq := map[int]int{}
			for _, r := range rows {
				in, ok := inserted[r.id]
				if !ok {
					failf("statement %d holds row id %d that was never inserted", si, r.id)
					continue
				}
				if in.g != r.g || in.seq != r.seq {
					failf("statement %d: row id %d reached the driver as (g %d, seq %d), inserted as (g %d, seq %d)", si, r.id, r.g, r.seq, in.g, in.seq)
				}
				// ... and must not have been replaced, before the row was inserted, by an UpdateStmt that
				// had already returned: stale = every introduction of this text is strictly older than u
				for _, u := range upds {
					if u.ret == 0 || u.ret > in.call || u.v == variant {
						continue
					}
					stale := true
					for _, w := range upds {
						if w.v == variant && !(w.ret != 0 && w.ret < u.call) {
							stale = false
						}
					}
					if stale {
						failf("row id %d (g %d seq %d) was inserted after UpdateStmt(variant %d) had returned, but was executed by statement %d with the older text of variant %d", r.id, r.g, r.seq, u.v, si, variant)
					}
				}
				if prev, dup := where[r.id]; dup {
					failf("row id %d (g %d seq %d) executed twice: statements %d (at %v) and %d (at %v)", r.id, r.g, r.seq, prev, fake.stmts[prev].at, si, st.at)
				}
				where[r.id] = si
				if ls, ok := lastSeq[r.g]; ok && r.seq < ls {
					failf("statement %d: rows of goroutine %d out of insertion order (seq %d after %d)", si, r.g, r.seq, ls)
				}
				lastSeq[r.g] = r.seq
			}
		}
		gs := map[int]bool{}
		for id, in := range inserted {
			gs[in.g] = true
			if _, ok := where[id]; !ok && in.returned {
				failf("row id %d (g %d seq %d, Insert returned nil) was never executed: %d statements, %d UpdateStmt calls, 13 s after the final Flush", id, in.g, in.seq, len(fake.stmts), len(upds))
			}
		}
		if c.Handler {
			hmu.Lock()
			var got []int64
			herrs := 0
			for _, h := range handled {
				if h.err != nil {
					herrs++
					if !errors.Is(h.err, errC16bInjected) {
						failf("result handler got an unexpected error: %v", h.err)
					}
				} else {
					got = append(got, h.rows)
				}
			}
			hmu.Unlock()
			if len(handled) != len(fake.stmts) {
				failf("%d statements reached the driver, the result handler was called %d times", len(fake.stmts), len(handled))
			}
			if herrs != failedStmts {
				failf("%d statements failed in the driver, the result handler saw %d errors", failedStmts, herrs)
			}
			sort.Slice(got, func(i, j int) bool { return got[i] < got[j] })
			sort.Slice(sizes, func(i, j int) bool { return sizes[i] < sizes[j] })
			if fmt.Sprint(got) != fmt.Sprint(sizes) {
				failf("rows affected seen by the result handler %v differ from the executed statements' row counts %v", got, sizes)
			}
			cl["result-handler"] = true
		}
		if len(fake.stmts) >= 2 {
			cl["2+statements"] = true
		}
		if len(upds) > 0 {
			cl["UpdateStmt"] = true
		}
		if len(c.Lat) > 0 && maxLat > 0 {
			cl["exec-latency"] = true
		}
		v.NonTrivial = len(fake.stmts) >= 2 && len(gs) >= 2
	})
	for k := range cl {
		v.Classes = append(v.Classes, k)
	}
	sort.Strings(v.Classes)
	switch {
	case fail != "":
		v.Fail = fail
	case res.Hang:
		v.Fail = "hang: " + res.Raw
	case res.Leak:
		v.Fail = "leak: 13 s after the final Flush a goroutine (the background flusher) is still alive at bubble exit"
	case res.Panic != "":
		v.Fail = "panic: " + res.Panic
	}
	return v
}

func c16bGen(rt *rapid.T) c16bCase {
	c := c16bCase{FailAt: -1}
	c.Handler = rapid.IntRange(0, 3).Draw(rt, "handler") > 0
	c.V0 = rapid.IntRange(0, len(c16bVariants)-1).Draw(rt, "v0")
	ng := rapid.IntRange(1, 4).Draw(rt, "ng")
	n := rapid.IntRange(1, 24).Draw(rt, "nev")
	big := rapid.IntRange(0, 7).Draw(rt, "big") == 0 // cases that reach the 1000-row threshold
	for i := 0; i < n; i++ {
		e := c16bEv{G: rapid.IntRange(0, ng-1).Draw(rt, "g")}
		e.K = rapid.SampledFrom([]string{"insert", "insert", "insert", "insert", "insert", "insert", "flush", "uod", "upd"}).Draw(rt, "k")
		if e.K == "upd" {
			e.V = rapid.IntRange(0, len(c16bVariants)-1).Draw(rt, "v")
		}
		switch rapid.IntRange(0, 9).Draw(rt, "gapclass") {
		case 0, 1, 2, 3, 4:
		case 5, 6:
			e.Gap = 1
		case 7:
			e.Gap = rapid.IntRange(2, 5).Draw(rt, "gap")
		case 8:
			e.Gap = rapid.IntRange(6, 20).Draw(rt, "gap")
		default:
			e.Gap = rapid.IntRange(40, 60).Draw(rt, "gap") // beyond the idle quit (10 s)
		}
		if e.K == "insert" {
			switch {
			case big && rapid.IntRange(0, 2).Draw(rt, "bigev") == 0:
				e.N = rapid.SampledFrom([]int{400, 600, 999, 1000, 1001, 1500, 2100}).Draw(rt, "n")
			default:
				e.N = rapid.IntRange(1, 4).Draw(rt, "n")
			}
		}
		e.Y = rapid.SampledFrom([]int{0, 0, 0, 1, 2}).Draw(rt, "y")
		c.Ev = append(c.Ev, e)
	}
	nl := rapid.IntRange(0, 3).Draw(rt, "nlat")
	for i := 0; i < nl; i++ {
		c.Lat = append(c.Lat, rapid.SampledFrom([]int{0, 0, 1, 3, 6, 45}).Draw(rt, "lat"))
	}
	if rapid.IntRange(0, 3).Draw(rt, "fail") == 0 {
		c.FailAt = rapid.IntRange(0, 4).Draw(rt, "failAt") // at most one failing statement: the connection's breaker stays closed
	}
	return c
}

func TestVerif_C16_bulkinserter(t *testing.T) {
	defer runtime.GOMAXPROCS(runtime.GOMAXPROCS(1))
	kit.Run(t, "C16", "bulkinserter-rows", kit.Opts{Quick: 3000, Thorough: 48000}, c16bGen,
		func(c c16bCase) kit.Verdict { return c16bInterp(t, c) })
}
