package sqlx_test

// C16 — integration site sqlx.BulkInserter: a PeriodicalExecutor whose
// TaskContainer is dbInserter (threshold maxBulkRows = 1000 rows, flush
// interval 1 s, both constants of the package). Harness injected by /verif
// (overlay), external test package.
//
// Environment: the harness's own database/sql driver; it records the text of
// every statement that reaches Exec (optionally sleeps a generated virtual
// latency, optionally fails one statement). "Exactly once" at this site:
// every row handed to Insert appears in exactly one executed bulk statement,
// rows of one goroutine in insertion order inside a statement, a statement
// never carries more than 1000 rows, the result handler is called once per
// executed statement with that statement's result or error, whichever trigger
// (row threshold, 1 s tick, Flush / UpdateOrDelete / UpdateStmt) flushes.
// UpdateStmt(stmt') switches between statement texts of the same arity: a row
// is executed with its own values by a statement whose text was in force at
// some moment between its Insert and its execution.

import (
	"context"
	"database/sql"
	"database/sql/driver"
	"errors"
	"fmt"
	"os"
	"runtime"
	"sort"
	"strconv"
	"strings"
	"sync"
	"testing"
	"time"
	"unicode/utf8"

	"github.com/gotid/god/lib/logx"
	"github.com/gotid/god/lib/store/sqlx"
	"pgregory.net/rapid"
	"verif.local/kit"
)

func init() {
	logx.Disable()
	if p := os.Getenv("VERIF_KNOWN_C16"); p != "" {
		os.Setenv("VERIF_KNOWN", p)
	}
}

const (
	c16bInterval = time.Second // sqlx.flushInterval
	c16bMaxRows  = 1000        // sqlx.maxBulkRows
)

// statement variants (same columns, same arity) for NewBulkInserter / UpdateStmt
type c16bVariant struct{ prefix, suffix string }

var c16bVariants = []c16bVariant{
	{"insert into t (id, g, seq, txt) values", ""},
	{"insert into t2 (id, g, seq, txt) values", ""},
	{"insert into t3 (id, g, seq, txt) values", "on duplicate key update seq = seq"},
	{"insert into t (id, g, seq, txt) values", "on duplicate key update seq = seq"},
	{"insert into t5 (id, g, seq, txt) values", ";"}, // the shortest suffix a caller can write
}

func (v c16bVariant) text() string {
	s := v.prefix + " (?, ?, ?, ?)"
	if v.suffix != "" {
		s += " " + v.suffix
	}
	return s
}

// ---------------------------------------------------------------- fake driver

var errC16bInjected = errors.New("c16 injected exec fault")

// c16bFailErr: the error VALUE the driver returns for the failing statement
func c16bFailErr(kind int) error {
	switch kind {
	case 1:
		return sql.ErrNoRows // "acceptable" for the connection's breaker
	case 2:
		return context.Canceled
	case 3:
		return fmt.Errorf("c16 wrapped: %w", errC16bInjected)
	}
	return errC16bInjected
}

// c16bAlphabet: text values of the fourth column (full alphabet of what a caller can insert)
var c16bAlphabet = []string{
	"", "plain", "it's", `back\slash`, `dq"uote`, "), (1, 2, 3, 'x", "?", "a?b??", "%s %d %! %%", "values",
	"nul\x00byte", "\xff\xfe invalid utf-8", "h\u00e9llo \u4e16\u754c", "\n\r\x1a", " lead/trail ", "' or '1'='1",
	strings.Repeat("x", 100), strings.Repeat("long'\\", 9363), // 64 KiB
}

func c16bText(alpha, id int, big bool) string {
	if alpha == 0 {
		return "t"
	}
	t := c16bAlphabet[(id*7+alpha)%len(c16bAlphabet)]
	if big && len(t) > 1000 { // cases with thousands of rows: keep statements below a few MB
		t = t[:1000]
	}
	return t
}

// big: the case inserts runs of hundreds of rows
func (c c16bCase) big() bool {
	for _, e := range c.Ev {
		if e.N >= 400 {
			return true
		}
	}
	return false
}

type c16bStmt struct {
	query  string
	at     time.Duration
	clk    int64 // logical clock when the statement reached the driver
	failed bool
}

type c16bFake struct {
	mu     sync.Mutex
	clk    int64
	t0     time.Time
	stmts  []c16bStmt
	lat    []int
	failAt int
	failK  int
	unit   time.Duration
}

type c16bConnector struct{ f *c16bFake }

func (c c16bConnector) Connect(context.Context) (driver.Conn, error) { return &c16bConn{f: c.f}, nil }
func (c c16bConnector) Driver() driver.Driver                        { return c16bDriver{} }

type c16bDriver struct{}

func (f *c16bFake) tick() int64 {
	f.mu.Lock()
	defer f.mu.Unlock()
	f.clk++
	return f.clk
}

func (c16bDriver) Open(string) (driver.Conn, error) { return nil, errors.New("use the connector") }

type c16bConn struct{ f *c16bFake }

func (c *c16bConn) Prepare(string) (driver.Stmt, error) { return nil, errors.New("not used") }
func (c *c16bConn) Close() error                        { return nil }
func (c *c16bConn) Begin() (driver.Tx, error)           { return nil, errors.New("not used") }
func (c *c16bConn) ExecContext(_ context.Context, q string, _ []driver.NamedValue) (driver.Result, error) {
	f := c.f
	f.mu.Lock()
	k := len(f.stmts)
	fail := k == f.failAt
	f.clk++
	f.stmts = append(f.stmts, c16bStmt{query: q, at: time.Since(f.t0), clk: f.clk, failed: fail})
	f.mu.Unlock()
	if len(f.lat) > 0 {
		if l := f.lat[k%len(f.lat)]; l > 0 {
			time.Sleep(time.Duration(l) * f.unit)
		}
	}
	if fail {
		return nil, c16bFailErr(f.failK)
	}
	return driver.RowsAffected(int64(len(q))), nil // the oracle compares with the statement's length
}

// ---------------------------------------------------------------- case

type c16bEv struct {
	G   int    `json:"g"`
	Gap int    `json:"d,omitempty"` // quarter intervals (250 ms) since the previous event
	K   string `json:"k"`           // insert | flush | uod | upd | updbad | insbad
	N   int    `json:"n,omitempty"` // insert: number of consecutive rows
	V   int    `json:"v,omitempty"` // upd: statement variant passed to UpdateStmt; updbad: index into c16bMalformed; insbad: 0 too few, 1 too many arguments
	Y   int    `json:"y,omitempty"`
}

type c16bCase struct {
	Ev      []c16bEv `json:"ev"`
	Lat     []int    `json:"lat,omitempty"`   // Exec latency of the k-th statement, quarter intervals
	FailAt  int      `json:"fail"`            // index of the statement the driver fails (-1: none)
	FailK   int      `json:"failk,omitempty"` // error value: 0 custom, 1 sql.ErrNoRows, 2 context.Canceled, 3 wrapped custom
	Alpha   int      `json:"alpha,omitempty"` // 0: fourth column is always 't'; else seed into c16bAlphabet
	Handler bool     `json:"h,omitempty"`     // SetResultHandler
	V0      int      `json:"v0,omitempty"`    // statement variant passed to NewBulkInserter
	// BadNew-1: before the inserter of the case is built, NewBulkInserter is called with this malformed
	// statement (no executor may come to life, nothing may panic; the returned values are not judged)
	BadNew int `json:"badnew,omitempty"`
}

// c16bMalformed: statements parseInsertStmt refuses (no "values", no variables, column/variable count mismatch)
var c16bMalformed = []string{
	"insert into t (id, g, seq, txt) (?, ?, ?, ?)",
	"insert into t (id, g, seq, txt) values (1, 2, 3, 'x')",
	"insert into t (id, g, seq) values (?, ?, ?, ?)",
	"values",
	"",
}

type c16bRow struct {
	id, g, seq int
	txt        string
}

func c16bMin(a, b int) int {
	if a < b {
		return a
	}
	return b
}

func c16bMax(a, b int) int {
	if a > b {
		return a
	}
	return b
}

// c16bScanRows: (int, int, int, 'text') tuples separated by ", ". Inside quotes a backslash
// escapes the next character (\\ \' \" \r \n, and the four-character forms \x00 \x1a).
func c16bScanRows(body string) ([]c16bRow, error) {
	var rows []c16bRow
	i := 0
	num := func() (int, error) {
		st := i
		for i < len(body) && body[i] >= '0' && body[i] <= '9' {
			i++
		}
		if st == i {
			return 0, fmt.Errorf("number expected at offset %d: %.30q", st, body[st:])
		}
		return strconv.Atoi(body[st:i])
	}
	lit := func(l string) error {
		if !strings.HasPrefix(body[i:], l) {
			return fmt.Errorf("%q expected at offset %d: %.30q", l, i, body[i:])
		}
		i += len(l)
		return nil
	}
	for {
		var r c16bRow
		var err error
		if err = lit("("); err != nil {
			return rows, err
		}
		if r.id, err = num(); err != nil {
			return rows, err
		}
		if err = lit(", "); err != nil {
			return rows, err
		}
		if r.g, err = num(); err != nil {
			return rows, err
		}
		if err = lit(", "); err != nil {
			return rows, err
		}
		if r.seq, err = num(); err != nil {
			return rows, err
		}
		if err = lit(", '"); err != nil {
			return rows, err
		}
		var sb strings.Builder
		closed := false
		for i < len(body) {
			ch := body[i]
			if ch == '\'' {
				i++
				closed = true
				break
			}
			if ch == '\\' && i+1 < len(body) {
				switch n := body[i+1]; {
				case n == 'x' && i+3 < len(body):
					v, e := strconv.ParseUint(body[i+2:i+4], 16, 8)
					if e != nil {
						return rows, fmt.Errorf("bad \\x escape at offset %d", i)
					}
					sb.WriteByte(byte(v))
					i += 4
				case n == 'r':
					sb.WriteByte('\r')
					i += 2
				case n == 'n':
					sb.WriteByte('\n')
					i += 2
				default:
					sb.WriteByte(n)
					i += 2
				}
				continue
			}
			sb.WriteByte(ch)
			i++
		}
		if !closed {
			return rows, fmt.Errorf("unterminated text value in row id %d", r.id)
		}
		r.txt = sb.String()
		if err = lit(")"); err != nil {
			return rows, err
		}
		rows = append(rows, r)
		if i == len(body) {
			return rows, nil
		}
		if err = lit(", "); err != nil {
			return rows, err
		}
	}
}

// c16bParse recognises the variant of a statement text and returns its rows.
// tornWith >= 0: the text is the prefix of variant `variant` with the suffix state of variant
// tornWith - a mixture of two statements (observation outside the statement, FINDINGS.md).
func c16bParse(q string) (variant, tornWith int, rows []c16bRow, err error) {
	variant, tornWith = -1, -1
	body := ""
	for pass := 0; pass < 2 && variant < 0; pass++ { // variants with a suffix first (two variants share a prefix)
		for vi, v := range c16bVariants {
			if (v.suffix != "") != (pass == 0) || !strings.HasPrefix(q, v.prefix+" ") {
				continue
			}
			b := q[len(v.prefix)+1:]
			if v.suffix != "" {
				if !strings.HasSuffix(b, " "+v.suffix) {
					continue
				}
				b = b[:len(b)-len(v.suffix)-1]
			}
			variant, body = vi, b
			break
		}
	}
	for a := 0; a < len(c16bVariants) && variant < 0; a++ { // torn: prefix of a, suffix state of b
		for b, vb := range c16bVariants {
			va := c16bVariants[a]
			if va.suffix == vb.suffix || !strings.HasPrefix(q, va.prefix+" ") {
				continue
			}
			t := q[len(va.prefix)+1:]
			if vb.suffix != "" {
				if !strings.HasSuffix(t, " "+vb.suffix) {
					continue
				}
				t = t[:len(t)-len(vb.suffix)-1]
			}
			if r, e := c16bScanRows(t); e == nil {
				return a, b, r, nil
			}
		}
	}
	if variant < 0 {
		return -1, -1, nil, fmt.Errorf("statement text is none of the statements passed to NewBulkInserter/UpdateStmt: %.90q ... %.90q", q, q[c16bMax(0, len(q)-90):])
	}
	rows, err = c16bScanRows(body)
	return variant, -1, rows, err
}

type c16bHandled struct {
	rows int64
	err  error
}

func c16bInterp(t *testing.T, c c16bCase) (v kit.Verdict) {
	cl := map[string]bool{}
	var fail string
	failf := func(format string, a ...any) {
		if fail == "" {
			fail = fmt.Sprintf(format, a...)
		}
	}
	U := c16bInterval / 4
	unspecified := false // a malformed statement / a call with the wrong number of arguments was ACCEPTED: nothing is determined
	var umu sync.Mutex
	res := kit.Bubble(t, func() {
		fake := &c16bFake{t0: time.Now(), lat: c.Lat, failAt: c.FailAt, failK: c.FailK, unit: U}
		db := sql.OpenDB(c16bConnector{fake})
		defer db.Close()
		// no connection reuse: sql.Result.RowsAffected locks the connection it came from, and a pooled
		// connection may by then be executing (sleeping in) another statement - a mutex wait across
		// virtual time would freeze the bubble (harness artefact)
		db.SetMaxIdleConns(0)
		if c.BadNew > 0 {
			cl["NewBulkInserter-malformed-statement"] = true
			if b, err := sqlx.NewBulkInserter(sqlx.NewConnFromDB(db), c16bMalformed[(c.BadNew-1)%len(c16bMalformed)]); err == nil && b != nil {
				unspecified = true // accepted: unspecified, the case is not judged
				return
			}
		}
		bi, err := sqlx.NewBulkInserter(sqlx.NewConnFromDB(db), c16bVariants[c.V0].text())
		if err != nil {
			failf("NewBulkInserter: %v", err)
			return
		}
		var hmu sync.Mutex
		var handled []c16bHandled
		if c.Handler {
			bi.SetResultHandler(func(r sql.Result, err error) {
				h := c16bHandled{err: err, rows: -1}
				if err == nil && r != nil {
					h.rows, _ = r.RowsAffected()
				}
				hmu.Lock()
				handled = append(handled, h)
				hmu.Unlock()
			})
		}

		type ins struct {
			g, seq    int
			call, ret int64 // logical clock; ret == 0: Insert never returned
			returned  bool
		}
		type upd struct {
			v         int
			call, ret int64
		}
		var upds []*upd
		var imu sync.Mutex
		inserted := map[int]*ins{}
		ng := 0
		at := make([]time.Duration, len(c.Ev))
		var acc time.Duration
		for i, e := range c.Ev {
			acc += time.Duration(e.Gap) * U
			at[i] = acc
			if e.G+1 > ng {
				ng = e.G + 1
			}
		}
		var wg sync.WaitGroup
		for g := 0; g < ng; g++ {
			wg.Add(1)
			g := g
			go func() {
				defer wg.Done()
				seq := 0
				for i, e := range c.Ev {
					if e.G != g {
						continue
					}
					if d := at[i] - time.Since(fake.t0); d > 0 {
						time.Sleep(d)
					}
					for y := 0; y < e.Y; y++ {
						runtime.Gosched()
					}
					switch e.K {
					case "insert":
						for k := 0; k < e.N; k++ {
							id := i*10000 + k
							rec := &ins{g: g, seq: seq, call: fake.tick()}
							imu.Lock()
							inserted[id] = rec
							imu.Unlock()
							if err := bi.Insert(id, g, seq, c16bText(c.Alpha, id, c.big())); err != nil {
								failf("Insert(%d, %d, %d): %v", id, g, seq, err)
								return
							}
							imu.Lock()
							rec.returned, rec.ret = true, fake.tick()
							imu.Unlock()
							seq++
						}
					case "updbad":
						// a statement the inserter refuses: the statement in force stays in force, pending rows
						// stay pending (no internal Flush), every row is still executed exactly once
						imu.Lock()
						cl["UpdateStmt-malformed-statement"] = true
						imu.Unlock()
						if err := bi.UpdateStmt(c16bMalformed[e.V%len(c16bMalformed)]); err == nil {
							umu.Lock()
							unspecified = true
							umu.Unlock()
							return
						}
					case "insbad":
						// wrong number of arguments: Insert reports an error and hands nothing to the executor
						var err error
						if e.V == 0 {
							err = bi.Insert(i*10000, g)
						} else {
							err = bi.Insert(i*10000, g, 0, "t", "surplus")
						}
						imu.Lock()
						cl["Insert-wrong-arity"] = true
						imu.Unlock()
						if err == nil {
							umu.Lock()
							unspecified = true
							umu.Unlock()
							return
						}
					case "flush":
						bi.Flush()
					case "uod":
						bi.UpdateOrDelete(func() {})
					case "upd":
						u := &upd{v: e.V, call: fake.tick()}
						imu.Lock()
						upds = append(upds, u)
						imu.Unlock()
						if err := bi.UpdateStmt(c16bVariants[e.V].text()); err != nil {
							failf("UpdateStmt(%q): %v", c16bVariants[e.V].text(), err)
							return
						}
						imu.Lock()
						u.ret = fake.tick()
						imu.Unlock()
					}
				}
			}()
		}
		done := make(chan struct{})
		go func() { wg.Wait(); close(done) }()
		maxLat := 0
		for _, l := range c.Lat {
			maxLat = c16bMax(maxLat, l)
		}
		// every wait of an operation is an Exec in progress: a few per statement that can be produced
		// (threshold statements of long runs, one per event otherwise, tick flushes)
		nst := 20
		for _, e := range c.Ev {
			nst += e.N/c16bMaxRows + 2
		}
		horizon := acc + time.Duration(3*nst*(maxLat+1))*U + 100*c16bInterval
		select {
		case <-done:
		case <-time.After(horizon):
			failf("operations did not return within the virtual horizon %v", horizon)
			return
		}
		bi.Flush()
		// BulkInserter has no Wait: let batches that the flusher still holds finish, and let the flusher retire
		time.Sleep(13*c16bInterval + time.Duration(3*maxLat)*U)

		// ---- oracle
		umu.Lock()
		skip := unspecified
		umu.Unlock()
		if skip {
			return
		}
		fake.mu.Lock()
		defer fake.mu.Unlock()
		where := map[int]int{}
		big := c.big()
		var sizes []int64
		failedStmts := 0
		for si, st := range fake.stmts {
			variant, tornWith, rows, err := c16bParse(st.query)
			if err != nil {
				failf("statement %d: %v", si, err)
				continue
			}
			// The statement TEXT is judged only where it is determined: dbInserter.Execute reads the
			// statement (prefix, later suffix) without the lock under which UpdateStmt replaces it, so
			// an UpdateStmt that may overlap this Execute leaves the text unspecified, including a
			// mixture of two statements (observation outside the statement, FINDINGS.md). Execute ran
			// between the call of the last Insert of its rows and the arrival at the driver.
			lastIns := int64(0)
			for _, r := range rows {
				if in, ok := inserted[r.id]; ok && in.call > lastIns {
					lastIns = in.call
				}
			}
			textUnspecified := false
			for _, u := range upds {
				if u.call < st.clk && (u.ret == 0 || u.ret > lastIns) {
					textUnspecified = true
				}
			}
			if textUnspecified {
				cl["text-unspecified (UpdateStmt overlaps Execute)"] = true
				if tornWith >= 0 {
					cl["mixed-statement-text-observed (unspecified)"] = true
				}
			} else if tornWith >= 0 {
				failf("statement %d (at %v) is a mixture of two statements although no UpdateStmt overlapped its execution: %q ... %q = prefix of variant %d with the suffix state of variant %d",
					si, st.at, st.query[:c16bMin(60, len(st.query))], st.query[c16bMax(0, len(st.query)-50):], variant, tornWith)
			}
			if len(rows) > c16bMaxRows {
				failf("statement %d carries %d rows > %d", si, len(rows), c16bMaxRows)
			}
			if len(rows) == c16bMaxRows {
				cl["threshold-statement"] = true
			}
			if st.failed {
				failedStmts++
				cl["failed-exec"] = true
			} else {
				sizes = append(sizes, int64(len(st.query)))
			}
			// the text must have been handed to the inserter before this statement was executed
			introduced := variant == c.V0
			for _, u := range upds {
				if u.v == variant && u.call < st.clk {
					introduced = true
				}
			}
			if !introduced && !textUnspecified && tornWith < 0 {
				failf("statement %d (at %v) uses the text of variant %d, which had not been passed to NewBulkInserter/UpdateStmt by then", si, st.at, variant)
			}
			if variant != c.V0 {
				cl["executed-with-updated-stmt"] = true
			}
			lastSeq := map[int]int{}
			for _, r := range rows {
				in, ok := inserted[r.id]
				if !ok {
					failf("statement %d holds row id %d that was never inserted", si, r.id)
					continue
				}
				if in.g != r.g || in.seq != r.seq {
					failf("statement %d: row id %d reached the driver as (g %d, seq %d), inserted as (g %d, seq %d)", si, r.id, r.g, r.seq, in.g, in.seq)
				}
				// ... and must not have been replaced, before the row was inserted, by an UpdateStmt that
				// had already returned: stale = every introduction of this text is strictly older than u
				for _, u := range upds {
					if u.ret == 0 || u.ret > in.call || u.v == variant {
						continue
					}
					stale := true
					for _, w := range upds {
						if w.v == variant && !(w.ret != 0 && w.ret < u.call) {
							stale = false
						}
					}
					if stale && !textUnspecified && tornWith < 0 {
						failf("row id %d (g %d seq %d) was inserted after UpdateStmt(variant %d) had returned, but was executed by statement %d with the older text of variant %d", r.id, r.g, r.seq, u.v, si, variant)
					}
				}
				if want := c16bText(c.Alpha, r.id, big); utf8.ValidString(want) {
					if r.txt != want {
						failf("statement %d: row id %d reached the driver with text %.60q, inserted with %.60q", si, r.id, r.txt, want)
					}
				} else {
					cl["invalid-utf8-text (value not compared)"] = true
				}
				if prev, dup := where[r.id]; dup {
					failf("row id %d (g %d seq %d) executed twice: statements %d (at %v) and %d (at %v)", r.id, r.g, r.seq, prev, fake.stmts[prev].at, si, st.at)
				}
				where[r.id] = si
				if ls, ok := lastSeq[r.g]; ok && r.seq < ls {
					failf("statement %d: rows of goroutine %d out of insertion order (seq %d after %d)", si, r.g, r.seq, ls)
				}
				lastSeq[r.g] = r.seq
			}
		}
		gs := map[int]bool{}
		for id, in := range inserted {
			gs[in.g] = true
			if _, ok := where[id]; !ok && in.returned {
				failf("row id %d (g %d seq %d, Insert returned nil) was never executed: %d statements, %d UpdateStmt calls, 13 s after the final Flush", id, in.g, in.seq, len(fake.stmts), len(upds))
			}
		}
		if c.Handler {
			hmu.Lock()
			var got []int64
			herrs := 0
			for _, h := range handled {
				if h.err != nil {
					herrs++
					want := c16bFailErr(c.FailK)
					if c.FailK == 3 {
						want = errC16bInjected // the wrapped value must still be reachable with errors.Is
					}
					if !errors.Is(h.err, want) {
						failf("result handler got error %v, the driver returned %v", h.err, want)
					}
				} else {
					got = append(got, h.rows)
				}
			}
			hmu.Unlock()
			if len(handled) != len(fake.stmts) {
				failf("%d statements reached the driver, the result handler was called %d times", len(fake.stmts), len(handled))
			}
			if herrs != failedStmts {
				failf("%d statements failed in the driver, the result handler saw %d errors", failedStmts, herrs)
			}
			sort.Slice(got, func(i, j int) bool { return got[i] < got[j] })
			sort.Slice(sizes, func(i, j int) bool { return sizes[i] < sizes[j] })
			if fmt.Sprint(got) != fmt.Sprint(sizes) {
				failf("results seen by the result handler %v differ from the results the driver returned for the executed statements %v", got, sizes)
			}
			cl["result-handler"] = true
		}
		if len(fake.stmts) >= 2 {
			cl["2+statements"] = true
		}
		if len(upds) > 0 {
			cl["UpdateStmt"] = true
		}
		if c.Alpha != 0 {
			cl["text-alphabet"] = true
		}
		if failedStmts > 0 && c.FailK != 0 {
			cl["error-value:"+[]string{"", "sql.ErrNoRows", "context.Canceled", "wrapped"}[c.FailK]] = true
		}
		if len(c.Lat) > 0 && maxLat > 0 {
			cl["exec-latency"] = true
		}
		v.NonTrivial = len(fake.stmts) >= 2 && len(gs) >= 2
	})
	for k := range cl {
		v.Classes = append(v.Classes, k)
	}
	sort.Strings(v.Classes)
	if unspecified {
		v.Excluded, v.NonTrivial = true, false
		v.Classes = append(v.Classes, "malformed-input-accepted (unspecified, panics/hangs only)")
	}
	switch {
	case fail != "" && !unspecified:
		v.Fail = fail
	case res.Hang:
		v.Fail = "hang: " + res.Raw
	case res.Leak && !unspecified:
		v.Fail = "leak: 13 s after the final Flush a goroutine (the background flusher) is still alive at bubble exit"
	case res.Panic != "":
		v.Fail = "panic: " + res.Panic
	}
	return v
}

func c16bGen(rt *rapid.T) c16bCase {
	c := c16bCase{FailAt: -1}
	c.Handler = rapid.IntRange(0, 3).Draw(rt, "handler") > 0
	c.V0 = rapid.IntRange(0, len(c16bVariants)-1).Draw(rt, "v0")
	if rapid.Bool().Draw(rt, "alphabet") {
		c.Alpha = rapid.IntRange(1, 1000).Draw(rt, "alpha")
	}
	ng := rapid.IntRange(1, 4).Draw(rt, "ng")
	n := rapid.IntRange(1, 24).Draw(rt, "nev")
	big := rapid.IntRange(0, 7).Draw(rt, "big") == 0 // cases that reach the 1000-row threshold
	bad := rapid.IntRange(0, 4).Draw(rt, "bad") == 0 // malformed statements / calls that the inserter must refuse without losing a row
	if bad && rapid.Bool().Draw(rt, "badnew") {
		c.BadNew = 1 + rapid.IntRange(0, len(c16bMalformed)-1).Draw(rt, "badnewv")
	}
	for i := 0; i < n; i++ {
		e := c16bEv{G: rapid.IntRange(0, ng-1).Draw(rt, "g")}
		e.K = rapid.SampledFrom([]string{"insert", "insert", "insert", "insert", "insert", "insert", "flush", "uod", "upd"}).Draw(rt, "k")
		if e.K == "upd" {
			e.V = rapid.IntRange(0, len(c16bVariants)-1).Draw(rt, "v")
		}
		if bad && rapid.IntRange(0, 3).Draw(rt, "badev") == 0 {
			if rapid.Bool().Draw(rt, "badkind") {
				e.K, e.V = "updbad", rapid.IntRange(0, len(c16bMalformed)-1).Draw(rt, "badv")
			} else {
				e.K, e.V = "insbad", rapid.IntRange(0, 1).Draw(rt, "arity")
			}
		}
		switch rapid.IntRange(0, 9).Draw(rt, "gapclass") {
		case 0, 1, 2, 3, 4:
		case 5, 6:
			e.Gap = 1
		case 7:
			e.Gap = rapid.IntRange(2, 5).Draw(rt, "gap")
		case 8:
			e.Gap = rapid.IntRange(6, 20).Draw(rt, "gap")
		default:
			e.Gap = rapid.IntRange(40, 60).Draw(rt, "gap") // beyond the idle quit (10 s)
		}
		if e.K == "insert" {
			switch {
			case big && rapid.IntRange(0, 2).Draw(rt, "bigev") == 0:
				e.N = rapid.SampledFrom([]int{400, 600, 999, 1000, 1001, 1500, 2100}).Draw(rt, "n")
			default:
				e.N = rapid.IntRange(1, 4).Draw(rt, "n")
			}
		}
		e.Y = rapid.SampledFrom([]int{0, 0, 0, 1, 2}).Draw(rt, "y")
		c.Ev = append(c.Ev, e)
	}
	nl := rapid.IntRange(0, 3).Draw(rt, "nlat")
	for i := 0; i < nl; i++ {
		c.Lat = append(c.Lat, rapid.SampledFrom([]int{0, 0, 1, 3, 6, 45}).Draw(rt, "lat"))
	}
	if rapid.IntRange(0, 3).Draw(rt, "fail") == 0 {
		c.FailAt = rapid.IntRange(0, 4).Draw(rt, "failAt") // at most one failing statement: the connection's breaker stays closed
		c.FailK = rapid.IntRange(0, 3).Draw(rt, "failK")
	}
	return c
}

func TestVerif_C16_bulkinserter(t *testing.T) {
	defer runtime.GOMAXPROCS(runtime.GOMAXPROCS(1))
	kit.Run(t, "C16", "bulkinserter-rows", kit.Opts{Quick: 3000, Thorough: 48000}, c16bGen,
		func(c c16bCase) kit.Verdict { return c16bInterp(t, c) })
}
