package executors_test

// C16 — periodical / bulk / chunk executors run every added task exactly once.
// Harness injected by /verif (overlay); see /verif/DESIGN.md "C16".
//
// External test package: only the public constructors and methods are used.
// The ticker of the background flusher is the real timex.NewTicker, which is
// virtual inside a testing/synctest bubble.
//
// A case is a global timeline of events (goroutine, gap to the previous event
// in half intervals, operation). Every harness goroutine executes its own
// events at their virtual instants; the execute callback records each batch
// (and sleeps a generated virtual latency). The oracle works on the recorded
// history only: a logical clock stamps the call and the return of every
// operation and the start and the end of every callback.
//
// Three rules share the case type, the history and the oracle:
//   exec-random      rapid cases, one synctest bubble per case, one P
//   exec-small-scope exhaustive enumeration of small timelines, same interpreter
//   exec-parallel    rapid cases on the real clock with real parallelism (the
//                    unit is built with -race), zero delays
import (
	"bytes"
	"fmt"
	"math"
	"os"
	"runtime"
	"sort"
	"strconv"
	"sync"
	"testing"
	"time"

	"github.com/gotid/god/lib/executors"
	"github.com/gotid/god/lib/logx"
	"pgregory.net/rapid"
	"verif.local/kit"
)

func init() {
	logx.Disable()
	// bin/check always overwrites VERIF_KNOWN with /verif/known_findings.txt; a private
	// list of open findings (HARNESS_GUIDE "Known") is passed through VERIF_KNOWN_C16.
	if p := os.Getenv("VERIF_KNOWN_C16"); p != "" {
		os.Setenv("VERIF_KNOWN", p)
	}
}

// ---------------------------------------------------------------- case

type c16Ev struct {
	G   int    `json:"g"`           // harness goroutine
	Gap int    `json:"d,omitempty"` // half intervals since the previous event of the timeline
	K   string `json:"k"`           // add | flush | wait
	S   int    `json:"s,omitempty"` // add: byte size (chunk executor)
	Y   int    `json:"y,omitempty"` // runtime.Gosched() calls before the operation (order at equal instants)
	// Rep > 1: the add is repeated Rep times back to back by the same goroutine (expanded by
	// c16Case.effective before the case is run; used to reach the default thresholds cheaply)
	Rep int `json:"rep,omitempty"`
}

type c16Case struct {
	Kind string `json:"kind"` // bulk | chunk | periodical
	Max  int    `json:"max"`  // bulk: task count; chunk: byte limit; periodical: task count of the custom container (0 = no threshold)
	IvMs int    `json:"iv"`   // flush interval in milliseconds (used when IvUs is 0)
	// IvUs: flush interval in microseconds, 1 µs .. 10 s, including sub-millisecond values and
	// values that are not multiples of 1 ms. The constructors document no minimum; time.NewTicker
	// accepts every positive duration. All schedules, latencies and horizons of a case are
	// multiples of the half interval, i.e. bounded in TICKS, so small intervals cost nothing.
	IvUs int     `json:"ivus,omitempty"`
	Ev   []c16Ev `json:"ev"`
	Lat  []int   `json:"lat,omitempty"` // latency (half intervals) of the k-th callback, cyclic
	// Q: before the final Wait the root stays passive for a few intervals and then
	// requires every task to be executed already (tick trigger alone must do it).
	// exec-parallel: the case checks that the flusher goroutine is gone at the end.
	Q bool `json:"q,omitempty"`
	// NoMax / NoIv: the size option (WithBulkTasks / WithChunkBytes) resp. the interval option
	// (WithBulkInterval / WithFlushInterval) is NOT passed to the constructor; the executor is
	// then judged by the documented defaults (bulk 1000 tasks, chunk 1 MB, interval 1 s).
	NoMax bool `json:"nomax,omitempty"`
	NoIv  bool `json:"noiv,omitempty"`
	// IvNs: flush interval in nanoseconds (overrides IvUs/IvMs): 1 ns, 1 min, 1 h, 30 days and the
	// "never ticks" values 100 years and MaxInt64 (see never()).
	IvNs int64 `json:"ivns,omitempty"`
	// Loop > 1: the event list is run Loop times in a row on the same executor (long-lived instance).
	Loop int `json:"loop,omitempty"`
	// Poly: tasks are values of many dynamic types (int, string, pointer, slice, map, func,
	// Stringer); NilAt-1 is the index (into the expanded event list) of the one add whose task is
	// nil (NilTyped: a typed nil pointer).
	Poly     bool `json:"poly,omitempty"`
	NilAt    int  `json:"nilat,omitempty"`
	NilTyped bool `json:"niltyped,omitempty"`
	// Re: the callbacks with these indexes (order of start) add one more task to the same executor
	// from inside the callback. Only honoured for configurations that cannot reach a threshold
	// (a threshold-reaching Add from the flusher's own callback waits for the flusher itself;
	// not generated).
	Re []int `json:"re,omitempty"`
	// PanicAt-1: index of the callback that panics (after it has recorded the batch) - only if it
	// runs in a goroutine of the harness, i.e. inside Flush/Wait, where the panic reaches the
	// caller; a panic inside the background flusher kills the flusher (outside the statement).
	PanicAt   int `json:"panicat,omitempty"`
	PanicKind int `json:"pkind,omitempty"` // 0 error, 1 string, 2 int
	// DupOpt: every option that is passed is passed twice, first with a decoy value (options are
	// applied in order, the last one counts).
	DupOpt bool `json:"dupopt,omitempty"`
	// Cb: what the k-th execute callback (cyclic) does with the slice it was given, AFTER its
	// latency (so that Adds can arrive between the hand-over and the action); bulk and chunk:
	// 0 read only; 1 keeps the slice and re-reads it at the end of the case (it must still hold
	// the same tasks); 2 appends CbN trailer elements to it and keeps using the result; 3
	// overwrites every element in place; 4 re-slices to full capacity and reads; 5 sorts
	// (reverses) it in place. What a callback does to its own argument must not affect any
	// other batch.
	Cb  []int `json:"cb,omitempty"`
	CbN int   `json:"cbn,omitempty"`
	// NilRm (periodical): the harness's TaskContainer returns an untyped nil from RemoveAll when it
	// holds nothing (a legal container; hasTasks' nil branch) instead of an empty []int.
	NilRm bool `json:"nilrm,omitempty"`
}

// c16Marker: ids of the elements callbacks write into their own batch (never added as tasks)
const c16Marker = -5000

// c16SharedOpts: option slices reused, as the same slice value, by several executors of one case.
type c16SharedOpts struct {
	mu    sync.Mutex
	bulk  []executors.BulkOption
	chunk []executors.ChunkOption
}

// documented defaults: lib/executors defaultBulkTasks, defaultChunkSize, defaultFlushInterval
const (
	c16DefaultBulkTasks  = 1000
	c16DefaultChunkBytes = 1024 * 1024
	c16DefaultIvMs       = 1000
)

// effective returns the case the oracle judges: omitted options replaced by the
// documented defaults, repeated adds expanded. Idempotent.
func (c c16Case) effective() c16Case {
	if c.NoMax {
		switch c.Kind {
		case "bulk":
			c.Max = c16DefaultBulkTasks
		case "chunk":
			c.Max = c16DefaultChunkBytes
		}
	}
	if c.NoIv && c.Kind != "periodical" {
		c.IvMs, c.IvUs, c.IvNs = c16DefaultIvMs, 0, 0
	}
	var ev []c16Ev
	for _, e := range c.Ev {
		n := 1
		if e.K == "add" && e.Rep > 1 {
			n = e.Rep
		}
		e.Rep = 0
		for k := 0; k < n; k++ {
			ev = append(ev, e)
			e.Gap, e.Y = 0, 0
		}
	}
	if c.Loop > 1 {
		one := ev
		ev = make([]c16Ev, 0, len(one)*c.Loop)
		for l := 0; l < c.Loop; l++ {
			ev = append(ev, one...)
		}
	}
	c.Loop = 0
	c.Ev = ev
	return c
}

// never: the interval is so long (> 31 days; generated: 100 years, MaxInt64 ns) that no tick
// can fall into a case. Schedules then use a fixed unit of one second, the tick-only quiesce
// and the retirement of the flusher (it needs more than 10 intervals) are not judged.
func (c c16Case) never() bool { return c.interval() > 31*24*time.Hour }

// canReenter: no Add can reach a threshold, so an Add from inside a callback never has to
// wait for the flusher.
func (c c16Case) canReenter() bool {
	if c.never() || len(c.Re) == 0 {
		return false
	}
	adds := len(c.Re)
	for _, e := range c.Ev {
		if e.K == "add" {
			adds++
		}
	}
	switch c.Kind {
	case "periodical":
		return c.Max == 0
	case "bulk":
		return c.Max > adds
	}
	return false
}

func (c c16Case) size(id int) int {
	if id >= 0 && id < len(c.Ev) {
		return c.Ev[id].S
	}
	return 0
}

// ---- tasks as values of many dynamic types

type c16T struct{ id int }
type c16Str struct{ id int }

func (t c16Str) String() string { return "task-" + strconv.Itoa(t.id) }

func (c c16Case) encode(id int) any {
	if !c.Poly {
		return id
	}
	if id == c.NilAt-1 {
		if c.NilTyped {
			return (*c16T)(nil)
		}
		return nil
	}
	switch id % 7 {
	case 0:
		return id
	case 1:
		return "t" + strconv.Itoa(id)
	case 2:
		return &c16T{id}
	case 3:
		return []int{id} // not comparable
	case 4:
		return map[string]int{"id": id} // not comparable
	case 5:
		return c16Str{id}
	default:
		return func() int { return id } // not comparable
	}
}

func (c c16Case) decode(v any) int {
	switch t := v.(type) {
	case nil:
		return c.NilAt - 1
	case int:
		return t
	case string:
		n, _ := strconv.Atoi(t[1:])
		return n
	case *c16T:
		if t == nil {
			return c.NilAt - 1
		}
		return t.id
	case []int:
		return t[0]
	case map[string]int:
		return t["id"]
	case c16Str:
		return t.id
	case func() int:
		return t()
	}
	return -1000
}

// c16IDs prints long batches abbreviated.
type c16IDs []int

func (ids c16IDs) String() string {
	if len(ids) <= 16 {
		return fmt.Sprint([]int(ids))
	}
	return fmt.Sprintf("%v...(%d tasks)...%v", []int(ids[:6]), len(ids), []int(ids[len(ids)-3:]))
}

func (c c16Case) interval() time.Duration {
	if c.IvNs > 0 {
		return time.Duration(c.IvNs)
	}
	if c.IvUs > 0 {
		return time.Duration(c.IvUs) * time.Microsecond
	}
	return time.Duration(c.IvMs) * time.Millisecond
}

// c16Intervals: the interval domain in microseconds.
var c16Intervals = []int{1, 7, 250, 999, 1000, 1500, 10_000, 33_300, 50_000, 250_000, 1_000_000, 10_000_000}

func (c c16Case) unit() time.Duration {
	switch i := c.interval(); {
	case c.never():
		return time.Second
	case i < 2:
		return i
	default:
		return i / 2
	}
}

// idle: the idle period after which the flusher must have retired.
func (c c16Case) idle() time.Duration {
	if c.never() {
		return 12*time.Second + time.Second/2
	}
	return c16IdleRounds*c.interval() + c.unit()
}
func (c c16Case) maxLat() int {
	m := 0
	for _, l := range c.Lat {
		if l > m {
			m = l
		}
	}
	return m
}

// ---------------------------------------------------------------- history

type c16Op struct {
	ev        int // index into case.Ev (-1: final Wait of the root)
	kind      string
	g         int
	call, ret int64 // logical clock; 0: not called / never returned
	tcall     time.Duration
	tret      time.Duration
	panicked  bool // the call ended with a panic of the user's callback
}

type c16Batch struct {
	ids        c16IDs
	start, end int64 // logical clock, end == 0: callback not finished
	tstart     time.Duration
	tend       time.Duration
	harness    bool // executed by a harness goroutine (inside its Flush/Wait)
}

type c16State struct {
	mu       sync.Mutex
	clock    int64
	ops      []c16Op
	batches  []*c16Batch
	ncb      int
	t0       time.Time
	harness  map[uint64]bool // goroutine ids of harness goroutines
	dead     bool            // case over: later callbacks are only counted
	late     int
	liveFail string
	kept     []c16Kept
	reops    []*c16Op // adds made from inside callbacks
	shared   *c16SharedOpts
}

// c16Kept: a batch slice a callback kept; it must still hold the batch at the end of the case
type c16Kept struct {
	b   *c16Batch
	raw []any
}

func (s *c16State) tick() int64 { s.clock++; return s.clock }

func c16Goid() uint64 {
	var buf [64]byte
	b := buf[:runtime.Stack(buf[:], false)]
	b = bytes.TrimPrefix(b, []byte("goroutine "))
	if i := bytes.IndexByte(b, ' '); i > 0 {
		b = b[:i]
	}
	n, _ := strconv.ParseUint(string(b), 10, 64)
	return n
}

// custom container for NewPeriodicalExecutor: tasks are ints, RemoveAll returns []int.
type c16Container struct {
	tasks []int
	max   int
	nilRm bool
	exec  func(ids []int, raw []any)
	dec   func(any) int
}

func (c *c16Container) AddTask(task any) bool {
	c.tasks = append(c.tasks, c.dec(task))
	return c.max > 0 && len(c.tasks) >= c.max
}
func (c *c16Container) Execute(tasks any) { c.exec(tasks.([]int), nil) }
func (c *c16Container) RemoveAll() any {
	t := c.tasks
	c.tasks = nil
	if c.nilRm && len(t) == 0 {
		return nil
	}
	return t
}

// c16Gate: harness-side reader/writer gate (durably blocking, sync.Cond), used
// in bubbles only. Flush operations are readers, Wait operations writers.
// Reason: Wait holds a sync.Mutex (syncx.Barrier) while it blocks on the
// WaitGroup, and every Flush/Wait first locks that mutex. Blocking on a mutex
// is not a durable block for synctest, so a Flush issued by the harness while a
// Wait is blocked across virtual time would freeze the bubble's clock (an
// artifact of virtual time, not a defect). The gate never delays Add and the
// oracle uses the instants at which the calls were really made. Concurrent
// Flush/Wait/Wait calls are exercised by exec-parallel on the real clock.
type c16Gate struct {
	mu sync.Mutex
	c  *sync.Cond
	r  int
	w  bool
	on bool
}

func newC16Gate(on bool) *c16Gate { g := &c16Gate{on: on}; g.c = sync.NewCond(&g.mu); return g }
func (g *c16Gate) rlock() {
	if !g.on {
		return
	}
	g.mu.Lock()
	for g.w {
		g.c.Wait()
	}
	g.r++
	g.mu.Unlock()
}
func (g *c16Gate) runlock() {
	if !g.on {
		return
	}
	g.mu.Lock()
	g.r--
	g.c.Broadcast()
	g.mu.Unlock()
}
func (g *c16Gate) lock() {
	if !g.on {
		return
	}
	g.mu.Lock()
	for g.w || g.r > 0 {
		g.c.Wait()
	}
	g.w = true
	g.mu.Unlock()
}
func (g *c16Gate) unlock() {
	if !g.on {
		return
	}
	g.mu.Lock()
	g.w = false
	g.c.Broadcast()
	g.mu.Unlock()
}

type c16Subject struct {
	add   func(id, size int)
	flush func()
	wait  func()
}

func c16New(c c16Case, exec func(ids []int, raw []any), shared *c16SharedOpts) c16Subject {
	anyExec := func(tasks []any) {
		ids := make([]int, len(tasks))
		for i, t := range tasks {
			ids[i] = c.decode(t)
		}
		exec(ids, tasks)
	}
	switch c.Kind {
	case "bulk":
		var opts []executors.BulkOption
		if !c.NoMax {
			if c.DupOpt {
				opts = append(opts, executors.WithBulkTasks(c.Max+7))
			}
			opts = append(opts, executors.WithBulkTasks(c.Max))
		}
		if !c.NoIv {
			if c.DupOpt {
				opts = append(opts, executors.WithBulkInterval(3*c.unit()))
			}
			opts = append(opts, executors.WithBulkInterval(c.interval()))
		}
		if shared != nil {
			shared.mu.Lock()
			if shared.bulk == nil {
				shared.bulk = opts
			}
			opts = shared.bulk
			shared.mu.Unlock()
		}
		be := executors.NewBulkExecutor(anyExec, opts...)
		return c16Subject{add: func(id, _ int) { _ = be.Add(c.encode(id)) }, flush: be.Flush, wait: be.Wait}
	case "chunk":
		var opts []executors.ChunkOption
		if !c.NoMax {
			if c.DupOpt {
				opts = append(opts, executors.WithChunkBytes(c.Max+7))
			}
			opts = append(opts, executors.WithChunkBytes(c.Max))
		}
		if !c.NoIv {
			if c.DupOpt {
				opts = append(opts, executors.WithFlushInterval(3*c.unit()))
			}
			opts = append(opts, executors.WithFlushInterval(c.interval()))
		}
		if shared != nil {
			shared.mu.Lock()
			if shared.chunk == nil {
				shared.chunk = opts
			}
			opts = shared.chunk
			shared.mu.Unlock()
		}
		ce := executors.NewChunkExecutor(anyExec, opts...)
		return c16Subject{add: func(id, size int) { _ = ce.Add(c.encode(id), size) }, flush: ce.Flush, wait: ce.Wait}
	default:
		pe := executors.NewPeriodicalExecutor(c.interval(), &c16Container{max: c.Max, exec: exec, dec: c.decode, nilRm: c.NilRm})
		return c16Subject{add: func(id, _ int) { pe.Add(c.encode(id)) }, flush: func() { pe.Flush() }, wait: pe.Wait}
	}
}

const (
	c16IdleRounds = 12 // idle period after the final Wait, in intervals (the flusher retires after more than 10 idle rounds)
	c16IdleGap    = 20 // exec-parallel: a gap of this many half intervals or more is an idle phase of the whole case
)

// c16Run executes the case (inside the current bubble when par is false, on
// the real clock with real parallelism when par is true) and records the
// history. fail is set for failures detected while running.
func c16Run(c c16Case, s *c16State, par bool) (fail string) {
	U, I := c.unit(), c.interval()
	s.t0 = time.Now()
	s.harness = map[uint64]bool{c16Goid(): true}
	now := func() time.Duration { return time.Since(s.t0) }
	var sub c16Subject
	reenter := c.canReenter()
	reNext := len(c.Ev) // ids of tasks added from inside callbacks
	exec := func(ids []int, raw []any) {
		h := c16Goid()
		s.mu.Lock()
		if s.dead {
			s.late++
			s.mu.Unlock()
			return
		}
		b := &c16Batch{ids: append(c16IDs(nil), ids...), start: s.tick(), tstart: now(), harness: s.harness[h]}
		k := s.ncb
		s.ncb++
		s.batches = append(s.batches, b)
		s.mu.Unlock()
		if len(c.Lat) > 0 {
			if l := c.Lat[k%len(c.Lat)]; l > 0 {
				if par {
					for i := 0; i < l*4; i++ {
						runtime.Gosched()
					}
				} else {
					time.Sleep(time.Duration(l) * U)
				}
			}
		}
		if raw != nil && len(c.Cb) > 0 { // what the callback does with its own argument
			switch c.Cb[k%len(c.Cb)] {
			case 1:
				s.mu.Lock()
				s.kept = append(s.kept, c16Kept{b, raw})
				s.mu.Unlock()
			case 2:
				n := c.CbN
				if n < 1 {
					n = 1
				}
				for j := 0; j < n; j++ {
					raw = append(raw, c16Marker-j)
				}
				s.mu.Lock()
				s.kept = append(s.kept, c16Kept{b, raw[:len(b.ids)]})
				s.mu.Unlock()
			case 3:
				for i := range raw {
					raw[i] = c16Marker - 100
				}
			case 4:
				sum := 0
				for _, t := range raw[:cap(raw)] {
					sum += c.decode(t)
				}
				_ = sum
			case 5:
				for i, j := 0, len(raw)-1; i < j; i, j = i+1, j-1 {
					raw[i], raw[j] = raw[j], raw[i]
				}
			}
		}
		if reenter {
			for _, r := range c.Re {
				if r == k {
					s.mu.Lock()
					op := &c16Op{ev: reNext, kind: "add", g: -3}
					reNext++
					s.reops = append(s.reops, op)
					op.call, op.tcall = s.tick(), now()
					s.mu.Unlock()
					sub.add(op.ev, 0)
					s.mu.Lock()
					op.ret, op.tret = s.tick(), now()
					s.mu.Unlock()
				}
			}
		}
		s.mu.Lock()
		b.end, b.tend = s.tick(), now()
		s.mu.Unlock()
		if c.PanicAt-1 == k && b.harness {
			switch c.PanicKind {
			case 0:
				panic(fmt.Errorf("c16 callback panic (error) in batch %v", b.ids))
			case 1:
				panic("c16 callback panic (string)")
			default:
				panic(16)
			}
		}
	}
	sub = c16New(c, exec, s.shared)
	gate := newC16Gate(!par)

	s.ops = make([]c16Op, len(c.Ev), len(c.Ev)+1)
	for i, e := range c.Ev {
		s.ops[i] = c16Op{ev: i, kind: e.K, g: e.G}
	}
	do := func(op *c16Op, size int) {
		switch op.kind {
		case "flush":
			gate.rlock()
			defer gate.runlock()
		case "wait":
			gate.lock()
			defer gate.unlock()
		}
		s.mu.Lock()
		op.call, op.tcall = s.tick(), now()
		s.mu.Unlock()
		func() {
			if c.PanicAt > 0 {
				defer func() {
					if r := recover(); r != nil {
						op.panicked = true
					}
				}()
			}
			switch op.kind {
			case "add":
				sub.add(op.ev, size)
			case "flush":
				sub.flush()
			case "wait":
				sub.wait()
			}
		}()
		s.mu.Lock()
		op.ret, op.tret = s.tick(), now()
		s.mu.Unlock()
	}
	stuck := func() string {
		s.mu.Lock()
		defer s.mu.Unlock()
		var st []string
		for _, o := range s.ops {
			if o.call != 0 && o.ret == 0 {
				st = append(st, fmt.Sprintf("%s(ev %d) by g%d called at %v", o.kind, o.ev, o.g, o.tcall))
			}
		}
		return fmt.Sprint(st) + c16History(s)
	}
	maxLat := c.maxLat()
	var horizon time.Duration

	if !par {
		ng := 0
		at := make([]time.Duration, len(c.Ev))
		var acc time.Duration
		for i, e := range c.Ev {
			acc += time.Duration(e.Gap) * U
			at[i] = acc
			if e.G+1 > ng {
				ng = e.G + 1
			}
		}
		done := make(chan struct{})
		var wg sync.WaitGroup
		for g := 0; g < ng; g++ {
			wg.Add(1)
			g := g
			go func() {
				defer wg.Done()
				s.mu.Lock()
				s.harness[c16Goid()] = true
				s.mu.Unlock()
				for i, e := range c.Ev {
					if e.G != g {
						continue
					}
					if d := at[i] - now(); d > 0 {
						time.Sleep(d)
					}
					for y := 0; y < e.Y; y++ {
						runtime.Gosched()
					}
					do(&s.ops[i], e.S)
				}
			}()
		}
		go func() { wg.Wait(); close(done) }()
		// every operation returns within a bounded virtual time: the schedule, plus the
		// largest latency for every callback that can delay every operation, plus slack.
		// (every delay is a callback running, and each callback sleeps at most maxLat once)
		slack := 100 * I
		if c.never() {
			slack = 100 * time.Second
		}
		horizon = acc + time.Duration((len(c.Ev)+len(c.Re)+2)*maxLat)*U + slack
		select {
		case <-done:
		case <-time.After(horizon):
			return fmt.Sprintf("operations did not return within the virtual horizon %v: %s", horizon, stuck())
		}
		if c.Q && !c.never() && !reenter {
			// tick trigger: all operations have returned, so nothing is being handed over; the
			// flusher finishes its current callback, skips at most one tick (after a commanded
			// batch) and flushes the container at the next one.
			time.Sleep(6*I + time.Duration(3*maxLat)*U)
			s.mu.Lock()
			fin := map[int]bool{}
			for _, b := range s.batches {
				if b.end != 0 {
					for _, id := range b.ids {
						fin[id] = true
					}
				}
			}
			for _, o := range s.ops {
				if o.kind == "add" && !fin[o.ev] && s.liveFail == "" {
					s.liveFail = fmt.Sprintf("tick trigger: task %d (Add returned at %v) is not executed at %v, 6 intervals + 3 callback latencies after the last operation returned and without any Flush/Wait pending%s",
						o.ev, o.tret, now(), c16History(s))
				}
			}
			s.mu.Unlock()
		}
	} else {
		// segments separated by idle phases; inside a segment no delays at all
		horizon = c16ParLimit // real time
		seg := [][]int{nil}
		for i, e := range c.Ev {
			if e.Gap >= c16IdleGap && i > 0 {
				seg = append(seg, nil)
			}
			seg[len(seg)-1] = append(seg[len(seg)-1], i)
		}
		for si, evs := range seg {
			if si > 0 {
				time.Sleep(c16IdleRounds*I + U)
			}
			byG := map[int][]int{}
			for _, i := range evs {
				byG[c.Ev[i].G] = append(byG[c.Ev[i].G], i)
			}
			start := make(chan struct{})
			done := make(chan struct{})
			var wg sync.WaitGroup
			for _, mine := range byG {
				wg.Add(1)
				mine := mine
				go func() {
					defer wg.Done()
					s.mu.Lock()
					s.harness[c16Goid()] = true
					s.mu.Unlock()
					<-start
					for _, i := range mine {
						e := c.Ev[i]
						if e.Gap < c16IdleGap {
							for y := 0; y < e.Y+e.Gap; y++ {
								runtime.Gosched()
							}
						}
						do(&s.ops[i], e.S)
					}
				}()
			}
			close(start)
			go func() { wg.Wait(); close(done) }()
			select {
			case <-done:
			case <-time.After(horizon):
				return fmt.Sprintf("operations did not return within %v of real time (deadlock): %s", horizon, stuck())
			}
		}
	}
	// final Wait by the root
	s.mu.Lock()
	s.ops = append(s.ops, c16Op{ev: -1, kind: "wait", g: -1})
	fin := &s.ops[len(s.ops)-1]
	s.mu.Unlock()
	finDone := make(chan struct{})
	go func() {
		s.mu.Lock()
		s.harness[c16Goid()] = true
		s.mu.Unlock()
		do(fin, 0)
		close(finDone)
	}()
	select {
	case <-finDone:
	case <-time.After(horizon):
		return fmt.Sprintf("final Wait did not return within %v: %s", horizon, stuck())
	}
	return ""
}

// c16Settle: idle period after the final Wait. Restarted when a callback ran
// or ended meanwhile (only possible after a Wait violation), so that the leak
// verdict at bubble exit always follows c16IdleRounds really idle intervals.
func c16Settle(c c16Case, s *c16State) {
	snap := func() (n int, running bool) {
		s.mu.Lock()
		defer s.mu.Unlock()
		for _, b := range s.batches {
			n++
			if b.end != 0 {
				n++
			} else {
				running = true
			}
		}
		return
	}
	n, _ := snap()
	for i := 0; i < len(c.Ev)+len(c.Re)+4; i++ {
		time.Sleep(c.idle())
		m, running := snap()
		if m == n && !running {
			return
		}
		n = m
	}
}

// ---------------------------------------------------------------- oracle

type c16Result struct {
	fail, known string
	classes     map[string]bool
	nontrivial  bool
}

func (c c16Case) atThreshold(ids []int) bool {
	switch c.Kind {
	case "bulk":
		return len(ids) >= c.Max
	case "chunk":
		sum := 0
		for _, id := range ids {
			sum += c.size(id)
		}
		return sum >= c.Max
	default:
		return c.Max > 0 && len(ids) >= c.Max
	}
}

// c16Check judges the complete history (called after the idle period).
func c16Check(c c16Case, s *c16State, res *c16Result, par bool) {
	I := c.interval()
	cl := res.classes
	failf := func(format string, a ...any) {
		if res.fail == "" || res.known != "" {
			res.fail, res.known = fmt.Sprintf(format, a...), ""
		}
	}
	if len(s.reops) > 0 { // adds made from inside callbacks join the history
		ops := append([]c16Op(nil), s.ops...)
		for _, o := range s.reops {
			ops = append(ops, *o)
		}
		s.ops, s.reops = ops, nil
		cl["reentrant-add"] = true
	}
	added := map[int]*c16Op{}
	var byCall []*c16Op // adds ordered by the logical instant of their call
	for i := range s.ops {
		o := &s.ops[i]
		if o.kind == "add" && o.call != 0 {
			added[o.ev] = o
			byCall = append(byCall, o)
		}
		if o.panicked {
			cl["callback-panic"] = true
		}
	}
	sort.Slice(byCall, func(i, j int) bool { return byCall[i].call < byCall[j].call })
	// 1. exactly once
	where := map[int]*c16Batch{}
	for bi, b := range s.batches {
		if b.end == 0 {
			failf("callback %d %v never returned%s", bi, b.ids, c16History(s))
		}
		for _, id := range b.ids {
			if _, ok := added[id]; !ok {
				failf("task %d executed (batch %d %v) but never added", id, bi, b.ids)
				continue
			}
			if prev, dup := where[id]; dup {
				failf("task %d executed twice: batches %v and %v%s", id, prev.ids, b.ids, c16History(s))
			}
			where[id] = b
		}
	}
	for id, o := range added {
		if _, ok := where[id]; !ok && o.ret != 0 {
			grace := fmt.Sprintf("%d idle intervals", c16IdleRounds)
			if par {
				grace = c16ParLimit.String() + " of real time"
			}
			failf("task %d (ev %d, Add returned at %v) was never executed, not even %s after the final Wait%s", id, o.ev, o.tret, grace, c16History(s))
		}
	}
	if res.fail != "" {
		return
	}
	// 2. order inside a batch, 3. batches are runs of the addition order, 4. bounds
	for bi, b := range s.batches {
		// order: no task may stand behind a task whose Add was called after its own Add had returned
		// (scan from the right keeping the earliest Add-return seen so far)
		minRet, minRetID := int64(0), -1
		for p := len(b.ids) - 1; p >= 0; p-- {
			x := b.ids[p]
			if minRetID >= 0 && minRet < added[x].call {
				failf("batch %d %v: task %d precedes task %d, but Add(%d) returned before Add(%d) was called%s", bi, b.ids, x, minRetID, minRetID, x, c16History(s))
			}
			if r := added[x].ret; r != 0 && (minRetID < 0 || r < minRet) {
				minRet, minRetID = r, x
			}
		}
		// contiguity: a task y outside the batch must not have been added strictly between two of
		// its members x, z (Add(x) returned < Add(y) called, Add(y) returned < Add(z) called)
		xr, xid, zc, zid := int64(0), -1, int64(0), -1
		for _, id := range b.ids {
			if r := added[id].ret; r != 0 && (xid < 0 || r < xr) {
				xr, xid = r, id
			}
			if cl := added[id].call; zid < 0 || cl > zc {
				zc, zid = cl, id
			}
		}
		if xid >= 0 && zid >= 0 {
			lo := sort.Search(len(byCall), func(i int) bool { return byCall[i].call > xr })
			for _, oy := range byCall[lo:] {
				if oy.call >= zc {
					break
				}
				y := oy.ev
				if where[y] == b || oy.ret == 0 {
					continue
				}
				if oy.ret < zc {
					failf("batch %d %v holds tasks %d and %d but not task %d, which was added strictly between them (it is in %v)%s", bi, b.ids, xid, zid, y, where[y].ids, c16History(s))
				}
			}
		}
		switch c.Kind {
		case "bulk":
			if c.Max <= 0 {
				cl["size-limit<=0 (bound unspecified)"] = true
			} else if len(b.ids) > c.Max {
				failf("bulk batch %d %v has %d tasks > maxTasks %d", bi, b.ids, len(b.ids), c.Max)
			}
		case "chunk":
			sum, neg := 0, false
			for _, id := range b.ids {
				sum += c.size(id)
				neg = neg || c.size(id) < 0
			}
			if c.Max <= 0 || neg {
				cl["size-limit<=0 or negative size (bound unspecified)"] = true
			} else if n := len(b.ids); n > 0 {
				last := c.size(b.ids[n-1])
				if sum-last >= c.Max {
					failf("chunk batch %d %v has %d bytes, limit %d, last task %d bytes: exceeds the limit by %d >= last task", bi, b.ids, sum, c.Max, last, sum-c.Max)
				}
				if sum > c.Max {
					cl["chunk-over-limit"] = true
				}
			}
		}
		if c.atThreshold(b.ids) {
			cl["batch-at-threshold"] = true
		}
		if len(b.ids) == 0 {
			cl["empty-batch"] = true
		}
		if b.harness {
			cl["exec-by-flush-or-wait"] = true
		} else if c.atThreshold(b.ids) {
			cl["exec-by-flusher-threshold"] = true
		} else {
			cl["exec-by-flusher-tick"] = true
		}
		if b.tend > b.tstart {
			cl["latency"] = true
		}
	}
	// 4b. a batch slice that a callback kept (and possibly appended to) still holds its batch
	for _, kp := range s.kept {
		for i, id := range kp.b.ids {
			if i >= len(kp.raw) || c.decode(kp.raw[i]) != id {
				got := -1
				if i < len(kp.raw) {
					got = c.decode(kp.raw[i])
				}
				failf("the slice handed to execute for batch %v was changed afterwards by the executor: element %d is now task %d%s", kp.b.ids, i, got, c16History(s))
				break
			}
		}
	}
	if len(c.Cb) > 0 && c.Kind != "periodical" {
		for _, k := range c.Cb {
			cl["callback-"+[]string{"reads", "keeps-slice", "appends-trailer", "overwrites", "reslices-to-cap", "sorts"}[k%6]] = true
		}
	}
	// 5. Wait returns only after every task added before it has finished executing
	for i := range s.ops {
		w := &s.ops[i]
		if w.kind != "wait" || w.call == 0 || w.ret == 0 || w.panicked {
			continue
		}
		if w.tret > w.tcall {
			cl["wait-blocked"] = true
		}
		for id, o := range added {
			if o.ret == 0 || o.ret > w.call {
				continue
			}
			b := where[id]
			if b.end < w.ret {
				continue
			}
			state := "finished executing only at"
			if b.start > w.ret {
				state = "started executing only at " + b.tstart.String() + " and finished at"
			}
			msg := fmt.Sprintf("Wait (ev %d, g%d) called at %v returned at %v, but task %d (its Add had returned at %v) %s %v in batch %v%s",
				w.ev, w.g, w.tcall, w.tret, id, o.tret, state, b.tend, b.ids, c16History(s))
			if k := c16KnownHandover(c, par, w, b, added); k != "" {
				cl["known-handover"] = true
				if res.fail == "" {
					res.fail, res.known = msg, k
				}
				continue
			}
			failf("%s", msg)
		}
	}
	// 5b. an explicit Flush IS a trigger ("whichever trigger flushes it: ... an explicit Flush/Wait"): a task
	// that sat in the container during a whole Flush call must have been taken by it. Judged only where the
	// history PROVES that the task was still in the container when the Flush returned: its Add had returned
	// before the Flush was called and its batch was taken strictly after the Flush had returned, i.e.
	// (a) the batch was executed by a harness goroutine, and every harness Flush/Wait in progress at the
	// start of that callback had been called after the Flush returned, or (b) bubbles only: it is a tick
	// flush of the background flusher (below the threshold) that started at a LATER virtual instant (between
	// RemoveAll and the callback's start there is no durable block, so no virtual time passes).
	// A batch that started before the Flush returned, threshold batches in hand-over and batches taken by
	// overlapping calls are not judged.
	var flushes []*c16Op // returned explicit Flush calls, ordered by the logical instant of their call
	for i := range s.ops {
		if f := &s.ops[i]; f.kind == "flush" && f.call != 0 && f.ret != 0 && !f.panicked {
			flushes = append(flushes, f)
		}
	}
	sort.Slice(flushes, func(i, j int) bool { return flushes[i].call < flushes[j].call })
	for id, o := range added {
		if o.ret == 0 || len(flushes) == 0 {
			continue
		}
		b := where[id]
		// the Flush calls that lie entirely between Add's return and the start of the task's batch
		for _, f := range flushes[sort.Search(len(flushes), func(i int) bool { return flushes[i].call > o.ret }):] {
			if f.call > b.start {
				break
			}
			cl["flush-trigger: task pending at an explicit Flush"] = true
			if b.start < f.ret {
				continue
			}
			late, how := false, ""
			if b.harness {
				cand, allLate := 0, true
				for j := range s.ops {
					h := &s.ops[j]
					if (h.kind == "flush" || h.kind == "wait") && h.call != 0 && h.call < b.start && (h.ret == 0 || h.ret > b.start) {
						cand++
						if h.call < f.ret {
							allLate = false
						}
					}
				}
				late, how = cand > 0 && allLate, "by a Flush/Wait that was called after this Flush had returned"
			} else if !par && !c.atThreshold(b.ids) && b.tstart > f.tret {
				late, how = true, "by a later tick of the background flusher"
			}
			if late && res.fail == "" {
				failf("Flush (ev %d, g%d) called at %v returned at %v without flushing task %d (its Add had returned at %v): the task was taken out of the container only later, %s (batch %v started at %v)%s",
					f.ev, f.g, f.tcall, f.tret, id, o.tret, how, b.ids, b.tstart, c16History(s))
			}
		}
	}
	if s.liveFail != "" {
		failf("%s", s.liveFail)
	}
	// classes + non-trivial rule
	var firstAdd time.Duration = -1
	type act struct {
		t   time.Duration
		add bool
		g   int
	}
	var acts []act
	for _, o := range s.ops {
		if o.call == 0 {
			continue
		}
		acts = append(acts, act{o.tcall, o.kind == "add", o.g})
		if o.ret != 0 {
			acts = append(acts, act{o.tret, false, o.g})
		}
		if o.kind == "add" && (firstAdd < 0 || o.tcall < firstAdd) {
			firstAdd = o.tcall
		}
	}
	for bi, b := range s.batches {
		acts = append(acts, act{b.tstart, false, -2}, act{b.tend, false, -2})
		// 6. triggers: a batch below the threshold that the background flusher executes can only be
		// a tick flush, and the first tick of a flusher comes one interval after the Add that started it
		if !b.harness && len(b.ids) > 0 && !c.atThreshold(b.ids) && firstAdd >= 0 && b.tstart-firstAdd < I {
			failf("batch %d %v (below the threshold %d) was executed by the background flusher at %v, less than one interval (%v) after the first Add (%v): neither the threshold nor a tick nor Flush/Wait triggered it%s",
				bi, b.ids, c.Max, b.tstart, I, firstAdd, c16History(s))
		}
	}
	sort.SliceStable(acts, func(i, j int) bool { return acts[i].t < acts[j].t })
	tickBase := firstAdd // instant at which the current flusher (and its ticker) started
	restart := false
	restarts := 0
	sameTick := map[time.Duration]map[int]bool{}
	seenAdd := false
	for i, a := range acts {
		if a.add {
			if seenAdd && i > 0 && !c.never() && a.t-acts[i-1].t > 11*I {
				restart = true
				restarts++
				tickBase = a.t
			}
			seenAdd = true
			if d := a.t - tickBase; d > 0 && !c.never() && d%I == 0 {
				if sameTick[a.t] == nil {
					sameTick[a.t] = map[int]bool{}
				}
				sameTick[a.t][a.g] = true
				cl["add-at-tick-instant"] = true
			}
		}
	}
	if restart {
		cl["idle-quit-then-add"] = true
		res.nontrivial = true
	}
	for _, gs := range sameTick {
		if len(gs) >= 2 {
			cl["2-adders-at-tick-instant"] = true
			res.nontrivial = true
		}
	}
	if c.Q {
		cl["tick-only-quiesce"] = true
	}
	// magnitude / scale classes (sweep): what the generator really produced
	switch {
	case restarts >= 256:
		cl["256+flusher-restarts-on-one-instance"] = true
	case restarts >= 16:
		cl["16+flusher-restarts-on-one-instance"] = true
	}
	switch n := len(added); {
	case n >= 10000:
		cl["10000+tasks-on-one-instance"] = true
	case n >= 1000:
		cl["1000+tasks-on-one-instance"] = true
	}
	switch {
	case c.never():
		cl["interval:never-ticks(100y|MaxInt64)"] = true
	case I >= time.Hour:
		cl["interval:1h..30d"] = true
	case I < time.Microsecond:
		cl["interval:1ns"] = true
	case I < time.Millisecond:
		cl["interval:<1ms"] = true
	}
	if c.Kind != "periodical" {
		switch m := c.Max; {
		case m <= 0:
		case m >= 1<<31:
			cl["size-limit:>=2^31"] = true
		case m >= 65535:
			cl["size-limit:64Ki..1Mi"] = true
		case m >= 127:
			cl["size-limit:127..4097"] = true
		}
	}
	if c.NilRm && c.Kind == "periodical" {
		cl["container-RemoveAll-returns-nil-when-empty"] = true
	}
	if c.Poly {
		cl["poly-task-values"] = true
		if c.NilAt > 0 && added[c.NilAt-1] != nil {
			cl["nil-task"] = true
		}
	}
}

// c16KnownHandover characterises the open finding "handover" (FINDINGS.md): the
// unfinished task sits in a batch that a threshold-reaching Add took out of the
// container (batch exactly at the threshold, executed by the background flusher,
// closing Add called before Wait returned, i.e. before or while Wait ran) and
// that the flusher had not yet received when Wait returned (its execution
// starts after Wait's return; exec-parallel: after Wait's call, see below): the
// batch was in the hand-over (commander channel / blocked adder) when Wait
// looked at the container and at the WaitGroup, and it is counted in neither.
// A batch that was already being executed when Wait was called (bubbles: when
// Wait returned), a batch below the threshold and a batch executed by a
// Flush/Wait caller are NOT matched.
func c16KnownHandover(c c16Case, par bool, w *c16Op, b *c16Batch, added map[int]*c16Op) string {
	if b.harness || len(b.ids) == 0 || !c.atThreshold(b.ids) {
		return ""
	}
	last := added[b.ids[len(b.ids)-1]]
	if last.call >= w.ret {
		return ""
	}
	// exec-parallel: the flusher's enterExecution waits on the wgBarrier mutex until Wait's
	// waitGroup.Wait() is over and then starts the callback at once, possibly before the
	// goroutine that called Wait has been scheduled again and has stamped the return: the
	// real-clock rule can only require that the callback started after Wait was CALLED.
	if b.start > w.ret || (par && b.start > w.call) {
		return "handover"
	}
	return ""
}

// c16History renders the recorded history ordered by the logical clock.
func c16History(s *c16State) string {
	type line struct {
		c int64
		s string
	}
	var ls []line
	for _, o := range s.ops {
		if o.call != 0 {
			ls = append(ls, line{o.call, fmt.Sprintf("%v g%d %s(ev %d) called", o.tcall, o.g, o.kind, o.ev)})
		}
		if o.ret != 0 {
			ls = append(ls, line{o.ret, fmt.Sprintf("%v g%d %s(ev %d) returned", o.tret, o.g, o.kind, o.ev)})
		}
	}
	for _, b := range s.batches {
		who := "flusher"
		if b.harness {
			who = "caller"
		}
		ls = append(ls, line{b.start, fmt.Sprintf("%v execute%v starts in %s", b.tstart, b.ids, who)})
		if b.end != 0 {
			ls = append(ls, line{b.end, fmt.Sprintf("%v execute%v ends", b.tend, b.ids)})
		}
	}
	sort.Slice(ls, func(i, j int) bool { return ls[i].c < ls[j].c })
	var sb bytes.Buffer
	sb.WriteString("\n   history:")
	for i, l := range ls {
		if i == 120 {
			sb.WriteString("\n    ...")
			break
		}
		sb.WriteString("\n    " + l.s)
	}
	return sb.String()
}

// ---------------------------------------------------------------- interpreters

var c16Watchdog = 10 * time.Second // real time; a case needs about a millisecond

func c16Verdict(c c16Case, s *c16State, res *c16Result) (v kit.Verdict) {
	for k := range res.classes {
		v.Classes = append(v.Classes, k)
	}
	sort.Strings(v.Classes)
	v.NonTrivial = res.nontrivial
	v.Fail, v.Known = res.fail, res.known
	return v
}

// c16Interp: one fresh bubble per case.
func c16Interp(t *testing.T, c c16Case) (v kit.Verdict) {
	c = c.effective()
	res := &c16Result{classes: map[string]bool{c.Kind: true}}
	s := &c16State{}
	bubbleDone := make(chan kit.BubbleResult, 1)
	go func() {
		returned := false
		defer func() {
			if !returned { // runtime.Goexit: the synctest sub-test failed (race report, FailNow)
				bubbleDone <- kit.BubbleResult{Panic: "the synctest sub-test was aborted (data race reported by the race detector, see the log)"}
			}
		}()
		r := kit.Bubble(t, func() {
			defer func() {
				s.mu.Lock()
				s.dead = true
				s.mu.Unlock()
			}()
			if f := c16Run(c, s, false); f != "" {
				res.fail = f
				return
			}
			c16Settle(c, s)
			s.mu.Lock()
			c16Check(c, s, res, false)
			if os.Getenv("VERIF_C16_TRACE") != "" {
				fmt.Fprintf(os.Stderr, "C16 trace %+v%s\n", c, c16History(s))
			}
			s.mu.Unlock()
		})
		returned = true
		bubbleDone <- r
	}()
	var br kit.BubbleResult
	select {
	case br = <-bubbleDone:
	case <-time.After(c16Watchdog + time.Duration(len(c.Ev))*2*time.Millisecond): // big cases: 2 ms of real time per event on top
		// a goroutine is blocked on a mutex for ever (not a durable block, so synctest
		// cannot report it) or the bubble spins through virtual time
		c16Watchdog = 2 * time.Second // shrinking: do not wait as long again
		return kit.Verdict{Classes: []string{"watchdog"},
			Fail: "case did not finish within 10 s of real time: a goroutine stays blocked on a sync.Mutex for ever (synctest cannot see that) or virtual time runs away"}
	}
	v = c16Verdict(c, s, res)
	if v.Fail == "" || v.Known != "" {
		switch {
		case br.Hang:
			v.Fail, v.Known = "hang: every goroutine of the bubble is blocked for ever: "+br.Raw, ""
		case br.Leak && c.never():
			// expected residue: the flusher needs more than 10 intervals of 100 years to retire
		case br.Leak:
			v.Fail, v.Known = fmt.Sprintf("leak: %d idle intervals after the final Wait a goroutine (the background flusher) is still alive at bubble exit", c16IdleRounds), ""
		case br.Panic != "":
			v.Fail, v.Known = "panic: "+br.Panic, ""
		}
	}
	return v
}

var (
	c16BaseGoroutines int
	// c16ParDirty: an earlier exec-parallel case failed and may have left goroutines behind
	// (shrinking goes on in the same process): no goroutine counting, short real-time limits.
	c16ParDirty bool
	c16ParLimit = 20 * time.Second
)

// c16InterpPar: real clock, real parallelism, no bubble.
func c16InterpPar(t *testing.T, c c16Case) (v kit.Verdict) {
	c = c.effective()
	res := &c16Result{classes: map[string]bool{c.Kind: true}}
	s := &c16State{}
	settle := func() bool { // wait until only the test's own goroutines are left
		for i := 0; i < 5000 && !c16ParDirty; i++ {
			if runtime.NumGoroutine() <= c16BaseGoroutines {
				return true
			}
			time.Sleep(2 * time.Millisecond)
		}
		return false
	}
	if !c16ParDirty && (c.Q || runtime.NumGoroutine() > c16BaseGoroutines+400) && !settle() {
		// a flusher lives for 11..12 intervals (<= 24 ms) after its last activity and a case takes
		// well under a millisecond, so some dozens of retiring flushers are normal, hundreds that
		// do not go away within 10 s are not
		c16ParDirty = true
		return kit.Verdict{Classes: []string{"leak-of-earlier-cases"},
			Fail: fmt.Sprintf("leak: %d goroutines (background flushers) of EARLIER exec-parallel cases are still alive after 10 s of real time (%d before the rule started); the case in this replay file is not the culprit, any case leaks",
				runtime.NumGoroutine(), c16BaseGoroutines)}
	}
	strong := c.Q && !c16ParDirty
	if f := c16Run(c, s, true); f != "" {
		c16ParDirty, c16ParLimit = true, 2*time.Second
		return kit.Verdict{Fail: f, Classes: []string{"stuck"}}
	}
	if strong {
		res.classes["flusher-exit-checked"] = true
		if !settle() {
			buf := make([]byte, 1<<16)
			buf = buf[:runtime.Stack(buf, true)]
			c16ParDirty = true
			res.fail = fmt.Sprintf("leak: 10 s (real time, interval %v) after the final Wait %d goroutines are alive, %d before the case:\n%s",
				c.interval(), runtime.NumGoroutine(), c16BaseGoroutines, buf)
		}
	}
	// the history must be complete before it is judged: a batch that was still in the
	// hand-over when the final Wait returned (open finding) is executed a little later
	for deadline := time.Now().Add(c16ParLimit); res.fail == "" && time.Now().Before(deadline); time.Sleep(200 * time.Microsecond) {
		s.mu.Lock()
		fin := map[int]bool{}
		for _, b := range s.batches {
			if b.end != 0 {
				for _, id := range b.ids {
					fin[id] = true
				}
			}
		}
		missing := false
		for _, o := range s.ops {
			if o.kind == "add" && o.ret != 0 && !fin[o.ev] {
				missing = true
			}
		}
		s.mu.Unlock()
		if !missing {
			break
		}
	}
	s.mu.Lock()
	s.dead = true
	if res.fail == "" {
		c16Check(c, s, res, true)
	}
	s.mu.Unlock()
	return c16Verdict(c, s, res)
}

// ---------------------------------------------------------------- generators

func c16GenKind(rt *rapid.T, c *c16Case) {
	c.Kind = rapid.SampledFrom([]string{"bulk", "bulk", "chunk", "chunk", "periodical"}).Draw(rt, "kind")
	switch c.Kind {
	case "bulk":
		c.Max = rapid.IntRange(1, 5).Draw(rt, "max")
	case "chunk":
		c.Max = rapid.IntRange(1, 40).Draw(rt, "limit")
	default:
		c.Max = rapid.IntRange(0, 4).Draw(rt, "max")
		c.NilRm = rapid.Bool().Draw(rt, "nilrm")
	}
}

// interval magnitudes beyond c16Intervals, in ns
var c16IntervalsNs = []int64{1, int64(time.Minute), int64(time.Hour), int64(30 * 24 * time.Hour),
	int64(100 * 365 * 24 * time.Hour), math.MaxInt64}

var (
	c16BulkMags  = []int{0, -1, 127, 128, 255, 256, 257, 1000, 4096, 65536, math.MaxInt32, math.MaxInt64}
	c16ChunkMags = []int{0, -1, 255, 256, 4095, 4096, 4097, 65535, 65536, 65537, 1<<20 - 1, 1 << 20, 1<<20 + 1, 1 << 31, math.MaxInt64}
)

// c16GenSize: a task size relative to the byte limit (no overflow: <= 2^31 per task).
func c16GenSize(rt *rapid.T, limit int) int {
	if limit <= 64 {
		return rapid.IntRange(0, 50).Draw(rt, "size")
	}
	l := limit
	if l > 1<<31 {
		l = 1 << 31
	}
	return rapid.SampledFrom([]int{0, 1, l / 3, l / 2, l - 1, l, l - 1, l / 2, 50}).Draw(rt, "size") +
		rapid.SampledFrom([]int{0, 0, 1}).Draw(rt, "size+")
}

func c16Gen(rt *rapid.T) c16Case {
	c := c16Case{}
	c16GenKind(rt, &c)
	c.IvUs = rapid.SampledFrom(c16Intervals).Draw(rt, "ivus")
	if rapid.IntRange(0, 5).Draw(rt, "ivmag") == 0 {
		c.IvNs = rapid.SampledFrom(c16IntervalsNs).Draw(rt, "ivns")
	}
	long := c.interval() >= time.Hour // keep the virtual time of a case below some decades
	mag := rapid.IntRange(0, 4).Draw(rt, "mag") == 0
	if mag {
		switch c.Kind {
		case "bulk":
			c.Max = rapid.SampledFrom(c16BulkMags).Draw(rt, "maxmag")
		case "chunk":
			c.Max = rapid.SampledFrom(c16ChunkMags).Draw(rt, "limitmag")
		}
	}
	// re-entrant adds need a configuration that cannot reach a threshold
	re := !long && rapid.IntRange(0, 7).Draw(rt, "re") == 0
	if re {
		if rapid.Bool().Draw(rt, "rekind") {
			c.Kind, c.Max = "periodical", 0
		} else {
			c.Kind, c.Max = "bulk", 1000
		}
	}
	ng := rapid.IntRange(1, 4).Draw(rt, "ng")
	n := rapid.IntRange(1, 24).Draw(rt, "nev")
	negSizes := c.Kind == "chunk" && rapid.IntRange(0, 39).Draw(rt, "neg") == 0
	burst := -1
	if c.Kind == "bulk" && !long && !re && c.Max >= 100 && c.Max <= 65536 &&
		(c.Max < 65536 || rapid.IntRange(0, 7).Draw(rt, "hugeburst") == 0) && rapid.IntRange(0, 2).Draw(rt, "burst") > 0 {
		burst = rapid.IntRange(0, n-1).Draw(rt, "burstAt")
	}
	for i := 0; i < n; i++ {
		e := c16Ev{G: rapid.IntRange(0, ng-1).Draw(rt, "g")}
		e.K = rapid.SampledFrom([]string{"add", "add", "add", "add", "add", "add", "flush", "wait"}).Draw(rt, "k")
		// gaps: mostly the same instant or close; sometimes an idle gap around / beyond the idle-quit
		switch rapid.IntRange(0, 11).Draw(rt, "gapclass") {
		case 0, 1, 2, 3, 4:
			e.Gap = 0
		case 5, 6:
			e.Gap = 1
		case 7, 8:
			e.Gap = 2
		case 9:
			e.Gap = rapid.IntRange(3, 19).Draw(rt, "gap")
		case 10:
			e.Gap = rapid.IntRange(20, 24).Draw(rt, "gap") // 10..12 intervals: around the quit decision
		default:
			e.Gap = rapid.IntRange(25, 50).Draw(rt, "gap")
		}
		if i == 0 {
			e.Gap = rapid.IntRange(0, 2).Draw(rt, "gap0")
		}
		if i == burst {
			e.K = "add"
			e.Rep = c.Max + rapid.SampledFrom([]int{-1, 0, 1, 2, c.Max, c.Max + 1}).Draw(rt, "rep")
		}
		if e.K == "add" && c.Kind == "chunk" {
			e.S = c16GenSize(rt, c.Max)
			if negSizes && rapid.IntRange(0, 3).Draw(rt, "negs") == 0 {
				e.S = -rapid.IntRange(1, 50).Draw(rt, "negsize")
			}
		}
		e.Y = rapid.SampledFrom([]int{0, 0, 0, 1, 2, 3}).Draw(rt, "y")
		c.Ev = append(c.Ev, e)
	}
	nl := rapid.IntRange(0, 4).Draw(rt, "nlat")
	for i := 0; i < nl; i++ {
		if long {
			c.Lat = append(c.Lat, rapid.SampledFrom([]int{0, 0, 1, 3}).Draw(rt, "lat"))
		} else {
			c.Lat = append(c.Lat, rapid.SampledFrom([]int{0, 0, 1, 2, 3, 5, 8, 25}).Draw(rt, "lat"))
		}
	}
	c.Q = rapid.IntRange(0, 2).Draw(rt, "q") == 0
	if re {
		nre := rapid.IntRange(1, 4).Draw(rt, "nre")
		for i := 0; i < nre; i++ {
			c.Re = append(c.Re, rapid.IntRange(0, 8).Draw(rt, "reAt"))
		}
	}
	if rapid.IntRange(0, 3).Draw(rt, "poly") == 0 {
		c.Poly = true
		if rapid.Bool().Draw(rt, "nil") {
			// expanded index of a randomly chosen add
			var idx []int
			x := 0
			for _, e := range c.Ev {
				if e.K == "add" {
					idx = append(idx, x)
				}
				if e.K == "add" && e.Rep > 1 {
					x += e.Rep
				} else {
					x++
				}
			}
			if len(idx) > 0 {
				c.NilAt = 1 + rapid.SampledFrom(idx).Draw(rt, "nilAt")
				c.NilTyped = rapid.Bool().Draw(rt, "nilTyped")
			}
		}
	}
	if rapid.IntRange(0, 5).Draw(rt, "panic") == 0 {
		c.PanicAt = rapid.IntRange(1, 6).Draw(rt, "panicAt")
		c.PanicKind = rapid.IntRange(0, 2).Draw(rt, "pkind")
	}
	c16GenCb(rt, &c)
	return c
}

// c16GenCb: what the callbacks do with their argument (half of the cases: read only)
func c16GenCb(rt *rapid.T, c *c16Case) {
	if c.Kind == "periodical" || rapid.Bool().Draw(rt, "cbro") {
		return
	}
	n := rapid.IntRange(1, 3).Draw(rt, "ncb")
	for i := 0; i < n; i++ {
		c.Cb = append(c.Cb, rapid.SampledFrom([]int{0, 1, 2, 2, 2, 3, 4, 5}).Draw(rt, "cb"))
	}
	c.CbN = rapid.IntRange(1, 3).Draw(rt, "cbn")
}

// c16GenLong: one executor living through 10^3..10^5 cheap operations: a short template of
// bursts, flushes, waits and gaps (some of them beyond the idle quit, so the flusher is
// restarted hundreds of times) repeated Loop times.
func c16GenLong(rt *rapid.T) c16Case {
	c := c16Case{}
	c16GenKind(rt, &c)
	if c.Kind != "periodical" && rapid.IntRange(0, 2).Draw(rt, "bigmax") == 0 {
		c.Max = rapid.SampledFrom([]int{64, 256, 1000}).Draw(rt, "max")
	}
	c.IvUs = rapid.SampledFrom([]int{1, 250, 999, 10_000, 1_000_000}).Draw(rt, "ivus")
	ng := rapid.IntRange(1, 3).Draw(rt, "ng")
	n := rapid.IntRange(2, 8).Draw(rt, "nev")
	per := 0
	restartGap := rapid.IntRange(0, 2).Draw(rt, "restarts") > 0 // template contains an idle gap beyond the quit
	for i := 0; i < n; i++ {
		e := c16Ev{G: rapid.IntRange(0, ng-1).Draw(rt, "g")}
		e.K = rapid.SampledFrom([]string{"add", "add", "add", "add", "flush", "wait"}).Draw(rt, "k")
		e.Gap = rapid.SampledFrom([]int{0, 0, 0, 1, 2, 3}).Draw(rt, "gap")
		if i == 0 && restartGap {
			e.Gap = rapid.IntRange(23, 26).Draw(rt, "idlegap")
		}
		if e.K == "add" {
			e.Rep = rapid.SampledFrom([]int{1, 1, 2, 5, 17, 100}).Draw(rt, "rep")
			per += e.Rep
			if c.Kind == "chunk" {
				e.S = rapid.IntRange(0, 50).Draw(rt, "size")
			}
		}
		c.Ev = append(c.Ev, e)
	}
	if per == 0 {
		c.Ev[n-1].K, c.Ev[n-1].Rep = "add", 3
		per = 3
	}
	maxLoop := 15000 / per
	if maxLoop > 400 {
		maxLoop = 400
	}
	if maxLoop < 20 {
		maxLoop = 20
	}
	c.Loop = rapid.IntRange(maxLoop/2, maxLoop).Draw(rt, "loop")
	if rapid.IntRange(0, 3).Draw(rt, "lat") == 0 {
		c.Lat = []int{0, 0, 0, 1}
	}
	c.Q = rapid.Bool().Draw(rt, "q")
	c.Poly = rapid.IntRange(0, 3).Draw(rt, "poly") == 0
	c16GenCb(rt, &c)
	return c
}

func c16GenPar(rt *rapid.T) c16Case {
	c := c16Case{}
	c16GenKind(rt, &c)
	c.IvUs = rapid.SampledFrom([]int{250, 999, 1000, 1000, 1500, 2000}).Draw(rt, "ivus") // real time
	ng := rapid.IntRange(2, 6).Draw(rt, "ng")
	n := rapid.IntRange(2, 60).Draw(rt, "nev")
	idleAt := -1 // at most one idle phase of 12 intervals for the whole case, in one case of six
	if n > 2 && rapid.IntRange(0, 5).Draw(rt, "idle") == 0 {
		idleAt = rapid.IntRange(1, n-1).Draw(rt, "idleAt")
	}
	for i := 0; i < n; i++ {
		e := c16Ev{G: rapid.IntRange(0, ng-1).Draw(rt, "g")}
		e.K = rapid.SampledFrom([]string{"add", "add", "add", "add", "add", "add", "add", "add", "flush", "wait"}).Draw(rt, "k")
		if i == idleAt {
			e.Gap = c16IdleGap
		} else if rapid.IntRange(0, 3).Draw(rt, "gapclass") == 0 {
			e.Gap = rapid.IntRange(1, 3).Draw(rt, "gap") // Gosched calls
		}
		if e.K == "add" && c.Kind == "chunk" {
			e.S = rapid.IntRange(0, 50).Draw(rt, "size")
		}
		c.Ev = append(c.Ev, e)
	}
	nl := rapid.IntRange(0, 3).Draw(rt, "nlat")
	for i := 0; i < nl; i++ {
		c.Lat = append(c.Lat, rapid.SampledFrom([]int{0, 0, 1, 3, 10}).Draw(rt, "lat"))
	}
	c.Q = rapid.IntRange(0, 11).Draw(rt, "q") == 0
	c16GenCb(rt, &c)
	return c
}

type c16qi struct {
	q    bool
	ivus int
}

func c16QI(ivus []int) (out []c16qi) {
	for _, iv := range ivus {
		out = append(out, c16qi{false, iv}, c16qi{true, iv})
	}
	return
}

// c16Enumerate: small-scope enumeration. Two adders, 1..maxAdds adds in total
// (at most 3 per adder) at instants of the grid {0, I/2, I, 3I/2}; optionally one
// Flush or Wait by adder 0 or by a third goroutine at a grid instant;
// optionally an idle gap of 12 intervals before one of the adds (after the
// first); bulk executor with the given maxTasks values; the given latency
// patterns; with and without the tick-only quiesce.
func c16Enumerate(maxAdds int, maxes []int, lats [][]int, ivus []int) func(yield func(c16Case) bool) {
	return func(yield func(c16Case) bool) {
		type add struct{ g, at int }
		var adds []add
		var rec func(n, minAt, minG int) bool
		emit := func() bool {
			n := len(adds)
			per := [2]int{}
			for _, a := range adds {
				per[a.g]++
			}
			if per[0] > 3 || per[1] > 3 || adds[0].g != 0 { // symmetry: the first add is by adder 0
				return true
			}
			type extra struct {
				k     string
				g, at int
			}
			extras := []extra{{}}
			for _, k := range []string{"flush", "wait"} {
				for _, g := range []int{0, 2} {
					for at := 0; at < 4; at++ {
						extras = append(extras, extra{k, g, at})
					}
				}
			}
			for _, x := range extras {
				for idle := 0; idle < n; idle++ { // 0: none; k: before add k
					for _, mx := range maxes {
						for _, lat := range lats {
							for _, qi := range c16QI(ivus) {
								q := qi.q
								c := c16Case{Kind: "bulk", Max: mx, IvUs: qi.ivus, Lat: lat, Q: q}
								// merge adds and the extra op by instant (extra after the adds of its instant)
								type item struct {
									at int
									ev c16Ev
								}
								var items []item
								for i, a := range adds {
									at := a.at
									if idle > 0 && i >= idle {
										at += 2 * c16IdleRounds
									}
									items = append(items, item{at, c16Ev{G: a.g, K: "add"}})
								}
								if x.k != "" {
									items = append(items, item{x.at, c16Ev{G: x.g, K: x.k}})
								}
								sort.SliceStable(items, func(i, j int) bool { return items[i].at < items[j].at })
								prev := 0
								for _, it := range items {
									it.ev.Gap = it.at - prev
									prev = it.at
									c.Ev = append(c.Ev, it.ev)
								}
								if !yield(c) {
									return false
								}
							}
						}
					}
				}
			}
			return true
		}
		rec = func(n, minAt, minG int) bool {
			if len(adds) > 0 && !emit() {
				return false
			}
			if n == 0 {
				return true
			}
			for at := minAt; at < 4; at++ {
				g0 := 0
				if at == minAt {
					g0 = minG
				}
				for g := g0; g < 2; g++ {
					adds = append(adds, add{g, at})
					ok := rec(n-1, at, g)
					adds = adds[:len(adds)-1]
					if !ok {
						return false
					}
				}
			}
			return true
		}
		rec(maxAdds, 0, 0)
	}
}

// ---------------------------------------------------------------- executors created in sequence

// c16SeqCase: 1..3 executors created one after the other in the same process
// (same bubble), each with its own option SET (every option independently
// passed or omitted) and its own small timeline; each is judged by its own
// configuration, an omitted option meaning the documented default.
type c16SeqCase struct {
	Ex []c16Case `json:"ex"`
	// Conc: the executors are alive and used at the same time (each timeline runs in parallel in
	// the same bubble) instead of one after the other.
	Conc bool `json:"conc,omitempty"`
	// ShareOpts: executors of the same kind are constructed from the SAME option slice (the one
	// of the first executor of that kind) and are judged by that configuration.
	ShareOpts bool `json:"share,omitempty"`
}

func c16GenSeqOne(rt *rapid.T) c16Case {
	c := c16Case{}
	c.Kind = rapid.SampledFrom([]string{"bulk", "bulk", "bulk", "chunk", "chunk", "periodical"}).Draw(rt, "kind")
	switch c.Kind {
	case "bulk":
		c.NoMax = rapid.Bool().Draw(rt, "nomax")
		c.NoIv = rapid.Bool().Draw(rt, "noiv")
		c.Max = rapid.SampledFrom([]int{1, 2, 3, 5, 1500, 5000}).Draw(rt, "max")
	case "chunk":
		c.NoMax = rapid.Bool().Draw(rt, "nomax")
		c.NoIv = rapid.Bool().Draw(rt, "noiv")
		c.Max = rapid.SampledFrom([]int{1, 7, 40, 4 << 20}).Draw(rt, "limit")
	default:
		c.Max = rapid.IntRange(0, 3).Draw(rt, "max")
		c.NilRm = rapid.Bool().Draw(rt, "nilrm")
	}
	c.IvUs = rapid.SampledFrom(c16Intervals).Draw(rt, "ivus")
	if rapid.IntRange(0, 7).Draw(rt, "ivmag") == 0 {
		c.IvNs = rapid.SampledFrom(c16IntervalsNs).Draw(rt, "ivns")
	}
	eff := c.effective()
	ng := rapid.IntRange(1, 3).Draw(rt, "ng")
	n := rapid.IntRange(1, 10).Draw(rt, "nev")
	burst := -1 // one burst of adds that reaches a large threshold
	if c.Kind == "bulk" && eff.interval() < time.Hour && eff.Max >= 1000 && eff.Max <= 1500 && rapid.IntRange(0, 2).Draw(rt, "burst") > 0 {
		burst = rapid.IntRange(0, n-1).Draw(rt, "burstAt")
	}
	for i := 0; i < n; i++ {
		e := c16Ev{G: rapid.IntRange(0, ng-1).Draw(rt, "g")}
		e.K = rapid.SampledFrom([]string{"add", "add", "add", "add", "add", "flush", "wait"}).Draw(rt, "k")
		switch rapid.IntRange(0, 9).Draw(rt, "gapclass") {
		case 0, 1, 2, 3, 4, 5:
		case 6, 7:
			e.Gap = 1
		case 8:
			e.Gap = rapid.IntRange(2, 6).Draw(rt, "gap")
		default:
			e.Gap = rapid.IntRange(22, 30).Draw(rt, "gap")
		}
		if i == burst {
			e.K = "add"
			e.Rep = rapid.IntRange(eff.Max+1, eff.Max+1500).Draw(rt, "rep")
		}
		if e.K == "add" && c.Kind == "chunk" {
			if eff.Max >= c16DefaultChunkBytes {
				e.S = rapid.SampledFrom([]int{0, 10, 300000, 500000, 700000, 1048576}).Draw(rt, "size")
			} else {
				e.S = rapid.IntRange(0, 50).Draw(rt, "size")
			}
		}
		e.Y = rapid.SampledFrom([]int{0, 0, 1, 2}).Draw(rt, "y")
		c.Ev = append(c.Ev, e)
	}
	nl := rapid.IntRange(0, 2).Draw(rt, "nlat")
	for i := 0; i < nl; i++ {
		c.Lat = append(c.Lat, rapid.SampledFrom([]int{0, 0, 1, 3}).Draw(rt, "lat"))
	}
	c.Q = rapid.Bool().Draw(rt, "q")
	c16GenCb(rt, &c)
	return c
}

func c16GenSeq(rt *rapid.T) c16SeqCase {
	n := rapid.IntRange(1, 3).Draw(rt, "nex")
	sc := c16SeqCase{}
	sc.Conc = rapid.IntRange(0, 2).Draw(rt, "conc") == 0
	sc.ShareOpts = rapid.IntRange(0, 3).Draw(rt, "share") == 0
	for i := 0; i < n; i++ {
		c := c16GenSeqOne(rt)
		c.DupOpt = rapid.IntRange(0, 3).Draw(rt, "dupopt") == 0
		sc.Ex = append(sc.Ex, c)
	}
	return sc
}

func c16InterpSeq(t *testing.T, sc c16SeqCase) (v kit.Verdict) {
	classes := map[string]bool{}
	var fail, known string
	nontrivial, anyNever := false, false
	var states []*c16State
	bubbleDone := make(chan kit.BubbleResult, 1)
	go func() {
		returned := false
		defer func() {
			if !returned {
				bubbleDone <- kit.BubbleResult{Panic: "the synctest sub-test was aborted (data race reported by the race detector, see the log)"}
			}
		}()
		r := kit.Bubble(t, func() {
			defer func() {
				for _, s := range states {
					s.mu.Lock()
					s.dead = true
					s.mu.Unlock()
				}
			}()
			// Independence of cases: two executors that are never used, created with every option
			// passed explicitly and equal to the documented default. For code that keeps option
			// defaults per constructor call this changes nothing; it keeps a fault that lets options
			// leak into process-wide defaults from carrying over from EARLIER cases, so that a
			// failing case (and its shrunk replay) contains the executor that caused the leak.
			executors.NewBulkExecutor(func([]any) {}, executors.WithBulkTasks(c16DefaultBulkTasks), executors.WithBulkInterval(c16DefaultIvMs*time.Millisecond))
			executors.NewChunkExecutor(func([]any) {}, executors.WithChunkBytes(c16DefaultChunkBytes), executors.WithFlushInterval(c16DefaultIvMs*time.Millisecond))
			explicitMax, explicitIv := map[string]bool{}, map[string]bool{}
			shared := &c16SharedOpts{}
			firstOf := map[string]c16Case{}
			type one struct {
				c    c16Case
				s    *c16State
				what string
				fail string
			}
			var runs []*one
			for i, spec := range sc.Ex {
				if sc.ShareOpts && spec.Kind != "periodical" {
					if f, ok := firstOf[spec.Kind]; ok { // same option slice => same configuration
						spec.Max, spec.IvMs, spec.IvUs, spec.IvNs, spec.NoMax, spec.NoIv, spec.DupOpt = f.Max, f.IvMs, f.IvUs, f.IvNs, f.NoMax, f.NoIv, f.DupOpt
						classes["option-slice-reused"] = true
						nontrivial = true
					} else {
						firstOf[spec.Kind] = spec
					}
				}
				c := spec.effective()
				if c.never() {
					anyNever = true
				}
				if c.DupOpt && c.Kind != "periodical" && !(c.NoMax && c.NoIv) {
					classes["option-passed-twice"] = true
				}
				if c.Kind != "periodical" {
					if c.NoMax {
						classes["default-size"] = true
						if explicitMax[c.Kind] {
							classes["default-size-after-explicit"] = true
							nontrivial = true
						}
					} else {
						explicitMax[c.Kind] = true
					}
					if c.NoIv {
						classes["default-interval"] = true
						if explicitIv[c.Kind] {
							classes["default-interval-after-explicit"] = true
							nontrivial = true
						}
					} else {
						explicitIv[c.Kind] = true
					}
				}
				s := &c16State{}
				if sc.ShareOpts {
					s.shared = shared
				}
				states = append(states, s)
				runs = append(runs, &one{c: c, s: s,
					what: fmt.Sprintf("executor #%d (%s, size option passed=%v -> %d, interval option passed=%v -> %v): ", i, c.Kind, !c.NoMax && c.Kind != "periodical", c.Max, !c.NoIv || c.Kind == "periodical", c.interval())})
			}
			runOne := func(r *one) {
				if r.fail = c16Run(r.c, r.s, false); r.fail == "" {
					c16Settle(r.c, r.s)
				}
			}
			if sc.Conc && len(runs) > 1 {
				classes["executors-alive-concurrently"] = true
				var wg sync.WaitGroup
				for _, r := range runs {
					wg.Add(1)
					r := r
					go func() { defer wg.Done(); runOne(r) }()
				}
				wg.Wait()
			} else {
				for _, r := range runs {
					if runOne(r); r.fail != "" {
						break
					}
				}
			}
			for _, r := range runs {
				if r.fail != "" {
					fail = r.what + r.fail
					return
				}
			}
			for _, r := range runs {
				res := &c16Result{classes: map[string]bool{r.c.Kind: true}}
				r.s.mu.Lock()
				if len(r.s.ops) > 0 {
					c16Check(r.c, r.s, res, false)
				}
				r.s.mu.Unlock()
				for k := range res.classes {
					classes[k] = true
				}
				if r.c.NoMax && res.classes["batch-at-threshold"] {
					classes["default-threshold-reached"] = true
				}
				if res.fail != "" {
					fail, known = r.what+res.fail, res.known
					return
				}
			}
		})
		returned = true
		bubbleDone <- r
	}()
	var br kit.BubbleResult
	select {
	case br = <-bubbleDone:
	case <-time.After(c16Watchdog):
		c16Watchdog = 2 * time.Second
		return kit.Verdict{Classes: []string{"watchdog"},
			Fail: "case did not finish within 10 s of real time: a goroutine stays blocked on a sync.Mutex for ever (synctest cannot see that) or virtual time runs away"}
	}
	for k := range classes {
		v.Classes = append(v.Classes, k)
	}
	sort.Strings(v.Classes)
	v.NonTrivial = nontrivial
	v.Fail, v.Known = fail, known
	if v.Fail == "" || v.Known != "" {
		switch {
		case br.Hang:
			v.Fail, v.Known = "hang: every goroutine of the bubble is blocked for ever: "+br.Raw, ""
		case br.Leak && anyNever:
			// expected residue: a flusher with a 100-year interval cannot retire within the case
		case br.Leak:
			v.Fail, v.Known = fmt.Sprintf("leak: %d idle intervals after the last executor's final Wait a goroutine (a background flusher) is still alive at bubble exit", c16IdleRounds), ""
		case br.Panic != "":
			v.Fail, v.Known = "panic: "+br.Panic, ""
		}
	}
	return v
}

// ---------------------------------------------------------------- tests

// c16Repeat: replaying a file (bin/check --replay) runs the case up to 200 times
// and reports the first failing run. The order in which goroutines that become
// runnable at the same (virtual) instant are run is not part of the case: -race
// builds randomise the run queue (runtime.randomizeScheduler) and select picks
// randomly, so a single run of a schedule-dependent failure reproduces only with
// some probability.
func c16Repeat(interp func(c16Case) kit.Verdict) func(c16Case) kit.Verdict {
	if os.Getenv("VERIF_REPLAY") == "" {
		return interp
	}
	return func(c c16Case) (v kit.Verdict) {
		for i := 0; i < 200; i++ {
			if v = interp(c); v.Fail != "" {
				return v
			}
		}
		return v
	}
}

func TestVerif_C16_random(t *testing.T) {
	// one P: the goroutines of a bubble interleave only at blocking points (see verif.json level_note)
	defer runtime.GOMAXPROCS(runtime.GOMAXPROCS(1))
	kit.Run(t, "C16", "exec-random", kit.Opts{Quick: 6000, Thorough: 240000}, c16Gen,
		c16Repeat(func(c c16Case) kit.Verdict { return c16Interp(t, c) }))
}

func TestVerif_C16_smallscope(t *testing.T) {
	defer runtime.GOMAXPROCS(runtime.GOMAXPROCS(1))
	maxAdds, maxes, lats, ivus := 2, []int{2}, [][]int{{3}}, []int{10_000, 999}
	if kit.Thorough() {
		maxAdds, maxes, lats = 4, []int{1, 2}, [][]int{nil, {3}}
	}
	kit.Enumerate(t, "C16", "exec-small-scope", c16Enumerate(maxAdds, maxes, lats, ivus),
		c16Repeat(func(c c16Case) kit.Verdict { return c16Interp(t, c) }))
}

func TestVerif_C16_parallel(t *testing.T) {
	if runtime.GOMAXPROCS(0) < 4 {
		defer runtime.GOMAXPROCS(runtime.GOMAXPROCS(4))
	}
	c16BaseGoroutines = runtime.NumGoroutine()
	kit.Run(t, "C16", "exec-parallel", kit.Opts{Quick: 1200, Thorough: 32000}, c16GenPar,
		c16Repeat(func(c c16Case) kit.Verdict { return c16InterpPar(t, c) }))
}

func TestVerif_C16_sequence(t *testing.T) {
	defer runtime.GOMAXPROCS(runtime.GOMAXPROCS(1))
	kit.Run(t, "C16", "exec-sequence", kit.Opts{Quick: 1500, Thorough: 48000}, c16GenSeq,
		func(sc c16SeqCase) kit.Verdict { return c16InterpSeq(t, sc) })
}

func TestVerif_C16_longlived(t *testing.T) {
	defer runtime.GOMAXPROCS(runtime.GOMAXPROCS(1))
	kit.Run(t, "C16", "exec-long-lived", kit.Opts{Quick: 30, Thorough: 480}, c16GenLong,
		c16Repeat(func(c c16Case) kit.Verdict { return c16Interp(t, c) }))
}
