package executors_test

// C16 — periodical / bulk / chunk executors run every added task exactly once.
// Harness injected by /verif (overlay); see /verif/DESIGN.md "C16".
//
// External test package: only the public constructors and methods are used.
// The ticker of the background flusher is the real timex.NewTicker, which is
// virtual inside a testing/synctest bubble.
//
// A case is a global timeline of events (goroutine, gap to the previous event
// in half intervals, operation). Every harness goroutine executes its own
// events at their virtual instants; the execute callback records each batch
// (and sleeps a generated virtual latency). The oracle works on the recorded
// history only: a logical clock stamps the call and the return of every
// operation and the start and the end of every callback.

import (
	"bytes"
	"fmt"
	"os"
	"runtime"
	"sort"
	"strconv"
	"sync"
	"testing"
	"time"

	"github.com/gotid/god/lib/executors"
	"github.com/gotid/god/lib/logx"
	"pgregory.net/rapid"
	"verif.local/kit"
)

func init() {
	logx.Disable()
	// bin/check always overwrites VERIF_KNOWN with /verif/known_findings.txt; a private
	// list of open findings (HARNESS_GUIDE "Known") is passed through VERIF_KNOWN_C16.
	if p := os.Getenv("VERIF_KNOWN_C16"); p != "" {
		os.Setenv("VERIF_KNOWN", p)
	}
}

// ---------------------------------------------------------------- case

type c16Ev struct {
	G   int    `json:"g"`           // harness goroutine
	Gap int    `json:"d,omitempty"` // half intervals since the previous event of the timeline
	K   string `json:"k"`           // add | flush | wait
	S   int    `json:"s,omitempty"` // add: byte size (chunk executor)
	Y   int    `json:"y,omitempty"` // runtime.Gosched() calls before the operation (order at equal instants)
}

type c16Case struct {
	Kind string  `json:"kind"` // bulk | chunk | periodical
	Max  int     `json:"max"`  // bulk: task count; chunk: byte limit; periodical: task count of the custom container (0 = no threshold)
	IvMs int     `json:"iv"`   // flush interval in milliseconds (even)
	Ev   []c16Ev `json:"ev"`
	Lat  []int   `json:"lat,omitempty"` // latency (half intervals) of the k-th callback, cyclic
}

func (c c16Case) interval() time.Duration { return time.Duration(c.IvMs) * time.Millisecond }
func (c c16Case) unit() time.Duration     { return c.interval() / 2 }

// ---------------------------------------------------------------- history

type c16Op struct {
	ev        int // index into case.Ev (-1: final Wait of the root)
	kind      string
	g         int
	call, ret int64 // logical clock, ret == 0: never returned
	tcall     time.Duration
	tret      time.Duration
}

type c16Batch struct {
	ids        []int
	start, end int64 // logical clock, end == 0: callback never finished
	tstart     time.Duration
	tend       time.Duration
	harness    bool // executed by a harness goroutine (inside its Flush/Wait)
	alien      string
}

type c16State struct {
	mu      sync.Mutex
	clock   int64
	ops     []c16Op
	batches []*c16Batch
	ncb     int
	t0      time.Time
	harness map[uint64]bool // goroutine ids of harness goroutines
	dead    bool            // case over: later callbacks only counted
	late    int
}

func (s *c16State) tick() int64 { s.clock++; return s.clock }

func c16Goid() uint64 {
	var buf [64]byte
	b := buf[:runtime.Stack(buf[:], false)]
	b = bytes.TrimPrefix(b, []byte("goroutine "))
	if i := bytes.IndexByte(b, ' '); i > 0 {
		b = b[:i]
	}
	n, _ := strconv.ParseUint(string(b), 10, 64)
	return n
}

// custom container for NewPeriodicalExecutor: tasks are ints, RemoveAll returns []int.
type c16Container struct {
	tasks []int
	max   int
	exec  func(ids []int)
}

func (c *c16Container) AddTask(task any) bool {
	c.tasks = append(c.tasks, task.(int))
	return c.max > 0 && len(c.tasks) >= c.max
}
func (c *c16Container) Execute(tasks any) { c.exec(tasks.([]int)) }
func (c *c16Container) RemoveAll() any {
	t := c.tasks
	c.tasks = nil
	return t
}

// gate: harness-side reader/writer gate (durably blocking, sync.Cond).
// Flush operations are readers, Wait operations writers. Reason: Wait holds a
// sync.Mutex (syncx.Barrier) while it blocks on the WaitGroup, and every
// Flush/Wait first locks that mutex. Blocking on a mutex is not a durable
// block for synctest, so a Flush issued while a Wait is blocked across virtual
// time would freeze the bubble's clock (artifact of virtual time, not a
// defect). The gate never delays Add and never reorders recorded events; the
// oracle uses the instants at which the calls were really made.
type c16Gate struct {
	mu sync.Mutex
	c  *sync.Cond
	r  int
	w  bool
}

func newC16Gate() *c16Gate { g := &c16Gate{}; g.c = sync.NewCond(&g.mu); return g }
func (g *c16Gate) rlock() {
	g.mu.Lock()
	for g.w {
		g.c.Wait()
	}
	g.r++
	g.mu.Unlock()
}
func (g *c16Gate) runlock() { g.mu.Lock(); g.r--; g.c.Broadcast(); g.mu.Unlock() }
func (g *c16Gate) lock() {
	g.mu.Lock()
	for g.w || g.r > 0 {
		g.c.Wait()
	}
	g.w = true
	g.mu.Unlock()
}
func (g *c16Gate) unlock() { g.mu.Lock(); g.w = false; g.c.Broadcast(); g.mu.Unlock() }

type c16Subject struct {
	add   func(id, size int)
	flush func()
	wait  func()
}

func c16New(c c16Case, exec func(ids []int)) c16Subject {
	anyExec := func(tasks []any) {
		ids := make([]int, len(tasks))
		for i, t := range tasks {
			ids[i] = t.(int)
		}
		exec(ids)
	}
	switch c.Kind {
	case "bulk":
		be := executors.NewBulkExecutor(anyExec, executors.WithBulkTasks(c.Max), executors.WithBulkInterval(c.interval()))
		return c16Subject{add: func(id, _ int) { _ = be.Add(id) }, flush: be.Flush, wait: be.Wait}
	case "chunk":
		ce := executors.NewChunkExecutor(anyExec, executors.WithChunkBytes(c.Max), executors.WithFlushInterval(c.interval()))
		return c16Subject{add: func(id, size int) { _ = ce.Add(id, size) }, flush: ce.Flush, wait: ce.Wait}
	default:
		pe := executors.NewPeriodicalExecutor(c.interval(), &c16Container{max: c.Max, exec: exec})
		return c16Subject{add: func(id, _ int) { pe.Add(id) }, flush: func() { pe.Flush() }, wait: pe.Wait}
	}
}

const c16IdleRounds = 12 // idle period after the final Wait, in intervals (code: quit after > 10 idle rounds)

// c16Run executes the case inside the current bubble and returns the history.
// fail is set for failures detected while running (virtual horizon exceeded).
func c16Run(c c16Case, s *c16State) (fail string) {
	U, I := c.unit(), c.interval()
	s.t0 = time.Now()
	s.harness = map[uint64]bool{c16Goid(): true}
	now := func() time.Duration { return time.Since(s.t0) }
	exec := func(ids []int) {
		s.mu.Lock()
		if s.dead {
			s.late++
			s.mu.Unlock()
			return
		}
		b := &c16Batch{ids: append([]int(nil), ids...), start: s.tick(), tstart: now(), harness: s.harness[c16Goid()]}
		k := s.ncb
		s.ncb++
		s.batches = append(s.batches, b)
		s.mu.Unlock()
		if len(c.Lat) > 0 {
			if l := c.Lat[k%len(c.Lat)]; l > 0 {
				time.Sleep(time.Duration(l) * U)
			}
		}
		s.mu.Lock()
		b.end, b.tend = s.tick(), now()
		s.mu.Unlock()
	}
	sub := c16New(c, exec)
	gate := newC16Gate()

	ng := 0
	at := make([]time.Duration, len(c.Ev))
	var acc time.Duration
	maxLat := 0
	for _, l := range c.Lat {
		if l > maxLat {
			maxLat = l
		}
	}
	for i, e := range c.Ev {
		acc += time.Duration(e.Gap) * U
		at[i] = acc
		if e.G+1 > ng {
			ng = e.G + 1
		}
	}
	s.ops = make([]c16Op, len(c.Ev), len(c.Ev)+1)
	for i, e := range c.Ev {
		s.ops[i] = c16Op{ev: i, kind: e.K, g: e.G}
	}
	do := func(op *c16Op, size int) {
		switch op.kind {
		case "flush":
			gate.rlock()
			defer gate.runlock()
		case "wait":
			gate.lock()
			defer gate.unlock()
		}
		s.mu.Lock()
		op.call, op.tcall = s.tick(), now()
		s.mu.Unlock()
		switch op.kind {
		case "add":
			sub.add(op.ev, size)
		case "flush":
			sub.flush()
		case "wait":
			sub.wait()
		}
		s.mu.Lock()
		op.ret, op.tret = s.tick(), now()
		s.mu.Unlock()
	}
	done := make(chan struct{})
	var wg sync.WaitGroup
	for g := 0; g < ng; g++ {
		wg.Add(1)
		g := g
		go func() {
			defer wg.Done()
			s.mu.Lock()
			s.harness[c16Goid()] = true
			s.mu.Unlock()
			for i, e := range c.Ev {
				if e.G != g {
					continue
				}
				if d := at[i] - now(); d > 0 {
					time.Sleep(d)
				}
				for y := 0; y < e.Y; y++ {
					runtime.Gosched()
				}
				do(&s.ops[i], e.S)
			}
		}()
	}
	go func() { wg.Wait(); close(done) }()
	// every operation returns within a bounded virtual time: the schedule, plus
	// every callback at the largest latency once for every operation that can be
	// delayed by it, plus slack.
	horizon := acc + time.Duration((len(c.Ev)+2)*(len(c.Ev)+2)*maxLat)*U + 100*I
	select {
	case <-done:
	case <-time.After(horizon):
		s.mu.Lock()
		var stuck []string
		for _, o := range s.ops {
			if o.call != 0 && o.ret == 0 {
				stuck = append(stuck, fmt.Sprintf("ev %d %s by g%d called at %v", o.ev, o.kind, o.g, o.tcall))
			}
		}
		s.mu.Unlock()
		return fmt.Sprintf("operations did not return within the virtual horizon %v: %v", horizon, stuck)
	}
	// final Wait by the root, then the idle period
	s.mu.Lock()
	s.ops = append(s.ops, c16Op{ev: -1, kind: "wait", g: -1})
	fin := &s.ops[len(s.ops)-1]
	s.mu.Unlock()
	finDone := make(chan struct{})
	go func() {
		s.mu.Lock()
		s.harness[c16Goid()] = true
		s.mu.Unlock()
		do(fin, 0)
		close(finDone)
	}()
	select {
	case <-finDone:
	case <-time.After(horizon):
		return fmt.Sprintf("final Wait did not return within the virtual horizon %v", horizon)
	}
	return ""
}

// ---------------------------------------------------------------- oracle

type c16Result struct {
	fail, known string
	classes     map[string]bool
	nontrivial  bool
}

// c16Check judges the recorded history. phase "wait": right after the final
// Wait; "exit": after the idle period (only exactly-once is re-checked).
func c16Check(c c16Case, s *c16State, res *c16Result) {
	I := c.interval()
	cl := res.classes
	failf := func(format string, a ...any) {
		if res.fail == "" {
			res.fail = fmt.Sprintf(format, a...)
		}
	}
	size := map[int]int{}
	added := map[int]*c16Op{}
	for i := range s.ops {
		o := &s.ops[i]
		if o.kind == "add" && o.call != 0 {
			added[o.ev] = o
			size[o.ev] = c.Ev[o.ev].S
		}
	}
	// 1. exactly once
	where := map[int]*c16Batch{}
	pos := map[int]int{}
	for bi, b := range s.batches {
		if b.end == 0 {
			failf("callback %d %v never finished", bi, b.ids)
		}
		for p, id := range b.ids {
			if _, ok := added[id]; !ok {
				failf("task %d executed (batch %d %v) but never added", id, bi, b.ids)
				continue
			}
			if prev, dup := where[id]; dup {
				failf("task %d executed twice: batches %v and %v", id, prev.ids, b.ids)
			}
			where[id], pos[id] = b, p
		}
	}
	for id, o := range added {
		if _, ok := where[id]; !ok && o.ret != 0 {
			failf("task %d (ev %d, Add returned at %v) was never executed; batches: %s", id, o.ev, o.tret, c16Batches(s))
		}
	}
	if res.fail != "" {
		return
	}
	// 2. order inside a batch, 3. batches are runs of the addition order, 4. bounds
	for bi, b := range s.batches {
		for p, x := range b.ids {
			for _, y := range b.ids[p+1:] {
				// y is behind x although Add(y) had returned before Add(x) was called
				if added[y].ret != 0 && added[y].ret < added[x].call {
					failf("batch %d %v: task %d precedes task %d, but Add(%d) returned before Add(%d) was called", bi, b.ids, x, y, y, x)
				}
			}
		}
		for _, x := range b.ids {
			for _, z := range b.ids {
				if x == z {
					continue
				}
				for y, oy := range added {
					if where[y] == b || oy.ret == 0 {
						continue
					}
					if added[x].ret != 0 && added[x].ret < oy.call && oy.ret < added[z].call {
						failf("batch %d %v holds tasks %d and %d but not task %d added strictly between them (it is in %v)", bi, b.ids, x, z, y, where[y].ids)
					}
				}
			}
		}
		switch c.Kind {
		case "bulk":
			if len(b.ids) > c.Max {
				failf("bulk batch %d %v has %d tasks > maxTasks %d", bi, b.ids, len(b.ids), c.Max)
			}
			if len(b.ids) == c.Max {
				cl["batch-at-threshold"] = true
			}
		case "chunk":
			sum := 0
			for _, id := range b.ids {
				sum += size[id]
			}
			if n := len(b.ids); n > 0 {
				last := size[b.ids[n-1]]
				if sum-last >= c.Max {
					failf("chunk batch %d %v has %d bytes, limit %d, last task %d bytes: exceeds the limit by %d >= last task", bi, b.ids, sum, c.Max, last, sum-c.Max)
				}
				if sum >= c.Max {
					cl["batch-at-threshold"] = true
				}
				if sum > c.Max {
					cl["chunk-over-limit"] = true
				}
			}
		default:
			if c.Max > 0 && len(b.ids) == c.Max {
				cl["batch-at-threshold"] = true
			}
		}
		if len(b.ids) == 0 {
			cl["empty-batch"] = true
		}
		if b.harness {
			cl["exec-by-flush-or-wait"] = true
		} else {
			cl["exec-by-flusher"] = true
		}
		if b.tend > b.tstart {
			cl["latency"] = true
		}
	}
	// 5. Wait
	for i := range s.ops {
		w := &s.ops[i]
		if w.kind != "wait" || w.call == 0 || w.ret == 0 {
			continue
		}
		if w.tret > w.tcall {
			cl["wait-blocked"] = true
		}
		for id, o := range added {
			if o.ret == 0 || o.ret > w.call {
				continue
			}
			b := where[id]
			if b.end != 0 && b.end < w.ret {
				continue
			}
			// task id was added before Wait was called and is not finished at Wait's return
			msg := fmt.Sprintf("Wait (ev %d, g%d) called at %v returned at %v, but task %d (Add returned at %v) finished executing only at %v in batch %v [started %v]",
				w.ev, w.g, w.tcall, w.tret, id, o.tret, b.tend, b.ids, b.tstart) + c16History(s)
			if k := c16KnownHandover(c, s, w, b, added, size); k != "" {
				cl["known-handover"] = true
				if res.fail == "" {
					res.fail, res.known = msg, k
				}
				continue
			}
			if res.fail == "" || res.known != "" {
				res.fail, res.known = msg, ""
			}
		}
	}
	// classes + non-trivial rule
	var firstAdd time.Duration = -1
	type act struct {
		t   time.Duration
		add bool
		g   int
	}
	var acts []act
	for _, o := range s.ops {
		if o.call == 0 {
			continue
		}
		acts = append(acts, act{o.tcall, o.kind == "add", o.g})
		if o.ret != 0 {
			acts = append(acts, act{o.tret, false, o.g})
		}
		if o.kind == "add" && (firstAdd < 0 || o.tcall < firstAdd) {
			firstAdd = o.tcall
		}
	}
	for _, b := range s.batches {
		acts = append(acts, act{b.tstart, false, -2}, act{b.tend, false, -2})
	}
	sort.SliceStable(acts, func(i, j int) bool { return acts[i].t < acts[j].t })
	tickBase := firstAdd // instant at which the current flusher (and its ticker) started
	restart := false
	sameTick := map[time.Duration]map[int]bool{}
	seenAdd := false
	for i, a := range acts {
		if a.add {
			if seenAdd && i > 0 && a.t-acts[i-1].t > 11*I {
				restart = true
				tickBase = a.t
			}
			seenAdd = true
			if d := a.t - tickBase; d > 0 && d%I == 0 {
				if sameTick[a.t] == nil {
					sameTick[a.t] = map[int]bool{}
				}
				sameTick[a.t][a.g] = true
				cl["add-at-tick-instant"] = true
			}
		}
	}
	if restart {
		cl["idle-quit-then-add"] = true
		res.nontrivial = true
	}
	for _, gs := range sameTick {
		if len(gs) >= 2 {
			cl["2-adders-at-tick-instant"] = true
			res.nontrivial = true
		}
	}
}

// c16KnownHandover characterises the open finding "handover" (FINDINGS.md): the
// unfinished task sits in a batch that a threshold-reaching Add took out of the
// container (batch exactly at the threshold, executed by the background flusher,
// closing Add called before Wait was called) and that the flusher had not yet
// received when Wait returned (the execution starts after Wait's return): the
// batch was in the hand-over (commander channel / blocked adder) during the
// whole Wait and is not counted in the WaitGroup there. A batch that was
// already being executed when Wait returned is NOT matched.
func c16KnownHandover(c c16Case, s *c16State, w *c16Op, b *c16Batch, added map[int]*c16Op, size map[int]int) string {
	if b.harness || len(b.ids) == 0 {
		return ""
	}
	last := added[b.ids[len(b.ids)-1]]
	atThreshold := false
	switch c.Kind {
	case "bulk":
		atThreshold = len(b.ids) == c.Max
	case "chunk":
		sum := 0
		for _, id := range b.ids {
			sum += size[id]
		}
		atThreshold = sum >= c.Max
	default:
		atThreshold = c.Max > 0 && len(b.ids) == c.Max
	}
	if atThreshold && last.call < w.call && b.start > w.ret {
		return "handover"
	}
	return ""
}

func c16Batches(s *c16State) string {
	var sb bytes.Buffer
	for _, b := range s.batches {
		fmt.Fprintf(&sb, "%v@%v..%v ", b.ids, b.tstart, b.tend)
	}
	return sb.String()
}

// c16History renders the recorded history ordered by the logical clock.
func c16History(s *c16State) string {
	type line struct {
		c int64
		s string
	}
	var ls []line
	for _, o := range s.ops {
		if o.call != 0 {
			ls = append(ls, line{o.call, fmt.Sprintf("%v g%d %s(ev %d) called", o.tcall, o.g, o.kind, o.ev)})
		}
		if o.ret != 0 {
			ls = append(ls, line{o.ret, fmt.Sprintf("%v g%d %s(ev %d) returned", o.tret, o.g, o.kind, o.ev)})
		}
	}
	for _, b := range s.batches {
		who := "flusher"
		if b.harness {
			who = "caller"
		}
		ls = append(ls, line{b.start, fmt.Sprintf("%v execute%v starts in %s", b.tstart, b.ids, who)})
		if b.end != 0 {
			ls = append(ls, line{b.end, fmt.Sprintf("%v execute%v ends", b.tend, b.ids)})
		}
	}
	sort.Slice(ls, func(i, j int) bool { return ls[i].c < ls[j].c })
	var sb bytes.Buffer
	for _, l := range ls {
		sb.WriteString("\n    " + l.s)
	}
	return sb.String()
}

// ---------------------------------------------------------------- interpreter

const c16Watchdog = 30 * time.Second // real time; a case needs well under a millisecond

func c16Interp(t *testing.T, c c16Case) (v kit.Verdict) {
	res := &c16Result{classes: map[string]bool{c.Kind: true}}
	s := &c16State{}
	var exitFail string
	bubbleDone := make(chan kit.BubbleResult, 1)
	go func() {
		bubbleDone <- kit.Bubble(t, func() {
			if f := c16Run(c, s); f != "" {
				res.fail = f
				s.mu.Lock()
				s.dead = true
				s.mu.Unlock()
				return
			}
			s.mu.Lock()
			c16Check(c, s, res)
			nb := len(s.batches)
			s.mu.Unlock()
			// idle period: nothing more may be executed, the flusher must retire
			time.Sleep(c16IdleRounds*c.interval() + c.unit())
			s.mu.Lock()
			if len(s.batches) != nb && exitFail == "" {
				exitFail = fmt.Sprintf("callbacks ran during the idle period after the final Wait: %s", c16Batches(s))
			}
			s.dead = true
			s.mu.Unlock()
		})
	}()
	var br kit.BubbleResult
	select {
	case br = <-bubbleDone:
	case <-time.After(c16Watchdog):
		// real-time watchdog: a goroutine is blocked on a mutex for ever (not a durable block, so
		// synctest cannot report it) or the bubble spins through virtual time
		v.Fail = fmt.Sprintf("case did not finish within %v of real time (goroutine blocked on a sync.Mutex for ever, or endless virtual-time loop)", c16Watchdog)
		v.Classes = []string{"watchdog"}
		return v
	}
	for k := range res.classes {
		v.Classes = append(v.Classes, k)
	}
	sort.Strings(v.Classes)
	v.NonTrivial = res.nontrivial
	switch {
	case res.fail != "":
		v.Fail, v.Known = res.fail, res.known
	case exitFail != "":
		v.Fail = exitFail
	case br.Hang:
		v.Fail = "hang: every goroutine of the bubble is blocked for ever: " + br.Raw
	case br.Leak:
		v.Fail = fmt.Sprintf("leak: %d idle intervals after the final Wait a goroutine (background flusher) is still alive at bubble exit", c16IdleRounds)
	case br.Panic != "":
		v.Fail = "panic: " + br.Panic
	}
	if v.Fail != "" && v.Known == "" && s.late > 0 {
		v.Fail += fmt.Sprintf(" (%d late callbacks)", s.late)
	}
	return v
}

// ---------------------------------------------------------------- generator

func c16Gen(rt *rapid.T) c16Case {
	c := c16Case{}
	c.Kind = rapid.SampledFrom([]string{"bulk", "bulk", "chunk", "chunk", "periodical"}).Draw(rt, "kind")
	switch c.Kind {
	case "bulk":
		c.Max = rapid.IntRange(1, 5).Draw(rt, "max")
	case "chunk":
		c.Max = rapid.IntRange(1, 40).Draw(rt, "limit")
	default:
		c.Max = rapid.IntRange(0, 4).Draw(rt, "max")
	}
	c.IvMs = rapid.SampledFrom([]int{10, 50, 250, 1000}).Draw(rt, "iv")
	ng := rapid.IntRange(1, 4).Draw(rt, "ng")
	n := rapid.IntRange(1, 24).Draw(rt, "nev")
	for i := 0; i < n; i++ {
		e := c16Ev{G: rapid.IntRange(0, ng-1).Draw(rt, "g")}
		e.K = rapid.SampledFrom([]string{"add", "add", "add", "add", "add", "add", "flush", "wait"}).Draw(rt, "k")
		// gaps: mostly the same instant or close; sometimes an idle gap around / beyond the idle-quit
		switch rapid.IntRange(0, 11).Draw(rt, "gapclass") {
		case 0, 1, 2, 3, 4:
			e.Gap = 0
		case 5, 6:
			e.Gap = 1
		case 7, 8:
			e.Gap = 2
		case 9:
			e.Gap = rapid.IntRange(3, 19).Draw(rt, "gap")
		case 10:
			e.Gap = rapid.IntRange(20, 24).Draw(rt, "gap") // 10..12 intervals: around the quit decision
		default:
			e.Gap = rapid.IntRange(25, 50).Draw(rt, "gap")
		}
		if i == 0 {
			e.Gap = rapid.IntRange(0, 2).Draw(rt, "gap0")
		}
		if e.K == "add" && c.Kind == "chunk" {
			e.S = rapid.IntRange(0, 50).Draw(rt, "size")
		}
		e.Y = rapid.SampledFrom([]int{0, 0, 0, 1, 2, 3}).Draw(rt, "y")
		c.Ev = append(c.Ev, e)
	}
	nl := rapid.IntRange(0, 4).Draw(rt, "nlat")
	for i := 0; i < nl; i++ {
		c.Lat = append(c.Lat, rapid.SampledFrom([]int{0, 0, 1, 2, 3, 5, 8, 25}).Draw(rt, "lat"))
	}
	return c
}

func TestVerif_C16_random(t *testing.T) {
	// one P: goroutines of a bubble interleave only at blocking points, see verif.json
	defer runtime.GOMAXPROCS(runtime.GOMAXPROCS(1))
	kit.Run(t, "C16", "exec-random", kit.Opts{Quick: 3000, Thorough: 480000}, c16Gen,
		func(c c16Case) kit.Verdict { return c16Interp(t, c) })
}
