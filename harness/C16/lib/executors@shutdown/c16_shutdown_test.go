package executors_test

// C16 — wiring: every PeriodicalExecutor (hence every Bulk/ChunkExecutor) registers a process-wide
// shutdown listener that calls its Flush (periodicalexecutor.go NewPeriodicalExecutor). Firing the
// listeners is one more explicit-Flush trigger that runs in goroutines of lib/proc, concurrently with
// adders, threshold hand-overs, Flush and Wait of the application.
//
// Real clock, real parallelism, NO bubble (the listeners of all executors of the process are run by
// goroutines that belong to no bubble), interval one hour (no tick falls into a case): the triggers are
// the threshold, Flush, Wait and the shutdown notification. No timing is judged. Oracle (statement):
// after the final Wait every added task has been passed to the execute function exactly once; inside
// a batch one adder's tasks are in addition order; bulk / chunk bounds; when a Wait returns, every
// task whose Add had returned before that Wait was called has finished executing. WHEN the shutdown
// flush executes what is pending is not judged (the statement does not name this trigger).
// The flushers of the cases never retire (no tick): expected residue of this unit.

import (
	"fmt"
	"os"
	"runtime"
	"sort"
	"sync"
	"testing"
	"time"
	"unsafe"

	"github.com/gotid/god/lib/executors"
	"github.com/gotid/god/lib/logx"
	_ "github.com/gotid/god/lib/proc"
	"pgregory.net/rapid"
	"verif.local/kit"
)

// The shutdown listeners are process-wide and unexported in lib/proc; the only public way to fire them is a
// SIGTERM, which ends with a kill of the process (proc.gracefulStop). The harness reaches the two
// unexported symbols by name (go:linkname), exactly what gracefulStop calls.
//
//go:linkname c16pShutdownListeners github.com/gotid/god/lib/proc.shutdownListeners
var c16pShutdownListeners unsafe.Pointer // *proc.listenerManager

//go:linkname c16pNotifyListeners github.com/gotid/god/lib/proc.(*listenerManager).notifyListeners
func c16pNotifyListeners(lm unsafe.Pointer)

// c16pNotifyShutdown runs every registered shutdown listener and returns when all of them have returned.
func c16pNotifyShutdown() { c16pNotifyListeners(c16pShutdownListeners) }

func init() {
	logx.Disable()
	if p := os.Getenv("VERIF_KNOWN_C16"); p != "" {
		os.Setenv("VERIF_KNOWN", p)
	}
}

type c16pEv struct {
	G int    `json:"g"`
	K string `json:"k"`           // add | flush | wait | shutdown
	S int    `json:"s,omitempty"` // chunk: byte size
	Y int    `json:"y,omitempty"` // runtime.Gosched() calls before the operation
}

type c16pCase struct {
	Kind string   `json:"kind"` // bulk | chunk | periodical
	Max  int      `json:"max"`
	Ev   []c16pEv `json:"ev"`
}

type c16pContainer struct {
	tasks []int
	max   int
	exec  func([]int)
}

func (c *c16pContainer) AddTask(task any) bool {
	c.tasks = append(c.tasks, task.(int))
	return c.max > 0 && len(c.tasks) >= c.max
}
func (c *c16pContainer) Execute(tasks any) { c.exec(tasks.([]int)) }
func (c *c16pContainer) RemoveAll() any {
	t := c.tasks
	c.tasks = nil
	return t
}

type c16pBatch struct {
	ids        []int
	start, end int64
}

func c16pInterp(c c16pCase) (v kit.Verdict) {
	var mu sync.Mutex
	var clock int64
	tick := func() int64 { clock++; return clock } // under mu
	var batches []*c16pBatch
	exec := func(ids []int) {
		mu.Lock()
		b := &c16pBatch{ids: append([]int(nil), ids...), start: tick()}
		batches = append(batches, b)
		mu.Unlock()
		runtime.Gosched()
		mu.Lock()
		b.end = tick()
		mu.Unlock()
	}
	anyExec := func(tasks []any) {
		ids := make([]int, len(tasks))
		for i, t := range tasks {
			ids[i] = t.(int)
		}
		exec(ids)
	}
	const never = time.Hour
	var add func(id, size int)
	var flush, wait func()
	switch c.Kind {
	case "bulk":
		be := executors.NewBulkExecutor(anyExec, executors.WithBulkTasks(c.Max), executors.WithBulkInterval(never))
		add, flush, wait = func(id, _ int) { _ = be.Add(id) }, be.Flush, be.Wait
	case "chunk":
		ce := executors.NewChunkExecutor(anyExec, executors.WithChunkBytes(c.Max), executors.WithFlushInterval(never))
		add, flush, wait = func(id, s int) { _ = ce.Add(id, s) }, ce.Flush, ce.Wait
	default:
		pe := executors.NewPeriodicalExecutor(never, &c16pContainer{max: c.Max, exec: exec})
		add, flush, wait = func(id, _ int) { pe.Add(id) }, func() { pe.Flush() }, pe.Wait
	}

	type op struct{ call, ret int64 }
	adds := map[int]*op{}
	var waits []*op
	ng := 0
	for _, e := range c.Ev {
		if e.G+1 > ng {
			ng = e.G + 1
		}
	}
	shutdowns, concurrent := 0, false
	var running int
	var wg sync.WaitGroup
	for g := 0; g < ng; g++ {
		wg.Add(1)
		go func(g int) {
			defer wg.Done()
			for i, e := range c.Ev {
				if e.G != g {
					continue
				}
				for y := 0; y < e.Y; y++ {
					runtime.Gosched()
				}
				switch e.K {
				case "add":
					mu.Lock()
					o := &op{call: tick()}
					adds[i] = o
					mu.Unlock()
					add(i, e.S)
					mu.Lock()
					o.ret = tick()
					mu.Unlock()
				case "flush":
					flush()
				case "wait":
					mu.Lock()
					o := &op{call: tick()}
					waits = append(waits, o)
					mu.Unlock()
					wait()
					mu.Lock()
					o.ret = tick()
					mu.Unlock()
				case "shutdown":
					mu.Lock()
					shutdowns++
					if running > 1 {
						concurrent = true
					}
					mu.Unlock()
					c16pNotifyShutdown()
				}
			}
			mu.Lock()
			running--
			mu.Unlock()
		}(g)
		mu.Lock()
		running++
		mu.Unlock()
	}
	wg.Wait()
	mu.Lock()
	final := &op{call: tick()}
	waits = append(waits, final)
	mu.Unlock()
	wait()
	mu.Lock()
	defer mu.Unlock()
	final.ret = tick()

	fail := ""
	failf := func(format string, a ...any) {
		if fail == "" {
			fail = fmt.Sprintf(format, a...)
		}
	}
	where := map[int]*c16pBatch{}
	for bi, b := range batches {
		last := map[int]int{}
		bytes := 0
		for _, id := range b.ids {
			if _, ok := adds[id]; !ok {
				failf("batch %d holds task %d that was never added", bi, id)
				continue
			}
			if _, dup := where[id]; dup {
				failf("task %d was passed to the execute function twice (second time in batch %d %v)", id, bi, b.ids)
			}
			where[id] = b
			g := c.Ev[id].G
			if l, ok := last[g]; ok && id < l {
				failf("batch %d %v: tasks of goroutine %d out of addition order", bi, b.ids, g)
			}
			last[g] = id
			bytes += c.Ev[id].S
		}
		switch c.Kind {
		case "bulk":
			if len(b.ids) > c.Max {
				failf("bulk batch %v has %d tasks > maxTasks %d", b.ids, len(b.ids), c.Max)
			}
		case "chunk":
			if n := len(b.ids); n > 0 && bytes-c.Ev[b.ids[n-1]].S >= c.Max {
				failf("chunk batch %v has %d bytes: exceeds the limit %d by at least its last task", b.ids, bytes, c.Max)
			}
		}
	}
	for id, o := range adds {
		b := where[id]
		if b == nil {
			failf("task %d was never passed to the execute function (%d batches, %d shutdown notifications, final Wait returned)", id, len(batches), shutdowns)
			continue
		}
		for wi, w := range waits {
			if o.ret != 0 && o.ret < w.call && w.ret != 0 && (b.end == 0 || b.end > w.ret) {
				failf("Wait #%d returned while task %d (its Add had returned before the Wait was called) had not finished executing", wi, id)
			}
		}
	}
	v.Fail = fail
	v.Classes = append(v.Classes, c.Kind)
	if shutdowns > 0 {
		v.Classes = append(v.Classes, "shutdown-listeners-fired")
	}
	if concurrent {
		v.Classes = append(v.Classes, "shutdown-while-other-goroutines-run")
	}
	sort.Strings(v.Classes)
	v.NonTrivial = concurrent && len(adds) >= 2
	return v
}

func c16pGen(rt *rapid.T) c16pCase {
	c := c16pCase{Kind: rapid.SampledFrom([]string{"bulk", "bulk", "chunk", "periodical"}).Draw(rt, "kind")}
	switch c.Kind {
	case "bulk":
		c.Max = rapid.IntRange(1, 5).Draw(rt, "max")
	case "chunk":
		c.Max = rapid.IntRange(1, 40).Draw(rt, "limit")
	default:
		c.Max = rapid.IntRange(0, 4).Draw(rt, "max")
	}
	ng := rapid.IntRange(1, 4).Draw(rt, "ng")
	n := rapid.IntRange(1, 24).Draw(rt, "nev")
	for i := 0; i < n; i++ {
		e := c16pEv{G: rapid.IntRange(0, ng-1).Draw(rt, "g")}
		e.K = rapid.SampledFrom([]string{"add", "add", "add", "add", "add", "add", "shutdown", "shutdown", "flush", "wait"}).Draw(rt, "k")
		if e.K == "add" && c.Kind == "chunk" {
			e.S = rapid.IntRange(0, 50).Draw(rt, "size")
		}
		e.Y = rapid.SampledFrom([]int{0, 0, 0, 1, 2, 3}).Draw(rt, "y")
		c.Ev = append(c.Ev, e)
	}
	return c
}

func TestVerif_C16_shutdown(t *testing.T) {
	kit.Run(t, "C16", "exec-shutdown", kit.Opts{Quick: 400, Thorough: 6400}, c16pGen, c16pInterp)
}
