package limit_test

// C08, unit variant "metrics": the token-outage rule in a process in which the
// library's metrics are switched ON the way an application does it (service
// config -> prometheus.StartAgent). Then the redis wrapper's go-redis hook
// really records durations and - during every outage - errors. "Keeps limiting
// with an in-process bucket" must hold in every legal process configuration: a
// Redis error must reach the limiter as an error, not as a panic out of the
// metrics hook. Own test binary (directory lib/limit@metrics), so the
// process-wide switch cannot leak into the other unit; the other files of this
// directory are symlinks to ../limit (same generator, interpreter, oracle).

import (
	"github.com/gotid/god/lib/prometheus"
)

func init() {
	prometheus.StartAgent(prometheus.Config{Host: "127.0.0.1", Port: 0, Path: "/metrics"})
	if !prometheus.Enabled() {
		panic("c08: prometheus agent not enabled")
	}
}
