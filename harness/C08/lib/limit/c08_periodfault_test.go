package limit_test

// C08, rule period-fault: the period limiter when single takes are interrupted.
//
// The statement fixes the codes of the takes of one window and says that the
// count starts afresh only after the window's expiry. It says nothing about a
// take that returns an ERROR: such a take is UNSPECIFIED in itself - it may or
// may not have been counted. What the statement still determines around it:
//
//   * every take that returns a code is counted exactly once, and its code is
//     the one of its position in the window - for SOME resolution of the
//     earlier uncertain takes (counted / not counted), the same resolution for
//     all later observations;
//   * a window is opened by its first counted take and expires one window
//     length of SERVER time later, whether or not the caller of that take ever
//     saw an answer: afterwards the count starts afresh;
//   * hence no window ever admits more than its quota.
//
// Reference model: per key the SET of states (count, window end) that are
// consistent with everything observed so far. A take that returned an error
// adds, to every state, the state in which it was counted. A take that
// returned a code keeps the states in which that code is the right one; an
// empty set is a violation.
//
// Interruptions (all produced by a legal caller or by the network, at the
// granularity of ONE command of ONE take; "a command of the take" is any
// command carrying the take's redis key, whatever the implementation sends):
//
//   cancel-exec / cancel-swallow: the caller's context is cancelled when the
//        server has received the At-th command (client hung up mid-request);
//        the server executes the command / the command is lost;
//   err:     the At-th command is answered with an error reply, not executed;
//   garble:  the At-th command is executed, its reply is unreadable;
//   expire-exec / expire-swallow: the same with a context that reports
//        DeadlineExceeded - a context that EXPIRES mid-call. (A real deadline of
//        a few ms cannot be used for this: go-redis turns it into a REAL-time
//        socket deadline, the client then gives up on a command that the server
//        executes whenever it gets to it - even after later steps of the case -
//        and the history is no longer the one the case describes. Virtual time
//        cannot pass while a command is on the wire either. So the expiry is
//        played by a caller-made Context whose Done channel is closed at the
//        chosen command and whose Err is context.DeadlineExceeded.)
//   loading: the At-th command is answered -LOADING (go-redis retries after a
//            back-off in bubble time and normally succeeds);
//   dead-cancelled / dead-expired: the context is dead before the call;
//   badreply-str / badreply-int: the At-th command is answered with something
//            that is no code of the script (+OK, :7), not executed.
//
// Takes under a LIVE context (cancellable, never cancelled; deadline one hour
// ahead) are ordinary takes and judged as such.

import (
	"context"
	"fmt"
	"sort"
	"strings"
	"sync"
	"testing"
	"time"

	"github.com/gotid/god/lib/limit"
	"github.com/gotid/god/lib/store/redis"
	"pgregory.net/rapid"
	"verif.local/kit"
)

type c08FOp struct {
	K   string `json:"k"`             // take | ftake | ctake | adv
	Key int    `json:"key,omitempty"` // index into the case's Keys
	N   int    `json:"n,omitempty"`   // ctake: concurrent callers
	D   int64  `json:"d,omitempty"`   // adv: milliseconds (server FastForward + virtual sleep)
	F   string `json:"f,omitempty"`   // ftake: kind of interruption; take: "" Take | "bg" | "live-cancel" | "live-deadline" (TakeCtx)
	At  int    `json:"at,omitempty"`  // ftake: the At-th command of the take
	T   int    `json:"t,omitempty"`   // take under live-deadline: seconds of bubble time until the deadline (5, 60, 3600: never reached during the call)
}

type c08FCase struct {
	Lim  c08PLim  `json:"lim"`
	Zone int      `json:"zone,omitempty"`
	Keys []int    `json:"keys"`
	Ops  []c08FOp `json:"ops"`
}

var c08FaultKinds = map[string]int32{
	"cancel-exec": c08FCancelExec, "cancel-swallow": c08FCancelSwallow, "err": c08FErr, "garble": c08FGarble,
	"expire-exec": c08FCancelExec, "expire-swallow": c08FCancelSwallow, "loading": c08FLoading, "badreply-str": c08FBadStr, "badreply-int": c08FBadInt,
	"dead-cancelled": c08FNone, "dead-expired": c08FNone,
}

// c08ExpiringCtx: a caller-made context that expires when its parent is
// cancelled (see the note on expire-exec above).
type c08ExpiringCtx struct{ context.Context }

func (c c08ExpiringCtx) Err() error {
	if c.Context.Err() != nil {
		return context.DeadlineExceeded
	}
	return nil
}

// ---- reference model: the set of states consistent with the observations ----

type c08FState struct {
	count int   // takes counted in the open window (0: no window); values above quota+1 are kept at quota+1
	end   int64 // server ms at which the open window expires
}

type c08FKey struct{ states []c08FState }

type c08FModel struct {
	quota int
	keys  map[int]*c08FKey
}

func (m *c08FModel) key(k int) *c08FKey {
	if m.keys[k] == nil {
		m.keys[k] = &c08FKey{states: []c08FState{{}}}
	}
	return m.keys[k]
}

func (m *c08FModel) code(count int) int {
	switch {
	case count < m.quota:
		return c08Allowed
	case count == m.quota:
		return c08HitQuota
	}
	return c08OverQuota
}

func c08FDedupe(in []c08FState) []c08FState {
	seen := map[c08FState]bool{}
	out := in[:0:0]
	for _, s := range in {
		if !seen[s] {
			seen[s] = true
			out = append(out, s)
		}
	}
	sort.Slice(out, func(i, j int) bool {
		if out[i].count != out[j].count {
			return out[i].count < out[j].count
		}
		return out[i].end < out[j].end
	})
	return out
}

// expire: windows that ended at or before nowMs are gone.
func (m *c08FModel) expire(k int, nowMs int64) {
	ks := m.key(k)
	for i, s := range ks.states {
		if s.count > 0 && nowMs >= s.end {
			ks.states[i] = c08FState{}
		}
	}
	ks.states = c08FDedupe(ks.states)
}

// counted: the states after one more counted take at nowMs; a window opened by
// it lasts one of windowsMs (two candidates only when the bubble clock crossed
// a second during an aligned take).
func (m *c08FModel) counted(s c08FState, nowMs int64, windowsMs []int64) []c08FState {
	if s.count == 0 {
		var out []c08FState
		for _, w := range windowsMs {
			out = append(out, c08FState{1, nowMs + w})
		}
		return out
	}
	if s.count <= m.quota {
		s.count++
	}
	return []c08FState{s}
}

// observe: a take returned code at nowMs. false: no state explains it.
func (m *c08FModel) observe(k int, nowMs int64, windowsMs []int64, code int) bool {
	m.expire(k, nowMs)
	ks := m.key(k)
	var next []c08FState
	for _, s := range ks.states {
		for _, n := range m.counted(s, nowMs, windowsMs) {
			if m.code(n.count) == code {
				next = append(next, n)
			}
		}
	}
	if len(next) == 0 {
		return false
	}
	ks.states = c08FDedupe(next)
	return true
}

// uncertain: a take returned an error at nowMs: counted or not.
func (m *c08FModel) uncertain(k int, nowMs int64, windowsMs []int64) {
	m.expire(k, nowMs)
	ks := m.key(k)
	next := append([]c08FState(nil), ks.states...)
	for _, s := range ks.states {
		next = append(next, m.counted(s, nowMs, windowsMs)...)
	}
	ks.states = c08FDedupe(next)
}

// observeBatch: n concurrent takes returned the multiset codes (sorted).
func (m *c08FModel) observeBatch(k int, nowMs int64, windowsMs []int64, codes []int) bool {
	m.expire(k, nowMs)
	ks := m.key(k)
	var next []c08FState
	for _, s0 := range ks.states {
		for _, w := range windowsMs {
			s := s0
			want := make([]int, 0, len(codes))
			for range codes {
				s = m.counted(s, nowMs, []int64{w})[0]
				want = append(want, m.code(s.count))
			}
			sort.Ints(want)
			if fmt.Sprint(want) == fmt.Sprint(codes) {
				next = append(next, s)
			}
		}
	}
	if len(next) == 0 {
		return false
	}
	ks.states = c08FDedupe(next)
	return true
}

func (m *c08FModel) describe(k int) string {
	var parts []string
	for _, s := range m.key(k).states {
		if s.count == 0 {
			parts = append(parts, "no window")
		} else {
			parts = append(parts, fmt.Sprintf("count %d, window ends at %dms", s.count, s.end))
		}
	}
	return "{" + strings.Join(parts, " | ") + "}"
}

func (m *c08FModel) maxEnd() int64 {
	var e int64
	for _, ks := range m.keys {
		for _, s := range ks.states {
			if s.count > 0 && s.end > e {
				e = s.end
			}
		}
	}
	return e
}

// ---- interpreter ----

func c08PeriodFaultInterp(t *testing.T, c c08FCase) (v kit.Verdict) {
	srv := c08GetServer()
	srv.reset()
	c08Seq++
	var fail string
	classes := map[string]bool{}
	nontrivial := false
	stalled := false
	oldLocal := time.Local
	if c.Zone != 0 {
		time.Local = time.FixedZone("c08", c.Zone)
	}
	defer func() { time.Local = oldLocal }()
	res := kit.Bubble(t, func() {
		store := redis.New(srv.addr)
		prefix := fmt.Sprintf("c08f%d:%s", c08Seq, c08KeyAlphabet[c.Lim.Prefix%len(c08KeyAlphabet)])
		var pl *limit.PeriodLimit
		if c.Lim.Align {
			pl = limit.NewPeriodLimit(c.Lim.Period, c.Lim.Quota, store, prefix, limit.Align())
			classes["align"] = true
		} else {
			pl = limit.NewPeriodLimit(c.Lim.Period, c.Lim.Quota, store, prefix)
		}
		model := &c08FModel{quota: c.Lim.Quota, keys: map[int]*c08FKey{}}
		var serverMs int64
		keyName := func(k int) string { return c08KeyAlphabet[c.Keys[k%len(c.Keys)]%len(c08KeyAlphabet)] }
		window := func() int64 {
			return c08WindowSeconds(c.Lim.Period, c.Lim.Align, time.Now().Unix(), c.Zone) * 1000
		}
		windows := func(before, after int64) []int64 {
			if before == after {
				return []int64{before}
			}
			classes["aligned-take-crossed-a-second"] = true
			return []int64{before, after}
		}
		// mayOpen[k]: an errored take may have opened a window of key k that no
		// take with a code has been judged after yet
		mayOpen := map[int]bool{}
		used := map[int]bool{}
		anyUncertain := false
		// what every take so far returned, for the failure message
		var trace []string
		defer func() {
			if fail != "" {
				fail += "; outcomes so far (op:code, E = error): " + strings.Join(trace, " ")
			}
		}()

		// judged take with a code
		judge := func(what string, k int, wins []int64, got int) bool {
			model.expire(k, serverMs)
			before := model.describe(k)
			single := len(model.key(k).states) == 1 && model.key(k).states[0].count == 0
			if !model.observe(k, serverMs, wins, got) {
				fail = fmt.Sprintf("%s: Take=%d (1 Allowed, 2 HitQuota, 3 OverQuota) at server t=%dms; quota %d; states of the key consistent with the history so far (every take that returned an error counted or not): %s - none of them yields this code (a window lasts from its first counted take for one period of server time, then the count starts afresh)",
					what, got, serverMs, c.Lim.Quota, before)
				return false
			}
			if mayOpen[k] && single {
				classes["fresh-start-after-window-possibly-opened-by-interrupted-take"] = true
				nontrivial = true
				mayOpen[k] = false
			}
			if got == c08OverQuota {
				classes["over-quota"] = true
			}
			return true
		}

		for n, o := range c.Ops {
			k := o.Key % len(c.Keys)
			what := fmt.Sprintf("op %d %+v key %s (limiter period %ds quota %d align %v, zone %+ds)", n, o, c08KeyLabel(c.Keys[k]), c.Lim.Period, c.Lim.Quota, c.Lim.Align, c.Zone)
			switch o.K {
			case "adv":
				srv.fastForward(time.Duration(o.D) * time.Millisecond)
				time.Sleep(time.Duration(o.D) * time.Millisecond)
				serverMs += o.D
			case "take":
				used[k] = true
				ctx := context.Background()
				switch o.F {
				case "live-cancel":
					var cancel context.CancelFunc
					ctx, cancel = context.WithCancel(ctx)
					defer cancel()
					classes["take-under-live-cancellable-context"] = true
				case "live-deadline":
					var cancel context.CancelFunc
					dl := time.Duration(o.T) * time.Second
					if dl < 5*time.Second {
						dl = time.Hour
					}
					ctx, cancel = context.WithTimeout(ctx, dl)
					defer cancel()
					classes["take-under-live-deadline-context"] = true
					if dl < time.Duration(c.Lim.Period)*time.Second {
						classes["take-under-live-deadline-shorter-than-the-period"] = true
					}
				}
				wb := window()
				t0 := srv.realNow()
				var got int
				var err error
				if o.F == "" {
					got, err = pl.Take(keyName(k))
				} else {
					got, err = pl.TakeCtx(ctx, keyName(k))
				}
				if srv.realNow().Sub(t0) > c08Stall {
					stalled = true
					return
				}
				if err != nil {
					fail = fmt.Sprintf("%s: Take error %v (nothing was injected into this take)", what, err)
					return
				}
				trace = append(trace, fmt.Sprintf("%d:%d", n, got))
				if !judge(what, k, windows(wb, window()), got) {
					return
				}
			case "ctake":
				used[k] = true
				got := make([]int, o.N)
				errs := make([]error, o.N)
				var wg sync.WaitGroup
				wb := window()
				t0 := srv.realNow()
				for j := 0; j < o.N; j++ {
					wg.Add(1)
					go func(j int) {
						defer wg.Done()
						got[j], errs[j] = pl.Take(keyName(k))
					}(j)
				}
				wg.Wait()
				if srv.realNow().Sub(t0) > c08Stall {
					stalled = true
					return
				}
				for _, err := range errs {
					if err != nil {
						fail = fmt.Sprintf("%s: concurrent Take error %v (nothing was injected)", what, err)
						return
					}
				}
				sort.Ints(got)
				trace = append(trace, fmt.Sprintf("%d:%v", n, got))
				model.expire(k, serverMs)
				before := model.describe(k)
				if !model.observeBatch(k, serverMs, windows(wb, window()), got) {
					fail = fmt.Sprintf("%s: concurrent takes returned the codes %v at server t=%dms; quota %d; states consistent with the history so far: %s - from none of them do %d takes in a row yield this multiset",
						what, got, serverMs, c.Lim.Quota, before, o.N)
					return
				}
				mayOpen[k] = false
				classes["concurrent-batch"] = true
			case "ftake":
				kind, known := c08FaultKinds[o.F]
				if !known {
					continue
				}
				used[k] = true
				ctx := context.Background()
				var cancel context.CancelFunc = func() {}
				switch o.F {
				case "cancel-exec", "cancel-swallow":
					ctx, cancel = context.WithCancel(ctx)
				case "expire-exec", "expire-swallow":
					ctx, cancel = context.WithCancel(ctx)
					ctx = c08ExpiringCtx{ctx}
				case "dead-cancelled":
					ctx, cancel = context.WithCancel(ctx)
					cancel()
				case "dead-expired":
					ctx, cancel = context.WithTimeout(ctx, time.Millisecond)
					time.Sleep(2 * time.Millisecond) // bubble time only
				}
				var quit, wdone chan struct{}
				if kind != c08FNone {
					srv.arm(prefix+keyName(k), o.At, kind)
				}
				if kind == c08FCancelExec || kind == c08FCancelSwallow {
					// the goroutine that plays "the client hangs up": it belongs to the
					// bubble (the context's channel does), the server asks it to act
					quit, wdone = make(chan struct{}), make(chan struct{})
					go func() {
						defer close(wdone)
						select {
						case <-srv.trig:
							cancel()
							srv.fack <- struct{}{}
						case <-quit:
						}
					}()
				}
				model.expire(k, serverMs)
				couldOpen := false
				for _, s := range model.key(k).states {
					if s.count == 0 {
						couldOpen = true
					}
				}
				wb := window()
				t0 := srv.realNow()
				got, err := pl.TakeCtx(ctx, keyName(k))
				slow := srv.realNow().Sub(t0) > c08Stall
				wins := windows(wb, window())
				fired, seen, ok := false, 0, true
				if kind != c08FNone {
					fired, seen, ok = srv.disarm()
				}
				if quit != nil {
					close(quit)
					<-wdone
				}
				cancel()
				if slow || !ok {
					stalled = true
					return
				}
				if fired {
					classes[fmt.Sprintf("%s-at-command-%d-of-the-take", o.F, o.At)] = true
				} else if kind != c08FNone {
					classes[fmt.Sprintf("fault-aimed-at-command-%d-take-sent-%d", o.At, seen)] = true
				} else {
					classes[o.F] = true
				}
				if err != nil {
					trace = append(trace, fmt.Sprintf("%d:E(fired=%v,sent=%d)", n, fired, seen))
				} else {
					trace = append(trace, fmt.Sprintf("%d:%d(fired=%v,sent=%d)", n, got, fired, seen))
				}
				if err != nil {
					// UNSPECIFIED in itself: counted or not
					model.uncertain(k, serverMs, wins)
					anyUncertain = true
					classes["interrupted-take-returned-error"] = true
					if couldOpen {
						mayOpen[k] = true
						classes["interrupted-take-may-have-opened-the-window"] = true
					}
					if got != limit.Unknown {
						classes["error-with-a-code"] = true
					}
				} else {
					classes["interrupted-take-returned-a-code"] = true
					if !judge(what, k, wins, got) {
						return
					}
				}
			}
		}
		// closing: after every window that may be open has expired the count of
		// every key starts afresh
		if anyUncertain {
			if d := model.maxEnd() - serverMs; d > 0 {
				d += int64(len(c.Ops)%3) * 500 // exactly at the latest possible expiry, 0.5 s or 1 s later
				srv.fastForward(time.Duration(d) * time.Millisecond)
				time.Sleep(time.Duration(d) * time.Millisecond)
				serverMs += d
			}
			var ks []int
			for k := range used {
				ks = append(ks, k)
			}
			sort.Ints(ks)
			for _, k := range ks {
				wb := window()
				t0 := srv.realNow()
				got, err := pl.Take(keyName(k))
				if srv.realNow().Sub(t0) > c08Stall {
					stalled = true
					return
				}
				what := fmt.Sprintf("closing take of key %s after every window that can be open has expired (limiter period %ds quota %d align %v)", c08KeyLabel(c.Keys[k]), c.Lim.Period, c.Lim.Quota, c.Lim.Align)
				if err != nil {
					fail = fmt.Sprintf("%s: Take error %v", what, err)
					return
				}
				if !judge(what, k, windows(wb, window()), got) {
					return
				}
			}
		}
	})
	v.NonTrivial = nontrivial
	v.Classes = c08Classes(classes)
	if stalled {
		return kit.Verdict{Excluded: true, Classes: []string{"excluded-real-time-stall"}}
	}
	if fail != "" {
		v.Fail = fail
	} else if !res.OK() {
		v.Fail = "bubble: " + res.String()
	}
	return v
}

// ---- generator ----

func c08PeriodFaultGen(rt *rapid.T) c08FCase {
	c := c08FCase{Lim: c08PLim{
		Period: rapid.IntRange(1, 20).Draw(rt, "period"),
		Quota:  rapid.IntRange(1, 6).Draw(rt, "quota"),
		Align:  rapid.IntRange(0, 3).Draw(rt, "align") == 0,
		Prefix: rapid.IntRange(0, len(c08KeyAlphabet)-1).Draw(rt, "prefix"),
	}}
	if rapid.IntRange(0, 5).Draw(rt, "long-period") == 0 {
		c.Lim.Period = rapid.SampledFrom(c08Periods).Draw(rt, "period-l")
	}
	c.Zone = rapid.SampledFrom(c08Zones).Draw(rt, "zone")
	nk := rapid.IntRange(1, 2).Draw(rt, "keys")
	seen := map[int]bool{}
	for len(c.Keys) < nk {
		k := rapid.IntRange(0, len(c08KeyAlphabet)-1).Draw(rt, "key-alpha")
		if !seen[k] {
			seen[k] = true
			c.Keys = append(c.Keys, k)
		}
	}
	const epoch = int64(946684800)
	// the generator's own copy of the bookkeeping, only to aim (every interrupted take taken as uncertain)
	model := &c08FModel{quota: c.Lim.Quota, keys: map[int]*c08FKey{}}
	var nowMs int64
	win := func() []int64 {
		return []int64{c08WindowSeconds(c.Lim.Period, c.Lim.Align, epoch+nowMs/1000, c.Zone) * 1000}
	}
	adv := func(d int64) {
		c.Ops = append(c.Ops, c08FOp{K: "adv", D: d})
		nowMs += d
	}
	if rapid.Bool().Draw(rt, "phase") {
		adv(int64(rapid.IntRange(1, c.Lim.Period*1000+999).Draw(rt, "phase-ms")))
	}
	// budget: interruptions that the redis wrapper's breaker counts as failures
	// (everything but a cancelled context) stay at its protection of 5 per case,
	// so that the breaker never rejects a take by itself
	failing, cancels := 0, 0
	faults := []string{"cancel-exec", "cancel-exec", "cancel-swallow", "err", "err", "garble", "garble", "loading", "expire-exec", "expire-swallow",
		"dead-cancelled", "dead-expired", "badreply-str", "badreply-int"}
	n := rapid.IntRange(2, 30).Draw(rt, "nops")
	for i := 0; i < n; i++ {
		kind := rapid.SampledFrom([]string{"take", "take", "take", "take", "ftake", "ftake", "ftake", "ctake", "adv", "adv", "adv"}).Draw(rt, "kind")
		key := rapid.IntRange(0, nk-1).Draw(rt, "key")
		switch kind {
		case "take":
			f := rapid.SampledFrom([]string{"", "", "bg", "live-cancel", "live-deadline"}).Draw(rt, "ctx")
			model.expire(key, nowMs)
			ks := model.key(key)
			var next []c08FState
			for _, s := range ks.states {
				next = append(next, model.counted(s, nowMs, win())...)
			}
			ks.states = c08FDedupe(next)
			o := c08FOp{K: "take", Key: key, F: f}
			if f == "live-deadline" {
				o.T = rapid.SampledFrom([]int{5, 60, 3600}).Draw(rt, "deadline-s")
			}
			c.Ops = append(c.Ops, o)
		case "ctake":
			k := rapid.IntRange(2, 6).Draw(rt, "callers")
			for j := 0; j < k; j++ {
				model.expire(key, nowMs)
				ks := model.key(key)
				var next []c08FState
				for _, s := range ks.states {
					next = append(next, model.counted(s, nowMs, win())...)
				}
				ks.states = c08FDedupe(next)
			}
			c.Ops = append(c.Ops, c08FOp{K: "ctake", Key: key, N: k})
		case "ftake":
			// half of the interruptions hit a take that would open a window
			if rapid.Bool().Draw(rt, "aim-at-window-opening") {
				for k2 := 0; k2 < nk; k2++ {
					model.expire(k2, nowMs)
					for _, s := range model.key(k2).states {
						if s.count == 0 {
							key = k2
						}
					}
				}
			}
			f := rapid.SampledFrom(faults).Draw(rt, "fault")
			if f == "cancel-exec" || f == "cancel-swallow" || f == "dead-cancelled" {
				if cancels >= 6 {
					continue
				}
				cancels++
			} else {
				if failing >= 5 {
					continue
				}
				failing++
			}
			o := c08FOp{K: "ftake", Key: key, F: f, At: rapid.SampledFrom([]int{1, 1, 2, 2, 3}).Draw(rt, "at")}
			if c08FaultKinds[f] == c08FNone {
				o.At = 0
			}
			model.uncertain(key, nowMs, win())
			c.Ops = append(c.Ops, o)
		case "adv":
			var d int64
			switch rapid.SampledFrom([]string{"edge", "edge", "edge", "period", "small", "mid"}).Draw(rt, "adv-kind") {
			case "mid":
				// somewhere inside a window
				d = int64(c.Lim.Period) * 250 * int64(rapid.IntRange(1, 3).Draw(rt, "quarters"))
			case "edge":
				var ends []int64
				for k2 := 0; k2 < nk; k2++ {
					for _, s := range model.key(k2).states {
						if s.count > 0 && s.end > nowMs {
							ends = append(ends, s.end)
						}
					}
				}
				if len(ends) > 0 {
					end := ends[rapid.IntRange(0, len(ends)-1).Draw(rt, "which")]
					d = end - nowMs + int64(rapid.SampledFrom([]int{-1000, -1, 0, 0, 1, 1000}).Draw(rt, "delta"))
				}
			case "period":
				d = int64(c.Lim.Period)*1000 + int64(rapid.SampledFrom([]int{-1000, 0, 1000}).Draw(rt, "delta"))
			}
			if d <= 0 {
				d = int64(rapid.IntRange(1, 1500).Draw(rt, "small-ms"))
			}
			adv(d)
		}
	}
	return c
}

func TestVerif_C08_period_fault(t *testing.T) {
	c08GetServer()
	kit.Run(t, "C08", "period-fault", kit.Opts{Quick: 600, Thorough: 24000}, c08PeriodFaultGen,
		func(c c08FCase) kit.Verdict { return c08PeriodFaultInterp(t, c) })
}
