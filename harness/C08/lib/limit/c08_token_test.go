package limit_test

import (
	"context"
	"fmt"
	"runtime"
	"sort"
	"sync"
	"testing"
	"time"

	"github.com/gotid/god/lib/limit"
	"github.com/gotid/god/lib/store/redis"
	"pgregory.net/rapid"
	"verif.local/kit"
)

// ---- case ----

type c08TLim struct {
	Rate  int `json:"rate"`
	Burst int `json:"burst"`
	Share int `json:"share,omitempty"` // 0: a key of its own; s>0: the limiters with the same s use ONE key (config reload, mixed deployment)
	Key   int `json:"key,omitempty"`   // index into c08KeyAlphabet (a share group uses the entry of its first member)
}

type c08TOp struct {
	K string `json:"k"`           // allow | noise (C failing foreign commands, then 11 s) | callow (C identical concurrent) | rallow (C identical in a row) | mallow | adv | outage | recover | cancel
	L int    `json:"l,omitempty"` // limiter index
	N int    `json:"n,omitempty"` // tokens requested
	C int    `json:"c,omitempty"` // callow: concurrent callers, each requesting N
	D int    `json:"d,omitempty"` // adv / recover: milliseconds
	M string `json:"m,omitempty"` // adv: "" both clocks | "caller" | "server"; outage: kind
	V string `json:"v,omitempty"` // allow: entry point, "" AllowN | "ctx" AllowNCtx | "now" Allow | "nowctx" AllowCtx (n = 1, clocks coupled)
	X int    `json:"x,omitempty"` // allow with V "ctx": 0 context.Background, k>0 the case's context k; cancel: context k
	S bool   `json:"s,omitempty"` // recover: the server that answers again is a new process - its script cache is empty
	// mallow: concurrent callers of ONE limiter released from a barrier, caller j
	// requests Ns[j] tokens with now = caller clock + Ds[j] ms (same whole second)
	Ns []int `json:"ns,omitempty"`
	Ds []int `json:"ds,omitempty"`
}

// c08TCtx: a request context of the case, created when the case starts.
// "cancel": live until a cancel op names it. "deadline": expires T ms of
// bubble time after the start.
type c08TCtx struct {
	Kind string `json:"kind"`
	T    int    `json:"t,omitempty"`
}

type c08TCase struct {
	Store int       `json:"store,omitempty"` // how the shared *redis.Redis is built: c08StoreNode ...
	Cfg   bool      `json:"cfg,omitempty"`   // built from the service configuration (redis.Config{...}.NewRedis()) instead of redis.New(addr, opts...)
	Lims  []c08TLim `json:"lims"`
	Ctxs  []c08TCtx `json:"ctxs,omitempty"`
	Ops   []c08TOp  `json:"ops"`
}

// ---- reference bucket in whole caller seconds (the Redis side), from the statement ----
//
// Capacity burst, full when unknown, refilled by rate tokens for every whole
// second of caller time since the previous call, a request for n is granted iff
// n tokens are there. The server forgets a bucket that was not touched for
// floor(2*burst/rate) seconds of SERVER time (then it is full again), which is
// a no-op whenever caller time advances at least as much as server time.

// What the server keeps for a key is the token count, the caller second of the
// last call and a time-to-live chosen by the last caller. Several limiter
// instances (possibly with different rate/burst: a reloaded configuration, a
// mixed deployment) may use one key; each decision is then the one of the
// CALLER's bucket applied to the shared state: min(burst_caller, stored +
// elapsed seconds * rate_caller) tokens are available.

type c08State struct {
	present bool
	tokens  int64
	sec     int64 // caller second of the last call
	touched int64 // server ms of the last call
	ttl     int64 // ms of server time after which the state is forgotten (set by the last caller)
}

type c08Bucket struct {
	rate, burst int64
	st          *c08State
	forgot      bool // last call found the state forgotten while the bucket was not full by caller time
}

func c08NewBucket(rate, burst int, st *c08State) *c08Bucket {
	if st == nil {
		st = &c08State{}
	}
	return &c08Bucket{rate: int64(rate), burst: int64(burst), st: st}
}

// c08NewBuckets: one reference bucket per limiter; limiters of one share group use one state.
func c08NewBuckets(lims []c08TLim) []*c08Bucket {
	shared := map[int]*c08State{}
	out := make([]*c08Bucket, len(lims))
	for i, l := range lims {
		var st *c08State
		if l.Share > 0 {
			if shared[l.Share] == nil {
				shared[l.Share] = &c08State{}
			}
			st = shared[l.Share]
		}
		out[i] = c08NewBucket(l.Rate, l.Burst, st)
	}
	return out
}

func (b *c08Bucket) ttlMs() int64 { return (2 * b.burst / b.rate) * 1000 }

func (b *c08Bucket) filled(sec, serverMs int64) (filled int64, expired bool) {
	st := b.st
	if st.present && serverMs-st.touched >= st.ttl {
		expired = true
	}
	if !st.present || expired {
		return b.burst, expired
	}
	d := sec - st.sec
	if d < 0 {
		d = 0
	}
	if d > b.burst/b.rate+1 { // enough to fill it from empty (and no overflow below)
		return b.burst, false
	}
	filled = st.tokens + d*b.rate
	if filled > b.burst {
		filled = b.burst
	}
	return filled, false
}

func (b *c08Bucket) allow(sec, serverMs, n int64) bool {
	filled, expired := b.filled(sec, serverMs)
	st := b.st
	b.forgot = false
	if expired {
		// would caller time alone have refilled it?
		d := sec - st.sec
		if d < 0 {
			d = 0
		}
		if d <= b.burst/b.rate+1 && st.tokens+d*b.rate < b.burst {
			b.forgot = true
		}
	}
	ok := filled >= n
	if ok {
		filled -= n
	}
	st.present, st.tokens, st.sec, st.touched, st.ttl = true, filled, sec, serverMs, b.ttlMs()
	return ok
}

// mixed: concurrent requests ns[j] (all in caller second sec) with observed
// decisions got[j]. Reports whether SOME sequential order of the calls yields
// exactly these decisions, and if so applies it. The tokens left after a set of
// calls depend only on which of them were granted, so a search over subsets
// (done[mask]) covers all orders.
func (b *c08Bucket) mixed(sec, serverMs int64, ns []int64, got []bool) bool {
	filled, _ := b.filled(sec, serverMs)
	k := len(ns)
	left := func(mask int) int64 {
		t := filled
		for j := 0; j < k; j++ {
			if mask&(1<<j) != 0 && got[j] {
				t -= ns[j]
			}
		}
		return t
	}
	reach := make([]bool, 1<<k)
	reach[0] = true
	for mask := 0; mask < 1<<k; mask++ {
		if !reach[mask] {
			continue
		}
		t := left(mask)
		for j := 0; j < k; j++ {
			if mask&(1<<j) == 0 && got[j] == (t >= ns[j]) {
				reach[mask|1<<j] = true
			}
		}
	}
	if !reach[1<<k-1] {
		return false
	}
	st := b.st
	st.present, st.tokens, st.sec, st.touched, st.ttl = true, left(1<<k-1), sec, serverMs, b.ttlMs()
	b.forgot = false
	return true
}

// ---- reference bucket in continuous caller time (the in-process side) ----
//
// Same rate and burst, full at the start; level in millitokens so that rate
// tokens/s = rate millitokens/ms is exact in integers (caller times are whole
// milliseconds). level >= n must be granted. The fallback refills at exactly
// `rate` (since 64da626: xrate.Limit(rate); before, the per-token interval was
// rounded down to whole nanoseconds and the reference carried a slack term for
// that). What remains is the clock resolution of golang.org/x/time/rate: it
// computes waits in whole nanoseconds and forgives a deficit worth less than
// 1 ns of refill, so a request missing less than tol() may go either way (the
// model then follows the observation); anything lower must be denied.

const c08Tol = 1 // millitoken

// tol: what 1 ns of refill is worth, in millitokens, rounded up (1 for every
// rate up to 10^6; above that 1 ns is worth more than a millitoken).
func (r *c08Rescue) tol() int64 { return c08Tol + (r.rate-1)/1e6 }

type c08Rescue struct {
	rate, burst int64
	init        bool
	level       int64
	last        int64
}

func (r *c08Rescue) advance(nowMs int64) {
	if !r.init {
		r.init, r.level, r.last = true, r.burst*1000, nowMs
		return
	}
	if nowMs > r.last {
		d := nowMs - r.last
		if d > r.burst*1000/r.rate+1 { // enough to fill it from empty (and no overflow below)
			r.level = r.burst * 1000
		} else {
			r.level += r.rate * d
			if r.level >= r.burst*1000 {
				r.level = r.burst * 1000
			}
		}
		r.last = nowMs
	}
}

// decide: +1 must grant, -1 must deny, 0 either.
func (r *c08Rescue) decide(nowMs, n int64) int {
	r.advance(nowMs)
	switch need := n * 1000; {
	case r.level >= need:
		return 1
	case r.level < need-r.tol():
		return -1
	}
	return 0
}

func (r *c08Rescue) consume(n int64) { r.level -= n * 1000 }

// ---- interpreter (all token rules) ----

type c08Grant struct{ sec, n int64 }

const (
	c08RuleToken   = iota // no outage; caller-only / server-only clock steps
	c08RuleOutage         // deterministic outages (error replies), exact oracle
	c08RuleRestart        // real Close/Restart of the server, tolerant oracle
)

func c08TokenInterp(t *testing.T, c c08TCase, rule int) (v kit.Verdict) {
	srv := c08GetServerFor(c.Store % c08StoreKinds)
	if c08WarmupErr != "" {
		return kit.Verdict{Fail: c08WarmupErr}
	}
	srv.reset()
	c08Seq++
	var fail string
	classes := map[string]bool{}
	ntDenyThenGrant := false
	ntOutageDeny, ntRecovered := false, false
	stalled := false
	ctxRace := false
	classes["store-"+c08StoreNames[c.Store%c08StoreKinds]] = true
	res := kit.Bubble(t, func() {
		store := redis.New(srv.addr, c08StoreOpts(c.Store%c08StoreKinds)...)
		if c.Cfg {
			// the way a service gets its store: from the configuration
			conf := redis.Config{Host: srv.addr, Type: redis.NodeType}
			if k := c.Store % c08StoreKinds; k == c08StoreCluster || k == c08StoreClusterPass {
				conf.Type = redis.ClusterType
			}
			if srv.auth {
				conf.Pass = c08Pass
			}
			if err := conf.Validate(); err != nil {
				fail = "redis.Config.Validate: " + err.Error()
				return
			}
			store = conf.NewRedis()
			classes["store-built-from-config"] = true
		}
		ctxs := make([]context.Context, len(c.Ctxs))
		for i, x := range c.Ctxs {
			var cancel context.CancelFunc
			if x.Kind == "deadline" {
				ctxs[i], cancel = context.WithTimeout(context.Background(), time.Duration(x.T)*time.Millisecond)
			} else {
				ctxs[i], cancel = context.WithCancel(context.Background())
			}
			defer cancel()
		}
		cancels := make([]context.CancelFunc, len(c.Ctxs))
		for i := range ctxs {
			var cc context.CancelFunc
			ctxs[i], cc = context.WithCancel(ctxs[i]) // the handle the cancel op uses
			cancels[i] = cc
			defer cc()
		}
		base := c08Epoch // caller clock origin: data, independent of the bubble clock
		nl := len(c.Lims)
		lims := make([]*limit.TokenLimiter, nl)
		var redisB []*c08Bucket
		rescB := make([]*c08Rescue, nl)
		keys := make([]string, nl)
		grants := make([][]c08Grant, nl)
		denied := make([]bool, nl)     // a Redis-side denial happened
		outDenied := make([]bool, nl)  // a denial in the current outage
		outTokens := make([]int64, nl) // tokens requested in the current outage
		onRedis := make([]bool, nl)    // restart rule: served by Redis since the last restart
		detectCtx := make([]int, nl)   // context (1-based, 0 none) of the first request of the current outage
		firstInOutage := make([]bool, nl)
		redisB = c08NewBuckets(c.Lims)
		sharedKey := map[int]int{}
		for _, l := range c.Lims {
			sharedKey[l.Share]++
		}
		groupAlpha := map[int]int{}
		for i, l := range c.Lims {
			alpha := l.Key % len(c08KeyAlphabet)
			// the caller's key first, the harness' disambiguation (case, instance) last
			keys[i] = fmt.Sprintf("%s:c08t%d_%d", c08KeyAlphabet[alpha], c08Seq, i)
			if l.Share > 0 {
				if _, ok := groupAlpha[l.Share]; !ok {
					groupAlpha[l.Share] = alpha
				}
				alpha = groupAlpha[l.Share]
				keys[i] = fmt.Sprintf("%s:c08t%d_s%d", c08KeyAlphabet[alpha], c08Seq, l.Share)
				if sharedKey[l.Share] > 1 {
					classes["limiters-sharing-one-key"] = true
				}
			}
			if alpha >= 2 {
				classes["key-outside-[a-z0-9]"] = true
			}
			if l.Rate >= 1000 {
				classes["rate>=1000"] = true
			}
			if l.Rate > 1e9 {
				classes["rate>10^9"] = true
			}
			if l.Burst >= 65535 {
				classes["burst>=65535"] = true
			}
			lims[i] = limit.NewTokenLimiter(l.Rate, l.Burst, store, keys[i])
			rescB[i] = &c08Rescue{rate: int64(l.Rate), burst: int64(l.Burst)}
		}
		var callerMs, serverMs int64
		down := false
		outages := 0
		serverOnly := false
		blackhole := false // the current outage accepts connections and never answers
		noised := false    // other users of the shared store had a run of failing commands, > 10 s ago

		// Redis side: sequential model; identical requests => the number of grants is order-independent
		judgeRedis := func(what string, l int, sec, n int64, callers, granted int) bool {
			b := redisB[l]
			if f, _ := b.filled(sec, serverMs); f == n {
				classes["request-equals-available"] = true
			}
			if _, exp := b.filled(sec, serverMs); !exp && b.st.present && b.st.tokens > b.burst && sec <= b.st.sec {
				classes["shared-key-holds-more-than-callers-burst-same-second"] = true
			}
			want := 0
			for j := 0; j < callers; j++ {
				if b.allow(sec, serverMs, n) {
					want++
				}
				if b.forgot {
					classes["bucket-forgotten-by-server-ttl"] = true
				}
			}
			if granted != want {
				fail = fmt.Sprintf("%s: caller second %d, server t=%dms: %d of %d requests for %d tokens granted, reference bucket (rate %d burst %d) grants %d (tokens left in model %d)",
					what, sec, serverMs, granted, callers, n, b.rate, b.burst, want, b.st.tokens)
				return false
			}
			for j := 0; j < granted; j++ {
				grants[l] = append(grants[l], c08Grant{sec, n})
			}
			if granted < callers {
				denied[l] = true
				classes["deny"] = true
			}
			if granted > 0 && denied[l] {
				classes["grant-after-deny"] = true
				ntDenyThenGrant = true
			}
			if n > b.burst {
				classes["n>burst"] = true
			}
			return true
		}
		// in-process side: continuous time, sequential, identical requests
		judgeRescue := func(what string, l int, n int64, callers, granted int) bool {
			r := rescB[l]
			outTokens[l] += n * int64(callers)
			want := 0
			for j := 0; j < callers; j++ {
				switch r.decide(callerMs, n) {
				case 1:
					want++
					r.consume(n)
				case 0:
					classes["outage-boundary-within-tolerance"] = true
					if granted > want { // either is accepted: follow the observation
						want++
						r.consume(n)
					}
				}
			}
			if granted != want {
				fail = fmt.Sprintf("%s: Redis unreachable, caller t=%dms: %d of %d requests for %d tokens granted, in-process reference bucket (rate %d burst %d, level now %.3f) grants %d",
					what, callerMs, granted, callers, n, r.rate, r.burst, float64(r.level)/1000, want)
				return false
			}
			if granted < callers {
				outDenied[l] = true
				classes["outage-deny"] = true
				if outTokens[l] > r.burst {
					ntOutageDeny = true
				}
			}
			if granted > 0 && outDenied[l] {
				classes["outage-grant-after-deny"] = true
			}
			return true
		}

		// one request (or a batch of identical concurrent requests) against limiter l
		request := func(what string, l int, n int64, callers int, variant string, x int) bool {
			now := base.Add(time.Duration(callerMs) * time.Millisecond)
			sec := now.Unix()
			ctx := context.Background()
			if variant == "ctx" && x > 0 && x <= len(ctxs) {
				ctx = ctxs[x-1]
				classes["request-context-"+c.Ctxs[x-1].Kind] = true
			} else {
				x = 0
			}
			deadBefore := ctx.Err() != nil
			if n == 0 {
				classes["n=0"] = true
			}
			if n >= 1<<31-1 {
				classes["n>=2^31-1"] = true
			}
			if sec >= 1<<31 {
				classes["caller-second>=2^31"] = true
			}
			if sec >= 1<<32 {
				classes["caller-second>=2^32"] = true
			}
			if (variant == "now" || variant == "nowctx") && (n != 1 || !time.Now().Equal(now)) {
				variant = "" // Allow()/AllowCtx() read time.Now(): only meaningful while the bubble clock is the caller clock
			}
			evalsBefore := srv.evalCount("{" + keys[l] + "}.tokens")
			got := make([]bool, callers)
			t0 := srv.realNow()
			if callers == 1 {
				switch variant {
				case "ctx":
					got[0] = lims[l].AllowNCtx(ctx, now, int(n))
					classes["entry-AllowNCtx"] = true
				case "now":
					got[0] = lims[l].Allow()
					classes["entry-Allow"] = true
				case "nowctx":
					got[0] = lims[l].AllowCtx(context.Background())
					classes["entry-AllowCtx"] = true
				default:
					got[0] = lims[l].AllowN(now, int(n))
				}
			} else {
				var wg sync.WaitGroup
				for j := 0; j < callers; j++ {
					wg.Add(1)
					go func(j int) {
						defer wg.Done()
						got[j] = lims[l].AllowN(now, int(n))
					}(j)
				}
				wg.Wait()
				classes["concurrent"] = true
			}
			if slow := srv.realNow().Sub(t0) > c08Stall; slow && down && blackhole && !firstInOutage[l] {
				// expected: the request that meets the black hole waits for go-redis'
				// real-time read deadline, 4 attempts of 3 s
				classes["blackhole-first-request-waited-for-read-timeouts"] = true
			} else if slow {
				stalled = true
				return false
			}
			evals := srv.evalCount("{"+keys[l]+"}.tokens") - evalsBefore
			if deadBefore || ctx.Err() != nil {
				// The statement is silent on requests whose own context is dead: the
				// decision is not judged. The generator asks for more than burst in
				// such requests, which neither bucket can grant and which changes
				// neither bucket; anything else means the bubble clock drifted across
				// a deadline (retry back-off jitter) and the case is set aside.
				if n <= int64(c.Lims[l].Burst) {
					ctxRace = true
					return false
				}
				classes["request-with-dead-context-unspecified"] = true
				return true
			}
			if down && !firstInOutage[l] {
				firstInOutage[l] = true
				detectCtx[l] = x
			}
			granted := 0
			for _, g := range got {
				if g {
					granted++
				}
			}
			switch {
			case down:
				return judgeRescue(what, l, n, callers, granted)
			case rule == c08RuleRestart:
				// Redis answers, but go-redis may still hold connections killed by an
				// earlier Close (this or a previous case): a command that used up its
				// 4 attempts on them legitimately fails and the limiter falls back.
				// Judge the decision by whoever took it.
				if evals == 1 {
					onRedis[l] = true
					classes["restart-call-on-redis"] = true
					if outages > 0 {
						ntRecovered = true
					}
					return judgeRedis(what, l, sec, n, 1, granted)
				}
				classes["restart-call-on-fallback-while-redis-up"] = true
				return judgeRescue(what, l, n, 1, granted)
			default:
				if outages > 0 || noised {
					// "returns to Redis once it answers again": after recovery and the
					// settling time every decision must have been taken by the script
					// (same after foreign failures on the shared store that lie more than
					// the wrapper's 10 s breaker window back)
					if evals != callers {
						fail = fmt.Sprintf("%s: Redis answers again (recovered, settled) but only %d of %d requests reached the server's script; the limiter is still on its in-process bucket",
							what, evals, callers)
						return false
					}
					classes["recovered-call-on-redis"] = true
					ntRecovered = true
				}
				return judgeRedis(what, l, sec, n, callers, granted)
			}
		}

		coupled := func(ms int) {
			d := time.Duration(ms) * time.Millisecond
			srv.fastForward(d)
			time.Sleep(d)
			callerMs += int64(ms)
			serverMs += int64(ms)
		}

	ops:
		for i, o := range c.Ops {
			what := fmt.Sprintf("op %d %+v", i, o)
			switch o.K {
			case "allow":
				if !request(what, o.L, int64(o.N), 1, o.V, o.X) {
					break ops
				}
			case "callow":
				if !request(what, o.L, int64(o.N), o.C, "", 0) {
					break ops
				}
			case "noise":
				// The *redis.Redis is shared with other code: a run of commands that fail
				// (HGET on a string key: WRONGTYPE) trips the wrapper's breaker. Its window
				// is 10 s; 11 s later Redis is healthy and nothing may be left of it.
				if rule != c08RuleToken || down {
					continue
				}
				nk := fmt.Sprintf("c08noise%d", c08Seq)
				_ = store.Set(nk, "1")
				for r := 0; r < o.C; r++ {
					_, _ = store.HGet(nk, "f")
				}
				coupled(11000)
				noised = true
				classes["foreign-failures-on-shared-store-then-11s-quiet"] = true
			case "rallow":
				// one instance through many requests in a row (same instant, same n)
				classes["many-requests-in-a-row"] = true
				if down && firstInOutage[o.L] && !blackhole {
					// the limiter is on its in-process bucket: no network, up to 10^5 calls
					t0 := srv.realNow()
					granted, sorted := 0, true
					for r := 0; r < o.C; r++ {
						if lims[o.L].AllowN(base.Add(time.Duration(callerMs)*time.Millisecond), o.N) {
							if granted != r {
								sorted = false
							}
							granted++
						}
					}
					if srv.realNow().Sub(t0) > 10*c08Stall {
						stalled = true
						break ops
					}
					if !sorted {
						fail = fmt.Sprintf("%s: %d identical requests at one instant: a request was granted after an identical one had been denied", what, o.C)
						break ops
					}
					if o.C >= 65536 {
						classes["in-process-bucket>=65536-calls-in-one-outage"] = true
					}
					if !judgeRescue(what, o.L, int64(o.N), o.C, granted) {
						break ops
					}
					continue
				}
				for r := 0; r < o.C; r++ {
					if !request(fmt.Sprintf("%s (request %d)", what, r), o.L, int64(o.N), 1, "", 0) {
						break ops
					}
				}
			case "mallow":
				// different requests inside AllowN of ONE limiter at the same instant,
				// in real parallel: goroutines parked on a barrier and released together
				if down || len(o.Ns) != len(o.Ds) || len(o.Ns) < 2 || len(o.Ns) > 6 {
					continue
				}
				k := len(o.Ns)
				got := make([]bool, k)
				ns := make([]int64, k)
				sec := base.Add(time.Duration(callerMs) * time.Millisecond).Unix()
				barrier := make(chan struct{})
				var wg sync.WaitGroup
				for j := 0; j < k; j++ {
					ns[j] = int64(o.Ns[j])
					nowj := base.Add(time.Duration(callerMs+int64(o.Ds[j])) * time.Millisecond)
					if nowj.Unix() != sec {
						nowj = base.Add(time.Duration(callerMs) * time.Millisecond)
					}
					wg.Add(1)
					go func(j int, nowj time.Time) {
						defer wg.Done()
						<-barrier
						got[j] = lims[o.L].AllowN(nowj, o.Ns[j])
					}(j, nowj)
				}
				kit.Wait() // every caller is parked on the barrier
				t0 := srv.realNow()
				close(barrier)
				wg.Wait()
				if srv.realNow().Sub(t0) > c08Stall {
					stalled = true
					break ops
				}
				b := redisB[o.L]
				before, _ := b.filled(sec, serverMs)
				if !b.mixed(sec, serverMs, ns, got) {
					fail = fmt.Sprintf("%s: caller second %d, server t=%dms: concurrent requests %v of one limiter (rate %d burst %d, %d tokens available) were decided %v; no sequential order of these calls gives that (a request is granted iff the tokens left by the calls before it suffice)",
						what, sec, serverMs, o.Ns, b.rate, b.burst, before, got)
					break ops
				}
				classes["concurrent-mixed-requests"] = true
				for j := range got {
					if got[j] {
						grants[o.L] = append(grants[o.L], c08Grant{sec, ns[j]})
					} else {
						denied[o.L] = true
						classes["deny"] = true
						if ns[j] <= before {
							classes["mixed-batch-denial-explained-only-by-order"] = true
						}
					}
				}
			case "adv":
				switch o.M {
				case "caller":
					callerMs += int64(o.D)
					classes["caller-only-advance"] = true
				case "server":
					srv.fastForward(time.Duration(o.D) * time.Millisecond)
					serverMs += int64(o.D)
					serverOnly = true
					classes["server-only-advance"] = true
				default:
					coupled(o.D)
				}
				if o.D%1000 != 0 {
					classes["fractional-second"] = true
				}
			case "outage":
				if !down {
					switch o.M {
					case "loading":
						srv.setMode(c08Loading)
					case "err":
						srv.setMode(c08Err)
					case "badreply":
						srv.setMode(c08BadReply)
					case "blackhole":
						srv.setMode(c08Blackhole)
						blackhole = true
					default:
						srv.closeServer()
					}
					down = true
					outages++
					for l := range outDenied {
						outDenied[l], outTokens[l] = false, 0
						firstInOutage[l], detectCtx[l] = false, 0
					}
					classes["outage-"+o.M] = true
					if outages > 1 {
						classes["second-outage"] = true
					}
				}
			case "cancel":
				if o.X > 0 && o.X <= len(cancels) {
					cancels[o.X-1]()
					if down {
						classes["context-cancelled-during-outage"] = true
					}
				}
			case "recover":
				if down {
					for l := range detectCtx {
						if x := detectCtx[l]; x > 0 && ctxs[x-1].Err() != nil {
							classes["outage-noticed-under-context-dead-at-recovery"] = true
						}
					}
					srv.setMode(c08Up)
					srv.restartServer()
					if o.S {
						// what a restarted or failed-over Redis is: the data may be there
						// (persistence, replica), the scripts loaded before are not
						srv.loseScripts()
						classes["recovered-server-lost-its-script-cache"] = true
					}
					down = false
					blackhole = false
					for l := range onRedis {
						onRedis[l] = false
					}
					// settle: nothing is requested until the monitors had time to ping
					coupled(o.D)
				}
			}
		}
		// let the monitors of a still-open outage finish so that the bubble can end
		if down {
			srv.setMode(c08Up)
			srv.restartServer()
			down = false
			for l := range onRedis {
				onRedis[l] = false
			}
		}
		if fail == "" && !stalled && !ctxRace && rule == c08RuleOutage && outages > 0 {
			// "returns to Redis once it answers again", whatever happened to the
			// contexts of earlier requests: one more request per limiter after the
			// last recovery and a second of settling must be decided by the script
			coupled(1000)
			for l := range lims {
				if !request(fmt.Sprintf("final request of limiter %d, 1 s after the end of the case (Redis up)", l), l, 1, 1, "", 0) {
					break
				}
			}
		}
		if fail == "" && !stalled && !ctxRace && rule == c08RuleRestart && outages > 0 {
			// liveness after a real restart: a limiter may lose single requests to
			// dead pooled connections (each failure discards 4 of them; the pool
			// holds some 10-20), but it must come back. One request per second and
			// limiter until each has been served by Redis again; 40 rounds is far
			// beyond what dead connections can explain.
			for round := 0; round < 40 && fail == "" && !stalled; round++ {
				pending := false
				for l := range lims {
					if !onRedis[l] {
						pending = true
					}
				}
				if !pending {
					break
				}
				coupled(1000)
				for l := range lims {
					if !onRedis[l] && !request(fmt.Sprintf("probe %d of limiter %d after the last restart", round, l), l, 1, 1, "", 0) {
						break
					}
				}
			}
			for l := range lims {
				if fail == "" && !stalled && !onRedis[l] {
					fail = fmt.Sprintf("limiter %d never returned to Redis: 40 requests, one per second after the server was restarted, were all decided by the in-process bucket", l)
				}
			}
		}
		if rule == c08RuleRestart {
			// A real Close kills every pooled connection of the process-wide client
			// (after rule crowd: the whole pool, 10 x GOMAXPROCS), and go-redis finds
			// out one by one, four per command. Use the dead ones up (Ping never
			// counts as a failure in the wrapper's breaker) so that the monitors of
			// this case can finish below and the next case starts with a clean pool:
			// a monitor still pinging at the end of the bubble would be reported as
			// a leak although it is on its way back.
			for i := 0; i < 4000 && !store.Ping(); i++ {
			}
		}
		if outages > 0 || rule == c08RuleRestart {
			time.Sleep(11 * time.Second)
		}
		if fail != "" || stalled || ctxRace {
			return
		}

		// admitted events between second s and s+t <= burst + rate*t (histories
		// in which caller time never lags server time, no outage)
		if !serverOnly && outages == 0 && rule != c08RuleRestart {
			for l, g := range grants {
				if c.Lims[l].Share > 0 && sharedKey[c.Lims[l].Share] > 1 {
					continue // the bound speaks of one bucket configuration per key
				}
				rate, burst := int64(c.Lims[l].Rate), int64(c.Lims[l].Burst)
				for a := 0; a < len(g); a++ {
					var sum int64
					for b := a; b < len(g); b++ {
						sum += g[b].n
						if t := g[b].sec - g[a].sec; t <= (1<<62)/rate && sum > burst+rate*t {
							fail = fmt.Sprintf("limiter %d (rate %d burst %d): %d events admitted between caller second %d and %d (t=%d), bound burst+rate*t = %d",
								l, rate, burst, sum, g[a].sec, g[b].sec, t, burst+rate*t)
							return
						}
					}
				}
			}
			classes["bound-checked"] = true
		}
	})
	if rule == c08RuleToken {
		v.NonTrivial = ntDenyThenGrant
	} else {
		v.NonTrivial = ntOutageDeny && ntRecovered
	}
	v.Classes = c08Classes(classes)
	if stalled {
		return kit.Verdict{Excluded: true, Classes: []string{"excluded-real-time-stall"}}
	}
	if ctxRace {
		return kit.Verdict{Excluded: true, Classes: []string{"excluded-context-expired-around-a-judged-call"}}
	}
	if fail != "" {
		v.Fail = fail
	} else if !res.OK() {
		v.Fail = "bubble: " + res.String()
	}
	return v
}

// ---- generators ----

func c08GenLims(rt *rapid.T, max int, share bool) []c08TLim {
	n := rapid.IntRange(1, max).Draw(rt, "nlims")
	out := make([]c08TLim, n)
	groups := 0
	if share && n > 1 {
		groups = rapid.IntRange(0, 2).Draw(rt, "share-groups") // 0: every limiter has its own key
	}
	for i := range out {
		r := rapid.IntRange(1, 20).Draw(rt, "rate")
		if rapid.IntRange(0, 3).Draw(rt, "big-rate") == 0 {
			r = rapid.SampledFrom([]int{100, 1000, 3000, 65536, 999999, 1000000, 1000000, 1000000000, 1000000001, 2000000000}).Draw(rt, "rate-l")
		}
		lo := (r + 1) / 2 // 2*burst >= rate: the script's TTL is positive
		hi := 24
		if lo > hi {
			hi = lo + 24
		}
		b := rapid.IntRange(lo, hi).Draw(rt, "burst")
		if rapid.IntRange(0, 5).Draw(rt, "big-burst") == 0 {
			if bb := rapid.SampledFrom([]int{127, 128, 255, 256, 32767, 32768, 65535, 65536, 1000000, 1<<31 - 1}).Draw(rt, "burst-l"); bb >= lo {
				b = bb
			}
		}
		out[i] = c08TLim{Rate: r, Burst: b, Key: c08DrawKeyAlpha(rt)}
		if groups > 0 {
			out[i].Share = rapid.IntRange(1, groups).Draw(rt, "share")
		}
	}
	return out
}

// c08DrawKeyAlpha: the two very long keys (equal in their first 70 000 bytes) three times as likely as the others.
func c08DrawKeyAlpha(rt *rapid.T) int {
	k := rapid.IntRange(0, len(c08KeyAlphabet)+3).Draw(rt, "key-alpha")
	if k >= len(c08KeyAlphabet) {
		k = 13 + k%2
	}
	return k
}

// c08PickN aims requests at the boundary of what is available.
func c08PickN(rt *rapid.T, avail, burst int64) int {
	cands := []int64{avail - 1, avail, avail, avail + 1, 1, 1, 2, burst, burst + 1, burst + 2,
		int64(rapid.IntRange(1, int(burst)+2).Draw(rt, "n-any")), 0, 1<<31 - 1, 1 << 31}
	n := cands[rapid.IntRange(0, len(cands)-1).Draw(rt, "n-pick")]
	if n < 0 {
		n = 0
	}
	return int(n)
}

func c08TokenGen(rt *rapid.T) c08TCase {
	// one request context that stays live for the whole case (AllowNCtx under a
	// context with a Done channel takes go-redis' other path through withConn;
	// several requests of one case share it, as the calls of one RPC handler do)
	c := c08TCase{Lims: c08GenLims(rt, 3, true), Ctxs: []c08TCtx{{Kind: "cancel"}}}
	const epoch = int64(946684800)
	model := c08NewBuckets(c.Lims)
	// reload: the limiters are used one after the other (an instance replaces its predecessor)
	reload := len(c.Lims) > 1 && rapid.IntRange(0, 2).Draw(rt, "reload") == 0
	cur := 0
	pickLim := func() int {
		if !reload {
			return rapid.IntRange(0, len(c.Lims)-1).Draw(rt, "lim")
		}
		if cur < len(c.Lims)-1 && rapid.IntRange(0, 5).Draw(rt, "next-instance") == 0 {
			cur++
		}
		return cur
	}
	var callerMs, serverMs int64
	rallows := 0
	decoupled := false // a caller-only step happened: the bubble clock is no longer the caller clock
	n := rapid.IntRange(1, 60).Draw(rt, "nops")
	rallowAt := -1 // one case in 25 sends one instance through 300..1200 requests in a row
	if rapid.IntRange(0, 24).Draw(rt, "long-lived") == 0 {
		rallowAt = rapid.IntRange(0, n-1).Draw(rt, "long-lived-at")
	}
	noiseAt := -1 // one case in 8: foreign failures on the shared store, 11 s before the rest of the case
	if rapid.IntRange(0, 7).Draw(rt, "noise") == 0 {
		noiseAt = rapid.IntRange(0, n-1).Draw(rt, "noise-at")
	}
	for i := 0; i < n; i++ {
		kinds := []string{"allow", "allow", "allow", "allow", "allow", "callow", "mallow", "adv", "adv", "adv"}
		if rallows < 1 && i == rallowAt {
			kinds = []string{"rallow"}
		}
		if i == noiseAt {
			c.Ops = append(c.Ops, c08TOp{K: "noise", C: rapid.SampledFrom([]int{6, 50, 400}).Draw(rt, "noise")})
			callerMs += 11000
			serverMs += 11000
		}
		kind := rapid.SampledFrom(kinds).Draw(rt, "kind")
		switch kind {
		case "rallow":
			l := pickLim()
			b := model[l]
			sec := epoch + callerMs/1000
			o := c08TOp{K: "rallow", L: l, N: rapid.IntRange(1, 3).Draw(rt, "rn"), C: rapid.SampledFrom([]int{300, 1000, 1200}).Draw(rt, "repeat")}
			for j := 0; j < o.C; j++ {
				b.allow(sec, serverMs, int64(o.N))
			}
			if k := c.Lims[l].Key; k == 13 || k == 14 {
				o.C = 300 // 70 kB keys: 140 kB per request
			}
			rallows++
			c.Ops = append(c.Ops, o)
		case "mallow":
			l := pickLim()
			b := model[l]
			sec := epoch + callerMs/1000
			avail, _ := b.filled(sec, serverMs)
			k := rapid.IntRange(2, 6).Draw(rt, "callers")
			o := c08TOp{K: "mallow", L: l}
			room := int(999 - callerMs%1000)
			for j := 0; j < k; j++ {
				o.Ns = append(o.Ns, c08PickN(rt, avail, b.burst))
				o.Ds = append(o.Ds, rapid.IntRange(0, room).Draw(rt, "now-offset-ms"))
			}
			// generator-side bookkeeping: any feasible outcome will do (greedy in index order)
			for j := 0; j < k; j++ {
				b.allow(sec, serverMs, int64(o.Ns[j]))
			}
			c.Ops = append(c.Ops, o)
		case "allow", "callow":
			l := pickLim()
			b := model[l]
			sec := epoch + callerMs/1000
			avail, _ := b.filled(sec, serverMs)
			o := c08TOp{K: kind, L: l}
			if kind == "allow" {
				o.N = c08PickN(rt, avail, b.burst)
				vs := []string{"", "", "", "", "ctx"}
				if !decoupled {
					vs = append(vs, "now", "nowctx")
				}
				if o.V = rapid.SampledFrom(vs).Draw(rt, "entry"); o.V == "now" || o.V == "nowctx" {
					o.N = 1
				}
				if o.V == "ctx" {
					o.X = rapid.IntRange(0, 1).Draw(rt, "live-ctx")
				}
				b.allow(sec, serverMs, int64(o.N))
			} else {
				o.N = rapid.IntRange(1, 3).Draw(rt, "cn")
				o.C = rapid.IntRange(2, 8).Draw(rt, "callers")
				for j := 0; j < o.C; j++ {
					b.allow(sec, serverMs, int64(o.N))
				}
			}
			c.Ops = append(c.Ops, o)
		case "adv":
			l := rapid.IntRange(0, len(c.Lims)-1).Draw(rt, "lim-ref")
			b := model[l]
			var d int64
			advKind := rapid.SampledFrom([]string{"frac", "frac", "sec", "sec", "sec", "ttl", "fill", "big", "magnitude"}).Draw(rt, "adv-kind")
			if advKind == "magnitude" {
				// the caller clock jumps to where second counters change width, or far ahead
				// (caller-only: a clock step; the case stays below 250 years after 2000)
				const year = int64(365 * 86400 * 1000)
				target := callerMs
				switch rapid.SampledFrom([]string{"2^31", "2^32", "30d", "100y"}).Draw(rt, "magnitude") {
				case "2^31":
					target = (1<<31-epoch)*1000 + int64(rapid.SampledFrom([]int{-1500, -1000, -1, 0, 1000}).Draw(rt, "delta"))
				case "2^32":
					target = (1<<32-epoch)*1000 + int64(rapid.SampledFrom([]int{-1500, -1000, -1, 0, 1000}).Draw(rt, "delta"))
				case "30d":
					target = callerMs + 30*86400*1000
				case "100y":
					target = callerMs + 100*year
				}
				if target > callerMs && target < 250*year {
					c.Ops = append(c.Ops, c08TOp{K: "adv", D: int(target - callerMs), M: "caller"})
					callerMs = target
					decoupled = true
				}
				continue
			}
			switch advKind {
			case "frac":
				d = int64(rapid.IntRange(1, 1999).Draw(rt, "ms"))
			case "sec":
				d = int64(rapid.IntRange(1, 4).Draw(rt, "s")) * 1000
			case "ttl":
				d = b.ttlMs() + int64(rapid.SampledFrom([]int{-1000, -1, 0, 1, 1000}).Draw(rt, "delta"))
			case "fill":
				d = (b.burst/b.rate + 1) * 1000
			case "big":
				d = int64(rapid.IntRange(30, 100000).Draw(rt, "bigs")) * 1000
			}
			if d <= 0 {
				d = 1
			}
			mode := rapid.SampledFrom([]string{"", "", "", "", "", "", "caller", "caller", "server"}).Draw(rt, "mode")
			if mode != "caller" && d > 60000 {
				d = 60000 + d%1000 // keep the virtual sleeps (breaker/pool idle bookkeeping) modest
			}
			c.Ops = append(c.Ops, c08TOp{K: "adv", D: int(d), M: mode})
			if mode == "caller" {
				decoupled = true
			}
			if mode != "server" {
				callerMs += d
			}
			if mode != "caller" {
				serverMs += d
			}
		}
	}
	return c
}

// c08OutageGen: coupled clocks only; outages and recoveries at generated
// points. The first request of a limiter in an outage is sequential, so an
// outage produces one failed command per limiter, and a case has at most 5
// (limiter, outage) pairs: the redis wrapper's breaker (protection = 5
// failures per 10 s window) can then never start rejecting commands by itself,
// which would be an outage the generator did not ask for. Requests through
// AllowNCtx carry context.Background or one of the case's contexts; requests
// under a context that may already be dead ask for more than burst (see the
// interpreter) and are charged to the same budget of 5.
func c08OutageGen(rt *rapid.T) c08TCase {
	return c08OutageGenModes(rt, []string{"loading", "err", "badreply"}, true)
}

func c08OutageGenModes(rt *rapid.T, modes []string, concurrent bool) c08TCase {
	c := c08TCase{Lims: c08GenLims(rt, 3, false), Store: rapid.IntRange(0, c08StoreKinds-1).Draw(rt, "store"), Cfg: rapid.Bool().Draw(rt, "from-config")}
	const epoch = int64(946684800)
	nl := len(c.Lims)
	model := c08NewBuckets(c.Lims)
	resc := make([]*c08Rescue, nl)
	for i, l := range c.Lims {
		resc[i] = &c08Rescue{rate: int64(l.Rate), burst: int64(l.Burst)}
	}
	// request contexts: live cancellable ones (cancelled by a later op) and deadlines
	nctx := rapid.IntRange(0, 3).Draw(rt, "nctx")
	for i := 0; i < nctx; i++ {
		x := c08TCtx{Kind: rapid.SampledFrom([]string{"cancel", "cancel", "deadline"}).Draw(rt, "ctx-kind")}
		if x.Kind == "deadline" {
			x.T = rapid.IntRange(500, 15000).Draw(rt, "ctx-deadline-ms")
		}
		c.Ctxs = append(c.Ctxs, x)
	}
	cancelled := make([]bool, nctx)
	noticedUnder := make([]bool, nctx) // a limiter noticed the current outage in a request under this (still live) context
	var nowMs int64
	// maybeDead: the context may be dead when the request is made (for deadlines
	// with a 2 s margin: the bubble clock runs ahead of nowMs by retry back-off)
	maybeDead := func(x int) bool {
		if x == 0 {
			return false
		}
		if cancelled[x-1] {
			return true
		}
		return c.Ctxs[x-1].Kind == "deadline" && nowMs >= int64(c.Ctxs[x-1].T)-2000
	}
	down := false
	outages := 0
	churn := 0
	fails := 0               // commands that may count as failures in the wrapper's breaker so far
	seen := make([]bool, nl) // limiter already noticed the current outage
	pending := func() int {  // limiters that will still fail one command in the current outage
		p := 0
		if down {
			for _, s := range seen {
				if !s {
					p++
				}
			}
		}
		return p
	}
	n := rapid.IntRange(4, 60).Draw(rt, "nops")
	for i := 0; i < n; i++ {
		kinds := []string{"allow", "allow", "allow", "allow", "allow", "allow", "adv", "adv"}
		if concurrent {
			kinds = append(kinds, "callow")
		}
		if !down && fails+nl <= 5 {
			kinds = append(kinds, "outage", "outage")
		}
		if down {
			kinds = append(kinds, "recover")
			for l := range seen {
				if seen[l] {
					kinds = append(kinds, "refill-probe")
					if churn < 1 {
						kinds = append(kinds, "rallow")
					}
					break
				}
			}
		}
		for x := range c.Ctxs {
			if c.Ctxs[x].Kind == "cancel" && !cancelled[x] {
				kinds = append(kinds, "cancel")
				if down && noticedUnder[x] {
					kinds = append(kinds, "cancel", "cancel", "cancel")
				}
				break
			}
		}
		kind := rapid.SampledFrom(kinds).Draw(rt, "kind")
		switch kind {
		case "refill-probe":
			// in-process bucket: drain it, let a little time pass, ask for one token
			// more than the refill can have produced, then for exactly what it has
			var cand []int
			for l := range seen {
				if seen[l] {
					cand = append(cand, l)
				}
			}
			l := cand[rapid.IntRange(0, len(cand)-1).Draw(rt, "lim")]
			r := resc[l]
			r.advance(nowMs)
			if drain := r.level / 1000; drain > 0 {
				c.Ops = append(c.Ops, c08TOp{K: "allow", L: l, N: int(drain)})
				r.consume(drain)
			}
			d := int64(rapid.SampledFrom([]int{1, 2, 10, 100, 1000, 3000}).Draw(rt, "refill-ms"))
			if rapid.Bool().Draw(rt, "tok") {
				d = int64(rapid.IntRange(1, 5).Draw(rt, "k"))*1000/r.rate + 1
			}
			c.Ops = append(c.Ops, c08TOp{K: "adv", D: int(d)})
			nowMs += d
			r.advance(nowMs)
			have := r.level / 1000
			c.Ops = append(c.Ops, c08TOp{K: "allow", L: l, N: int(have) + 1})
			if r.decide(nowMs, have+1) >= 0 {
				r.consume(have + 1)
			} else if have > 0 {
				c.Ops = append(c.Ops, c08TOp{K: "allow", L: l, N: int(have)})
				r.consume(have)
			}
		case "rallow":
			// the in-process bucket of a limiter that already noticed the outage: a long churn, monitor alive
			var cand []int
			for l := range seen {
				if seen[l] {
					cand = append(cand, l)
				}
			}
			l := cand[rapid.IntRange(0, len(cand)-1).Draw(rt, "lim")]
			o := c08TOp{K: "rallow", L: l, N: rapid.IntRange(1, 2).Draw(rt, "rn"),
				C: rapid.SampledFrom([]int{1000, 10000, 65535, 65536, 65537, 100000}).Draw(rt, "repeat")}
			for j := 0; j < o.C; j++ {
				if resc[l].decide(nowMs, int64(o.N)) < 0 {
					break
				}
				resc[l].consume(int64(o.N))
			}
			churn++
			c.Ops = append(c.Ops, o)
		case "allow", "callow":
			l := rapid.IntRange(0, nl-1).Draw(rt, "lim")
			if kind == "callow" && down && !seen[l] {
				kind = "allow" // the first request of an outage is sequential (one failed command per limiter and outage)
			}
			o := c08TOp{K: kind, L: l}
			sec := epoch + nowMs/1000
			var avail int64
			if down {
				resc[l].advance(nowMs)
				avail = resc[l].level / 1000
			} else {
				avail, _ = model[l].filled(sec, nowMs)
			}
			if kind == "allow" {
				o.N = c08PickN(rt, avail, model[l].burst)
				o.V = rapid.SampledFrom([]string{"", "", "ctx", "ctx"}).Draw(rt, "entry")
				if down && !seen[l] && nctx > 0 && rapid.Bool().Draw(rt, "notice-under-ctx") {
					o.V = "ctx" // the request that notices the outage carries one of the case's contexts
				}
				if o.V == "ctx" && nctx > 0 {
					o.X = rapid.IntRange(0, nctx).Draw(rt, "ctx")
					if down && !seen[l] && o.X == 0 {
						o.X = rapid.IntRange(1, nctx).Draw(rt, "ctx-nonbg")
					}
					if maybeDead(o.X) {
						if fails+pending()+1 <= 5 {
							// unspecified request: more than burst, changes neither bucket; it may
							// cost the breaker one failure (context.DeadlineExceeded is not acceptable to it)
							o.N = int(model[l].burst) + rapid.IntRange(1, 2).Draw(rt, "over")
							fails++
							c.Ops = append(c.Ops, o)
							continue
						}
						o.X = 0
					}
				}
			} else {
				o.N = rapid.IntRange(1, 3).Draw(rt, "cn")
				o.C = rapid.IntRange(2, 8).Draw(rt, "callers")
			}
			cnt := o.C
			if cnt == 0 {
				cnt = 1
			}
			for j := 0; j < cnt; j++ {
				if down {
					if resc[l].decide(nowMs, int64(o.N)) >= 0 {
						resc[l].consume(int64(o.N))
					}
				} else {
					model[l].allow(sec, nowMs, int64(o.N))
				}
			}
			if down && !seen[l] {
				seen[l] = true
				fails++
				if o.X > 0 {
					noticedUnder[o.X-1] = true
				}
			}
			c.Ops = append(c.Ops, o)
		case "adv":
			var d int64
			switch rapid.SampledFrom([]string{"frac", "frac", "tok", "sec", "sec", "fill"}).Draw(rt, "adv-kind") {
			case "frac":
				d = int64(rapid.IntRange(1, 1999).Draw(rt, "ms"))
			case "tok":
				// the time one (or a few) tokens take at some limiter's rate
				l := rapid.IntRange(0, nl-1).Draw(rt, "lim-ref")
				d = int64(rapid.IntRange(1, 3).Draw(rt, "k")) * 1000 / int64(c.Lims[l].Rate)
			case "sec":
				d = int64(rapid.IntRange(1, 4).Draw(rt, "s")) * 1000
			case "fill":
				l := rapid.IntRange(0, nl-1).Draw(rt, "lim-ref")
				d = (model[l].burst/model[l].rate + 1) * 1000
			}
			if d <= 0 {
				d = 1
			}
			if d > 3600000 {
				d = 3600000
			}
			if down && d > 5000 {
				d = 5000 // every 100 ms of outage costs real dial attempts of the monitor
			}
			c.Ops = append(c.Ops, c08TOp{K: "adv", D: int(d)})
			nowMs += d
		case "outage":
			down = true
			outages++
			for l := range seen {
				seen[l] = false
			}
			for x := range noticedUnder {
				noticedUnder[x] = false
			}
			c.Ops = append(c.Ops, c08TOp{K: "outage", M: rapid.SampledFrom(modes).Draw(rt, "outage-kind")})
		case "cancel":
			var live []int
			for x := range c.Ctxs {
				if c.Ctxs[x].Kind == "cancel" && !cancelled[x] {
					if down && noticedUnder[x] {
						live = append(live, x, x, x)
					}
					live = append(live, x)
				}
			}
			x := live[rapid.IntRange(0, len(live)-1).Draw(rt, "which-ctx")]
			cancelled[x] = true
			c.Ops = append(c.Ops, c08TOp{K: "cancel", X: x + 1})
		case "recover":
			down = false
			d := int64(rapid.SampledFrom([]int{1000, 1500, 3000, 11000}).Draw(rt, "settle"))
			c.Ops = append(c.Ops, c08TOp{K: "recover", D: int(d), S: rapid.Bool().Draw(rt, "script-cache-lost")})
			nowMs += d
		}
	}
	return c
}

// c08BlackholeGen: ONE outage in which Redis accepts connections and never
// answers. go-redis' socket deadlines are real time, so the request that
// notices the outage costs about 12 s of wall clock (4 attempts x 3 s); the case
// therefore has one limiter and one such outage, and during it only the caller
// clock moves (every 100 ms of bubble time would be one more ping of the
// monitor into the black hole, 12 s each). Few cases; each one is built to be
// non-trivial.
func c08BlackholeGen(rt *rapid.T) c08TCase {
	c := c08TCase{Lims: c08GenLims(rt, 1, false)}
	const epoch = int64(946684800)
	model := c08NewBuckets(c.Lims)[0]
	resc := &c08Rescue{rate: model.rate, burst: model.burst}
	var callerMs, serverMs int64
	allow := func(down bool, n int) {
		if n == 0 {
			avail, _ := model.filled(epoch+callerMs/1000, serverMs)
			if down {
				resc.advance(callerMs)
				avail = resc.level / 1000
			}
			n = c08PickN(rt, avail, model.burst)
		}
		if down {
			if resc.decide(callerMs, int64(n)) >= 0 {
				resc.consume(int64(n))
			}
		} else {
			model.allow(epoch+callerMs/1000, serverMs, int64(n))
		}
		c.Ops = append(c.Ops, c08TOp{K: "allow", N: n})
	}
	for i := rapid.IntRange(0, 3).Draw(rt, "before"); i > 0; i-- {
		allow(false, 0)
		if rapid.Bool().Draw(rt, "step") {
			d := rapid.IntRange(1, 2500).Draw(rt, "ms")
			c.Ops = append(c.Ops, c08TOp{K: "adv", D: d})
			callerMs += int64(d)
			serverMs += int64(d)
		}
	}
	c.Ops = append(c.Ops, c08TOp{K: "outage", M: "blackhole"})
	// the request that notices the hole: ALWAYS one that the full in-process bucket
	// must grant (1..burst). The quick tier runs one case of this rule; a first
	// request for more than burst is denied by either bucket and by a limiter that
	// does not fall back at all, and every later request of such a limiter waits
	// 12 s again and the case ends up excluded as stalled - the case would be
	// blind (seeded net-timeout-treated-as-caller-deadline was missed that way
	// when added draws shifted the seed-1 case onto burst+1).
	first := rapid.SampledFrom([]int{1, 1, int(model.burst), int(model.burst), rapid.IntRange(1, int(model.burst)).Draw(rt, "n1")}).Draw(rt, "first")
	allow(true, first)
	for i := rapid.IntRange(3, 12).Draw(rt, "during"); i > 0; i-- {
		if rapid.IntRange(0, 3).Draw(rt, "adv") == 0 {
			d := int64(rapid.IntRange(1, 3).Draw(rt, "k")) * 1000 / model.rate
			if rapid.Bool().Draw(rt, "frac") {
				d = int64(rapid.IntRange(1, 2500).Draw(rt, "ms"))
			}
			if d <= 0 {
				d = 1
			}
			c.Ops = append(c.Ops, c08TOp{K: "adv", D: int(d), M: "caller"})
			callerMs += d
			continue
		}
		allow(true, 0)
	}
	settle := rapid.SampledFrom([]int{1000, 3000}).Draw(rt, "settle")
	c.Ops = append(c.Ops, c08TOp{K: "recover", D: settle, S: rapid.Bool().Draw(rt, "script-cache-lost")})
	callerMs += int64(settle)
	serverMs += int64(settle)
	for i := rapid.IntRange(1, 4).Draw(rt, "after"); i > 0; i-- {
		allow(false, 0)
	}
	return c
}

func TestVerif_C08_token(t *testing.T) {
	c08GetServer()
	kit.Run(t, "C08", "token", kit.Opts{Quick: 220, Thorough: 10000}, c08TokenGen,
		func(c c08TCase) kit.Verdict { return c08TokenInterp(t, c, c08RuleToken) })
}

func TestVerif_C08_outage(t *testing.T) {
	c08GetServer()
	kit.Run(t, "C08", "token-outage", kit.Opts{Quick: 250, Thorough: 12000}, c08OutageGen,
		func(c c08TCase) kit.Verdict { return c08TokenInterp(t, c, c08RuleOutage) })
}

func TestVerif_C08_outage_blackhole(t *testing.T) {
	c08GetServer()
	kit.Run(t, "C08", "token-blackhole", kit.Opts{Quick: 1, Thorough: 48}, c08BlackholeGen,
		func(c c08TCase) kit.Verdict { return c08TokenInterp(t, c, c08RuleOutage) })
}

// ---- more concurrent callers than go-redis has pooled connections ----
//
// No virtual time is involved (healthy Redis, one instant), and go-redis' pool
// waits with pooled timers that must not wander between bubbles: this rule runs
// OUTSIDE synctest. callers = pool size (10 x GOMAXPROCS, go-redis' default) +
// Extra goroutines released from a barrier call AllowN(now, N) of one fresh
// limiter, then Take of one fresh period limiter. Identical requests: the
// number of grants / the multiset of codes is the sequential model's.

type c08CrowdCase struct {
	Rate   int `json:"rate"`
	Burst  int `json:"burst"`
	N      int `json:"n"`
	Extra  int `json:"extra"` // callers beyond the pool size
	Period int `json:"period"`
	Quota  int `json:"quota"`
}

func c08CrowdInterp(c c08CrowdCase) (v kit.Verdict) {
	srv := c08GetServer()
	srv.reset()
	c08Seq++
	store := redis.New(srv.addr)
	callers := 10*runtime.GOMAXPROCS(0) + c.Extra
	v.Classes = []string{fmt.Sprintf("callers-beyond-pool-%d", c.Extra)}
	run := func(f func(j int)) bool {
		barrier := make(chan struct{})
		var wg sync.WaitGroup
		for j := 0; j < callers; j++ {
			wg.Add(1)
			go func(j int) {
				defer wg.Done()
				<-barrier
				f(j)
			}(j)
		}
		t0 := time.Now()
		close(barrier)
		wg.Wait()
		return time.Since(t0) <= c08Stall
	}
	tl := limit.NewTokenLimiter(c.Rate, c.Burst, store, fmt.Sprintf("crowd:c08t%d", c08Seq))
	got := make([]bool, callers)
	if !run(func(j int) { got[j] = tl.AllowN(c08Epoch, c.N) }) {
		return kit.Verdict{Excluded: true, Classes: []string{"excluded-real-time-stall"}}
	}
	b := c08NewBucket(c.Rate, c.Burst, nil)
	want, granted := 0, 0
	for j := 0; j < callers; j++ {
		if b.allow(c08Epoch.Unix(), 0, int64(c.N)) {
			want++
		}
		if got[j] {
			granted++
		}
	}
	if granted != want {
		return v.Failf("%d concurrent AllowN(now, %d) of one limiter (rate %d burst %d), Redis healthy: %d granted, the bucket holds %d such requests",
			callers, c.N, c.Rate, c.Burst, granted, want)
	}
	pl := limit.NewPeriodLimit(c.Period, c.Quota, store, fmt.Sprintf("crowd:c08p%d:", c08Seq))
	codes := make([]int, callers)
	errs := make([]error, callers)
	if !run(func(j int) { codes[j], errs[j] = pl.Take("k") }) {
		return kit.Verdict{Excluded: true, Classes: []string{"excluded-real-time-stall"}}
	}
	m := &c08PModel{quota: c.Quota, keys: map[int]*c08PKey{}}
	wantCodes := make([]int, callers)
	for j := range wantCodes {
		wantCodes[j], _ = m.take(0, 0, int64(c.Period)*1000)
		if errs[j] != nil {
			return v.Failf("%d concurrent Take of one key, Redis healthy: error %v", callers, errs[j])
		}
	}
	sort.Ints(codes)
	sort.Ints(wantCodes)
	for j := range codes {
		if codes[j] != wantCodes[j] {
			return v.Failf("%d concurrent Take of one key (quota %d): codes differ from the sequential multiset at rank %d: got %d want %d", callers, c.Quota, j, codes[j], wantCodes[j])
		}
	}
	v.NonTrivial = want < callers && c.Quota < callers
	return v
}

func TestVerif_C08_token_crowd(t *testing.T) {
	c08GetServer()
	kit.Run(t, "C08", "crowd", kit.Opts{Quick: 4, Thorough: 160}, func(rt *rapid.T) c08CrowdCase {
		r := rapid.IntRange(1, 20).Draw(rt, "rate")
		return c08CrowdCase{Rate: r, Burst: rapid.IntRange((r+1)/2, 300).Draw(rt, "burst"), N: rapid.IntRange(1, 2).Draw(rt, "n"),
			Extra:  rapid.SampledFrom([]int{1, 40, 160, 500}).Draw(rt, "extra"),
			Period: rapid.IntRange(1, 20).Draw(rt, "period"), Quota: rapid.IntRange(1, 300).Draw(rt, "quota")}
	}, c08CrowdInterp)
}
