package limit_test

import (
	"testing"

	"pgregory.net/rapid"
	"verif.local/kit"
)

// Real Close/Restart of the Redis server. This rule is in the last file so that
// it runs after the exact rules: the connections its outages kill stay in
// go-redis' process-wide pool and would make commands of later cases fail.
// Its oracle is therefore tolerant while the server is up (a decision is judged
// against the bucket that took it, observed through the server's EVAL counter)
// and exact while it is down; after the last restart every limiter must be
// seen on Redis again.
func c08RestartGen(rt *rapid.T) c08TCase { return c08OutageGenModes(rt, []string{"close"}, false) }

func TestVerif_C08_zrestart(t *testing.T) {
	c08GetServer()
	kit.Run(t, "C08", "token-restart", kit.Opts{Quick: 80, Thorough: 3200}, c08RestartGen,
		func(c c08TCase) kit.Verdict { return c08TokenInterp(t, c, c08RuleRestart) })
}
