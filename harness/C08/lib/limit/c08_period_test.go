package limit_test

import (
	"context"
	"fmt"
	"sort"
	"strings"
	"sync"
	"testing"
	"time"

	"github.com/gotid/god/lib/limit"
	"github.com/gotid/god/lib/store/redis"
	"pgregory.net/rapid"
	"verif.local/kit"
)

// ---- case ----

type c08PLim struct {
	Period int  `json:"period"` // seconds
	Quota  int  `json:"quota"`
	Align  bool `json:"align,omitempty"`
	Prefix int  `json:"prefix,omitempty"` // index into c08KeyAlphabet: part of the key prefix
}

type c08POp struct {
	K   string `json:"k"`             // take | ctake | rtake | adv
	I   int    `json:"i,omitempty"`   // limiter instance
	Key int    `json:"key,omitempty"` // index into the case's Keys
	N   int    `json:"n,omitempty"`   // ctake: concurrent callers; rtake: takes one after the other
	D   int64  `json:"d,omitempty"`   // adv: milliseconds (server FastForward + virtual sleep)
	Ctx bool   `json:"ctx,omitempty"` // take: through TakeCtx(context.Background(), ...)
}

type c08PCase struct {
	Lims []c08PLim `json:"lims"`           // 1..2 PeriodLimit instances alive at once (own prefixes: independent)
	Zone int       `json:"zone,omitempty"` // offset of the process' local time zone in seconds (Align)
	Keys []int     `json:"keys"`           // indices into c08KeyAlphabet
	Ops  []c08POp  `json:"ops"`
}

// c08KeyAlphabet: keys a caller can legally pass (user names, paths, e-mail
// addresses, whatever identifies the limited party). Distinct entries must be
// limited independently. The two long keys share their first 70 000 bytes.
var c08KeyAlphabet = []string{
	"k0", "k1", "K1", "k1 ", "", "%s%d%!v", "*?[a-z]\\", "{k1}", "k1}.tokens", "键🔑é",
	"\xff\xfe\x80", "a\x00b", "line\r\nbreak", strings.Repeat("x", 70000) + "A", strings.Repeat("x", 70000) + "B",
	"$(rm -rf) `x` ;|& ' \"",
}

func c08KeyLabel(i int) string {
	k := c08KeyAlphabet[i%len(c08KeyAlphabet)]
	if len(k) > 40 {
		return fmt.Sprintf("%q...(%d bytes)", k[len(k)-4:], len(k))
	}
	return fmt.Sprintf("%q", k)
}

// ---- reference model, written from the statement ----
//
// Per key: number of takes in the current window and the server instant at
// which that window expires. The window is opened by the first take of a
// fresh count and lasts `window` seconds of server time.

type c08PKey struct {
	count int
	end   int64 // server ms at which the window expires (valid when count > 0)
}

type c08PModel struct {
	quota int
	keys  map[int]*c08PKey
}

const (
	c08Allowed   = limit.Allowed
	c08HitQuota  = limit.HitQuota
	c08OverQuota = limit.OverQuota
)

// take returns the code the statement demands for a take of key at server
// instant nowMs; windowMs is the length of a window opened by this take.
func (m *c08PModel) take(key int, nowMs, windowMs int64) (code int, fresh bool) {
	k := m.keys[key]
	if k == nil {
		k = &c08PKey{}
		m.keys[key] = k
	}
	if k.count > 0 && nowMs >= k.end {
		k.count = 0
	}
	k.count++
	if k.count == 1 {
		k.end = nowMs + windowMs
		fresh = true
	}
	switch {
	case k.count < m.quota:
		return c08Allowed, fresh
	case k.count == m.quota:
		return c08HitQuota, fresh
	default:
		return c08OverQuota, fresh
	}
}

// c08WindowSeconds: length of a window opened at caller second unix. Without
// Align it is the period; with Align the window ends at the next multiple of
// period in LOCAL wall-clock seconds (zone = offset of the local time zone: "5
// text messages a day" ends at local midnight).
func c08WindowSeconds(period int, align bool, unix int64, zone int) int64 {
	if !align {
		return int64(period)
	}
	local := unix + int64(zone)
	return int64(period) - local%int64(period)
}

// ---- interpreter ----

func c08PeriodInterp(t *testing.T, c c08PCase) (v kit.Verdict) {
	srv := c08GetServer()
	srv.reset()
	c08Seq++
	var fail string
	classes := map[string]bool{}
	nontrivial := false
	stalled := false
	// process-wide setting read by Align: the local time zone
	oldLocal := time.Local
	if c.Zone != 0 {
		time.Local = time.FixedZone("c08", c.Zone)
		classes["local-zone-offset-nonzero"] = true
	}
	defer func() { time.Local = oldLocal }()
	res := kit.Bubble(t, func() {
		store := redis.New(srv.addr)
		alignOpts := []limit.PeriodOption{limit.Align()} // one option slice reused by every aligned instance
		pls := make([]*limit.PeriodLimit, len(c.Lims))
		models := make([]*c08PModel, len(c.Lims))
		for i, l := range c.Lims {
			prefix := fmt.Sprintf("c08p%d_%d:%s", c08Seq, i, c08KeyAlphabet[l.Prefix%len(c08KeyAlphabet)])
			if l.Align {
				pls[i] = limit.NewPeriodLimit(l.Period, l.Quota, store, prefix, alignOpts...)
				classes["align"] = true
			} else {
				pls[i] = limit.NewPeriodLimit(l.Period, l.Quota, store, prefix)
			}
			models[i] = &c08PModel{quota: l.Quota, keys: map[int]*c08PKey{}}
			if l.Period >= 60 {
				classes["period>=1min"] = true
			}
			if l.Period >= 86400 {
				classes["period>=1day"] = true
			}
			if l.Quota >= 100 {
				classes["quota>=100"] = true
			}
		}
		if len(c.Lims) > 1 {
			classes["two-instances-alive"] = true
			if c.Lims[0].Align != c.Lims[1].Align {
				classes["two-instances-differ-in-align"] = true
			}
		}
		var serverMs int64
		type ik struct{ i, k int }
		reached := map[ik]bool{} // key reached its quota in some window
		usedKeys := map[int]bool{}
		keyName := func(k int) string { return c08KeyAlphabet[c.Keys[k%len(c.Keys)]%len(c08KeyAlphabet)] }
		window := func(i int) int64 {
			return c08WindowSeconds(c.Lims[i].Period, c.Lims[i].Align, time.Now().Unix(), c.Zone) * 1000
		}
		// one take through the real limiter; ok=false: stop (failure or stall)
		take := func(i, k int, ctx bool) (int, error, bool) {
			t0 := srv.realNow()
			var got int
			var err error
			if ctx {
				got, err = pls[i].TakeCtx(context.Background(), keyName(k))
			} else {
				got, err = pls[i].Take(keyName(k))
			}
			if srv.realNow().Sub(t0) > c08Stall {
				stalled = true
				return 0, nil, false
			}
			return got, err, true
		}
		note := func(i, k int, want int, fresh, wasReached bool) {
			usedKeys[k] = true
			key := ik{i, k}
			if fresh && wasReached {
				classes["restart-after-quota"] = true
				nontrivial = true
			}
			if fresh {
				reached[key] = false
			}
			if want >= c08HitQuota {
				reached[key] = true
			}
			if want == c08OverQuota {
				classes["over-quota"] = true
			}
		}

		for n, o := range c.Ops {
			if o.I >= len(c.Lims) {
				continue
			}
			what := fmt.Sprintf("op %d {%s i:%d key:%s n:%d d:%d} (server t=%dms, limiter period %ds quota %d align %v, zone %+ds)",
				n, o.K, o.I, c08KeyLabel(c.Keys[o.Key%len(c.Keys)]), o.N, o.D, serverMs, c.Lims[o.I].Period, c.Lims[o.I].Quota, c.Lims[o.I].Align, c.Zone)
			model := models[o.I]
			key := ik{o.I, o.Key}
			switch o.K {
			case "adv":
				srv.fastForward(time.Duration(o.D) * time.Millisecond)
				time.Sleep(time.Duration(o.D) * time.Millisecond)
				serverMs += o.D
			case "take", "rtake":
				reps := 1
				if o.K == "rtake" {
					reps = o.N
					classes["many-takes-in-a-row"] = true
				}
				for r := 0; r < reps; r++ {
					if k := model.keys[o.Key]; k != nil && k.count > 0 {
						switch {
						case serverMs == k.end:
							classes["take-exactly-at-expiry"] = true
						case serverMs == k.end-1:
							classes["take-1ms-before-expiry"] = true
						}
					}
					wasReached := reached[key]
					want, fresh := model.take(o.Key, serverMs, window(o.I))
					got, err, ok := take(o.I, o.Key, o.Ctx)
					if !ok {
						return
					}
					if err != nil {
						fail = fmt.Sprintf("%s: take %d: Take error %v", what, r, err)
						return
					}
					if got != want {
						fail = fmt.Sprintf("%s: take %d: Take=%d, statement demands %d (1 Allowed, 2 HitQuota, 3 OverQuota; model count=%d window end=%dms)",
							what, r, got, want, model.keys[o.Key].count, model.keys[o.Key].end)
						return
					}
					note(o.I, o.Key, want, fresh, wasReached)
					if model.keys[o.Key].count > 1000 {
						classes["count>1000-in-one-window"] = true
					}
				}
			case "ctake":
				win := window(o.I)
				wasReached := reached[key]
				var want []int
				anyFresh := false
				for j := 0; j < o.N; j++ {
					w, fresh := model.take(o.Key, serverMs, win)
					want = append(want, w)
					anyFresh = anyFresh || fresh
				}
				got := make([]int, o.N)
				errs := make([]error, o.N)
				var wg sync.WaitGroup
				t0 := srv.realNow()
				for j := 0; j < o.N; j++ {
					wg.Add(1)
					go func(j int) {
						defer wg.Done()
						got[j], errs[j] = pls[o.I].Take(keyName(o.Key))
					}(j)
				}
				wg.Wait()
				if srv.realNow().Sub(t0) > c08Stall {
					stalled = true
					return
				}
				for _, err := range errs {
					if err != nil {
						fail = fmt.Sprintf("%s: concurrent Take error %v", what, err)
						return
					}
				}
				sort.Ints(got)
				sort.Ints(want)
				if fmt.Sprint(got) != fmt.Sprint(want) {
					fail = fmt.Sprintf("%s: concurrent takes returned codes %v, the sequential model yields the multiset %v", what, got, want)
					return
				}
				note(o.I, o.Key, want[len(want)-1], anyFresh, wasReached)
				if want[len(want)-1] >= c08HitQuota && want[0] == c08Allowed {
					classes["concurrent-batch-crosses-quota"] = true
				}
			}
		}
		if len(usedKeys) > 1 {
			classes["multi-key"] = true
		}
		for k := range usedKeys {
			if c.Keys[k%len(c.Keys)]%len(c08KeyAlphabet) >= 2 {
				classes["key-outside-[a-z0-9]"] = true
			}
		}
	})
	v.NonTrivial = nontrivial
	v.Classes = c08Classes(classes)
	if stalled {
		return kit.Verdict{Excluded: true, Classes: []string{"excluded-real-time-stall"}}
	}
	if fail != "" {
		v.Fail = fail
	} else if !res.OK() {
		v.Fail = "bubble: " + res.String()
	}
	return v
}

// ---- generator ----
//
// The generator carries its own copy of the bookkeeping only to aim advances
// at window edges; the ops it emits are plain data and the interpreter does
// not rely on the generator's bookkeeping.

var (
	c08Periods = []int{60, 3600, 86400, 86400, 30 * 86400}
	c08Zones   = []int{0, 0, 8 * 3600, -5 * 3600, 5*3600 + 1800, 5*3600 + 2700, -(9*3600 + 1800), 14 * 3600}
)

func c08PeriodGen(rt *rapid.T) c08PCase {
	var c c08PCase
	nl := rapid.SampledFrom([]int{1, 1, 2}).Draw(rt, "instances")
	for i := 0; i < nl; i++ {
		l := c08PLim{
			Period: rapid.IntRange(1, 20).Draw(rt, "period"),
			Quota:  rapid.IntRange(1, 10).Draw(rt, "quota"),
			Align:  rapid.Bool().Draw(rt, "align"),
			Prefix: rapid.IntRange(0, len(c08KeyAlphabet)-1).Draw(rt, "prefix"),
		}
		if rapid.IntRange(0, 3).Draw(rt, "long-period") == 0 {
			l.Period = rapid.SampledFrom(c08Periods).Draw(rt, "period-l")
		}
		if rapid.IntRange(0, 11).Draw(rt, "big-quota") == 0 {
			l.Quota = rapid.SampledFrom([]int{100, 255, 256, 257, 1000}).Draw(rt, "quota-l")
		}
		c.Lims = append(c.Lims, l)
	}
	c.Zone = rapid.SampledFrom(c08Zones).Draw(rt, "zone")
	nk := rapid.IntRange(1, 4).Draw(rt, "keys")
	seen := map[int]bool{}
	for len(c.Keys) < nk {
		k := rapid.IntRange(0, len(c08KeyAlphabet)-1).Draw(rt, "key-alpha")
		if !seen[k] {
			seen[k] = true
			c.Keys = append(c.Keys, k)
		}
	}
	const epoch = int64(946684800) // bubble start, 2000-01-01T00:00:00Z
	models := make([]*c08PModel, nl)
	for i := range models {
		models[i] = &c08PModel{quota: c.Lims[i].Quota, keys: map[int]*c08PKey{}}
	}
	var nowMs int64
	win := func(i int) int64 {
		return c08WindowSeconds(c.Lims[i].Period, c.Lims[i].Align, epoch+nowMs/1000, c.Zone) * 1000
	}
	if rapid.Bool().Draw(rt, "phase") {
		d := int64(rapid.IntRange(1, c.Lims[0].Period*1000+999).Draw(rt, "phase-ms"))
		c.Ops = append(c.Ops, c08POp{K: "adv", D: d})
		nowMs += d
	}
	n := rapid.IntRange(1, 50).Draw(rt, "nops")
	rtakes := 0
	for i := 0; i < n; i++ {
		kinds := []string{"take", "take", "take", "take", "take", "ctake", "adv", "adv"}
		li := rapid.IntRange(0, nl-1).Draw(rt, "inst")
		if c.Lims[li].Quota >= 100 && rtakes < 2 {
			kinds = append(kinds, "rtake", "rtake", "rtake")
		}
		kind := rapid.SampledFrom(kinds).Draw(rt, "kind")
		switch kind {
		case "take":
			key := rapid.IntRange(0, nk-1).Draw(rt, "key")
			models[li].take(key, nowMs, win(li))
			c.Ops = append(c.Ops, c08POp{K: "take", I: li, Key: key, Ctx: rapid.IntRange(0, 4).Draw(rt, "ctx") == 0})
		case "rtake":
			// drive one key up to (and a little over) a large quota
			key := rapid.IntRange(0, nk-1).Draw(rt, "key")
			have := 0
			if k := models[li].keys[key]; k != nil && k.count > 0 && nowMs < k.end {
				have = k.count
			}
			r := c.Lims[li].Quota - have + rapid.IntRange(-2, 3).Draw(rt, "over")
			if r < 1 {
				r = 1
			}
			for j := 0; j < r; j++ {
				models[li].take(key, nowMs, win(li))
			}
			rtakes++
			c.Ops = append(c.Ops, c08POp{K: "rtake", I: li, Key: key, N: r})
		case "ctake":
			key := rapid.IntRange(0, nk-1).Draw(rt, "key")
			k := rapid.IntRange(2, 12).Draw(rt, "callers")
			for j := 0; j < k; j++ {
				models[li].take(key, nowMs, win(li))
			}
			c.Ops = append(c.Ops, c08POp{K: "ctake", I: li, Key: key, N: k})
		case "adv":
			var d int64
			switch rapid.SampledFrom([]string{"edge", "edge", "edge", "period", "small"}).Draw(rt, "adv-kind") {
			case "edge":
				// aim at the expiry of an open window of some key of some instance
				var ends []int64
				for _, m := range models {
					for ki := 0; ki < nk; ki++ {
						if k := m.keys[ki]; k != nil && k.count > 0 && k.end > nowMs {
							ends = append(ends, k.end)
						}
					}
				}
				if len(ends) > 0 {
					end := ends[rapid.IntRange(0, len(ends)-1).Draw(rt, "which")]
					d = end - nowMs + int64(rapid.SampledFrom([]int{-1000, -1, 0, 0, 1, 1000}).Draw(rt, "delta"))
				}
			case "period":
				d = int64(c.Lims[li].Period)*1000 + int64(rapid.SampledFrom([]int{-1000, 0, 1000}).Draw(rt, "delta"))
			}
			if d <= 0 {
				d = int64(rapid.IntRange(1, 1500).Draw(rt, "small-ms"))
			}
			c.Ops = append(c.Ops, c08POp{K: "adv", D: d})
			nowMs += d
		}
	}
	return c
}

func TestVerif_C08_period(t *testing.T) {
	c08GetServer()
	kit.Run(t, "C08", "period", kit.Opts{Quick: 200, Thorough: 12000}, c08PeriodGen,
		func(c c08PCase) kit.Verdict { return c08PeriodInterp(t, c) })
}
