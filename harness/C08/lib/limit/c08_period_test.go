package limit_test

import (
	"context"
	"fmt"
	"sort"
	"sync"
	"testing"
	"time"

	"github.com/gotid/god/lib/limit"
	"github.com/gotid/god/lib/store/redis"
	"pgregory.net/rapid"
	"verif.local/kit"
)

// ---- case ----

type c08POp struct {
	K   string `json:"k"`             // take | ctake | adv
	Key int    `json:"key,omitempty"` // key index
	N   int    `json:"n,omitempty"`   // ctake: number of concurrent callers
	D   int    `json:"d,omitempty"`   // adv: milliseconds (server FastForward + virtual sleep)
	Ctx bool   `json:"ctx,omitempty"` // take: through TakeCtx(context.Background(), ...)
}

type c08PCase struct {
	Period int      `json:"period"` // seconds
	Quota  int      `json:"quota"`
	Align  bool     `json:"align,omitempty"`
	Keys   int      `json:"keys"`
	Ops    []c08POp `json:"ops"`
}

// ---- reference model, written from the statement ----
//
// Per key: number of takes in the current window and the server instant at
// which that window expires. The window is opened by the first take of a
// fresh count and lasts `window` seconds of server time.

type c08PKey struct {
	count int
	end   int64 // server ms at which the window expires (valid when count > 0)
}

type c08PModel struct {
	quota int
	keys  map[int]*c08PKey
}

const (
	c08Allowed   = limit.Allowed
	c08HitQuota  = limit.HitQuota
	c08OverQuota = limit.OverQuota
)

// take returns the code the statement demands for a take of key at server
// instant nowMs; windowMs is the length of a window opened by this take.
func (m *c08PModel) take(key int, nowMs, windowMs int64) (code int, fresh bool) {
	k := m.keys[key]
	if k == nil {
		k = &c08PKey{}
		m.keys[key] = k
	}
	if k.count > 0 && nowMs >= k.end {
		k.count = 0
	}
	k.count++
	if k.count == 1 {
		k.end = nowMs + windowMs
		fresh = true
	}
	switch {
	case k.count < m.quota:
		return c08Allowed, fresh
	case k.count == m.quota:
		return c08HitQuota, fresh
	default:
		return c08OverQuota, fresh
	}
}

// c08WindowSeconds: length of a window opened at caller time now. Without Align
// it is the period; with Align the window ends at the next multiple of period
// in local wall-clock seconds.
func c08WindowSeconds(period int, align bool, now time.Time) int64 {
	if !align {
		return int64(period)
	}
	_, off := now.Zone()
	local := now.Unix() + int64(off)
	return int64(period) - local%int64(period)
}

// ---- interpreter ----

func c08PeriodInterp(t *testing.T, c c08PCase) (v kit.Verdict) {
	srv := c08GetServer()
	srv.reset()
	c08Seq++
	prefix := fmt.Sprintf("c08p%d:", c08Seq)
	var fail string
	classes := map[string]bool{}
	nontrivial := false
	stalled := false
	res := kit.Bubble(t, func() {
		store := redis.New(srv.addr)
		var opts []limit.PeriodOption
		if c.Align {
			opts = append(opts, limit.Align())
			classes["align"] = true
		}
		pl := limit.NewPeriodLimit(c.Period, c.Quota, store, prefix, opts...)
		model := &c08PModel{quota: c.Quota, keys: map[int]*c08PKey{}}
		var serverMs int64
		reached := map[int]bool{} // key reached its quota in some window
		usedKeys := map[int]bool{}
		keyName := func(i int) string { return fmt.Sprintf("k%d", i) }

		for i, o := range c.Ops {
			what := fmt.Sprintf("op %d %+v (server t=%dms)", i, o, serverMs)
			switch o.K {
			case "adv":
				srv.fastForward(time.Duration(o.D) * time.Millisecond)
				time.Sleep(time.Duration(o.D) * time.Millisecond)
				serverMs += int64(o.D)
			case "take":
				win := c08WindowSeconds(c.Period, c.Align, time.Now()) * 1000
				if k := model.keys[o.Key]; k != nil && k.count > 0 {
					switch {
					case serverMs == k.end:
						classes["take-exactly-at-expiry"] = true
					case serverMs == k.end-1:
						classes["take-1ms-before-expiry"] = true
					}
				}
				wasReached := reached[o.Key]
				want, fresh := model.take(o.Key, serverMs, win)
				t0 := srv.realNow()
				var got int
				var err error
				if o.Ctx {
					got, err = pl.TakeCtx(context.Background(), keyName(o.Key))
				} else {
					got, err = pl.Take(keyName(o.Key))
				}
				if srv.realNow().Sub(t0) > c08Stall {
					stalled = true
					return
				}
				if err != nil {
					fail = fmt.Sprintf("%s: Take error %v", what, err)
					return
				}
				if got != want {
					fail = fmt.Sprintf("%s: Take=%d, statement demands %d (1 Allowed, 2 HitQuota, 3 OverQuota; model count=%d window end=%dms)",
						what, got, want, model.keys[o.Key].count, model.keys[o.Key].end)
					return
				}
				usedKeys[o.Key] = true
				if fresh && wasReached {
					classes["restart-after-quota"] = true
					nontrivial = true
				}
				if fresh {
					reached[o.Key] = false
				}
				if want >= c08HitQuota {
					reached[o.Key] = true
				}
				if want == c08OverQuota {
					classes["over-quota"] = true
				}
			case "ctake":
				win := c08WindowSeconds(c.Period, c.Align, time.Now()) * 1000
				wasReached := reached[o.Key]
				var want []int
				anyFresh := false
				for j := 0; j < o.N; j++ {
					w, fresh := model.take(o.Key, serverMs, win)
					want = append(want, w)
					anyFresh = anyFresh || fresh
				}
				got := make([]int, o.N)
				errs := make([]error, o.N)
				var wg sync.WaitGroup
				t0 := srv.realNow()
				for j := 0; j < o.N; j++ {
					wg.Add(1)
					go func(j int) {
						defer wg.Done()
						got[j], errs[j] = pl.Take(keyName(o.Key))
					}(j)
				}
				wg.Wait()
				if srv.realNow().Sub(t0) > c08Stall {
					stalled = true
					return
				}
				for _, err := range errs {
					if err != nil {
						fail = fmt.Sprintf("%s: concurrent Take error %v", what, err)
						return
					}
				}
				sort.Ints(got)
				sort.Ints(want)
				if fmt.Sprint(got) != fmt.Sprint(want) {
					fail = fmt.Sprintf("%s: concurrent takes returned codes %v, the sequential model yields the multiset %v", what, got, want)
					return
				}
				usedKeys[o.Key] = true
				if anyFresh && wasReached {
					classes["restart-after-quota"] = true
					nontrivial = true
				}
				if anyFresh {
					reached[o.Key] = false
				}
				if want[len(want)-1] >= c08HitQuota {
					reached[o.Key] = true
					if want[0] == c08Allowed {
						classes["concurrent-batch-crosses-quota"] = true
					}
				}
				if want[len(want)-1] == c08OverQuota {
					classes["over-quota"] = true
				}
			}
		}
		if len(usedKeys) > 1 {
			classes["multi-key"] = true
		}
	})
	v.NonTrivial = nontrivial
	v.Classes = c08Classes(classes)
	if stalled {
		return kit.Verdict{Excluded: true, Classes: []string{"excluded-real-time-stall"}}
	}
	if fail != "" {
		v.Fail = fail
	} else if !res.OK() {
		v.Fail = "bubble: " + res.String()
	}
	return v
}

// ---- generator ----
//
// The generator carries its own copy of the bookkeeping (assuming UTC for the
// Align phase) only to aim advances at window edges; the ops it emits are plain
// data and the interpreter does not rely on the generator's bookkeeping.

func c08PeriodGen(rt *rapid.T) c08PCase {
	c := c08PCase{
		Period: rapid.IntRange(1, 20).Draw(rt, "period"),
		Quota:  rapid.IntRange(1, 10).Draw(rt, "quota"),
		Align:  rapid.Bool().Draw(rt, "align"),
		Keys:   rapid.IntRange(1, 4).Draw(rt, "keys"),
	}
	const epoch = int64(946684800) // bubble start, 2000-01-01T00:00:00Z
	model := &c08PModel{quota: c.Quota, keys: map[int]*c08PKey{}}
	var nowMs int64
	win := func() int64 {
		if !c.Align {
			return int64(c.Period) * 1000
		}
		sec := epoch + nowMs/1000
		return (int64(c.Period) - sec%int64(c.Period)) * 1000
	}
	if rapid.Bool().Draw(rt, "phase") {
		d := rapid.IntRange(1, c.Period*1000+999).Draw(rt, "phase-ms")
		c.Ops = append(c.Ops, c08POp{K: "adv", D: d})
		nowMs += int64(d)
	}
	n := rapid.IntRange(1, 50).Draw(rt, "nops")
	for i := 0; i < n; i++ {
		kind := rapid.SampledFrom([]string{"take", "take", "take", "take", "take", "ctake", "adv", "adv"}).Draw(rt, "kind")
		switch kind {
		case "take":
			key := rapid.IntRange(0, c.Keys-1).Draw(rt, "key")
			model.take(key, nowMs, win())
			c.Ops = append(c.Ops, c08POp{K: "take", Key: key, Ctx: rapid.IntRange(0, 4).Draw(rt, "ctx") == 0})
		case "ctake":
			key := rapid.IntRange(0, c.Keys-1).Draw(rt, "key")
			k := rapid.IntRange(2, 12).Draw(rt, "callers")
			for j := 0; j < k; j++ {
				model.take(key, nowMs, win())
			}
			c.Ops = append(c.Ops, c08POp{K: "ctake", Key: key, N: k})
		case "adv":
			var d int64
			switch rapid.SampledFrom([]string{"edge", "edge", "edge", "period", "small"}).Draw(rt, "adv-kind") {
			case "edge":
				// aim at the expiry of an open window of some key
				var ends []int64
				for ki := 0; ki < c.Keys; ki++ {
					if k := model.keys[ki]; k != nil && k.count > 0 && k.end > nowMs {
						ends = append(ends, k.end)
					}
				}
				if len(ends) > 0 {
					end := ends[rapid.IntRange(0, len(ends)-1).Draw(rt, "which")]
					d = end - nowMs + int64(rapid.SampledFrom([]int{-1000, -1, 0, 0, 1, 1000}).Draw(rt, "delta"))
				}
			case "period":
				d = int64(c.Period)*1000 + int64(rapid.SampledFrom([]int{-1000, 0, 1000}).Draw(rt, "delta"))
			}
			if d <= 0 {
				d = int64(rapid.IntRange(1, 1500).Draw(rt, "small-ms"))
			}
			c.Ops = append(c.Ops, c08POp{K: "adv", D: int(d)})
			nowMs += d
		}
	}
	return c
}

func TestVerif_C08_period(t *testing.T) {
	c08GetServer()
	kit.Run(t, "C08", "period", kit.Opts{Quick: 250, Thorough: 20000}, c08PeriodGen,
		func(c c08PCase) kit.Verdict { return c08PeriodInterp(t, c) })
}
