package limit_test

// C08 — rate limiters never admit more than their quota.
// Harness injected by /verif (overlay); see /verif/DESIGN.md "C08".
//
// Environment shared by the rules of this property:
//
//   * ONE miniredis per process, started outside every synctest bubble. Its
//     accept loop and per-connection goroutines therefore live outside the
//     bubbles. Everything that may start or wake such goroutines (Close,
//     Restart, FastForward, FlushAll) is executed by a helper goroutine that
//     also lives outside the bubbles; a bubble talks to it over channels created
//     outside (blocking on them is not a durable block, so virtual time stands
//     still meanwhile).
//   * the go-redis client of the wrapper (process-wide clientManager, pool
//     reaper goroutine) is created outside the bubbles by a warm-up Ping.
//   * server time (key TTLs) moves only through FastForward; caller time is
//     data of the case; the bubble's virtual clock drives the wrapper's
//     breaker window, go-redis' retry back-off and the limiter's monitor ticker.
//   * a server-side pre-hook counts the EVAL commands that reach the server per
//     first key (so "this decision was taken by Redis" is observable) and
//     implements two deterministic kinds of outage in which Redis is there but
//     serves nothing:
//       loading: every command is answered with -LOADING (what a restarting
//                Redis says; go-redis retries it 3 times with back-off);
//       err:     every command is answered with -ERR max number of clients
//                reached (not retried).
//     Connections stay open, so no pooled connection is half-dead after
//     recovery. A real Close/Restart of the server does leave dead connections
//     in go-redis' pool (v8 notices a dead pooled connection only by using it,
//     4 attempts per command), in a number that depends on goroutine
//     scheduling; that kind of outage is therefore judged by a separate,
//     tolerant rule that runs last. (A third kind, closing the connection of
//     every command from the server side, was tried and dropped: it piles up
//     server-side TIME_WAIT sockets on the port, and later connection attempts
//     to the closed port then stall for real seconds.)

import (
	"fmt"
	"reflect"
	"sort"
	"sync"
	"sync/atomic"
	"time"

	"github.com/alicebob/miniredis/v2"
	"github.com/alicebob/miniredis/v2/proto"
	"github.com/alicebob/miniredis/v2/server"
	"github.com/gotid/god/lib/logx"
	"github.com/gotid/god/lib/store/redis"
)

func init() {
	logx.Disable()
}

const (
	c08Up int32 = iota
	c08Loading
	c08Err
	c08Blackhole
	c08BadReply
)

type c08Server struct {
	mr     *miniredis.Miniredis
	addr   string
	req    chan func()
	ack    chan struct{}
	closed bool // real Close() in effect (helper goroutine only)

	mode  atomic.Int32
	mu    sync.Mutex
	hole  chan struct{}  // black hole: commands received wait here until the outage ends (under mu)
	evals map[string]int // EVAL / EVALSHA commands executed by the server, per KEYS[1]
	auth  bool           // requirepass c08Pass

	// one-shot fault at command granularity (see c08Fault); trig/fack are made
	// outside the bubbles: the server's connection goroutine asks a goroutine of
	// the case's bubble to cancel the caller's context and waits until it has
	fault *c08Fault // under mu
	trig  chan struct{}
	fack  chan struct{}
}

// Faults at command granularity. A fault is armed for ONE redis key; "a command
// of the take" is any command that carries that key as an argument (whatever
// the command is: EVAL, EVALSHA, INCR, EXPIRE, SET ...), and the fault fires at
// the at-th such command that reaches the server after arming.
const (
	c08FNone          int32 = iota
	c08FCancelExec          // the caller's context is cancelled when the server has received the command (the client hung up mid-request); the server still executes it
	c08FCancelSwallow       // same, but the command is neither executed nor answered (it was lost on the way)
	c08FErr                 // answered with an error reply go-redis does not retry; not executed
	c08FGarble              // executed, but the reply reaches the client preceded by bytes that are no RESP reply (broken middlebox): protocol error at the client, no retry
	c08FLoading             // answered -LOADING, not executed: go-redis retries after a back-off (bubble time)
	c08FBadStr              // answered +OK, not executed (a proxy / a wrong script behind the key)
	c08FBadInt              // answered :7, not executed
)

type c08Fault struct {
	key   string
	at    int
	kind  int32
	seen  int
	fired bool
	done  chan struct{} // closed when the server is through with the command that fired (made on the helper goroutine)
}

func c08HasArg(args []string, key string) bool {
	for _, a := range args {
		if len(a) == len(key) && a == key {
			return true
		}
	}
	return false
}

// arm installs a one-shot fault (helper goroutine: the channel must not belong to a bubble).
func (s *c08Server) arm(key string, at int, kind int32) {
	s.do(func() {
		s.mu.Lock()
		s.fault = &c08Fault{key: key, at: at, kind: kind, done: make(chan struct{})}
		s.mu.Unlock()
	})
}

// disarm removes the fault. fired: it fired; seen: commands of the take that
// reached the server; ok=false: the server did not get through with the fired
// command within 5 s of real time (machine stalled).
func (s *c08Server) disarm() (fired bool, seen int, ok bool) {
	ok = true
	s.do(func() {
		s.mu.Lock()
		f := s.fault
		s.fault = nil
		s.mu.Unlock()
		if f == nil {
			return
		}
		fired, seen = f.fired, f.seen
		if fired {
			select {
			case <-f.done:
			case <-time.After(5 * time.Second):
				ok = false
			}
		}
	})
	return
}

// loseScripts: the server that answers again is a new process (restart,
// fail-over to a replica): its script cache is empty.
func (s *c08Server) loseScripts() {
	s.do(func() {
		c, err := proto.Dial(s.addr)
		if err != nil {
			panic("c08: script flush: " + err.Error())
		}
		defer c.Close()
		if s.auth {
			if _, err := c.Do("AUTH", c08Pass); err != nil {
				panic("c08: script flush: " + err.Error())
			}
		}
		if r, err := c.Do("SCRIPT", "FLUSH"); err != nil || r != proto.Inline("OK") {
			panic(fmt.Sprintf("c08: script flush: %q %v", r, err))
		}
	})
}

// Store kinds: how the *redis.Redis handed to the limiters is constructed. The
// wrapper keeps ONE go-redis client per address and type (clientManager /
// clusterManager keyed by address only), so kinds that need different client
// options live on different miniredis instances.
const (
	c08StoreNode        = iota // redis.New(addr)                                 server 0
	c08StoreCluster            // redis.New(addr, WithCluster())                  server 0
	c08StoreNodePass           // redis.New(addr, WithPass(pw))                   server 1 (requirepass)
	c08StoreClusterPass        // redis.New(addr, WithCluster(), WithPass(pw))    server 2 (requirepass)
	c08StoreKinds
)

const c08Pass = "c08-secret"

var c08StoreNames = [c08StoreKinds]string{"node", "cluster", "node+password", "cluster+password"}

var (
	c08SrvOnce [3]sync.Once
	c08Srvs    [3]*c08Server
	// c08WarmupErr: a store built from the configuration could not reach its
	// healthy server; reported by every token case that uses the server
	c08WarmupErr string
)

func c08StoreOpts(kind int) []redis.Option {
	switch kind {
	case c08StoreCluster:
		return []redis.Option{redis.WithCluster()}
	case c08StoreNodePass:
		return []redis.Option{redis.WithPass(c08Pass)}
	case c08StoreClusterPass:
		return []redis.Option{redis.WithCluster(), redis.WithPass(c08Pass)}
	}
	return nil
}

// c08GetServerFor returns the server a store of this kind talks to (first call outside a bubble).
func c08GetServerFor(kind int) *c08Server {
	switch kind {
	case c08StoreNodePass:
		return c08StartServer(1, true, c08StoreNodePass)
	case c08StoreClusterPass:
		return c08StartServer(2, true, c08StoreClusterPass)
	}
	return c08StartServer(0, false, c08StoreNode, c08StoreCluster)
}

func c08GetServer() *c08Server { return c08GetServerFor(c08StoreNode) }

// c08Epoch: every bubble starts here; also the origin of the caller clock
// (the caller-supplied `now` is data of the case: epoch + milliseconds).
var c08Epoch = time.Unix(946684800, 0)

// c08CommandTable: COMMAND reply with the commands the limiters and the harness use.
var c08CommandTable = func() string {
	t := "*5\r\n"
	for _, e := range []struct {
		name  string
		arity int
		flag  string
		first int
	}{{"ping", -1, "fast", 0}, {"eval", -3, "noscript", 0}, {"get", 2, "readonly", 1}, {"set", -3, "write", 1}, {"hget", 3, "readonly", 1}} {
		t += fmt.Sprintf("*6\r\n$%d\r\n%s\r\n:%d\r\n*1\r\n+%s\r\n:%d\r\n:%d\r\n:%d\r\n", len(e.name), e.name, e.arity, e.flag, e.first, e.first, e.first)
	}
	return t
}()

func (s *c08Server) hook(c *server.Peer, cmd string, args ...string) bool {
	if cmd == "COMMAND" {
		// go-redis' cluster client asks for the command table before its first
		// command and caches it; it cannot parse miniredis' canned table, would ask
		// again before EVERY command and - inside a bubble - deadlock (it sleeps
		// between retries holding the cache's mutex). A small well-formed table is
		// cached by the warm-up ping (EVAL is routed by KEYS[1] in any case).
		c.WriteRaw(c08CommandTable)
		return true
	}
	switch s.mode.Load() {
	case c08Loading:
		c.WriteError("LOADING Redis is loading the dataset in memory")
		return true
	case c08Err:
		c.WriteError("ERR max number of clients reached")
		return true
	case c08BadReply:
		// the script "answers" with something that is not its 0/1 (a proxy or a
		// wrong script behind the key); every other command works
		if cmd == "EVAL" || cmd == "EVALSHA" {
			c.WriteInline("OK")
			return true
		}
	case c08Blackhole:
		// accepted, never answered: the command (and this connection's server
		// goroutine) waits until the outage ends and is then dropped unexecuted;
		// the client has long given up on the connection (read timeout)
		s.mu.Lock()
		ch := s.hole
		s.mu.Unlock()
		if ch != nil {
			<-ch
		}
		c.Close()
		return true
	}
	if kind, f := s.faultFor(c, args); kind != c08FNone {
		defer close(f.done)
		switch kind {
		case c08FErr:
			c.WriteError("ERR injected fault: command refused")
			return true
		case c08FLoading:
			c.WriteError("LOADING Redis is loading the dataset in memory")
			return true
		case c08FBadStr:
			c.WriteInline("OK")
			return true
		case c08FBadInt:
			c.WriteInt(7)
			return true
		case c08FCancelSwallow, c08FCancelExec:
			// a goroutine of the case's bubble cancels the caller's context; go on
			// when it has (the time-out is a safety net for a caller that has
			// already gone; no verdict depends on it)
			select {
			case s.trig <- struct{}{}:
				<-s.fack
			case <-time.After(5 * time.Second):
			}
			if kind == c08FCancelSwallow {
				return true
			}
		case c08FGarble:
			c.WriteRaw("?reply garbled on the way\r\n")
		}
		// executed here and now (the nested call passes this hook: the fault has
		// fired), so that "the server is through with it" is observable (f.done)
		s.mr.Server().Dispatch(c, append([]string{cmd}, args...))
		return true
	}
	if (cmd == "EVAL" || cmd == "EVALSHA") && len(args) >= 3 {
		s.mu.Lock()
		s.evals[args[2]]++
		s.mu.Unlock()
	}
	return false
}

// c08Nested: the command comes from redis.call() inside a script that the server
// is executing (miniredis sends those through the same dispatcher, marked in its
// connection context), not from the network.
func c08Nested(c *server.Peer) bool {
	if c.Ctx == nil {
		return false
	}
	v := reflect.ValueOf(c.Ctx)
	if v.Kind() == reflect.Ptr {
		v = v.Elem()
	}
	if v.Kind() != reflect.Struct {
		return false
	}
	f := v.FieldByName("nested")
	return f.IsValid() && f.Kind() == reflect.Bool && f.Bool()
}

// faultFor: does the armed fault fire at this command? Only commands that
// arrive over the network count: a script runs atomically inside the server.
func (s *c08Server) faultFor(c *server.Peer, args []string) (int32, *c08Fault) {
	s.mu.Lock()
	defer s.mu.Unlock()
	f := s.fault
	if f == nil || f.fired || !c08HasArg(args, f.key) || c08Nested(c) {
		return c08FNone, nil
	}
	f.seen++
	if f.seen != f.at {
		return c08FNone, nil
	}
	f.fired = true
	return f.kind, f
}

// c08StartServer: must first be called OUTSIDE a bubble (it is: from the Test
// functions and from the interpreters before kit.Bubble). The warm-up pings
// create the process-wide go-redis clients (pools, reapers, the cluster
// client's per-node client) outside the bubbles.
func c08StartServer(idx int, auth bool, kinds ...int) *c08Server {
	c08SrvOnce[idx].Do(func() {
		mr := miniredis.NewMiniRedis()
		if err := mr.Start(); err != nil {
			panic("c08: miniredis: " + err.Error())
		}
		if auth {
			mr.RequireAuth(c08Pass)
		}
		s := &c08Server{mr: mr, addr: mr.Addr(), req: make(chan func()), ack: make(chan struct{}), evals: map[string]int{}, auth: auth,
			trig: make(chan struct{}), fack: make(chan struct{})}
		mr.Server().SetPreHook(s.hook)
		go func() {
			for f := range s.req {
				f()
				s.ack <- struct{}{}
			}
		}()
		for _, k := range kinds {
			// The first *redis.Redis of an address decides the options of the
			// process-wide go-redis client (client managers keyed by address), as
			// the first store a service builds from its configuration does: the
			// warm-up store is built the way a service does it.
			conf := redis.Config{Host: s.addr, Type: redis.NodeType}
			if k == c08StoreCluster || k == c08StoreClusterPass {
				conf.Type = redis.ClusterType
			}
			if auth {
				conf.Pass = c08Pass
			}
			if err := conf.Validate(); err != nil {
				c08WarmupErr = "redis.Config.Validate: " + err.Error()
			} else if !conf.NewRedis().Ping() {
				c08WarmupErr = fmt.Sprintf("the first store of the process, built by redis.Config%+v.NewRedis() for a healthy server (store kind %s), cannot ping it", conf, c08StoreNames[k])
			}
		}
		c08Srvs[idx] = s
	})
	return c08Srvs[idx]
}

// do runs f on the helper goroutine (outside any bubble) and waits for it.
func (s *c08Server) do(f func()) {
	s.req <- f
	<-s.ack
}

func (s *c08Server) restartLocked() {
	if s.closed {
		if err := s.mr.Restart(); err != nil {
			panic("c08: restart: " + err.Error())
		}
		s.mr.Server().SetPreHook(s.hook)
		s.closed = false
	}
}

// reset: server up, empty, counters zero.
func (s *c08Server) reset() {
	s.do(func() {
		s.restartLocked()
		s.setModeRaw(c08Up)
		s.mr.FlushAll()
		s.mu.Lock()
		s.evals = map[string]int{}
		s.fault = nil
		s.mu.Unlock()
	})
}

func (s *c08Server) fastForward(d time.Duration) {
	s.do(func() { s.mr.FastForward(d) })
}

// setMode switches the kind of (non-)service; leaving the black hole releases
// the commands parked in it.
func (s *c08Server) setMode(m int32) { s.do(func() { s.setModeRaw(m) }) }

// setModeRaw runs on the helper goroutine: the channel must not belong to a bubble.
func (s *c08Server) setModeRaw(m int32) {
	s.mu.Lock()
	if m == c08Blackhole && s.hole == nil {
		s.hole = make(chan struct{})
	}
	if m != c08Blackhole && s.hole != nil {
		close(s.hole)
		s.hole = nil
	}
	s.mu.Unlock()
	s.mode.Store(m)
}

// closeServer / restartServer: the real thing (listener and all connections closed).
func (s *c08Server) closeServer() {
	s.do(func() {
		if !s.closed {
			s.mr.Close()
			s.closed = true
		}
	})
}

func (s *c08Server) restartServer() {
	s.do(func() { s.restartLocked() })
}

// realNow reads the REAL clock (the helper goroutine is outside the bubbles).
func (s *c08Server) realNow() (t time.Time) {
	s.do(func() { t = time.Now() })
	return
}

// c08Stall: go-redis' socket deadlines are real time (3 s read/write, 4 s pool,
// 5 s dial). On an overloaded machine a reply can miss its deadline; go-redis
// then sends the command again and the (non-idempotent) script runs twice.
// That is a fault of the environment, not a behaviour under the statement: a
// case in which a library call took longer than this in real time is counted
// as excluded and not judged.
const c08Stall = 2 * time.Second

// c08Seq numbers the cases of this process; it is part of every Redis key so
// that a command of an earlier, stalled case that the server executes late
// cannot touch the keys of the current case. Not part of any verdict.
var c08Seq int

func (s *c08Server) evalCount(key string) int {
	s.mu.Lock()
	defer s.mu.Unlock()
	return s.evals[key]
}

func c08Classes(m map[string]bool) []string {
	out := make([]string, 0, len(m))
	for k := range m {
		out = append(out, k)
	}
	sort.Strings(out)
	return out
}
