package limit_test

// C08 — rate limiters never admit more than their quota.
// Harness injected by /verif (overlay); see /verif/DESIGN.md "C08".
//
// Environment shared by the three rules of this property:
//
//   * ONE miniredis per process, started outside every synctest bubble. Its
//     accept loop and per-connection goroutines therefore live outside the
//     bubbles. Everything that may start or wake such goroutines (Close,
//     Restart, FastForward, FlushAll, direct key reads) is executed by a helper
//     goroutine that also lives outside the bubbles; a bubble talks to it over
//     channels created outside (blocking on them is not a durable block, so
//     virtual time stands still meanwhile).
//   * the go-redis client of the wrapper (process-wide clientManager, pool
//     reaper goroutine) is created outside the bubbles by a warm-up Ping.
//   * server time (key TTLs) moves only through FastForward; caller time is
//     data of the case; the bubble's virtual clock drives the wrapper's
//     breaker window, go-redis' retry back-off and the limiter's monitor ticker.

import (
	"fmt"
	"sort"
	"sync"
	"time"

	"github.com/alicebob/miniredis/v2"
	"github.com/gotid/god/lib/logx"
	"github.com/gotid/god/lib/store/redis"
)

func init() {
	logx.Disable()
}

type c08Server struct {
	mr   *miniredis.Miniredis
	addr string
	req  chan func()
	ack  chan struct{}
	down bool
}

var (
	c08SrvOnce sync.Once
	c08Srv     *c08Server
)

// c08GetServer must be called OUTSIDE a bubble (it is, from the interpreters,
// before kit.Bubble).
func c08GetServer() *c08Server {
	c08SrvOnce.Do(func() {
		mr := miniredis.NewMiniRedis()
		if err := mr.Start(); err != nil {
			panic("c08: miniredis: " + err.Error())
		}
		s := &c08Server{mr: mr, addr: mr.Addr(), req: make(chan func()), ack: make(chan struct{})}
		go func() {
			for f := range s.req {
				f()
				s.ack <- struct{}{}
			}
		}()
		// warm-up: creates the process-wide go-redis client (pool + reaper) outside bubbles
		if !redis.New(s.addr).Ping() {
			panic("c08: warm-up ping failed")
		}
		c08Srv = s
	})
	return c08Srv
}

// do runs f on the helper goroutine (outside any bubble) and waits for it.
func (s *c08Server) do(f func()) {
	s.req <- f
	<-s.ack
}

func (s *c08Server) reset() {
	s.do(func() {
		if s.down {
			if err := s.mr.Restart(); err != nil {
				panic("c08: restart: " + err.Error())
			}
			s.down = false
		}
		s.mr.FlushAll()
	})
}

func (s *c08Server) fastForward(d time.Duration) {
	s.do(func() { s.mr.FastForward(d) })
}

func (s *c08Server) outage() {
	s.do(func() {
		if !s.down {
			s.mr.Close()
			s.down = true
		}
	})
}

func (s *c08Server) recover() {
	s.do(func() {
		if s.down {
			if err := s.mr.Restart(); err != nil {
				panic("c08: restart: " + err.Error())
			}
			s.down = false
		}
	})
}

// get reads a string key directly from the server's data (no network).
func (s *c08Server) get(key string) (val string, ok bool) {
	s.do(func() {
		if !s.mr.Exists(key) {
			return
		}
		v, err := s.mr.Get(key)
		if err == nil {
			val, ok = v, true
		}
	})
	return
}

// ---- connection-pool hygiene across outages ----
//
// go-redis v8 keeps idle connections in a process-wide pool (the wrapper's
// clientManager, MinIdleConns 8) and learns that a pooled connection died only
// by using it; after a server restart an arbitrary, schedule-dependent number of
// dead connections lingers and makes later commands fail although Redis answers.
// That is the environment's nondeterminism, not the limiter's. The harness makes
// it deterministic with the pool's own idle rule (a connection unused for 5
// minutes of time.Now is dropped silently when popped): the bubble clock - which
// the limiters only use for housekeeping (monitor ticker, breaker window, retry
// back-off; the bucket arithmetic uses the caller-supplied `now`, which is data
// of the case) - is moved 5 minutes past the last use of any pooled connection
// after every recovery and, once any case had an outage, at the start of every
// later bubble (bubbles restart at 2000-01-01, so "last use" is tracked across
// bubbles in c08Horizon).

const c08IdleSkip = 5*time.Minute + time.Second

var (
	c08Epoch   = time.Unix(946684800, 0) // every bubble starts here
	c08Dirty   bool                      // some earlier case closed the server
	c08Horizon time.Duration             // latest virtual instant (since c08Epoch) reached by any bubble
)

func c08EnterBubble() {
	if c08Dirty {
		time.Sleep(c08Horizon + c08IdleSkip)
	}
}

func c08LeaveBubble() {
	if d := time.Since(c08Epoch); d > c08Horizon {
		c08Horizon = d
	}
}

func c08Classes(m map[string]bool) []string {
	out := make([]string, 0, len(m))
	for k := range m {
		out = append(out, k)
	}
	sort.Strings(out)
	return out
}

func c08Sprint(v any) string { return fmt.Sprintf("%+v", v) }
