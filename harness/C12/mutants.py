#!/usr/bin/env python3
"""Apply one mutant at a time to /tmp/verif-mut-C12 and run bin/check C12 against it."""
import json, os, re, subprocess, sys, time

SCR = "/tmp/verif-mut-C12"
R = "lib/store/redis/redis.go"
KV = "lib/store/kv/store.go"
CFG = "lib/store/redis/config.go"
CL = "lib/store/redis/clustermanager.go"
SC = "lib/store/redis/scriptcache.go"
HK = "lib/store/redis/hook.go"

def fn(name, old, new, count=1):
    """replace inside the body of method `name` only"""
    return ("fn", name, old, new, count)

MUTANTS = [
    # --- DESIGN list
    ("zrange-swap-start-stop", R, "val, err = node.ZRange(ctx, key, start, stop).Result()", "val, err = node.ZRange(ctx, key, stop, start).Result()"),
    ("zrangebyscore-swap-min-max", R, fn("ZRangeByScoreWithScoresCtx", "Min: strconv.FormatInt(start, 10),\n\t\t\tMax: strconv.FormatInt(stop, 10),", "Min: strconv.FormatInt(stop, 10),\n\t\t\tMax: strconv.FormatInt(start, 10),")),
    ("topairs-round", R, "Score:  int64(v.Score),\n\t\t\t}\n\t\tdefault", "Score:  int64(math.Round(v.Score)),\n\t\t\t}\n\t\tdefault"),
    ("get-no-nil-swallow", R, "if val, err = node.Get(ctx, key).Result(); err == red.Nil {\n\t\t\treturn nil\n\t\t}", "if val, err = node.Get(ctx, key).Result(); err == red.Nil {\n\t\t\treturn err\n\t\t}"),
    ("setnxex-without-expiry", R, "val, err = node.SetNX(ctx, key, value, time.Duration(seconds)*time.Second).Result()", "val, err = node.SetNX(ctx, key, value, 0).Result()"),
    ("expire-in-ms", R, "return node.Expire(ctx, key, time.Duration(seconds)*time.Second).Err()", "return node.Expire(ctx, key, time.Duration(seconds)*time.Millisecond).Err()"),
    ("zadd-score-int32", R, fn("ZAddFloatCtx", "Score:  score,", "Score:  float64(int32(score)),")),
    ("lrange-int32", R, "node.LRange(ctx, key, int64(start), int64(stop))", "node.LRange(ctx, key, int64(int32(start)), int64(int32(stop)))"),
    ("kv-del-first-node-only", KV, None, None),  # special
    # --- further realistic ones
    ("hdel-gt1", R, "val = v >= 1\n\t\treturn nil\n\t}, acceptable)\n\n\treturn\n}\n\n// HExists", "val = v > 1\n\t\treturn nil\n\t}, acceptable)\n\n\treturn\n}\n\n// HExists"),
    ("exists-ge1-to-eq0", R, "val = v == 1\n\t\treturn nil\n\t}, acceptable)\n\n\treturn\n}\n\n// Expire", "val = v == 0\n\t\treturn nil\n\t}, acceptable)\n\n\treturn\n}\n\n// Expire"),
    ("getset-no-nil-swallow", R, "if val, err = node.GetSet(ctx, key, value).Result(); err == red.Nil {\n\t\t\treturn nil\n\t\t}", "if val, err = node.GetSet(ctx, key, value).Result(); err == red.Nil {\n\t\t\treturn err\n\t\t}"),
    ("hget-swallows-nil", R, "val, err = node.HGet(ctx, key, field).Result()\n\t\treturn err", "val, err = node.HGet(ctx, key, field).Result()\n\t\tif err == red.Nil {\n\t\t\treturn nil\n\t\t}\n\t\treturn err"),
    ("setex-ms", R, "return node.Set(ctx, key, value, time.Duration(seconds)*time.Second).Err()", "return node.Set(ctx, key, value, time.Duration(seconds)*time.Millisecond).Err()"),
    ("ttl-ms", R, "val = int(duration / time.Second)", "val = int(duration / time.Millisecond)"),
    ("expireat-ms", R, "node.ExpireAt(ctx, key, time.Unix(expireTime, 0))", "node.ExpireAt(ctx, key, time.Unix(expireTime/1000, 0))"),
    ("limit-offset-page-only", R, fn("ZRangeByScoreWithScoresAndLimitCtx", "Offset: int64(page * size),", "Offset: int64(page),")),
    ("revlimit-count-off-by-one", R, fn("ZRevRangeByScoreWithScoresAndLimitCtx", "Count:  int64(size),", "Count:  int64(size + 1),")),
    ("zcount-swap", R, fn("ZCountCtx", "node.ZCount(ctx, key, strconv.FormatInt(start, 10),\n\t\t\tstrconv.FormatInt(stop, 10))", "node.ZCount(ctx, key, strconv.FormatInt(stop, 10),\n\t\t\tstrconv.FormatInt(start, 10))")),
    ("zremrangebyrank-swap", R, "node.ZRemRangeByRank(ctx, key, start, stop)", "node.ZRemRangeByRank(ctx, key, stop, start)"),
    ("zrevrange-calls-zrange", R, "val, err = node.ZRevRange(ctx, key, start, stop).Result()", "val, err = node.ZRange(ctx, key, start, stop).Result()"),
    ("zrevrank-calls-zrank", R, "val, err = node.ZRevRank(ctx, key, member).Result()", "val, err = node.ZRank(ctx, key, member).Result()"),
    ("rpush-calls-lpush", R, "v, err := node.RPush(ctx, key, values...).Result()", "v, err := node.LPush(ctx, key, values...).Result()"),
    ("lrem-count-negated", R, "node.LRem(ctx, key, int64(count), value)", "node.LRem(ctx, key, int64(-count), value)"),
    ("ltrim-swap", R, "return node.LTrim(ctx, key, start, stop).Err()", "return node.LTrim(ctx, key, stop, start).Err()"),
    ("zincrby-int32", R, "node.ZIncrBy(ctx, key, float64(increment), member)", "node.ZIncrBy(ctx, key, float64(int32(increment)), member)"),
    ("hincrby-result-int32", R, fn("HIncrByCtx", "val = int(v)", "val = int(int32(v))")),
    ("zadds-drops-last-pair", R, "v, err := node.ZAdd(ctx, key, zs...).Result()", "v, err := node.ZAdd(ctx, key, zs[:len(zs)-1+1/len(zs)]...).Result()"),
    ("sdiff-calls-sinter", R, "val, err = node.SDiff(ctx, keys...).Result()", "val, err = node.SInter(ctx, keys...).Result()"),
    ("sunionstore-dest-in-sources", R, "v, err := node.SUnionStore(ctx, destination, keys...).Result()", "v, err := node.SUnionStore(ctx, destination, append(keys, destination)...).Result()"),
    ("bitcount-swap", R, "Start: start,\n\t\t\tEnd:   end,", "Start: end,\n\t\t\tEnd:   start,"),
    ("bitpos-drops-end", R, "node.BitPos(ctx, key, bit, start, end)", "node.BitPos(ctx, key, bit, start)"),
    ("mget-nil-as-literal", R, "if v == nil {\n\t\t\tret[i] = \"\"", "if v == nil {\n\t\t\tret[i] = \"<nil>\""),
    ("plain-decrby-ignores-arg", R, "return r.DecrByCtx(context.Background(), key, decrement)", "return r.DecrByCtx(context.Background(), key, 1)"),
    ("plain-zadd-swapped-form", R, "return r.ZAddCtx(context.Background(), key, score, member)", "return r.ZAddCtx(context.Background(), key, -score, member)"),
    ("plain-hset-calls-hsetnx", R, "return r.HSetCtx(context.Background(), key, field, value)", "_, err := r.HSetNXCtx(context.Background(), key, field, value)\n\treturn err"),
    ("pipelined-tx", R, "_, err = node.Pipelined(ctx, fn)", "_, err = node.TxPipelined(ctx, fn)"),
    ("pipelined-swallow-error", R, "_, err = node.Pipelined(ctx, fn)\n\t\treturn err", "_, _ = node.Pipelined(ctx, fn)\n\t\treturn nil"),
    ("evalsha-drops-args", R, "val, err = node.EvalSha(ctx, sha, keys, args...).Result()", "val, err = node.EvalSha(ctx, sha, keys).Result()"),
    ("eval-keys-as-args", R, "val, err = node.Eval(ctx, script, keys, args...).Result()", "val, err = node.Eval(ctx, script, nil, args...).Result()"),
    ("blpop-returns-key", R, fn("BLPopWithTimeoutCtx", "return values[1], nil", "return values[0], nil")),
    ("blpopex-timeout-arg", R, fn("BLPopExCtx", "return values[1], true, nil", "return values[1], false, nil")),
    ("pfadd-ge1", R, "val = v >= 1\n\t\treturn nil\n\t}, acceptable)\n\n\treturn\n}\n\n// PFCount", "val = v > 1\n\t\treturn nil\n\t}, acceptable)\n\n\treturn\n}\n\n// PFCount"),
    ("srandmember-count-abs", R, "node.SRandMemberN(ctx, key, int64(count))", "node.SRandMemberN(ctx, key, int64(count)+1)"),
    ("georadius-lonlat-swap", R, "node.GeoRadius(ctx, key, longitude, latitude, query)", "node.GeoRadius(ctx, key, latitude, longitude, query)"),
    ("geodist-member-swap-unit", R, "node.GeoDist(ctx, key, member1, member2, unit)", "node.GeoDist(ctx, key, member1, member2, \"m\")"),
    ("acceptable-drops-nil", R, "return err == nil || err == red.Nil || err == context.Canceled", "return err == nil || err == context.Canceled"),
    ("acceptable-drops-canceled", R, "return err == nil || err == red.Nil || err == context.Canceled", "return err == nil || err == red.Nil"),
    ("acceptable-everything", R, "return err == nil || err == red.Nil || err == context.Canceled", "return true"),
    # context handling / per-command breaker (second round)
    ("seeded-rpop-nil-trips-breaker", "PATCH", "/verif/seeded/C12/rpop-nil-trips-breaker/patch.diff"),
    ("seeded-kv-saddctx-drops-context", "PATCH", "/verif/seeded/C12/kv-saddctx-drops-context/patch.diff"),
    ("zscore-ctx-dropped", R, "node.ZScore(ctx, key, member)", "node.ZScore(context.Background(), key, member)"),
    ("lpop-only-nil-error-acceptable", R, fn("LPopCtx", "}, acceptable)", "}, func(err error) bool { return err == nil })")),
    ("hgetall-canceled-not-acceptable", R, fn("HGetAllCtx", "}, acceptable)", "}, func(err error) bool { return err == nil || err == red.Nil })")),
    ("kv-ttlctx-drops-context", KV, "return node.TTLCtx(ctx, key)", "return node.TTL(key)"),
    # shard faults (third round)
    ("seeded-kv-del-stops-at-failed-shard", "PATCH", "/verif/seeded/C12/kv-del-stops-at-failed-shard/patch.diff"),
    ("kv-del-shard-error-not-reported", KV, "if v, e := node.DelCtx(ctx, key); e != nil {\n\t\t\tbe.Add(e)", "if v, e := node.DelCtx(ctx, key); e != nil {\n\t\t\t_ = e"),
    # connections (fourth round)
    ("seeded-client-options-shared-pointer", "PATCH", "/verif/seeded/C12/client-options-shared-pointer/patch.diff"),
    # process configuration (fifth round)
    ("seeded-reqerr-metric-label-arity", "PATCH", "/verif/seeded/C12/reqerr-metric-label-arity/patch.diff"),
    ("seeded-scriptload-sha-memo-ignores-server", "PATCH", "/verif/seeded/C12/scriptload-sha-memo-ignores-server/patch.diff"),
    # client configuration (sixth round)
    ("seeded-config-cluster-drops-pass", "PATCH", "/verif/seeded/C12/config-cluster-drops-pass/patch.diff"),
    ("withpass-ignored", R, "r.Pass = pass", "_ = pass"),
    ("config-newredis-ignores-type", "lib/store/redis/config.go", "if c.Type == ClusterType {\n\t\topts = append(opts, WithCluster())\n\t}", "if false {\n\t\topts = append(opts, WithCluster())\n\t}"),
    # same arguments => same command (seventh round)
    ("seeded-blpop-zero-timeout-defaulted", "PATCH", "/verif/seeded/C12/blpop-zero-timeout-defaulted/patch.diff"),
    ("seeded-bitpos-whole-range-short-form", "PATCH", "/verif/seeded/C12/bitpos-whole-range-short-form/patch.diff"),
    ("zcount-inclusive-to-exclusive-when-equal", R, fn("ZCountCtx", "node.ZCount(ctx, key, strconv.FormatInt(start, 10),", "node.ZCount(ctx, key, \"(\"+strconv.FormatInt(start-1, 10),")),
    # reply shapes miniredis never produces / black-hole outage (eighth round)
    ("seeded-scan-empty-page-resets-cursor", "PATCH", "/verif/seeded/C12/scan-empty-page-resets-cursor/patch.diff"),
    ("seeded-deadline-errors-never-trip-breaker", "PATCH", "/verif/seeded/C12/deadline-errors-never-trip-breaker/patch.diff"),
    ("hdel-eq1", R, "val = v >= 1\n\t\treturn nil\n\t}, acceptable)\n\n\treturn\n}\n\n// HExists", "val = v == 1\n\t\treturn nil\n\t}, acceptable)\n\n\treturn\n}\n\n// HExists"),
    ("tostrings-nil-element-dropped", R, "ret := make([]string, len(values))\n\tfor i, v := range values {\n\t\tif v == nil {\n\t\t\tret[i] = \"\"", "ret := make([]string, len(values))\n\tfor i, v := range values {\n\t\tif v == nil {\n\t\t\tret = ret[:len(ret)-1]"),
    # round 8: TLS option, GeoHash / blocking-pop replies, two-node cluster, dropped connections, unspecified inputs
    ("seeded-blpop-empty-element-dropped", "PATCH", "/verif/seeded/C12/blpop-empty-element-dropped/patch.diff"),
    ("seeded-pipelined-wrapped-in-multi", "PATCH", "/verif/seeded/C12/pipelined-wrapped-in-multi/patch.diff"),
    ("withtls-ignored", R, "r.tls = true", "r.tls = false"),
    ("config-newredis-drops-tls", CFG, "if c.Tls {", "if false {"),
    ("clustermanager-ignores-tls", CL, "if r.tls {", "if false {"),
    ("geohash-only-first-member", R, "node.GeoHash(ctx, key, members...)", "node.GeoHash(ctx, key, members[:1]...)"),
    ("blpop-timeout-nil-swallowed", R, fn("BLPopWithTimeoutCtx", "if err != nil {\n\t\treturn \"\", err\n\t}", "if err != nil && err != red.Nil {\n\t\treturn \"\", err\n\t}")),
    ("cluster-no-redirects", CL, "MaxRetries:   maxRetries,", "MaxRetries:   maxRetries,\n\t\t\tMaxRedirects: -1,"),
    ("getredis-unsupported-type-nil-nil", R, "return nil, fmt.Errorf(\"不支持 redis 类型 '%s'\", r.Type)", "return nil, nil"),
    ("blpop-nil-node-check-removed", R, fn("BLPopWithTimeoutCtx", "if node == nil {\n\t\treturn \"\", ErrNilNode\n\t}\n", "")),
    ("scriptcache-not-initialised", SC, "\t\tscriptCache.Store(make(Map))\n", ""),
    ("acceptable-accepts-eof", R, "return err == nil || err == red.Nil || err == context.Canceled", "return err == nil || err == red.Nil || err == context.Canceled || err == io.EOF"),
    ("hook-clears-eof", HK, "err := cmd.Err()\n\th.endSpan(ctx, err)", "err := cmd.Err()\n\tif err == io.EOF {\n\t\tcmd.SetErr(nil)\n\t}\n\th.endSpan(ctx, err)"),
    # round 9: call forms of variadic arguments; 32-bit build (unit lib/store/redis@386)
    ("seeded-kv-pfadd-variadic-repacked", "PATCH", "/verif/seeded/C12/kv-pfadd-variadic-repacked/patch.diff"),
    ("seeded-zscore-bounds-itoa-386", "PATCH", "/verif/seeded/C12/zscore-bounds-itoa-386/patch.diff"),
    ("sadd-variadic-repacked", R, "node.SAdd(ctx, key, values...)", "node.SAdd(ctx, key, values)"),
    ("zincrby-via-int-386", R, "node.ZIncrBy(ctx, key, float64(increment), member)", "node.ZIncrBy(ctx, key, float64(int(increment)), member)"),
    # kv
    ("kv-hdel-other-key", KV, "return node.HDelCtx(ctx, key, field)", "return node.HDelCtx(ctx, field, key)"),
    ("kv-get-wrong-node", KV, fn("GetCtx", "node, err := s.getRedis(key)", "node, err := s.getRedis(key + \"x\")")),
    ("kv-zadd-int-truncates-float", KV, "return node.ZAddFloatCtx(ctx, key, score, value)", "return node.ZAddFloatCtx(ctx, key, float64(int64(score)), value)"),
    ("kv-del-count-last", KV, "val += v", "val = v"),
    ("kv-eval-no-key", KV, "return node.EvalCtx(ctx, script, []string{key}, args...)", "return node.EvalCtx(ctx, script, nil, args...)"),
    ("kv-plain-lrange-swapped", KV, "return s.LRangeCtx(context.Background(), key, start, stop)", "return s.LRangeCtx(context.Background(), key, stop, start)"),
    ("kv-setnxex-calls-setnx", KV, "return node.SetNXExCtx(ctx, key, value, seconds)", "return node.SetNXCtx(ctx, key, value)"),
]

KV_DEL_OLD = """	for _, key := range keys {
		node, e := s.getRedis(key)
		if e != nil {
			be.Add(e)
			continue
		}

		if v, e := node.DelCtx(ctx, key); e != nil {"""
KV_DEL_NEW = """	first, e0 := s.getRedis(keys[0])
	for _, key := range keys {
		node, e := first, e0
		if e != nil {
			be.Add(e)
			continue
		}

		if v, e := node.DelCtx(ctx, key); e != nil {"""


def apply(path, old, new):
    full = os.path.join(SCR, path)
    src = open(full).read()
    if isinstance(old, tuple):
        _, name, o, n, cnt = old
        m = re.search(r"^func \((?:r \*Redis|s kvStore)\) %s\(" % re.escape(name), src, re.M)
        assert m, "method %s not found" % name
        end = src.index("\n}\n", m.start())
        body = src[m.start():end]
        assert body.count(o) == cnt, "%s: %d occurrences in %s" % (o, body.count(o), name)
        src = src[:m.start()] + body.replace(o, n) + src[end:]
    else:
        assert src.count(old) == 1, "%d occurrences of %r" % (src.count(old), old)
        src = src.replace(old, new)
    if "err == io.EOF" in src and '"io"' not in src:
        src = src.replace('import (\n', 'import (\n\t"io"\n', 1)
    if "math.Round" in src and '"math"' not in src:
        src = src.replace('import (\n', 'import (\n\t"math"\n', 1)
    open(full, "w").write(src)


def main():
    want = sys.argv[1:]
    results = []
    for m in MUTANTS:
        name, path, old = m[0], m[1], m[2]
        new = m[3] if len(m) > 3 else None
        if want and name not in want:
            continue
        if name == "kv-del-first-node-only":
            old, new = KV_DEL_OLD, KV_DEL_NEW
        subprocess.run(["git", "-C", SCR, "checkout", "--", R, KV, "lib/store/redis"], check=True)
        try:
            if path == "PATCH":
                subprocess.run(["git", "-C", SCR, "apply", old], check=True)
            else:
                apply(path, old, new)
        except (AssertionError, subprocess.CalledProcessError) as e:
            results.append((name, "APPLY-FAILED", str(e)))
            print(name, "APPLY-FAILED", e, flush=True)
            continue
        t0 = time.time()
        env = dict(os.environ, VERIF_REPO=SCR, VERIF_TIMEOUT="150", VERIF_SHRINKTIME="3s")
        r = subprocess.Popen(["/verif/bin/check", "C12"], env=env, stdout=subprocess.PIPE, stderr=subprocess.PIPE, text=True)
        out, _ = r.communicate()
        work = "/verif/.work/C12.p%d" % r.pid  # one work directory per invocation (kept after a red run)
        viol = [l for l in out.splitlines() if l.startswith("VIOLATION") or l.startswith("  rule=")]
        rule = ""
        for l in out.splitlines():
            mm = re.match(r"\s+rule=([\w@-]+): (.*)", l)
            if mm:
                rule = mm.group(1) + " :: " + mm.group(2)[:230]
                break
        # cases needed: evaluations of the failing rule from the fragment
        evals = ""
        try:
            ev = {}
            import glob
            for fp in glob.glob(work + "/out/C12.*.json"):
                fr = json.load(open(fp))
                ev[fr["rule"]] = fr["evaluations"]
            evals = json.dumps(ev)
        except Exception:
            pass
        after = {}
        import glob as _g
        for lp in _g.glob(work + "/log_*.txt"):
            unit = "kv" if "_kv_" in lp else ("metrics" if "-metrics" in lp else "redis")
            for l in open(lp, errors="replace"):
                mm = re.search(r"--- FAIL: (TestVerif_C12_\w+)", l)
                mm2 = re.search(r"\[rapid\] failed after (\d+) tests", l)
                if mm2:
                    after.setdefault(unit, []).append(int(mm2.group(1)))
        evals = json.dumps(after)
        print("%-32s exit=%d %.0fs %s\n      %s" % (name, r.returncode, time.time() - t0, evals, rule or out[-300:]), flush=True)
        results.append((name, r.returncode, rule, evals))
    subprocess.run(["git", "-C", SCR, "checkout", "--", R, KV, "lib/store/redis"], check=True)
    json.dump(results, open("/verif/.work/C12-mut-results.json", "a"))


main()
