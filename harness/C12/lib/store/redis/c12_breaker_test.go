package redis

// C12 breaker rule: redis.Nil replies and cancelled contexts never trip the breaker
// of a *Redis; connection-level failures (server gone) do.

import (
	"context"
	"fmt"
	"sort"
	"sync"
	"syscall"
	"testing"
	"time"

	"github.com/alicebob/miniredis/v2"
	"github.com/alicebob/miniredis/v2/server"
	red "github.com/go-redis/redis/v8"
	"github.com/gotid/god/lib/breaker"
	"pgregory.net/rapid"
	"verif.local/kit"
)

type c12BrkCase struct {
	// Ops: a run of calls that must end in redis.Nil or context.Canceled.
	Ops []string `json:"ops"`
	// Dead: calls made against the closed server (commands by name).
	Dead []string `json:"dead"`
	// Hung: calls made against the server that accepts connections but never answers,
	// each with a context deadline of HungMs milliseconds (30..80).
	Hung   []string `json:"hung"`
	HungMs int      `json:"hung_ms"`
	// Gone: calls made against the server that is up but drops every connection as soon
	// as a command arrives on it (EOF on established connections).
	Gone []string `json:"gone,omitempty"`
}

var (
	c12DeadOnce sync.Once
	c12DeadAddr string
)

// c12Dead: an address on which no server answers: a port RESERVED for the life of the
// process by a socket that is bound (without SO_REUSEADDR) but never listens, so every
// connect is refused. An earlier version closed a miniredis and used its address; the
// OS can hand such a freed port to a later server of this or another process, and the
// wrapper's process-wide client manager then serves that server with the cached client
// of the "dead" address (seen once in a thorough run: a password-protected twin server
// answered NOAUTH to the cached password-less client), while the "closed" address
// answers again.
func c12Dead(t *testing.T) string {
	c12DeadOnce.Do(func() {
		fd, err := syscall.Socket(syscall.AF_INET, syscall.SOCK_STREAM, 0)
		if err != nil {
			t.Fatalf("socket: %v", err)
		}
		if err = syscall.Bind(fd, &syscall.SockaddrInet4{Port: 0, Addr: [4]byte{127, 0, 0, 1}}); err != nil {
			t.Fatalf("bind: %v", err)
		}
		sa, err := syscall.Getsockname(fd)
		if err != nil {
			t.Fatalf("getsockname: %v", err)
		}
		c12DeadAddr = fmt.Sprintf("127.0.0.1:%d", sa.(*syscall.SockaddrInet4).Port)
		// the fd is deliberately never closed
		if New(c12DeadAddr).Ping() { // creates the wrapper's shared client of the address
			t.Fatalf("something answers on the reserved port %s", c12DeadAddr)
		}
	})
	return c12DeadAddr
}

var (
	c12HungOnce sync.Once
	c12HungAddr string
)

// c12Hung: a server that is up (connections are accepted) but never answers: its
// pre-hook parks every command for 3 s and then drops it. A caller with a short
// deadline sees a connection-level failure through its deadline.
func c12Hung(t *testing.T) string {
	c12HungOnce.Do(func() {
		m, err := miniredis.Run()
		if err != nil {
			t.Fatalf("miniredis H: %v", err)
		}
		m.Server().SetPreHook(func(*server.Peer, string, ...string) bool {
			time.Sleep(3 * time.Second)
			return true
		})
		c12HungAddr = m.Addr()
		// create the wrapper's shared client of this address now (see c12Renew: the
		// decoy's client must stay the most recently created one)
		ctx, cancel := context.WithTimeout(context.Background(), 30*time.Millisecond)
		New(c12HungAddr).GetCtx(ctx, "k")
		cancel()
	})
	return c12HungAddr
}

var (
	c12GoneOnce sync.Once
	c12GoneAddr string
)

// c12Gone: a server that is up (the address accepts connections, so pooled connections
// exist) but closes a connection without a reply as soon as a command arrives on it:
// what clients see while their server is being restarted. Every call ends in EOF on an
// established connection - a connection-level failure of another kind than the refused
// connect of c12Dead.
func c12Gone(t *testing.T) string {
	c12GoneOnce.Do(func() {
		m, err := miniredis.Run()
		if err != nil {
			t.Fatalf("miniredis G: %v", err)
		}
		m.Server().SetPreHook(func(c *server.Peer, cmd string, args ...string) bool {
			c.Close()
			return true
		})
		c12GoneAddr = m.Addr()
		New(c12GoneAddr).Ping() // creates the wrapper's shared client of the address (see c12Renew)
	})
	return c12GoneAddr
}

var c12HungOps = map[string]func(r *Redis, ctx context.Context) error{
	"Get":  func(r *Redis, ctx context.Context) error { _, err := r.GetCtx(ctx, "k"); return err },
	"Set":  func(r *Redis, ctx context.Context) error { return r.SetCtx(ctx, "k", "v") },
	"HGet": func(r *Redis, ctx context.Context) error { _, err := r.HGetCtx(ctx, "h", "f"); return err },
	"Incr": func(r *Redis, ctx context.Context) error { _, err := r.IncrCtx(ctx, "n"); return err },
	"Pipelined": func(r *Redis, ctx context.Context) error {
		return r.PipelinedCtx(ctx, func(p Pipeliner) error { p.Get(ctx, "k"); return nil })
	},
}

var c12NilOps = map[string]func(r *Redis) (error, error){
	// name -> (error returned, error required)
	"nil:HGet":   func(r *Redis) (error, error) { _, err := r.HGet("absent:h", "f"); return err, red.Nil },
	"nil:LPop":   func(r *Redis) (error, error) { _, err := r.LPop("absent:l"); return err, red.Nil },
	"nil:RPop":   func(r *Redis) (error, error) { _, err := r.RPopCtx(context.Background(), "absent:l"); return err, red.Nil },
	"nil:ZScore": func(r *Redis) (error, error) { _, err := r.ZScore("absent:z", "m"); return err, red.Nil },
	"nil:ZRank":  func(r *Redis) (error, error) { _, err := r.ZRank("absent:z", "m"); return err, red.Nil },
	"nil:SPop":   func(r *Redis) (error, error) { _, err := r.SPop("absent:s"); return err, red.Nil },
	"nil:LIndex": func(r *Redis) (error, error) { _, err := r.LIndex("absent:l", 0); return err, red.Nil },
	"nil:Eval": func(r *Redis) (error, error) {
		_, err := r.Eval(`return redis.call('GET', KEYS[1])`, []string{"absent:s"})
		return err, red.Nil
	},
	"nil:Pipelined": func(r *Redis) (error, error) {
		err := r.Pipelined(func(p Pipeliner) error { p.Get(context.Background(), "absent:s"); return nil })
		return err, red.Nil
	},
	"cancel:Get": func(r *Redis) (error, error) { _, err := r.GetCtx(c12Cancelled(), "k"); return err, context.Canceled },
	"cancel:Set": func(r *Redis) (error, error) { return r.SetCtx(c12Cancelled(), "k", "v"), context.Canceled },
	"cancel:HGetAll": func(r *Redis) (error, error) {
		_, err := r.HGetAllCtx(c12Cancelled(), "h")
		return err, context.Canceled
	},
	"cancel:ZAdd": func(r *Redis) (error, error) {
		_, err := r.ZAddCtx(c12Cancelled(), "z", 1, "m")
		return err, context.Canceled
	},
	"cancel:Pipelined": func(r *Redis) (error, error) {
		ctx := c12Cancelled()
		err := r.PipelinedCtx(ctx, func(p Pipeliner) error { p.Get(ctx, "k"); return nil })
		return err, context.Canceled
	},
}

var c12DeadOps = map[string]func(r *Redis) error{
	"Get":  func(r *Redis) error { _, err := r.Get("k"); return err },
	"Set":  func(r *Redis) error { return r.SetCtx(context.Background(), "k", "v") },
	"HGet": func(r *Redis) error { _, err := r.HGet("h", "f"); return err },
	"Incr": func(r *Redis) error { _, err := r.Incr("n"); return err },
	"Pipelined": func(r *Redis) error {
		return r.Pipelined(func(p Pipeliner) error { p.Get(context.Background(), "k"); return nil })
	},
}

func c12Cancelled() context.Context {
	ctx, cancel := context.WithCancel(context.Background())
	cancel()
	return ctx
}

func c12MapNames(m any) []string {
	var out []string
	switch mm := m.(type) {
	case map[string]func(r *Redis) (error, error):
		for k := range mm {
			out = append(out, k)
		}
	case map[string]func(r *Redis) error:
		for k := range mm {
			out = append(out, k)
		}
	case map[string]func(r *Redis, ctx context.Context) error:
		for k := range mm {
			out = append(out, k)
		}
	}
	sort.Strings(out)
	return out
}

func c12BrkGen(rt *rapid.T) c12BrkCase {
	g := &c12G{rt: rt, bit: rapid.Bool()}
	var c c12BrkCase
	nilNames, deadNames := c12MapNames(c12NilOps), c12MapNames(c12DeadOps)
	// kind of run: only Nil, only cancelled, or mixed
	mode := g.uni(3)
	var pool []string
	for _, n := range nilNames {
		if mode == 2 || (mode == 0) == (n[0] == 'n') {
			pool = append(pool, n)
		}
	}
	for n := 300 + g.uni(61); n > 0; n-- {
		c.Ops = append(c.Ops, pool[g.uni(len(pool))])
	}
	for n := 40; n > 0; n-- {
		c.Dead = append(c.Dead, deadNames[g.uni(len(deadNames))])
	}
	hungNames := c12MapNames(c12HungOps)
	for n := 40; n > 0; n-- {
		c.Hung = append(c.Hung, hungNames[g.uni(len(hungNames))])
	}
	c.HungMs = 30 + g.uni(51)
	// part (d) in 2 cases of 3: every call there costs go-redis' three retry back-offs
	for n := 40; n > 0 && mode != 1; n-- {
		c.Gone = append(c.Gone, deadNames[g.uni(len(deadNames))])
	}
	return c
}

func c12BrkInterp(t *testing.T, c c12BrkCase) (v kit.Verdict) {
	tw := c12Setup(t)
	dead := c12Dead(t)
	tw.mA.FlushAll()
	cls := map[string]bool{}
	defer func() {
		for k := range cls {
			v.Classes = append(v.Classes, k)
		}
		sort.Strings(v.Classes)
	}()

	// (a) a long run of redis.Nil replies / cancelled contexts on one instance
	r := New(tw.mA.Addr())
	for i, name := range c.Ops {
		op := c12NilOps[name]
		if op == nil {
			return v.Failf("unknown op %q", name)
		}
		t0 := time.Now()
		got, want := op(r)
		cls[name] = true
		if time.Since(t0) > c12Stall {
			cls["env:stalled-step"] = true
			v.Excluded = true
			c12Renew(t, tw)
			return v
		}
		if got == breaker.ErrServiceUnavailable {
			return v.Failf("call %d (%s) after %d redis.Nil / cancelled calls: breaker rejected with ErrServiceUnavailable", i, name, i)
		}
		if got != want {
			return v.Failf("call %d (%s): got error %v, want %v", i, name, got, want)
		}
	}
	if err := r.Set("alive", "1"); err != nil {
		return v.Failf("Set after %d redis.Nil / cancelled calls failed: %v", len(c.Ops), err)
	}
	if s, err := r.Get("alive"); err != nil || s != "1" {
		return v.Failf("Get after the run = %q, %v", s, err)
	}

	// (b) the server is gone: failures must make the breaker reject
	rd := New(dead)
	tripped := -1
	for i, name := range c.Dead {
		op := c12DeadOps[name]
		if op == nil {
			return v.Failf("unknown dead op %q", name)
		}
		err := op(rd)
		if err == nil {
			return v.Failf("dead call %d (%s) succeeded against a closed server", i, name)
		}
		if err == red.Nil || err == context.Canceled {
			return v.Failf("dead call %d (%s): unexpected %v", i, name, err)
		}
		if err == breaker.ErrServiceUnavailable {
			tripped = i
			break
		}
		cls["dead-error:"+fmt.Sprintf("%T", err)] = true
	}
	if tripped < 0 {
		// P(no rejection in 40 consecutive failures) = prod_{f=6..39} 6/(f+1) < 1e-20
		return v.Failf("%d consecutive connection failures on a closed server never made the breaker reject", len(c.Dead))
	}
	if tripped < 6 {
		return v.Failf("breaker rejected after only %d failures (protection = 5)", tripped)
	}
	cls[fmt.Sprintf("tripped-after:%02d", tripped)] = true

	// (c) black-hole outage: the server accepts connections but never answers; callers
	// use the Ctx forms with short real deadlines. Every call is a connection-level
	// failure (seen through the deadline), so the breaker must start rejecting.
	// (An already expired deadline on a LIVE server is a different thing and is not
	// generated here: the statement is silent about it.)
	if len(c.Hung) > 0 {
		rh := New(c12Hung(t))
		hungTripped := -1
		for i, name := range c.Hung {
			op := c12HungOps[name]
			if op == nil {
				return v.Failf("unknown hung op %q", name)
			}
			ctx, cancel := context.WithTimeout(context.Background(), time.Duration(c.HungMs)*time.Millisecond)
			t0 := time.Now()
			err := op(rh, ctx)
			cancel()
			if time.Since(t0) > c12Stall {
				cls["env:stalled-step"] = true
				v.Excluded = true
				return v
			}
			if err == nil {
				return v.Failf("hung call %d (%s) succeeded against a server that never answers", i, name)
			}
			if err == breaker.ErrServiceUnavailable {
				hungTripped = i
				break
			}
			cls["hung-error:"+fmt.Sprintf("%T", err)+":"+err.Error()] = true
		}
		if hungTripped < 0 {
			return v.Failf("%d consecutive calls that ran into their %d ms deadline on a server that never answers did not make the breaker reject", len(c.Hung), c.HungMs)
		}
		if hungTripped < 6 {
			return v.Failf("breaker rejected after only %d failures (protection = 5)", hungTripped)
		}
		cls[fmt.Sprintf("hung-tripped-after:%02d", hungTripped)] = true
	}
	// (d) the server drops established connections: every call ends in EOF (after the
	// client's own re-sends). These are connection-level failures, the breaker must start
	// rejecting; the error handed to the caller before that is never nil / redis.Nil.
	if len(c.Gone) > 0 {
		rg := New(c12Gone(t))
		goneTripped := -1
		for i, name := range c.Gone {
			op := c12DeadOps[name]
			if op == nil {
				return v.Failf("unknown gone op %q", name)
			}
			t0 := time.Now()
			err := op(rg)
			if time.Since(t0) > c12Stall {
				cls["env:stalled-step"] = true
				v.Excluded = true
				return v
			}
			if err == nil {
				return v.Failf("call %d (%s) succeeded against a server that drops every connection without a reply", i, name)
			}
			if err == red.Nil || err == context.Canceled {
				return v.Failf("call %d (%s) against a server that drops every connection: unexpected %v", i, name, err)
			}
			if err == breaker.ErrServiceUnavailable {
				goneTripped = i
				break
			}
			cls["gone-error:"+err.Error()] = true
		}
		if goneTripped < 0 {
			return v.Failf("%d consecutive calls that lost their connection (server drops it without a reply) never made the breaker reject", len(c.Gone))
		}
		if goneTripped < 6 {
			return v.Failf("breaker rejected after only %d failures (protection = 5)", goneTripped)
		}
		cls[fmt.Sprintf("gone-tripped-after:%02d", goneTripped)] = true
	}
	v.NonTrivial = true
	return v
}

func TestVerif_C12_breaker(t *testing.T) {
	c12Setup(t)
	c12Dead(t)
	kit.Run(t, "C12", "breaker", kit.Opts{Quick: 6, Thorough: 96}, c12BrkGen,
		func(c c12BrkCase) kit.Verdict { return c12BrkInterp(t, c) })
}

// ---------------------------------------------------------------- blocking pop on an empty list (thorough tier)

type c12BlockCase struct {
	X    bool   `json:"x"`
	Form string `json:"form"` // BLPopWithTimeout | BLPopEx(5 s default is too slow: only WithTimeout is run)
	Key  string `json:"k"`
}

// An empty list makes BLPOP wait for its timeout in REAL time (1 s) and then answer
// nil: the wrapper must hand go-redis' redis.Nil through, as raw go-redis does.
func c12BlockInterp(t *testing.T, c c12BlockCase) (v kit.Verdict) {
	tw := c12Setup(t)
	tw.mA.FlushAll()
	tw.mB.FlushAll()
	r := New(tw.mA.Addr())
	var got string
	var gerr error
	if c.X {
		got, gerr = r.BLPopWithTimeoutCtx(context.Background(), tw.blockA, time.Second, c.Key)
	} else {
		got, gerr = r.BLPopWithTimeout(tw.blockA, time.Second, c.Key)
	}
	_, werr := tw.rawB.BLPop(context.Background(), time.Second, c.Key).Result()
	if c12ErrStr(gerr) != c12ErrStr(werr) || got != "" {
		return v.Failf("BLPopWithTimeout on an empty list: wrapper (%q, %q), go-redis error %q", got, c12ErrStr(gerr), c12ErrStr(werr))
	}
	v.NonTrivial = gerr == red.Nil
	return v
}

func TestVerif_C12_blpop_empty(t *testing.T) {
	if !kit.Thorough() {
		t.Skip("real-time sleeps: thorough tier only")
	}
	c12Setup(t)
	kit.Run(t, "C12", "blpop-empty", kit.Opts{Quick: 1, Thorough: 2, NoShard: true},
		func(rt *rapid.T) c12BlockCase {
			return c12BlockCase{X: rapid.Bool().Draw(rt, "x"), Form: "BLPopWithTimeout", Key: rapid.SampledFrom([]string{"l:1", "l:2"}).Draw(rt, "k")}
		},
		func(c c12BlockCase) kit.Verdict { return c12BlockInterp(t, c) })
}

// ---------------------------------------------------------------- breaker, per command

// c12PerCmdCase: one argument tuple per table entry (and one pipeline); every entry
// gets its own fresh *Redis (fresh breaker) and a run of N consecutive calls.
type c12PerCmdCase struct {
	N     int       `json:"n"` // calls per run, 40..60
	Steps []c12Step `json:"steps"`
}

func c12PerCmdGen(rt *rapid.T) c12PerCmdCase {
	g := &c12G{rt: rt, bit: rapid.Bool()}
	c := c12PerCmdCase{N: 40 + g.uni(21)}
	for _, name := range c12Names {
		s := c12Table[name].gen(g)
		s.C = name
		s.X = g.uni(2) == 1 // form of the redis.Nil run; the cancelled run needs the Ctx form
		c.Steps = append(c.Steps, s)
	}
	p := c12Step{C: "pipeline", X: g.uni(2) == 1}
	for n := 1 + g.uni(3); n > 0; n-- {
		q := c12Table["Get"].gen(g)
		q.C = "Get"
		p.P = append(p.P, q)
	}
	c.Steps = append(c.Steps, p)
	return c
}

// For EVERY wrapper command: (a) N consecutive calls of the Ctx form with an already
// cancelled context on a fresh *Redis: each must answer what go-redis answers with that
// context (context.Canceled), never ErrServiceUnavailable, and the instance must still
// serve afterwards; (b) on an empty server, when the command answers redis.Nil (absent
// key), N further consecutive misses likewise. After f failures and no success the
// breaker drops with probability (f-5)/(f+1): a command whose Nil / Canceled counted as
// a failure survives 40 calls with probability < 1e-20.
func c12PerCmdInterp(t *testing.T, c c12PerCmdCase) (v kit.Verdict) {
	tw := c12Setup(t)
	cls := map[string]bool{}
	defer func() {
		for k := range cls {
			v.Classes = append(v.Classes, k)
		}
		sort.Strings(v.Classes)
	}()
	for _, m := range []*miniredis.Miniredis{tw.mA, tw.mB} {
		m.FlushAll()
		m.SetTime(c12T0)
	}
	healthy := func(r *Redis, what string) string {
		if err := r.Set("alive", "1"); err != nil {
			return fmt.Sprintf("%s: a following Set on the same instance failed: %v", what, err)
		}
		if _, err := r.Del("alive"); err != nil {
			return fmt.Sprintf("%s: a following Del on the same instance failed: %v", what, err)
		}
		return ""
	}
	call := func(e *c12Env, ctx context.Context, s c12Step) (any, error) {
		if s.C == "pipeline" {
			fn := func(p red.Pipeliner) error {
				for _, q := range s.P {
					c12Pipe[q.C](p, ctx, q)
				}
				return nil
			}
			if s.X {
				return nil, e.r.PipelinedCtx(ctx, fn)
			}
			return nil, e.r.Pipelined(fn)
		}
		return c12Table[s.C].wrap(e, ctx, s)
	}
	nilRuns := 0
	for _, s := range c.Steps {
		ent := c12Table[s.C]
		if ent == nil && s.C != "pipeline" {
			return v.Failf("unknown command %q", s.C)
		}
		start := time.Now()

		// (a) cancelled contexts
		e := &c12Env{tw: tw, r: New(tw.mA.Addr()), classes: map[string]bool{}, types: map[string]bool{}}
		sc := s
		sc.X, sc.D = true, 1
		for i := 0; i < c.N; i++ {
			ctx, cancel := c12Ctx(sc)
			got, gerr := call(e, ctx, sc)
			cancel()
			if gerr == breaker.ErrServiceUnavailable {
				return v.Failf("%s: call %d with a cancelled context was rejected with ErrServiceUnavailable after %d cancelled calls", c12Show(sc), i, i)
			}
			var werr error
			switch {
			case s.C == "pipeline" || ent.judge != nil:
				werr = context.Canceled
			default:
				_, werr = ent.ref(tw.rawB, ctx, sc)
			}
			if c12ErrStr(gerr) != c12ErrStr(werr) {
				return v.Failf("%s: call %d with a cancelled context returned (%s, %q), go-redis %q", c12Show(sc), i, c12Canon(got, false), c12ErrStr(gerr), c12ErrStr(werr))
			}
		}
		if msg := healthy(e.r, c12Show(sc)+" after the cancelled run"); msg != "" {
			return v.Failf("%s", msg)
		}
		cls["cancel-run:"+s.C] = true

		// (b) redis.Nil on an absent key. Blocking pops would sleep for their timeout.
		blocking := len(s.C) >= 5 && s.C[:5] == "BLPop"
		if !blocking {
			tw.mA.FlushAll()
			e = &c12Env{tw: tw, r: New(tw.mA.Addr()), classes: map[string]bool{}, types: map[string]bool{}}
			sn := s
			sn.D = 0
			ctx, cancel := c12Ctx(sn)
			_, gerr := call(e, ctx, sn)
			if gerr == red.Nil {
				for i := 1; i <= c.N; i++ {
					_, gerr = call(e, ctx, sn)
					if gerr == breaker.ErrServiceUnavailable {
						cancel()
						return v.Failf("%s: miss %d in a row was rejected with ErrServiceUnavailable (redis.Nil must not count as a failure)", c12Show(sn), i)
					}
					if gerr != red.Nil {
						cancel()
						return v.Failf("%s: miss %d in a row returned %q, want redis.Nil", c12Show(sn), i, c12ErrStr(gerr))
					}
				}
				if msg := healthy(e.r, c12Show(sn)+" after the redis.Nil run"); msg != "" {
					cancel()
					return v.Failf("%s", msg)
				}
				cls["nil-run:"+s.C] = true
				nilRuns++
			}
			cancel()
			tw.mA.FlushAll()
		}
		if time.Since(start) > c12Stall {
			cls["env:stalled-step"] = true
			v.Excluded = true
			v.Fail = ""
			c12Renew(t, tw)
			return v
		}
	}
	v.NonTrivial = nilRuns >= 10
	return v
}

func TestVerif_C12_breaker_per_command(t *testing.T) {
	c12Setup(t)
	kit.Run(t, "C12", "breaker-per-command", kit.Opts{Quick: 8, Thorough: 128}, c12PerCmdGen,
		func(c c12PerCmdCase) kit.Verdict { return c12PerCmdInterp(t, c) })
}

// ---------------------------------------------------------------- UNSPECIFIED inputs (panics only)

// c12UnspecCase: inputs a caller can produce but for which the statement names no
// result, because no go-redis command corresponds: a *Redis whose exported Type field
// is neither "node" nor "cluster" (every method then fails in getRedis), a nil node
// handed to the blocking pops, and the exported script cache, which no command method
// uses. Nothing is compared; a panic is the only failure (a hang ends the run).
type c12UnspecCase struct {
	Type  string    `json:"type"`
	Via   int       `json:"via"` // 0: field assignment after New, 1: a caller-written Option
	Steps []c12Step `json:"steps"`
	Sha   []string  `json:"sha,omitempty"` // script cache operations: "set:<i>:<sha>" / "get:<i>"
}

func c12UnspecGen(rt *rapid.T) c12UnspecCase {
	g := &c12G{rt: rt, bit: rapid.Bool()}
	c := c12UnspecCase{Type: g.from("type", "", "sentinel", "NODE", "cluster ", "node,cluster"), Via: g.uni(2)}
	for _, name := range c12Names {
		s := c12Table[name].gen(g)
		s.C = name
		s.X = g.uni(2) == 1
		c.Steps = append(c.Steps, s)
	}
	for _, name := range []string{"Ping", "Pipelined"} {
		c.Steps = append(c.Steps, c12Step{C: name, X: g.uni(2) == 1})
	}
	for n := g.uni(6); n > 0; n-- {
		if g.uni(2) == 0 {
			c.Sha = append(c.Sha, fmt.Sprintf("set:%d:%s", g.uni(len(c12Scripts)), g.from("sha", "", "abc", "0123456789abcdef0123456789abcdef01234567")))
		} else {
			c.Sha = append(c.Sha, fmt.Sprintf("get:%d", g.uni(len(c12Scripts))))
		}
	}
	return c
}

func c12UnspecInterp(t *testing.T, c c12UnspecCase) (v kit.Verdict) {
	tw := c12Setup(t)
	cls := map[string]bool{}
	var cur string
	defer func() {
		if p := recover(); p != nil {
			v.Fail = fmt.Sprintf("%s panicked: %v", cur, p)
		}
		for k := range cls {
			v.Classes = append(v.Classes, k)
		}
		sort.Strings(v.Classes)
	}()
	mk := func() *Redis {
		if c.Via == 1 {
			return New(tw.mA.Addr(), func(r *Redis) { r.Type = c.Type })
		}
		r := New(tw.mA.Addr())
		r.Type = c.Type
		return r
	}
	errs := 0
	for _, s := range c.Steps {
		e := &c12Env{tw: tw, r: mk(), classes: map[string]bool{}, types: map[string]bool{}}
		ctx, cancel := c12Ctx(c12Step{X: s.X})
		cur = fmt.Sprintf("Type %q, %s", c.Type, c12Show(s))
		var err error
		switch {
		case s.C == "Ping":
			if s.X {
				e.r.PingCtx(ctx)
			} else {
				e.r.Ping()
			}
		case s.C == "Pipelined":
			fn := func(p red.Pipeliner) error { p.Get(ctx, "k"); return nil }
			if s.X {
				err = e.r.PipelinedCtx(ctx, fn)
			} else {
				err = e.r.Pipelined(fn)
			}
		case len(s.C) >= 5 && s.C[:5] == "BLPop":
			// the blocking pops do not look at Type; their unspecified input is the nil node
			cur = fmt.Sprintf("nil node, %s", c12Show(s))
			switch s.C {
			case "BLPop":
				if s.X {
					_, err = e.r.BLPopCtx(ctx, nil, s.K[0])
				} else {
					_, err = e.r.BLPop(nil, s.K[0])
				}
			case "BLPopEx":
				if s.X {
					_, _, err = e.r.BLPopExCtx(ctx, nil, s.K[0])
				} else {
					_, _, err = e.r.BLPopEx(nil, s.K[0])
				}
			default:
				if s.X {
					_, err = e.r.BLPopWithTimeoutCtx(ctx, nil, time.Second, s.K[0])
				} else {
					_, err = e.r.BLPopWithTimeout(nil, time.Second, s.K[0])
				}
			}
			cls["nil-node:"+s.C] = true
		default:
			_, err = c12Table[s.C].wrap(e, ctx, s)
			cls["unsupported-type:"+s.C] = true
		}
		cancel()
		if err != nil {
			errs++
		}
	}
	for _, op := range c.Sha {
		cur = "script cache " + op
		var i int
		var sha string
		if _, err := fmt.Sscanf(op, "get:%d", &i); err == nil {
			GetScriptCache().GetSha(c12Scripts[i%len(c12Scripts)])
			cls["scriptcache:get"] = true
		} else if n, _ := fmt.Sscanf(op, "set:%d:%s", &i, &sha); n >= 1 {
			GetScriptCache().SetSha(c12Scripts[i%len(c12Scripts)], sha)
			cls["scriptcache:set"] = true
		}
	}
	v.NonTrivial = errs >= 50
	return v
}

func TestVerif_C12_unspecified(t *testing.T) {
	c12Setup(t)
	kit.Run(t, "C12", "unspecified-no-panic", kit.Opts{Quick: 24, Thorough: 480}, c12UnspecGen,
		func(c c12UnspecCase) kit.Verdict { return c12UnspecInterp(t, c) })
}
