package redis

// C12 breaker rule: redis.Nil replies and cancelled contexts never trip the breaker
// of a *Redis; connection-level failures (server gone) do.

import (
	"context"
	"fmt"
	"sort"
	"sync"
	"testing"
	"time"

	"github.com/alicebob/miniredis/v2"
	red "github.com/go-redis/redis/v8"
	"github.com/gotid/god/lib/breaker"
	"pgregory.net/rapid"
	"verif.local/kit"
)

type c12BrkCase struct {
	// Ops: a run of calls that must end in redis.Nil or context.Canceled.
	Ops []string `json:"ops"`
	// Dead: calls made against the closed server (commands by name).
	Dead []string `json:"dead"`
}

var (
	c12DeadOnce sync.Once
	c12DeadAddr string
)

// c12Dead: an address whose server is gone. The wrapper's shared client for it is
// created while the server still answers, then the server is closed.
func c12Dead(t *testing.T) string {
	c12DeadOnce.Do(func() {
		m, err := miniredis.Run()
		if err != nil {
			t.Fatalf("miniredis C: %v", err)
		}
		c12DeadAddr = m.Addr()
		if !New(c12DeadAddr).Ping() {
			t.Fatalf("cannot reach miniredis C")
		}
		m.Close()
	})
	return c12DeadAddr
}

var c12NilOps = map[string]func(r *Redis) (error, error){
	// name -> (error returned, error required)
	"nil:HGet":   func(r *Redis) (error, error) { _, err := r.HGet("absent:h", "f"); return err, red.Nil },
	"nil:LPop":   func(r *Redis) (error, error) { _, err := r.LPop("absent:l"); return err, red.Nil },
	"nil:RPop":   func(r *Redis) (error, error) { _, err := r.RPopCtx(context.Background(), "absent:l"); return err, red.Nil },
	"nil:ZScore": func(r *Redis) (error, error) { _, err := r.ZScore("absent:z", "m"); return err, red.Nil },
	"nil:ZRank":  func(r *Redis) (error, error) { _, err := r.ZRank("absent:z", "m"); return err, red.Nil },
	"nil:SPop":   func(r *Redis) (error, error) { _, err := r.SPop("absent:s"); return err, red.Nil },
	"nil:LIndex": func(r *Redis) (error, error) { _, err := r.LIndex("absent:l", 0); return err, red.Nil },
	"nil:Eval": func(r *Redis) (error, error) {
		_, err := r.Eval(`return redis.call('GET', KEYS[1])`, []string{"absent:s"})
		return err, red.Nil
	},
	"nil:Pipelined": func(r *Redis) (error, error) {
		err := r.Pipelined(func(p Pipeliner) error { p.Get(context.Background(), "absent:s"); return nil })
		return err, red.Nil
	},
	"cancel:Get": func(r *Redis) (error, error) { _, err := r.GetCtx(c12Cancelled(), "k"); return err, context.Canceled },
	"cancel:Set": func(r *Redis) (error, error) { return r.SetCtx(c12Cancelled(), "k", "v"), context.Canceled },
	"cancel:HGetAll": func(r *Redis) (error, error) {
		_, err := r.HGetAllCtx(c12Cancelled(), "h")
		return err, context.Canceled
	},
	"cancel:ZAdd": func(r *Redis) (error, error) {
		_, err := r.ZAddCtx(c12Cancelled(), "z", 1, "m")
		return err, context.Canceled
	},
	"cancel:Pipelined": func(r *Redis) (error, error) {
		ctx := c12Cancelled()
		err := r.PipelinedCtx(ctx, func(p Pipeliner) error { p.Get(ctx, "k"); return nil })
		return err, context.Canceled
	},
}

var c12DeadOps = map[string]func(r *Redis) error{
	"Get":  func(r *Redis) error { _, err := r.Get("k"); return err },
	"Set":  func(r *Redis) error { return r.SetCtx(context.Background(), "k", "v") },
	"HGet": func(r *Redis) error { _, err := r.HGet("h", "f"); return err },
	"Incr": func(r *Redis) error { _, err := r.Incr("n"); return err },
	"Pipelined": func(r *Redis) error {
		return r.Pipelined(func(p Pipeliner) error { p.Get(context.Background(), "k"); return nil })
	},
}

func c12Cancelled() context.Context {
	ctx, cancel := context.WithCancel(context.Background())
	cancel()
	return ctx
}

func c12MapNames(m any) []string {
	var out []string
	switch mm := m.(type) {
	case map[string]func(r *Redis) (error, error):
		for k := range mm {
			out = append(out, k)
		}
	case map[string]func(r *Redis) error:
		for k := range mm {
			out = append(out, k)
		}
	}
	sort.Strings(out)
	return out
}

func c12BrkGen(rt *rapid.T) c12BrkCase {
	g := &c12G{rt: rt, bit: rapid.Bool()}
	var c c12BrkCase
	nilNames, deadNames := c12MapNames(c12NilOps), c12MapNames(c12DeadOps)
	// kind of run: only Nil, only cancelled, or mixed
	mode := g.uni(3)
	var pool []string
	for _, n := range nilNames {
		if mode == 2 || (mode == 0) == (n[0] == 'n') {
			pool = append(pool, n)
		}
	}
	for n := 300 + g.uni(61); n > 0; n-- {
		c.Ops = append(c.Ops, pool[g.uni(len(pool))])
	}
	for n := 40; n > 0; n-- {
		c.Dead = append(c.Dead, deadNames[g.uni(len(deadNames))])
	}
	return c
}

func c12BrkInterp(t *testing.T, c c12BrkCase) (v kit.Verdict) {
	tw := c12Setup(t)
	dead := c12Dead(t)
	tw.mA.FlushAll()
	cls := map[string]bool{}
	defer func() {
		for k := range cls {
			v.Classes = append(v.Classes, k)
		}
		sort.Strings(v.Classes)
	}()

	// (a) a long run of redis.Nil replies / cancelled contexts on one instance
	r := New(tw.mA.Addr())
	for i, name := range c.Ops {
		op := c12NilOps[name]
		if op == nil {
			return v.Failf("unknown op %q", name)
		}
		t0 := time.Now()
		got, want := op(r)
		cls[name] = true
		if time.Since(t0) > c12Stall {
			cls["env:stalled-step"] = true
			v.Excluded = true
			c12Renew(t)
			return v
		}
		if got == breaker.ErrServiceUnavailable {
			return v.Failf("call %d (%s) after %d redis.Nil / cancelled calls: breaker rejected with ErrServiceUnavailable", i, name, i)
		}
		if got != want {
			return v.Failf("call %d (%s): got error %v, want %v", i, name, got, want)
		}
	}
	if err := r.Set("alive", "1"); err != nil {
		return v.Failf("Set after %d redis.Nil / cancelled calls failed: %v", len(c.Ops), err)
	}
	if s, err := r.Get("alive"); err != nil || s != "1" {
		return v.Failf("Get after the run = %q, %v", s, err)
	}

	// (b) the server is gone: failures must make the breaker reject
	rd := New(dead)
	tripped := -1
	for i, name := range c.Dead {
		op := c12DeadOps[name]
		if op == nil {
			return v.Failf("unknown dead op %q", name)
		}
		err := op(rd)
		if err == nil {
			return v.Failf("dead call %d (%s) succeeded against a closed server", i, name)
		}
		if err == red.Nil || err == context.Canceled {
			return v.Failf("dead call %d (%s): unexpected %v", i, name, err)
		}
		if err == breaker.ErrServiceUnavailable {
			tripped = i
			break
		}
		cls["dead-error:"+fmt.Sprintf("%T", err)] = true
	}
	if tripped < 0 {
		// P(no rejection in 40 consecutive failures) = prod_{f=6..39} 6/(f+1) < 1e-20
		return v.Failf("%d consecutive connection failures on a closed server never made the breaker reject", len(c.Dead))
	}
	if tripped < 6 {
		return v.Failf("breaker rejected after only %d failures (protection = 5)", tripped)
	}
	cls[fmt.Sprintf("tripped-after:%02d", tripped)] = true
	v.NonTrivial = true
	return v
}

func TestVerif_C12_breaker(t *testing.T) {
	c12Setup(t)
	c12Dead(t)
	kit.Run(t, "C12", "breaker", kit.Opts{Quick: 6, Thorough: 96}, c12BrkGen,
		func(c c12BrkCase) kit.Verdict { return c12BrkInterp(t, c) })
}

// ---------------------------------------------------------------- blocking pop on an empty list (thorough tier)

type c12BlockCase struct {
	X    bool   `json:"x"`
	Form string `json:"form"` // BLPopWithTimeout | BLPopEx(5 s default is too slow: only WithTimeout is run)
	Key  string `json:"k"`
}

// An empty list makes BLPOP wait for its timeout in REAL time (1 s) and then answer
// nil: the wrapper must hand go-redis' redis.Nil through, as raw go-redis does.
func c12BlockInterp(t *testing.T, c c12BlockCase) (v kit.Verdict) {
	tw := c12Setup(t)
	tw.mA.FlushAll()
	tw.mB.FlushAll()
	r := New(tw.mA.Addr())
	var got string
	var gerr error
	if c.X {
		got, gerr = r.BLPopWithTimeoutCtx(context.Background(), tw.blockA, time.Second, c.Key)
	} else {
		got, gerr = r.BLPopWithTimeout(tw.blockA, time.Second, c.Key)
	}
	_, werr := tw.rawB.BLPop(context.Background(), time.Second, c.Key).Result()
	if c12ErrStr(gerr) != c12ErrStr(werr) || got != "" {
		return v.Failf("BLPopWithTimeout on an empty list: wrapper (%q, %q), go-redis error %q", got, c12ErrStr(gerr), c12ErrStr(werr))
	}
	v.NonTrivial = gerr == red.Nil
	return v
}

func TestVerif_C12_blpop_empty(t *testing.T) {
	if !kit.Thorough() {
		t.Skip("real-time sleeps: thorough tier only")
	}
	c12Setup(t)
	kit.Run(t, "C12", "blpop-empty", kit.Opts{Quick: 1, Thorough: 2, NoShard: true},
		func(rt *rapid.T) c12BlockCase {
			return c12BlockCase{X: rapid.Bool().Draw(rt, "x"), Form: "BLPopWithTimeout", Key: rapid.SampledFrom([]string{"l:1", "l:2"}).Draw(rt, "k")}
		},
		func(c c12BlockCase) kit.Verdict { return c12BlockInterp(t, c) })
}
