package redis

// C12 command table, part 3: sets and sorted sets.

import (
	"context"
	"fmt"
	"strconv"

	red "github.com/go-redis/redis/v8"
)

func c12RegSets() {
	members := func(g *c12G) c12Step {
		s := c12Step{K: []string{g.key("set")}, S: g.strs(g.member, 1, 3)}
		if g.small(0, 4) == 0 {
			s.I = []int64{g.small(0, 3)} // a non-string member
		}
		return s
	}
	c12Reg("SAdd", &c12Entry{typ: "set", mtype: "set", weight: 7, gen: members,
		wrap: func(e *c12Env, ctx context.Context, s c12Step) (any, error) {
			if s.X {
				return e.r.SAddCtx(ctx, s.K[0], c12Anys(s)...)
			}
			return e.r.SAdd(s.K[0], c12Anys(s)...)
		},
		ref: func(c red.Cmdable, ctx context.Context, s c12Step) (any, error) {
			v, err := c.SAdd(ctx, s.K[0], c12Anys(s)...).Result()
			return int(v), err
		}})
	c12Reg("SRem", &c12Entry{typ: "set", mtype: "set", gen: members,
		wrap: func(e *c12Env, ctx context.Context, s c12Step) (any, error) {
			if s.X {
				return e.r.SRemCtx(ctx, s.K[0], c12Anys(s)...)
			}
			return e.r.SRem(s.K[0], c12Anys(s)...)
		},
		ref: func(c red.Cmdable, ctx context.Context, s c12Step) (any, error) {
			v, err := c.SRem(ctx, s.K[0], c12Anys(s)...).Result()
			return int(v), err
		}})
	c12Reg("SCard", &c12Entry{typ: "set", mtype: "set",
		gen: func(g *c12G) c12Step { return c12Step{K: []string{g.key("set")}} },
		wrap: func(e *c12Env, ctx context.Context, s c12Step) (any, error) {
			if s.X {
				return e.r.SCardCtx(ctx, s.K[0])
			}
			return e.r.SCard(s.K[0])
		},
		ref: func(c red.Cmdable, ctx context.Context, s c12Step) (any, error) {
			return c.SCard(ctx, s.K[0]).Result()
		}})
	c12Reg("SIsMember", &c12Entry{typ: "set", mtype: "set",
		gen: func(g *c12G) c12Step {
			if g.small(0, 4) == 0 {
				return c12Step{K: []string{g.key("set")}, I: []int64{g.small(0, 3)}}
			}
			return c12Step{K: []string{g.key("set")}, S: []string{g.member()}}
		},
		wrap: func(e *c12Env, ctx context.Context, s c12Step) (any, error) {
			if s.X {
				return e.r.SIsMemberCtx(ctx, s.K[0], c12Anys(s)[0])
			}
			return e.r.SIsMember(s.K[0], c12Anys(s)[0])
		},
		ref: func(c red.Cmdable, ctx context.Context, s c12Step) (any, error) {
			return c.SIsMember(ctx, s.K[0], c12Anys(s)[0]).Result()
		}})
	c12Reg("SMembers", &c12Entry{typ: "set", mtype: "set", unordered: true,
		gen: func(g *c12G) c12Step { return c12Step{K: []string{g.key("set")}} },
		wrap: func(e *c12Env, ctx context.Context, s c12Step) (any, error) {
			if s.X {
				return e.r.SMembersCtx(ctx, s.K[0])
			}
			return e.r.SMembers(s.K[0])
		},
		ref: func(c red.Cmdable, ctx context.Context, s c12Step) (any, error) {
			return c.SMembers(ctx, s.K[0]).Result()
		}})
	c12Reg("SScan", &c12Entry{typ: "set", mtype: "set", weight: 1,
		gen: func(g *c12G) c12Step {
			return c12Step{K: []string{g.key("set")}, S: []string{g.from("match", "*", "m*", "m[12]", "")}, I: []int64{g.small(0, 1), g.small(0, 20)}}
		},
		wrap: func(e *c12Env, ctx context.Context, s c12Step) (any, error) {
			if s.X {
				return c12SortedScan(e.r.SScanCtx(ctx, s.K[0], uint64(s.I[0]), s.S[0], s.I[1]))
			}
			return c12SortedScan(e.r.SScan(s.K[0], uint64(s.I[0]), s.S[0], s.I[1]))
		},
		ref: func(c red.Cmdable, ctx context.Context, s c12Step) (any, error) {
			return c12SortedScan(c.SScan(ctx, s.K[0], uint64(s.I[0]), s.S[0], s.I[1]).Result())
		}})

	// SPop: server-side random choice. Validity + re-synchronisation: whatever the
	// wrapper popped on A must be a member on B and is removed there; errors and
	// redis.Nil must be those of go-redis' SPop on B (which then changes nothing).
	c12Reg("SPop", &c12Entry{typ: "set", mtype: "set",
		wire: func(s c12Step) [][]string { return [][]string{{"SPOP", s.K[0]}} },
		gen: func(g *c12G) c12Step { return c12Step{K: []string{g.key("set")}} },
		wrap: func(e *c12Env, ctx context.Context, s c12Step) (any, error) {
			if s.X {
				return e.r.SPopCtx(ctx, s.K[0])
			}
			return e.r.SPop(s.K[0])
		},
		judge: func(e *c12Env, s c12Step, got any, gerr error) string {
			bg := context.Background()
			if gerr != nil {
				_, werr := e.tw.rawB.SPop(bg, s.K[0]).Result()
				if c12ErrStr(gerr) != c12ErrStr(werr) {
					return fmt.Sprintf("wrapper error %q, go-redis SPop %q", c12ErrStr(gerr), c12ErrStr(werr))
				}
				return ""
			}
			n, err := e.tw.rawB.SRem(bg, s.K[0], got.(string)).Result()
			if err != nil || n != 1 {
				return fmt.Sprintf("wrapper popped %q which is not a member of the set on the reference server (SREM = %d, %v)", got, n, err)
			}
			return ""
		}})
	// SRandMember(count) = SRANDMEMBER key count: validity against the reference set.
	c12Reg("SRandMember", &c12Entry{typ: "set", mtype: "set",
		wire: func(s c12Step) [][]string {
			return [][]string{{"SRANDMEMBER", s.K[0], strconv.FormatInt(s.I[0], 10)}}
		},
		gen: func(g *c12G) c12Step { return c12Step{K: []string{g.key("set")}, I: []int64{g.small(-3, 5)}} },
		wrap: func(e *c12Env, ctx context.Context, s c12Step) (any, error) {
			if s.X {
				return e.r.SRandMemberCtx(ctx, s.K[0], int(s.I[0]))
			}
			return e.r.SRandMember(s.K[0], int(s.I[0]))
		},
		judge: func(e *c12Env, s c12Step, got any, gerr error) string {
			bg := context.Background()
			_, werr := e.tw.rawB.SRandMemberN(bg, s.K[0], s.I[0]).Result()
			if c12ErrStr(gerr) != c12ErrStr(werr) {
				return fmt.Sprintf("wrapper error %q, go-redis SRandMemberN %q", c12ErrStr(gerr), c12ErrStr(werr))
			}
			if gerr != nil {
				return ""
			}
			all, _ := e.tw.rawB.SMembers(bg, s.K[0]).Result()
			in := map[string]bool{}
			for _, m := range all {
				in[m] = true
			}
			res := got.([]string)
			seen := map[string]bool{}
			for _, m := range res {
				if !in[m] {
					return fmt.Sprintf("returned %q which is not a member of %v", m, all)
				}
				if s.I[0] >= 0 && seen[m] {
					return fmt.Sprintf("positive count returned %q twice: %v", m, res)
				}
				seen[m] = true
			}
			want := int(s.I[0])
			if want < 0 {
				want = -want
			} else if want > len(all) {
				want = len(all)
			}
			if len(res) != want {
				return fmt.Sprintf("count %d on a set of %d members returned %d members %v, SRANDMEMBER returns %d", s.I[0], len(all), len(res), res, want)
			}
			return ""
		}})

	multi := func(name string,
		plain func(r *Redis, keys ...string) ([]string, error),
		ctxf func(r *Redis, ctx context.Context, keys ...string) ([]string, error),
		raw func(c red.Cmdable, ctx context.Context, keys ...string) *red.StringSliceCmd) {
		c12Reg(name, &c12Entry{typ: "set", mtype: "set", unordered: true,
			gen: func(g *c12G) c12Step { return c12Step{K: g.keys("set", 1, 3)} },
			wrap: func(e *c12Env, ctx context.Context, s c12Step) (any, error) {
				if s.X {
					return ctxf(e.r, ctx, s.K...)
				}
				return plain(e.r, s.K...)
			},
			ref: func(c red.Cmdable, ctx context.Context, s c12Step) (any, error) {
				return raw(c, ctx, s.K...).Result()
			}})
	}
	multi("SUnion", (*Redis).SUnion, (*Redis).SUnionCtx, red.Cmdable.SUnion)
	multi("SDiff", (*Redis).SDiff, (*Redis).SDiffCtx, red.Cmdable.SDiff)
	multi("SInter", (*Redis).SInter, (*Redis).SInterCtx, red.Cmdable.SInter)
	store := func(name string,
		plain func(r *Redis, dest string, keys ...string) (int, error),
		ctxf func(r *Redis, ctx context.Context, dest string, keys ...string) (int, error),
		raw func(c red.Cmdable, ctx context.Context, dest string, keys ...string) *red.IntCmd) {
		// environment defect: miniredis 2.23.1 keeps an empty (or nil) set under dest when
		// the stored result is empty, and then panics in SADD / SPOP / SRANDMEMBER on it
		// (real Redis deletes dest). Such steps are not executed.
		probe := map[string]func(c red.Cmdable, ctx context.Context, keys ...string) *red.StringSliceCmd{
			"SUnionStore": red.Cmdable.SUnion, "SDiffStore": red.Cmdable.SDiff, "SInterStore": red.Cmdable.SInter}[name]
		skip := func(e *c12Env, s c12Step) bool {
			v, err := probe(e.tw.rawB, context.Background(), s.K[1:]...).Result()
			return err == nil && len(v) == 0
		}
		c12Reg(name, &c12Entry{typ: "set", mtype: "set", srcKey: 1, skip: skip,
			gen: func(g *c12G) c12Step { return c12Step{K: append([]string{g.key("set")}, g.keys("set", 1, 3)...)} },
			wrap: func(e *c12Env, ctx context.Context, s c12Step) (any, error) {
				if s.X {
					return ctxf(e.r, ctx, s.K[0], s.K[1:]...)
				}
				return plain(e.r, s.K[0], s.K[1:]...)
			},
			ref: func(c red.Cmdable, ctx context.Context, s c12Step) (any, error) {
				v, err := raw(c, ctx, s.K[0], s.K[1:]...).Result()
				return int(v), err
			}})
	}
	store("SUnionStore", (*Redis).SUnionStore, (*Redis).SUnionStoreCtx, red.Cmdable.SUnionStore)
	store("SDiffStore", (*Redis).SDiffStore, (*Redis).SDiffStoreCtx, red.Cmdable.SDiffStore)
	store("SInterStore", (*Redis).SInterStore, (*Redis).SInterStoreCtx, red.Cmdable.SInterStore)
}

// c12Pairs is the documented []Z -> []Pair conversion: member as string, score
// truncated towards zero.
func c12Pairs(zs []red.Z) []Pair {
	out := make([]Pair, len(zs))
	for i, z := range zs {
		out[i] = Pair{Member: fmt.Sprint(z.Member), Score: int64(z.Score)}
	}
	return out
}

func c12RegZsets() {
	c12Reg("ZAdd", &c12Entry{typ: "zset", mtype: "zset", weight: 7,
		gen: func(g *c12G) c12Step { return c12Step{K: []string{g.key("zset")}, S: []string{g.member()}, I: []int64{g.score()}} },
		wrap: func(e *c12Env, ctx context.Context, s c12Step) (any, error) {
			if s.X {
				return e.r.ZAddCtx(ctx, s.K[0], s.I[0], s.S[0])
			}
			return e.r.ZAdd(s.K[0], s.I[0], s.S[0])
		},
		// documented: true when the member is new
		ref: func(c red.Cmdable, ctx context.Context, s c12Step) (any, error) {
			v, err := c.ZAdd(ctx, s.K[0], &red.Z{Score: float64(s.I[0]), Member: s.S[0]}).Result()
			return v == 1, err
		}})
	c12Reg("ZAddFloat", &c12Entry{typ: "zset", mtype: "zset", weight: 5,
		gen: func(g *c12G) c12Step { return c12Step{K: []string{g.key("zset")}, S: []string{g.member()}, F: []float64{g.fscore()}} },
		wrap: func(e *c12Env, ctx context.Context, s c12Step) (any, error) {
			if s.X {
				return e.r.ZAddFloatCtx(ctx, s.K[0], s.F[0], s.S[0])
			}
			return e.r.ZAddFloat(s.K[0], s.F[0], s.S[0])
		},
		ref: func(c red.Cmdable, ctx context.Context, s c12Step) (any, error) {
			v, err := c.ZAdd(ctx, s.K[0], &red.Z{Score: s.F[0], Member: s.S[0]}).Result()
			return v == 1, err
		}})
	c12Reg("ZAdds", &c12Entry{typ: "zset", mtype: "zset", weight: 3,
		gen: func(g *c12G) c12Step {
			n := int(g.small(1, 3))
			s := c12Step{K: []string{g.key("zset")}}
			for i := 0; i < n; i++ {
				s.S = append(s.S, g.member())
				s.I = append(s.I, g.score())
			}
			return s
		},
		wrap: func(e *c12Env, ctx context.Context, s c12Step) (any, error) {
			ps := make([]Pair, len(s.S))
			for i := range s.S {
				ps[i] = Pair{Member: s.S[i], Score: s.I[i]}
			}
			if s.X {
				return e.r.ZAddsCtx(ctx, s.K[0], ps...)
			}
			return e.r.ZAdds(s.K[0], ps...)
		},
		ref: func(c red.Cmdable, ctx context.Context, s c12Step) (any, error) {
			zs := make([]*red.Z, len(s.S))
			for i := range s.S {
				zs[i] = &red.Z{Score: float64(s.I[i]), Member: s.S[i]}
			}
			return c.ZAdd(ctx, s.K[0], zs...).Result()
		}})
	c12Reg("ZCard", &c12Entry{typ: "zset", mtype: "zset",
		gen: func(g *c12G) c12Step { return c12Step{K: []string{g.key("zset")}} },
		wrap: func(e *c12Env, ctx context.Context, s c12Step) (any, error) {
			if s.X {
				return e.r.ZCardCtx(ctx, s.K[0])
			}
			return e.r.ZCard(s.K[0])
		},
		ref: func(c red.Cmdable, ctx context.Context, s c12Step) (any, error) {
			v, err := c.ZCard(ctx, s.K[0]).Result()
			return int(v), err
		}})
	c12Reg("ZIncrBy", &c12Entry{typ: "zset", mtype: "zset",
		gen: func(g *c12G) c12Step { return c12Step{K: []string{g.key("zset")}, S: []string{g.member()}, I: []int64{g.score()}} },
		wrap: func(e *c12Env, ctx context.Context, s c12Step) (any, error) {
			if s.X {
				return e.r.ZIncrByCtx(ctx, s.K[0], s.I[0], s.S[0])
			}
			return e.r.ZIncrBy(s.K[0], s.I[0], s.S[0])
		},
		// documented: the new score truncated to int64
		ref: func(c red.Cmdable, ctx context.Context, s c12Step) (any, error) {
			v, err := c.ZIncrBy(ctx, s.K[0], float64(s.I[0]), s.S[0]).Result()
			return int64(v), err
		}})
	c12Reg("ZScore", &c12Entry{typ: "zset", mtype: "zset", weight: 3,
		gen: func(g *c12G) c12Step { return c12Step{K: []string{g.key("zset")}, S: []string{g.member()}} },
		wrap: func(e *c12Env, ctx context.Context, s c12Step) (any, error) {
			if s.X {
				return e.r.ZScoreCtx(ctx, s.K[0], s.S[0])
			}
			return e.r.ZScore(s.K[0], s.S[0])
		},
		ref: func(c red.Cmdable, ctx context.Context, s c12Step) (any, error) {
			v, err := c.ZScore(ctx, s.K[0], s.S[0]).Result()
			return int64(v), err
		}})
	rank := func(name string,
		plain func(r *Redis, key, member string) (int64, error),
		ctxf func(r *Redis, ctx context.Context, key, member string) (int64, error),
		raw func(c red.Cmdable, ctx context.Context, key, member string) *red.IntCmd) {
		c12Reg(name, &c12Entry{typ: "zset", mtype: "zset",
			gen: func(g *c12G) c12Step { return c12Step{K: []string{g.key("zset")}, S: []string{g.member()}} },
			wrap: func(e *c12Env, ctx context.Context, s c12Step) (any, error) {
				if s.X {
					return ctxf(e.r, ctx, s.K[0], s.S[0])
				}
				return plain(e.r, s.K[0], s.S[0])
			},
			ref: func(c red.Cmdable, ctx context.Context, s c12Step) (any, error) {
				return raw(c, ctx, s.K[0], s.S[0]).Result()
			}})
	}
	rank("ZRank", (*Redis).ZRank, (*Redis).ZRankCtx, red.Cmdable.ZRank)
	rank("ZRevRank", (*Redis).ZRevRank, (*Redis).ZRevRankCtx, red.Cmdable.ZRevRank)
	c12Reg("ZRem", &c12Entry{typ: "zset", mtype: "zset",
		gen: func(g *c12G) c12Step { return c12Step{K: []string{g.key("zset")}, S: g.strs(g.member, 1, 3)} },
		wrap: func(e *c12Env, ctx context.Context, s c12Step) (any, error) {
			if s.X {
				return e.r.ZRemCtx(ctx, s.K[0], c12Anys(s)...)
			}
			return e.r.ZRem(s.K[0], c12Anys(s)...)
		},
		ref: func(c red.Cmdable, ctx context.Context, s c12Step) (any, error) {
			v, err := c.ZRem(ctx, s.K[0], c12Anys(s)...).Result()
			return int(v), err
		}})

	// score-interval commands: start/stop are int64 scores, sent as decimal strings
	// about 2 in 5 intervals cover every generated score, so that paging commands see
	// sorted sets with several members in range
	scoreLoHi := func(g *c12G) (int64, int64) {
		if g.uni(5) < 2 {
			return -(1 << 40), 1 << 40
		}
		return g.score(), g.score()
	}
	scoreRange := func(g *c12G) c12Step {
		lo, hi := scoreLoHi(g)
		return c12Step{K: []string{g.key("zset")}, I: []int64{lo, hi}}
	}
	fmtI := func(v int64) string { return strconv.FormatInt(v, 10) }
	c12Reg("ZCount", &c12Entry{typ: "zset", mtype: "zset", gen: scoreRange,
		wrap: func(e *c12Env, ctx context.Context, s c12Step) (any, error) {
			if s.X {
				return e.r.ZCountCtx(ctx, s.K[0], s.I[0], s.I[1])
			}
			return e.r.ZCount(s.K[0], s.I[0], s.I[1])
		},
		ref: func(c red.Cmdable, ctx context.Context, s c12Step) (any, error) {
			v, err := c.ZCount(ctx, s.K[0], fmtI(s.I[0]), fmtI(s.I[1])).Result()
			return int(v), err
		}})
	c12Reg("ZRemRangeByScore", &c12Entry{typ: "zset", mtype: "zset", gen: scoreRange,
		wrap: func(e *c12Env, ctx context.Context, s c12Step) (any, error) {
			if s.X {
				return e.r.ZRemRangeByScoreCtx(ctx, s.K[0], s.I[0], s.I[1])
			}
			return e.r.ZRemRangeByScore(s.K[0], s.I[0], s.I[1])
		},
		ref: func(c red.Cmdable, ctx context.Context, s c12Step) (any, error) {
			v, err := c.ZRemRangeByScore(ctx, s.K[0], fmtI(s.I[0]), fmtI(s.I[1])).Result()
			return int(v), err
		}})
	byScore := func(name string,
		plain func(r *Redis, key string, start, stop int64) ([]Pair, error),
		ctxf func(r *Redis, ctx context.Context, key string, start, stop int64) ([]Pair, error),
		raw func(c red.Cmdable, ctx context.Context, key string, opt *red.ZRangeBy) *red.ZSliceCmd) {
		c12Reg(name, &c12Entry{typ: "zset", mtype: "zset", weight: 3, gen: scoreRange,
			wrap: func(e *c12Env, ctx context.Context, s c12Step) (any, error) {
				if s.X {
					return ctxf(e.r, ctx, s.K[0], s.I[0], s.I[1])
				}
				return plain(e.r, s.K[0], s.I[0], s.I[1])
			},
			ref: func(c red.Cmdable, ctx context.Context, s c12Step) (any, error) {
				v, err := raw(c, ctx, s.K[0], &red.ZRangeBy{Min: fmtI(s.I[0]), Max: fmtI(s.I[1])}).Result()
				if err != nil {
					return nil, err
				}
				return c12Pairs(v), nil
			}})
	}
	byScore("ZRangeByScoreWithScores", (*Redis).ZRangeByScoreWithScores, (*Redis).ZRangeByScoreWithScoresCtx, red.Cmdable.ZRangeByScoreWithScores)
	byScore("ZRevRangeByScoreWithScores", (*Redis).ZRevRangeByScoreWithScores, (*Redis).ZRevRangeByScoreWithScoresCtx, red.Cmdable.ZRevRangeByScoreWithScores)
	// ...AndLimit(page, size): LIMIT page*size size. size <= 0 is the wrapper's own
	// "empty page" (no go-redis counterpart: LIMIT x 0 / negative counts mean something
	// else there); it is judged as such: empty result, no error, nothing sent.
	byScoreLimit := func(name string,
		plain func(r *Redis, key string, start, stop int64, page, size int) ([]Pair, error),
		ctxf func(r *Redis, ctx context.Context, key string, start, stop int64, page, size int) ([]Pair, error),
		raw func(c red.Cmdable, ctx context.Context, key string, opt *red.ZRangeBy) *red.ZSliceCmd) {
		c12Reg(name, &c12Entry{typ: "zset", mtype: "zset", weight: 3,
			gen: func(g *c12G) c12Step {
				lo, hi := scoreLoHi(g)
				return c12Step{K: []string{g.key("zset")}, I: []int64{lo, hi, g.small(0, 2), g.small(-1, 3)}}
			},
			wrap: func(e *c12Env, ctx context.Context, s c12Step) (any, error) {
				if s.X {
					return ctxf(e.r, ctx, s.K[0], s.I[0], s.I[1], int(s.I[2]), int(s.I[3]))
				}
				return plain(e.r, s.K[0], s.I[0], s.I[1], int(s.I[2]), int(s.I[3]))
			},
			ref: func(c red.Cmdable, ctx context.Context, s c12Step) (any, error) {
				if s.I[3] <= 0 {
					return []Pair{}, nil
				}
				v, err := raw(c, ctx, s.K[0], &red.ZRangeBy{Min: fmtI(s.I[0]), Max: fmtI(s.I[1]),
					Offset: s.I[2] * s.I[3], Count: s.I[3]}).Result()
				if err != nil {
					return nil, err
				}
				return c12Pairs(v), nil
			}})
	}
	byScoreLimit("ZRangeByScoreWithScoresAndLimit", (*Redis).ZRangeByScoreWithScoresAndLimit, (*Redis).ZRangeByScoreWithScoresAndLimitCtx, red.Cmdable.ZRangeByScoreWithScores)
	byScoreLimit("ZRevRangeByScoreWithScoresAndLimit", (*Redis).ZRevRangeByScoreWithScoresAndLimit, (*Redis).ZRevRangeByScoreWithScoresAndLimitCtx, red.Cmdable.ZRevRangeByScoreWithScores)

	// rank-interval commands
	rankRange := func(g *c12G) c12Step { return c12Step{K: []string{g.key("zset")}, I: []int64{g.idx(), g.idx()}} }
	c12Reg("ZRemRangeByRank", &c12Entry{typ: "zset", mtype: "zset", gen: rankRange,
		wrap: func(e *c12Env, ctx context.Context, s c12Step) (any, error) {
			if s.X {
				return e.r.ZRemRangeByRankCtx(ctx, s.K[0], s.I[0], s.I[1])
			}
			return e.r.ZRemRangeByRank(s.K[0], s.I[0], s.I[1])
		},
		ref: func(c red.Cmdable, ctx context.Context, s c12Step) (any, error) {
			v, err := c.ZRemRangeByRank(ctx, s.K[0], s.I[0], s.I[1]).Result()
			return int(v), err
		}})
	byRank := func(name string,
		plain func(r *Redis, key string, start, stop int64) ([]string, error),
		ctxf func(r *Redis, ctx context.Context, key string, start, stop int64) ([]string, error),
		raw func(c red.Cmdable, ctx context.Context, key string, start, stop int64) *red.StringSliceCmd) {
		c12Reg(name, &c12Entry{typ: "zset", mtype: "zset", weight: 3, gen: rankRange,
			wrap: func(e *c12Env, ctx context.Context, s c12Step) (any, error) {
				if s.X {
					return ctxf(e.r, ctx, s.K[0], s.I[0], s.I[1])
				}
				return plain(e.r, s.K[0], s.I[0], s.I[1])
			},
			ref: func(c red.Cmdable, ctx context.Context, s c12Step) (any, error) {
				return raw(c, ctx, s.K[0], s.I[0], s.I[1]).Result()
			}})
	}
	byRank("ZRange", (*Redis).ZRange, (*Redis).ZRangeCtx, red.Cmdable.ZRange)
	byRank("ZRevRange", (*Redis).ZRevRange, (*Redis).ZRevRangeCtx, red.Cmdable.ZRevRange)
	byRankScores := func(name string,
		plain func(r *Redis, key string, start, stop int64) ([]Pair, error),
		ctxf func(r *Redis, ctx context.Context, key string, start, stop int64) ([]Pair, error),
		raw func(c red.Cmdable, ctx context.Context, key string, start, stop int64) *red.ZSliceCmd) {
		c12Reg(name, &c12Entry{typ: "zset", mtype: "zset", weight: 3, gen: rankRange,
			wrap: func(e *c12Env, ctx context.Context, s c12Step) (any, error) {
				if s.X {
					return ctxf(e.r, ctx, s.K[0], s.I[0], s.I[1])
				}
				return plain(e.r, s.K[0], s.I[0], s.I[1])
			},
			ref: func(c red.Cmdable, ctx context.Context, s c12Step) (any, error) {
				v, err := raw(c, ctx, s.K[0], s.I[0], s.I[1]).Result()
				if err != nil {
					return nil, err
				}
				return c12Pairs(v), nil
			}})
	}
	byRankScores("ZRangeWithScores", (*Redis).ZRangeWithScores, (*Redis).ZRangeWithScoresCtx, red.Cmdable.ZRangeWithScores)
	byRankScores("ZRevRangeWithScores", (*Redis).ZRevRangeWithScores, (*Redis).ZRevRangeWithScoresCtx, red.Cmdable.ZRevRangeWithScores)

	c12Reg("ZUnionStore", &c12Entry{typ: "zset", mtype: "zset", srcKey: 1,
		gen: func(g *c12G) c12Step {
			src := g.keys("zset", 1, 3)
			s := c12Step{K: append([]string{g.key("zset")}, src...), S: []string{g.from("aggregate", "", "SUM", "MIN", "MAX")}}
			if g.small(0, 1) == 0 {
				for range src {
					s.F = append(s.F, float64(g.small(1, 3)))
				}
			}
			return s
		},
		wrap: func(e *c12Env, ctx context.Context, s c12Step) (any, error) {
			st := &ZStore{Keys: s.K[1:], Weights: s.F, Aggregate: s.S[0]}
			if s.X {
				return e.r.ZUnionStoreCtx(ctx, s.K[0], st)
			}
			return e.r.ZUnionStore(s.K[0], st)
		},
		ref: func(c red.Cmdable, ctx context.Context, s c12Step) (any, error) {
			return c.ZUnionStore(ctx, s.K[0], &red.ZStore{Keys: s.K[1:], Weights: s.F, Aggregate: s.S[0]}).Result()
		}})
}
