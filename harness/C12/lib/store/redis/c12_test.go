package redis

// C12 — the Redis wrapper is transparent w.r.t. go-redis.
// Harness injected by /verif (overlay); see /verif/DESIGN.md "C12".
//
// Differential twins: miniredis A is driven through the wrapper (*Redis), miniredis B
// through a raw go-redis v8 client. The hand-written command table (c12_table_test.go)
// is the reference: per wrapper command an argument generator, the raw go-redis call
// "with the same arguments" and the documented result conversion.

import (
	"context"
	"errors"
	"crypto/ecdsa"
	"crypto/elliptic"
	crand "crypto/rand"
	"crypto/tls"
	"crypto/x509"
	"crypto/x509/pkix"
	"encoding/json"
	"fmt"
	"math/big"
	"math/bits"
	"net"
	"reflect"
	"sort"
	"strings"
	"sync"
	"sync/atomic"
	"testing"
	"time"

	"github.com/alicebob/miniredis/v2"
	"github.com/alicebob/miniredis/v2/server"
	red "github.com/go-redis/redis/v8"
	"github.com/gotid/god/lib/breaker"
	"github.com/gotid/god/lib/logx"
	"pgregory.net/rapid"
	"verif.local/kit"
)

// ---------------------------------------------------------------- case data

type c12Step struct {
	C string    `json:"c"`           // table entry name, "advance" or "pipeline"
	X bool      `json:"x,omitempty"` // true: the ...Ctx method is called, false: the plain one
	D int       `json:"d,omitempty"` // Ctx form only: 0 live context, 1 already cancelled, 2 deadline already expired
	K []string  `json:"k,omitempty"` // keys
	S []string  `json:"s,omitempty"` // values / fields / members / patterns
	I []int64   `json:"i,omitempty"` // integers (indices, counts, scores, seconds)
	F []float64 `json:"f,omitempty"` // floats
	P []c12Step `json:"p,omitempty"` // pipeline: queued commands
	// V: call form of the variadic (...any) argument of LPush, RPush, SAdd, SRem, ZRem, PFAdd,
	// Eval, EvalSha: 0 elements one by one, 1 ONE []string as the single argument, 2 ONE []any
	// as the single argument (go-redis documents both: a single slice argument is flattened),
	// 3 a slice nested in a slice (not marshalable: both sides must fail alike, nothing is
	// sent), 4 no element at all. The wrapper and go-redis are given the same arguments.
	V int `json:"v,omitempty"`
}

type c12Case struct {
	// P: client configuration profile (c12Profiles): node/cluster, password or not,
	// and the must-fail configurations. How: the constructor used for every *Redis.
	P     int       `json:"p,omitempty"`
	How   int       `json:"how,omitempty"`
	Steps []c12Step `json:"steps"`
}

// ---------------------------------------------------------------- environment

// c12Profile: one client configuration. The server pair of a profile requires `pass`;
// the wrapper AND the raw go-redis reference client are configured with `cfgPass`
// ("the same credentials"). cfgPass != pass is the must-fail class: both sides must
// then fail in the same way and leave the servers untouched.
// Every profile owns its servers: the wrapper's client/cluster managers cache one
// client per address for the life of the process, so an address never changes its
// configuration.
type c12Profile struct {
	name    string
	typ     string // NodeType | ClusterType (a single miniredis acting as a one-node cluster)
	pass    string
	cfgPass string
	// tls: the server pair speaks TLS only (self-signed certificate); the wrapper is built
	// with WithTLS() / Config.Tls and the raw go-redis reference with the TLS configuration
	// the wrapper documents for that option (InsecureSkipVerify)
	tls bool
	// front: two-node cluster. The address the wrapper (and the raw ClusterClient) is
	// configured with belongs to a FRONT node that owns a slot range on paper (c12FrontLo..
	// c12FrontHi) but holds no data: it answers every command with -MOVED to the data node
	// (mA / mB), which owns the other slots. Both nodes report this topology in CLUSTER SLOTS. The client has
	// to discover the second node from its single seed address, route by key slot and
	// follow redirections; all data ends up on the data node.
	front bool
}

const c12Secret = "c12-s3cret"

var c12Profiles = []c12Profile{
	{"node", NodeType, "", "", false, false},
	{"node+pass", NodeType, c12Secret, c12Secret, false, false},
	{"cluster", ClusterType, "", "", false, false},
	{"cluster+pass", ClusterType, c12Secret, c12Secret, false, false},
	{"mustfail:node-wrong-pass", NodeType, c12Secret, "wrong", false, false},
	{"mustfail:node-missing-pass", NodeType, c12Secret, "", false, false},
	{"mustfail:cluster-missing-pass", ClusterType, c12Secret, "", false, false},
	// round 8 (appended: the index is part of recorded cases)
	{"node+tls", NodeType, "", "", true, false},
	{"node+tls+pass", NodeType, c12Secret, c12Secret, true, false},
	{"cluster+tls", ClusterType, "", "", true, false},
	{"cluster2", ClusterType, "", "", false, true},
	{"cluster2+pass", ClusterType, c12Secret, c12Secret, false, true},
}

func (p c12Profile) mustFail() bool { return p.pass != p.cfgPass }
func (p c12Profile) cluster() bool  { return p.typ == ClusterType }

// clientTLS: the TLS configuration of every raw go-redis client of the profile (the
// one the wrapper documents for WithTLS: encryption without certificate verification).
func (p c12Profile) clientTLS() *tls.Config {
	if !p.tls {
		return nil
	}
	return &tls.Config{InsecureSkipVerify: true}
}

var (
	c12CertOnce sync.Once
	c12Cert     tls.Certificate
)

// c12ServerTLS: a self-signed certificate made once per process.
func c12ServerTLS(t *testing.T) *tls.Config {
	c12CertOnce.Do(func() {
		key, err := ecdsa.GenerateKey(elliptic.P256(), crand.Reader)
		if err != nil {
			t.Fatalf("tls key: %v", err)
		}
		tmpl := &x509.Certificate{
			SerialNumber: big.NewInt(12),
			Subject:      pkix.Name{CommonName: "c12"},
			NotBefore:    time.Now().Add(-time.Hour),
			NotAfter:     time.Now().Add(240 * time.Hour),
			KeyUsage:     x509.KeyUsageDigitalSignature,
			ExtKeyUsage:  []x509.ExtKeyUsage{x509.ExtKeyUsageServerAuth},
			IPAddresses:  []net.IP{net.IPv4(127, 0, 0, 1)},
		}
		der, err := x509.CreateCertificate(crand.Reader, tmpl, tmpl, &key.PublicKey, key)
		if err != nil {
			t.Fatalf("tls cert: %v", err)
		}
		c12Cert = tls.Certificate{Certificate: [][]byte{der}, PrivateKey: key}
	})
	return &tls.Config{Certificates: []tls.Certificate{c12Cert}}
}

// c12RunServer starts a miniredis of the profile (plain or TLS-only).
func c12RunServer(t *testing.T, p c12Profile) *miniredis.Miniredis {
	var m *miniredis.Miniredis
	var err error
	if p.tls {
		m, err = miniredis.RunTLS(c12ServerTLS(t))
	} else {
		m, err = miniredis.Run()
	}
	if err != nil {
		t.Fatalf("miniredis (%s): %v", p.name, err)
	}
	if p.pass != "" {
		m.RequireAuth(p.pass)
	}
	return m
}

// c12BlockNode: the caller-supplied node of the blocking pops. CreateBlockingNode (not
// part of the property: blockingnode.go) builds its client without the TLS option, so
// for TLS profiles the application's own go-redis client plays the node - the node is
// an ARGUMENT of BLPop/BLPopEx/BLPopWithTimeout.
type c12BlockNode struct{ *red.Client }

func (b c12BlockNode) Close() { b.Client.Close() }

type c12BlockCluster struct{ *red.ClusterClient }

func (b c12BlockCluster) Close() { b.ClusterClient.Close() }

// c12Wire records what a server is asked to execute (miniredis pre-hook: command name
// and argument vector of every dispatched command, Lua redis.call included).
type c12Wire struct {
	mu   sync.Mutex
	cmds [][]string
	// script: when non-empty, the server does not execute the command but answers with
	// this raw RESP reply (scripted steps: legal reply shapes miniredis never produces)
	script string
	// slots: when non-empty, the raw reply this node gives to CLUSTER SLOTS (two-node
	// topology of the "front" profiles)
	slots string
	// command: when non-empty, the raw reply this node gives to COMMAND. miniredis 2.23.1
	// sends its canned COMMAND table as ONE bulk string instead of an array; go-redis'
	// ClusterClient cannot parse that, knows no key positions and then routes every
	// command to a random slot. The two-node profiles serve the same table well-formed,
	// so that routing is by key slot as on a real cluster.
	command string
}

// c12CommandReply fetches miniredis' COMMAND table and re-frames it as the RESP array it
// is meant to be.
func c12CommandReply(t *testing.T, adm *red.Client) string {
	txt, err := adm.Do(context.Background(), "COMMAND").Text()
	if err != nil {
		t.Fatalf("COMMAND: %v", err)
	}
	var lines []string
	for _, l := range strings.Split(txt, "\n") {
		if l = strings.TrimSpace(l); l != "" {
			lines = append(lines, l)
		}
	}
	if len(lines) < 100 || !strings.HasPrefix(lines[0], "*") {
		t.Fatalf("unexpected COMMAND table from miniredis (%d lines)", len(lines))
	}
	return strings.Join(lines, "\r\n") + "\r\n"
}

// c12SlotsReply: CLUSTER SLOTS of the two-node topology: slots c12FrontLo..c12FrontHi ->
// front, the rest -> data. The front range holds the slots of l:2 (4677) and z:1 (5093):
// a tenth of the generated keys (a list and a sorted set) is redirected, and 3 % of the
// keyless commands, which go to a random slot. go-redis sleeps 8..24 ms before it follows
// a redirection (30 ms per redirected step for the two sides), so the share is kept small.
const c12FrontLo, c12FrontHi = 4600, 5100

func c12SlotsReply(front, data *miniredis.Miniredis) string {
	node := func(m *miniredis.Miniredis, id string) string {
		host, port, _ := net.SplitHostPort(m.Addr())
		return "*3\r\n$" + fmt.Sprint(len(host)) + "\r\n" + host + "\r\n:" + port + "\r\n$40\r\n" + id + "\r\n"
	}
	f, d := node(front, strings.Repeat("f", 40)), node(data, strings.Repeat("d", 40))
	return fmt.Sprintf("*3\r\n*3\r\n:0\r\n:%d\r\n%s*3\r\n:%d\r\n:%d\r\n%s*3\r\n:%d\r\n:16383\r\n%s",
		c12FrontLo-1, d, c12FrontLo, c12FrontHi, f, c12FrontHi+1, d)
}

// c12FrontHook: the front node of a two-node profile (see c12Profile.front).
func c12FrontHook(slots, command, dataAddr string, moved *int64) server.Hook {
	return func(c *server.Peer, cmd string, args ...string) bool {
		switch cmd {
		case "COMMAND":
			c.WriteRaw(command)
			return true
		case "CLUSTER":
			if len(args) > 0 && strings.EqualFold(args[0], "SLOTS") {
				c.WriteRaw(slots)
				return true
			}
			return false
		case "AUTH", "HELLO", "SELECT", "READONLY", "CLIENT", "ASKING":
			return false // connection housekeeping is answered by the node itself
		}
		atomic.AddInt64(moved, 1)
		c.WriteError("MOVED 0 " + dataAddr)
		return true
	}
}

func (w *c12Wire) setScript(raw string) {
	w.mu.Lock()
	w.script = raw
	w.mu.Unlock()
}

// connection / topology housekeeping of go-redis: not part of any wrapper command
var c12WireIgnore = map[string]bool{"AUTH": true, "HELLO": true, "SELECT": true, "CLUSTER": true,
	"COMMAND": true, "READONLY": true, "CLIENT": true}

func (w *c12Wire) hook(c *server.Peer, cmd string, args ...string) bool {
	if cmd == "CLUSTER" && w.slots != "" && len(args) > 0 && strings.EqualFold(args[0], "SLOTS") {
		c.WriteRaw(w.slots)
		return true
	}
	if cmd == "COMMAND" && w.command != "" {
		c.WriteRaw(w.command)
		return true
	}
	if c12WireIgnore[cmd] {
		return false
	}
	w.mu.Lock()
	w.cmds = append(w.cmds, append([]string{cmd}, args...))
	raw := w.script
	w.mu.Unlock()
	if raw == c12Drop {
		// the server goes away under the command: the connection is closed without a reply
		c.Close()
		return true
	}
	if raw != "" {
		c.WriteRaw(raw)
		return true // answered here, nothing is executed
	}
	return false // the server executes the command
}

// c12Drop (scripted steps, node profiles): instead of answering, both servers close the
// connection the command arrived on - what a client sees when its server is restarted or
// an idle pooled connection was dropped on the way. Every attempt of both clients ends in
// EOF; how often a client re-sends is its retry policy (the wrapper configures
// MaxRetries itself), so re-sent copies are collapsed before the wire comparison.
const c12Drop = "!drop"

func c12Collapse(cmds [][]string) [][]string {
	var out [][]string
	for _, c := range cmds {
		if n := len(out); n > 0 && reflect.DeepEqual(out[n-1], c) {
			continue
		}
		out = append(out, c)
	}
	return out
}

func (w *c12Wire) take() [][]string {
	w.mu.Lock()
	defer w.mu.Unlock()
	out := w.cmds
	w.cmds = nil
	return out
}

// c12WireStr renders recorded commands for comparison. HMSET takes its pairs from a
// Go map on both sides (iteration order is random): pairs are sorted. unordered: the
// commands were issued concurrently (burst) and are compared as a multiset.
func c12WireStr(cmds [][]string, unordered bool) string {
	lines := make([]string, len(cmds))
	for i, c := range cmds {
		if c[0] == "HMSET" && len(c) > 2 {
			var pairs []string
			for j := 2; j+1 < len(c); j += 2 {
				pairs = append(pairs, fmt.Sprintf("%q=%q", c[j], c[j+1]))
			}
			sort.Strings(pairs)
			c = append([]string{c[0], c[1]}, pairs...)
		}
		lines[i] = fmt.Sprintf("%q", c)
	}
	if unordered {
		sort.Strings(lines)
	}
	return strings.Join(lines, " ; ")
}

type c12Twins struct {
	prof   c12Profile
	wa, wb *c12Wire // what A (behind the wrapper) and B (behind raw go-redis) were sent
	how    int // the constructor that created (and warmed) the shared client of address A
	mA, mB *miniredis.Miniredis
	// fA, fB (profiles with front): the front nodes; clients are configured with THEIR address
	fA, fB *miniredis.Miniredis
	movedA, movedB int64 // -MOVED replies given by the front nodes
	admA   *red.Client // raw client to A: used for housekeeping only (SCRIPT FLUSH)
	// rawB: the reference client, raw go-redis with the same credentials: a *red.Client
	// for node profiles, a *red.ClusterClient for cluster profiles (the go-redis client
	// that corresponds to Type=cluster)
	rawB interface {
		red.Cmdable
		Close() error
	}
	blockA ClosableNode
	// mD (profile "node" only): decoy server whose wrapper client is created AFTER the
	// one of A, so that A's client is not the most recently created one (burst steps).
	mD *miniredis.Miniredis
}

// newRedis builds a *Redis for server A of the profile in one of the ways an
// application does: New(addr, options...), Config.NewRedis(), KeyConfig's NewRedis().
// addrA / addrB: the address a client of side A / B is configured with.
func (tw *c12Twins) addrA() string {
	if tw.fA != nil {
		return tw.fA.Addr()
	}
	return tw.mA.Addr()
}

func (tw *c12Twins) addrB() string {
	if tw.fB != nil {
		return tw.fB.Addr()
	}
	return tw.mB.Addr()
}

func (tw *c12Twins) newRedis(how int) *Redis {
	p := tw.prof
	conf := Config{Host: tw.addrA(), Type: p.typ, Pass: p.cfgPass, Tls: p.tls}
	switch how % 3 {
	case 1:
		return conf.NewRedis()
	case 2:
		return KeyConfig{Config: conf, Key: "c12"}.NewRedis()
	}
	var opts []Option
	if p.cluster() {
		opts = append(opts, WithCluster())
	}
	if p.cfgPass != "" {
		opts = append(opts, WithPass(p.cfgPass))
	}
	if p.tls {
		opts = append(opts, WithTLS())
	}
	return New(tw.addrA(), opts...)
}

var (
	c12Mu  sync.Mutex
	c12Tw  = make([]*c12Twins, 3*len(c12Profiles)) // per profile and constructor
	c12Log sync.Once
	c12T0  = time.Date(2030, 1, 1, 0, 0, 0, 0, time.UTC)
)

type c12CtxKey struct{}

// c12Stall: both clients re-send a command after a read timeout (3 s, go-redis
// default; the wrapper configures MaxRetries 3), which executes non-idempotent commands
// twice. On a starved machine a loopback round trip can exceed 3 s. A step that took
// longer than 2 s of real time may contain such a retry: the case is then counted as
// excluded (never as failed) and not judged any further. Every retry path of go-redis
// (read/write/pool/dial timeout) needs >= 3 s, so no retry hides below the threshold.
const c12Stall = 2 * time.Second

var c12StepStall = c12Stall

type c12NoLog struct{}

func (c12NoLog) Printf(context.Context, string, ...interface{}) {}

func init() { red.SetLogger(c12NoLog{}) } // go-redis warns about every sub-second timeout

// c12Setup returns the twins of the plain profile (node, no password).
func c12Setup(t *testing.T) *c12Twins { return c12Get(t, 0, 0) }

// c12Get returns the twins of a profile and constructor, creating the servers at
// first use. The wrapper's client / cluster managers cache ONE client per address,
// built from the first *Redis that uses the address; a constructor that loses part of
// the configuration only shows when it is that first user. Hence one server pair per
// (profile, constructor), warmed through that constructor.
func c12Get(t *testing.T, p, how int) *c12Twins {
	c12Log.Do(func() {
		logx.Disable()
		for _, n := range c12ScriptedNames {
			if c12Table[n] == nil {
				t.Fatalf("c12: scripted shapes for %q, which is not a table entry", n)
			}
		}
	})
	c12Mu.Lock()
	defer c12Mu.Unlock()
	i := 3*p + how%3
	if c12Tw[i] == nil {
		c12Tw[i] = &c12Twins{prof: c12Profiles[p], how: how % 3}
		c12Renew(t, c12Tw[i])
	}
	return c12Tw[i]
}

// c12Renew puts fresh servers (new addresses) and fresh clients behind the twins.
// Used at first use and after a stalled step: a command that timed out on the client
// side may still be executed by the old server later ("zombie"); it must not reach
// the servers of the following cases. The old servers are simply abandoned.
func c12Renew(t *testing.T, tw *c12Twins) {
	var err error
	p := tw.prof
	if tw.mA != nil {
		// The old servers stay up (abandoned): closing them would let the OS hand their
		// ports to new servers, and the wrapper's process-wide client manager still
		// holds a client with dead pooled connections for such an address.
		tw.admA.Close()
		tw.rawB.Close()
		tw.blockA.Close()
	}
	tw.mA = c12RunServer(t, p)
	tw.mB = c12RunServer(t, p)
	tw.wa, tw.wb = &c12Wire{}, &c12Wire{}
	tw.admA = red.NewClient(&red.Options{Addr: tw.mA.Addr(), Password: p.cfgPass, TLSConfig: p.clientTLS()})
	if p.front {
		tw.fA, tw.fB = c12RunServer(t, p), c12RunServer(t, p)
		tw.wa.slots, tw.wb.slots = c12SlotsReply(tw.fA, tw.mA), c12SlotsReply(tw.fB, tw.mB)
		tw.wa.command = c12CommandReply(t, tw.admA)
		tw.wb.command = tw.wa.command
		tw.fA.Server().SetPreHook(c12FrontHook(tw.wa.slots, tw.wa.command, tw.mA.Addr(), &tw.movedA))
		tw.fB.Server().SetPreHook(c12FrontHook(tw.wb.slots, tw.wb.command, tw.mB.Addr(), &tw.movedB))
	}
	tw.mA.Server().SetPreHook(tw.wa.hook)
	tw.mB.Server().SetPreHook(tw.wb.hook)
	if p.cluster() {
		tw.rawB = red.NewClusterClient(&red.ClusterOptions{Addrs: []string{tw.addrB()}, Password: p.cfgPass, TLSConfig: p.clientTLS()})
	} else {
		tw.rawB = red.NewClient(&red.Options{Addr: tw.mB.Addr(), Password: p.cfgPass, TLSConfig: p.clientTLS()})
	}
	switch {
	case p.tls && p.cluster():
		tw.blockA = c12BlockCluster{red.NewClusterClient(&red.ClusterOptions{Addrs: []string{tw.mA.Addr()}, Password: p.cfgPass,
			PoolSize: 1, ReadTimeout: 7 * time.Second, TLSConfig: p.clientTLS()})}
	case p.tls:
		tw.blockA = c12BlockNode{red.NewClient(&red.Options{Addr: tw.mA.Addr(), Password: p.cfgPass,
			PoolSize: 1, ReadTimeout: 7 * time.Second, TLSConfig: p.clientTLS()})}
	default:
		tw.blockA, err = CreateBlockingNode(tw.newRedis(tw.how))
		if err != nil {
			t.Fatalf("blocking node: %v", err)
		}
	}
	// warm the shared wrapper client (client / cluster manager) of the new address
	// through the constructor of these twins. If the wrapper cannot reach its server
	// although raw go-redis with the right password can, that is the wrapper's doing: the
	// histories will report it; if raw go-redis cannot either, the run is inconclusive.
	for i := 0; !tw.newRedis(tw.how).Ping() && !p.mustFail(); i++ {
		if i > 20 {
			probe := red.NewClient(&red.Options{Addr: tw.mA.Addr(), Password: p.pass, TLSConfig: p.clientTLS()})
			perr := probe.Ping(context.Background()).Err()
			probe.Close()
			if perr != nil {
				t.Fatalf("miniredis A (%s) unreachable: %v", p.name, perr)
			}
			break
		}
		time.Sleep(50 * time.Millisecond)
	}
	if p.name != "node" || tw.how != 0 {
		return
	}
	// the closed server of the breaker rule gets its client now, so that the decoy's
	// client below is created after both
	c12Dead(t)
	c12Hung(t)
	c12Gone(t)
	if tw.mD, err = miniredis.Run(); err != nil {
		t.Fatalf("miniredis D: %v", err)
	}
	for i := 0; !New(tw.mD.Addr()).Ping(); i++ {
		if i > 50 {
			t.Fatalf("wrapper cannot reach miniredis D")
		}
		time.Sleep(100 * time.Millisecond)
	}
}

// c12Env is the state of one interpreted case.
type c12Env struct {
	tw      *c12Twins
	how     int // constructor used for every *Redis of the case (c12Twins.newRedis)
	r       *Redis
	fails   int // breaker-relevant failures seen by the current *Redis instance
	now     time.Time
	classes map[string]bool
	types   map[string]bool
	hits    int
	ncmd    int
	// scriptedRaw: non-empty while a scripted step runs its inner command (nothing is
	// executed by the servers, so no command can block and no skip rule applies)
	scriptedRaw string
}

// reset empties both twins. It reports false when the housekeeping round trips
// stalled three times in a row (the case is then excluded).
func (e *c12Env) reset(t *testing.T) bool {
	ok := false
	for try := 0; try < 3 && !ok; try++ {
		tw := e.tw
		for _, m := range []*miniredis.Miniredis{tw.mA, tw.mB} {
			m.FlushAll()
			m.SetTime(c12T0)
			m.Seed(12)
		}
		bg := context.Background()
		t0 := time.Now()
		tw.admA.ScriptFlush(bg)
		tw.rawB.ScriptFlush(bg)
		if ok = time.Since(t0) <= c12Stall; !ok {
			c12Renew(t, e.tw) // a late SCRIPT FLUSH must not hit a running case
		}
	}
	e.now = c12T0
	e.r = e.tw.newRedis(e.how)
	e.fails = 0
	return ok
}

// noteErr keeps the wrapper's per-instance breaker out of the picture: the breaker
// counts error replies (WRONGTYPE, NOSCRIPT, ...) as failures and starts to reject
// once failures > 5 + accepts/2 inside its window. A *Redis created by New owns a fresh
// breaker while the connection is shared per address, so the instance is replaced
// before a 5th failure can be recorded; with <= 4 failures the drop ratio is 0
// whatever the window contains.
func (e *c12Env) noteErr(err error) {
	if err == nil || err == red.Nil || err == context.Canceled {
		return
	}
	e.fails++
	if e.fails >= 4 {
		e.r = e.tw.newRedis(e.how)
		e.fails = 0
	}
}

func (e *c12Env) advance(d time.Duration) {
	e.now = e.now.Add(d)
	for _, m := range []*miniredis.Miniredis{e.tw.mA, e.tw.mB} {
		m.FastForward(d)
		m.SetTime(e.now)
	}
}

// ---------------------------------------------------------------- comparison helpers

func c12ErrStr(err error) string {
	if err == nil {
		return ""
	}
	if err == red.Nil {
		return "<redis.Nil>"
	}
	return err.Error()
}

// errStr: c12ErrStr with the addresses of the twins' own servers made anonymous. An error
// text that go-redis hands through from a redirecting node ("MOVED 0 127.0.0.1:4711", seen
// when a cluster pipeline contains a command that cannot be marshalled) names the data
// node of its own side.
func (e *c12Env) errStr(err error) string {
	txt := c12ErrStr(err)
	if e.tw.fA == nil || err == nil {
		return txt
	}
	for _, m := range []*miniredis.Miniredis{e.tw.mA, e.tw.mB} {
		txt = strings.ReplaceAll(txt, m.Addr(), "<data node>")
	}
	for _, m := range []*miniredis.Miniredis{e.tw.fA, e.tw.fB} {
		txt = strings.ReplaceAll(txt, m.Addr(), "<front node>")
	}
	return txt
}

// c12Canon renders a result for comparison; nil and empty slices/maps are the same.
func c12Canon(v any, unordered bool) string {
	if v == nil {
		return "null"
	}
	rv := reflect.ValueOf(v)
	switch rv.Kind() {
	case reflect.Slice, reflect.Map:
		if rv.Len() == 0 {
			return "empty"
		}
	}
	if ss, ok := v.([]string); ok && unordered {
		cp := append([]string(nil), ss...)
		sort.Strings(cp)
		v = cp
	}
	b, err := json.Marshal(v)
	if err != nil {
		return fmt.Sprintf("%#v", v)
	}
	return string(b)
}

// c12Snapshot is the full observable keyspace of a miniredis: type, value, TTL per key.
func c12Snapshot(m *miniredis.Miniredis) map[string]string {
	out := map[string]string{}
	for _, k := range m.Keys() {
		t := m.Type(k)
		var val string
		switch t {
		case "string":
			s, _ := m.Get(k)
			val = fmt.Sprintf("%q", s)
		case "hash":
			fs, _ := m.HKeys(k)
			sort.Strings(fs)
			for _, f := range fs {
				val += fmt.Sprintf("%q=%q,", f, m.HGet(k, f))
			}
		case "list":
			l, _ := m.List(k)
			val = fmt.Sprintf("%q", l)
		case "set":
			l, _ := m.Members(k)
			sort.Strings(l)
			val = fmt.Sprintf("%q", l)
		case "zset":
			ss, _ := m.SortedSet(k)
			ms := make([]string, 0, len(ss))
			for mem := range ss {
				ms = append(ms, mem)
			}
			sort.Strings(ms)
			for _, mem := range ms {
				val += fmt.Sprintf("%q=%v,", mem, ss[mem])
			}
		case "hll":
			n, _ := m.PfCount(k)
			val = fmt.Sprintf("count=%d", n)
		default:
			val = "?"
		}
		out[k] = fmt.Sprintf("%s ttl=%v %s", t, m.TTL(k), val)
	}
	return out
}

func c12DiffKeyspace(a, b map[string]string) string {
	var diffs []string
	for k, va := range a {
		if vb, ok := b[k]; !ok {
			diffs = append(diffs, fmt.Sprintf("key %q only behind the wrapper: %s", k, va))
		} else if va != vb {
			diffs = append(diffs, fmt.Sprintf("key %q: wrapper side {%s}, go-redis side {%s}", k, va, vb))
		}
	}
	for k, vb := range b {
		if _, ok := a[k]; !ok {
			diffs = append(diffs, fmt.Sprintf("key %q only behind raw go-redis: %s", k, vb))
		}
	}
	sort.Strings(diffs)
	return strings.Join(diffs, "; ")
}

// ---------------------------------------------------------------- interpreter

// countable: the per-step "same number of processed commands" oracle applies to the
// plain node profile only. With a password every freshly dialled connection first sends
// AUTH (pool growth is not a function of the history), and go-redis' ClusterClient
// reloads CLUSTER SLOTS / COMMAND from background goroutines at times of its own choosing.
func (e *c12Env) countable() bool { return e.tw.prof.name == "node" }

// c12Ctx builds the context of a step: a live one (carrying a value in the Ctx
// form), an already cancelled one or one whose deadline has already passed. With a
// dead context go-redis answers ctx.Err() without touching the server; "the context
// form" of a wrapper method must therefore do the same.
func c12Ctx(s c12Step) (context.Context, context.CancelFunc) {
	if !s.X {
		return context.Background(), func() {}
	}
	base := context.WithValue(context.Background(), c12CtxKey{}, "c12")
	switch s.D {
	case 1:
		ctx, cancel := context.WithCancel(base)
		cancel()
		return ctx, cancel
	case 2:
		return context.WithDeadline(base, time.Unix(1, 0))
	}
	return base, func() {}
}

func c12Interp(t *testing.T, c c12Case) (v kit.Verdict) {
	if c.P < 0 || c.P >= len(c12Profiles) {
		v.Excluded = true
		return v
	}
	tw := c12Get(t, c.P, c.How)
	e := &c12Env{tw: tw, how: c.How, classes: map[string]bool{}, types: map[string]bool{}}
	e.classes["conf:"+tw.prof.name] = true
	e.classes[fmt.Sprintf("constructor:%d", c.How%3)] = true
	if !e.reset(t) {
		v.Excluded = true
		v.Classes = []string{"env:stalled-step"}
		return v
	}
	moved0 := atomic.LoadInt64(&tw.movedA)
	defer func() {
		if p := recover(); p != nil {
			v.Fail = fmt.Sprintf("panic while interpreting the history (a wrapper method must return go-redis' result or error): %v", p)
		}
		if n := atomic.LoadInt64(&tw.movedA) - moved0; n > 0 {
			e.classes["cluster2:wrapper-followed-redirections"] = true
		}
		v.NonTrivial = e.ncmd >= 10 && len(e.types) >= 3 && (e.hits >= 1 || tw.prof.mustFail())
		for k := range e.classes {
			v.Classes = append(v.Classes, k)
		}
		sort.Strings(v.Classes)
	}()
	for i, s := range c.Steps {
		t0 := time.Now()
		msg := e.step(s)
		if time.Since(t0) > c12StepStall {
			// environment guard, never a failure: see c12Stall
			e.classes["env:stalled-step"] = true
			v.Excluded = true
			c12Renew(t, e.tw)
			return v
		}
		if msg != "" {
			v.Fail = fmt.Sprintf("step %d %s: %s", i, c12Show(s), msg)
			return v
		}
		if (i+1)%10 == 0 || i == len(c.Steps)-1 {
			if d := c12DiffKeyspace(c12Snapshot(tw.mA), c12Snapshot(tw.mB)); d != "" {
				v.Fail = fmt.Sprintf("keyspaces differ after step %d %s: %s", i, c12Show(s), d)
				return v
			}
		}
	}
	return v
}

func c12Show(s c12Step) string {
	b, _ := json.Marshal(s)
	return string(b)
}

// wellTyped: the step's first key exists on the reference server and holds the
// data type the command is made for (the "non-empty value of its type" of the rule).
func (e *c12Env) wellTyped(ent *c12Entry, s c12Step) bool {
	if len(s.K) == 0 || ent.mtype == "" {
		return false
	}
	k := s.K[0]
	if ent.srcKey > 0 && ent.srcKey < len(s.K) {
		k = s.K[ent.srcKey]
	}
	return e.tw.mB.Exists(k) && (ent.mtype == "*" || e.tw.mB.Type(k) == ent.mtype)
}

func (e *c12Env) step(s c12Step) string {
	switch s.C {
	case "advance":
		before := len(e.tw.mB.Keys())
		e.advance(time.Duration(s.I[0]) * time.Millisecond)
		if len(e.tw.mB.Keys()) < before {
			e.classes["advance-expired-a-key"] = true
		}
		return ""
	case "pipeline":
		return e.pipeline(s)
	case "burst":
		return e.burst(s)
	case "scripted":
		return e.scripted(s)
	}
	ent := c12Table[s.C]
	if ent == nil {
		return "unknown command in case"
	}
	if len(ent.ints) > 0 {
		// a recorded case may come from a 64-bit build: Go int arguments are made to fit
		// the int of THIS build for both sides (see c12Entry.ints)
		s.I = append([]int64(nil), s.I...)
		for _, i := range ent.ints {
			if i < len(s.I) {
				s.I[i] = int64(int(s.I[i]))
			}
		}
	}
	if ent.skip != nil && e.scriptedRaw == "" && ent.skip(e, s) {
		e.classes["skipped:"+s.C] = true
		return ""
	}
	e.ncmd++
	e.types[ent.typ] = true
	e.classes["cmd:"+s.C] = true
	if c12Variadic[s.C] {
		e.classes[fmt.Sprintf("variadic-form:%d:%s", s.V, s.C)] = true
	}
	dead := s.X && s.D != 0
	if hit := !dead && e.wellTyped(ent, s); hit {
		e.hits++
		e.classes["hit:"+s.C] = true
	}
	ctx, cancel := c12Ctx(s)
	defer cancel()
	refCtx := context.Background()
	if dead {
		refCtx = ctx // go-redis gets the same dead context
		e.classes[fmt.Sprintf("ctx-dead:%d", s.D)] = true
		e.classes["deadctx:"+s.C] = true
	}
	ca0, cb0 := e.tw.mA.CommandCount(), e.tw.mB.CommandCount()
	e.tw.wa.take()
	e.tw.wb.take()
	got, gerr := ent.wrap(e, ctx, s)
	defer e.noteErr(gerr)
	if gerr == breaker.ErrServiceUnavailable {
		return "wrapper returned breaker.ErrServiceUnavailable on a healthy server (harness keeps failures <= 4 per instance)"
	}
	switch {
	case gerr == red.Nil:
		e.classes["reply:redis.Nil"] = true
	case gerr != nil && !dead:
		e.classes["reply:server-error"] = true
	}
	if ent.judge != nil {
		if dead {
			// server-side random commands: with a dead context nothing is sent at all
			if gerr != ctx.Err() {
				return fmt.Sprintf("dead context (%v): wrapper returned (%s, %q), go-redis returns the context's error", ctx.Err(), c12Canon(got, false), c12ErrStr(gerr))
			}
			if da := e.tw.mA.CommandCount() - ca0; da != 0 && e.countable() {
				return fmt.Sprintf("dead context: the wrapper still made its server process %d commands", da)
			}
			return ""
		}
		// server-side random commands: the reference side re-synchronises with other
		// commands, so the wire of the wrapper is compared with the entry's own statement
		// (not with rejected credentials: go-redis may fail at AUTH and send nothing)
		if ent.wire != nil && !e.tw.prof.mustFail() {
			if g, w := c12WireStr(e.tw.wa.take(), false), c12WireStr(ent.wire(s), false); g != w {
				return fmt.Sprintf("the wrapper sent %s to its server, the corresponding go-redis command is %s", g, w)
			}
		}
		return ent.judge(e, s, got, gerr)
	}
	want, werr := ent.ref(e.tw.rawB, refCtx, s)
	var wireA, wireB [][]string
	if dropped := e.scriptedRaw == c12Drop && !dead; dropped {
		// both servers closed the connection without a reply: a client whose server was
		// sent a command must report a failure that is neither success nor "absent" nor
		// "cancelled" (a method that answers without asking its server, e.g. an ...AndLimit
		// page of size 0, is judged as usual). The texts are not compared (a reset instead
		// of an orderly close would carry port numbers).
		wireA, wireB = c12Collapse(e.tw.wa.take()), c12Collapse(e.tw.wb.take())
		for _, side := range []struct {
			who  string
			wire [][]string
			err  error
		}{{"the wrapper", wireA, gerr}, {"go-redis", wireB, werr}} {
			if len(side.wire) > 0 && (side.err == nil || side.err == red.Nil || side.err == context.Canceled) {
				return fmt.Sprintf("both servers closed the connection without answering %s, but %s returned %q", c12WireStr(side.wire, false), side.who, c12ErrStr(side.err))
			}
		}
		if len(wireA) > 0 {
			e.classes["drop-error:"+c12ErrStr(gerr)] = true
		}
		if len(wireA) == 0 && len(wireB) == 0 && c12ErrStr(gerr) != c12ErrStr(werr) {
			return fmt.Sprintf("wrapper error %q, go-redis %q", c12ErrStr(gerr), c12ErrStr(werr))
		}
	} else if e.errStr(gerr) != e.errStr(werr) {
		return fmt.Sprintf("wrapper error %q, go-redis (after documented Nil mapping) %q; wrapper value %s, go-redis value %s",
			c12ErrStr(gerr), c12ErrStr(werr), c12Canon(got, ent.unordered), c12Canon(want, ent.unordered))
	}
	if gerr == nil {
		if g, w := c12Canon(got, ent.unordered), c12Canon(want, ent.unordered); g != w {
			return fmt.Sprintf("wrapper returned %s, go-redis with the same arguments (after the documented conversion) %s", g, w)
		}
	}
	// same command with the same arguments: what the wrapper's server was asked to
	// execute equals what the corresponding go-redis call asks its server to execute
	if wireA == nil && wireB == nil {
		wireA, wireB = e.tw.wa.take(), e.tw.wb.take()
	}
	if g, w := c12WireStr(wireA, false), c12WireStr(wireB, false); g != w {
		return fmt.Sprintf("on the wire: the wrapper sent %s, the corresponding go-redis call with the same arguments sends %s", g, w)
	}
	// same effect on the server: the wrapper's server processed as many commands as
	// the server of the corresponding go-redis call
	if da, db := e.tw.mA.CommandCount()-ca0, e.tw.mB.CommandCount()-cb0; da != db && e.countable() {
		return fmt.Sprintf("the wrapper made its server process %d commands, the go-redis call %d", da, db)
	}
	return ""
}

// pipeline: the same queueing function runs inside the wrapper's Pipelined /
// PipelinedCtx on A and inside go-redis' Pipelined on B; every queued command must
// end with the same result and the two calls must return the same error.
func (e *c12Env) pipeline(s c12Step) string {
	// Two-node profiles: go-redis' ClusterClient splits a pipeline into one batch per node,
	// sends the batches concurrently and re-sends redirected commands in a later round, so
	// the order in which the data node sees commands on DIFFERENT keys is go-redis' business
	// (commands on one key keep their order: same slot, same batch). The wire is compared
	// as a multiset there, and a pipeline with a multi-key Del (whose result depends on that
	// order; a real cluster refuses it as CROSSSLOT) is not run.
	front := e.tw.prof.front
	if front {
		for _, q := range s.P {
			if q.C == "Del" && len(q.K) > 1 {
				e.classes["skipped:pipeline-multikey-del-on-two-nodes"] = true
				return ""
			}
		}
	}
	e.ncmd++
	e.classes["cmd:Pipelined"] = true
	queue := func(ctx context.Context, out *[]red.Cmder) func(p red.Pipeliner) error {
		return func(p red.Pipeliner) error {
			for _, q := range s.P {
				pe := c12Pipe[q.C]
				if pe == nil {
					return fmt.Errorf("unknown pipeline command %q", q.C)
				}
				*out = append(*out, pe(p, ctx, q))
			}
			return nil
		}
	}
	var ca, cb []red.Cmder
	ctx, cancel := c12Ctx(s)
	defer cancel()
	refCtx := context.Background()
	if s.X && s.D != 0 {
		refCtx = ctx
		e.classes["deadctx:Pipelined"] = true
	}
	na0, nb0 := e.tw.mA.CommandCount(), e.tw.mB.CommandCount()
	e.tw.wa.take()
	e.tw.wb.take()
	var gerr error
	if s.X {
		gerr = e.r.PipelinedCtx(ctx, queue(ctx, &ca))
	} else {
		gerr = e.r.Pipelined(queue(ctx, &ca))
	}
	defer e.noteErr(gerr)
	_, werr := e.tw.rawB.Pipelined(refCtx, queue(refCtx, &cb))
	if e.errStr(gerr) != e.errStr(werr) {
		return fmt.Sprintf("Pipelined returned %q through the wrapper, %q through go-redis (wire: wrapper %s, go-redis %s)", c12ErrStr(gerr), c12ErrStr(werr),
			c12WireStr(e.tw.wa.take(), false), c12WireStr(e.tw.wb.take(), false))
	}
	if len(ca) != len(cb) || len(ca) != len(s.P) {
		return fmt.Sprintf("queued %d commands through the wrapper, %d through go-redis, want %d", len(ca), len(cb), len(s.P))
	}
	for i := range ca {
		if a, b := e.errStr(errors.New(ca[i].String())), e.errStr(errors.New(cb[i].String())); a != b {
			return fmt.Sprintf("pipelined command %d: wrapper side %q, go-redis side %q", i, a, b)
		}
	}
	if g, w := c12WireStr(e.tw.wa.take(), front), c12WireStr(e.tw.wb.take(), front); g != w {
		return fmt.Sprintf("on the wire: the wrapper's Pipelined sent %s, go-redis' Pipelined sends %s", g, w)
	}
	if da, db := e.tw.mA.CommandCount()-na0, e.tw.mB.CommandCount()-nb0; da != db && e.countable() {
		return fmt.Sprintf("the wrapper's Pipelined made its server process %d commands, go-redis' Pipelined %d", da, db)
	}
	if len(s.P) > 0 {
		e.classes["pipeline:non-empty"] = true
	}
	if gerr != nil {
		e.classes["pipeline:error"] = true
	}
	return ""
}

// scripted: BOTH twin servers answer the one command of the inner step with the same
// scripted RESP reply instead of executing it - legal reply shapes of real Redis that
// miniredis never produces (a SCAN page that is empty but has a non-zero cursor, a nil
// where an array is usual, integers other than 0/1, very long bulks, nil elements,
// fractional scores). The wrapper must return what go-redis returns on that reply after
// the documented conversion; nothing is executed, so the keyspaces stay as they are.
func (e *c12Env) scripted(s c12Step) string {
	if len(s.P) != 1 || len(s.I) != 1 {
		return "malformed scripted step"
	}
	inner := s.P[0]
	shapes := c12Scripted[inner.C]
	if len(shapes) == 0 || c12Table[inner.C] == nil {
		return "unknown scripted command in case"
	}
	raw := shapes[int(uint64(s.I[0])%uint64(len(shapes)))]
	if s.I[0] < 0 {
		// I[0] = -1: the connection-drop shape. go-redis' ClusterClient reacts to a failing
		// node with bookkeeping of its own (marks it as failing for 15 s, reloads the slots,
		// tries random nodes), which would leak into the following steps: node profiles only.
		if e.tw.prof.cluster() || e.tw.prof.mustFail() {
			e.classes["skipped:scripted-drop"] = true
			return ""
		}
		raw = c12Drop
		e.classes["scripted-drop:"+inner.C] = true
	}
	e.classes["scripted:"+inner.C] = true
	e.scriptedRaw = raw
	e.tw.wa.setScript(raw)
	e.tw.wb.setScript(raw)
	defer func() { e.scriptedRaw = "" }()
	defer e.tw.wa.setScript("")
	defer e.tw.wb.setScript("")
	if msg := e.step(inner); msg != "" {
		return fmt.Sprintf("both servers answer %q: %s", c12Abbrev(raw), msg)
	}
	return ""
}

func c12Abbrev(raw string) string {
	if len(raw) > 80 {
		return raw[:60] + fmt.Sprintf("...(%d bytes)", len(raw))
	}
	return raw
}

// c12BurstScript keeps its connection busy for a moment (the loop) and then writes.
const c12BurstScript = `local x = 0 for i = 1, tonumber(ARGV[2]) do x = x + 1 end redis.call('SET', KEYS[1], ARGV[1]) return x`

// burst: K (> the 8 idle connections the wrapper keeps) commands are issued
// concurrently through the wrapper, each on its own key, so that the shared client of
// address A - created EARLIER than the client of another address (decoy D, and the
// closed server of the breaker rule) - has to dial fresh connections. As always every
// call must return what go-redis returns, the wrapper's OWN server must have processed
// exactly those commands (the decoy none) and the keyspaces must agree.
func (e *c12Env) burst(s c12Step) string {
	k, loops := int(s.I[0]), s.I[1]
	tw := e.tw
	if tw.prof.mustFail() {
		// every call fails: 12..24 failures at once on one instance would (rightly) open
		// its breaker, the harness's "at most 4 failures per instance" cannot hold
		e.classes["skipped:burst"] = true
		return ""
	}
	e.ncmd++
	e.classes["cmd:burst"] = true
	ca0, cb0, cd0 := tw.mA.CommandCount(), tw.mB.CommandCount(), 0
	if tw.mD != nil {
		cd0 = tw.mD.CommandCount()
	}
	conns0 := tw.mA.TotalConnectionCount()
	tw.wa.take()
	tw.wb.take()
	ctx, cancel := c12Ctx(c12Step{X: s.X})
	defer cancel()
	got := make([]any, k)
	gerrs := make([]error, k)
	start := make(chan struct{})
	var wg sync.WaitGroup
	r := e.r
	for i := 0; i < k; i++ {
		wg.Add(1)
		go func(i int) {
			defer wg.Done()
			key, val := fmt.Sprintf("burst:%d", i), fmt.Sprintf("v%d", i)
			<-start
			if s.X {
				got[i], gerrs[i] = r.EvalCtx(ctx, c12BurstScript, []string{key}, val, loops)
			} else {
				got[i], gerrs[i] = r.Eval(c12BurstScript, []string{key}, val, loops)
			}
		}(i)
	}
	close(start)
	wg.Wait()
	for i := 0; i < k; i++ {
		key, val := fmt.Sprintf("burst:%d", i), fmt.Sprintf("v%d", i)
		want, werr := tw.rawB.Eval(context.Background(), c12BurstScript, []string{key}, val, loops).Result()
		e.noteErr(gerrs[i])
		if c12ErrStr(gerrs[i]) != c12ErrStr(werr) || (werr == nil && c12Canon(got[i], false) != c12Canon(want, false)) {
			return fmt.Sprintf("concurrent call %d of %d: wrapper (%s, %q), go-redis (%s, %q)", i, k,
				c12Canon(got[i], false), c12ErrStr(gerrs[i]), c12Canon(want, false), c12ErrStr(werr))
		}
	}
	if g, w := c12WireStr(tw.wa.take(), true), c12WireStr(tw.wb.take(), true); g != w {
		return fmt.Sprintf("%d concurrent commands, on the wire (as multisets): the wrapper's server got %s, the go-redis server %s", k, g, w)
	}
	if da, db := tw.mA.CommandCount()-ca0, tw.mB.CommandCount()-cb0; da != db && e.countable() {
		return fmt.Sprintf("%d concurrent commands: the wrapper's own server processed %d commands, the go-redis server %d", k, da, db)
	}
	if tw.mD == nil {
		// profiles without a decoy
	} else if dd := tw.mD.CommandCount() - cd0; dd != 0 {
		return fmt.Sprintf("%d concurrent commands through the client of %s: the server of ANOTHER address (%s) processed %d commands", k, tw.mA.Addr(), tw.mD.Addr(), dd)
	}
	if d := c12DiffKeyspace(c12Snapshot(tw.mA), c12Snapshot(tw.mB)); d != "" {
		return "keyspaces differ after the concurrent commands: " + d
	}
	if tw.mA.TotalConnectionCount() > conns0 {
		e.classes["burst:dialled-new-connections"] = true
	}
	return ""
}

// ---------------------------------------------------------------- generator

type c12G struct {
	rt      *rapid.T
	bit     *rapid.Generator[bool]
	elapsed time.Duration
	wrongIn int // 1 key in wrongIn is drawn from any pool (0: 12)
	pipePct int // percentage of pipeline steps (0: 5)
}

// uni draws uniformly from [0,n). rapid's IntRange / SampledFrom are deliberately
// biased towards small values (a geometric bit length), which starves most of a
// 100-entry table; single bits are unbiased and still shrink towards 0.
func (g *c12G) uni(n int) int {
	if n <= 1 {
		return 0
	}
	v := 0
	for i := bits.Len(uint(n-1)) + 5; i > 0; i-- {
		v <<= 1
		if g.bit.Draw(g.rt, "b") {
			v |= 1
		}
	}
	return v % n
}

var c12Pools = map[string][]string{
	"string": {"s:1", "s:2", "s:3"},
	"num":    {"n:1", "n:2"},
	"hash":   {"h:1", "h:2"},
	"list":   {"l:1", "l:2"},
	"set":    {"set:1", "set:2", "set:3"},
	"zset":   {"z:1", "z:2", "z:3"},
	"bit":    {"bit:1", "bit:2"},
	"hll":    {"hll:1", "hll:2"},
	"geo":    {"geo:1"},
}

var c12AllKeys = func() []string {
	var ks []string
	for _, p := range c12Pools {
		ks = append(ks, p...)
	}
	sort.Strings(ks)
	return ks
}()

// key draws a key of the pool made for typ; about 1 in 12 draws comes from any pool
// (deliberately wrong-typed).
func (g *c12G) key(typ string) string {
	w := g.wrongIn
	if w == 0 {
		w = 12
	}
	if g.uni(w) == 0 {
		return c12AllKeys[g.uni(len(c12AllKeys))]
	}
	return c12Pools[typ][g.uni(len(c12Pools[typ]))]
}

func (g *c12G) keys(typ string, lo, hi int) []string {
	n := lo + g.uni(hi-lo+1)
	ks := make([]string, n)
	for i := range ks {
		ks[i] = g.key(typ)
	}
	return ks
}

func (g *c12G) from(label string, xs ...string) string {
	return xs[g.uni(len(xs))]
}

func (g *c12G) val() string    { return g.from("val", "a", "b", "c", "") }
func (g *c12G) num() string    { return g.from("num", "10", "-3", "0", "7") }
func (g *c12G) field() string  { return g.from("field", "f1", "f2", "f3", "f4") }
func (g *c12G) member() string { return g.from("member", "m1", "m2", "m3", "m4") }

func (g *c12G) strs(f func() string, lo, hi int) []string {
	n := lo + g.uni(hi-lo+1)
	out := make([]string, n)
	for i := range out {
		out[i] = f()
	}
	return out
}

// idx: indices / ranks / range ends: {min, -2..5, max} plus values that do not fit 32 bits.
func (g *c12G) idx() int64 {
	xs := []int64{-2, -1, 0, 1, 2, 3, 4, 5, -2, -1, 0, 1, 2, 3,
		-(1 << 62), 1 << 62, 1<<32 + 1, -(1 << 32) - 1,
		1<<31 - 1, 1 << 31, -(1 << 31), -(1 << 31) - 1, 1 << 32, -(1 << 32)} // round 9: both sides of the 32-bit limits
	return xs[g.uni(len(xs))]
}

// idxInt: the same for the methods that take a Go int (made to fit the int of the build
// by the entry's `ints` declaration).
func (g *c12G) idxInt() int64 { return g.idx() }

// score: integer scores {-2..5} plus values beyond 32 bits (exact in float64).
func (g *c12G) score() int64 {
	xs := []int64{-2, -1, 0, 1, 2, 3, 4, 5, -2, 0, 1, 3, 1 << 33, -(1 << 33), 1<<33 + 1,
		// round 9: both sides of the 32-bit limits and a unix-millisecond timestamp
		1<<31 - 1, 1 << 31, -(1 << 31), -(1 << 31) - 1, 1 << 32, -(1 << 32), 1700000000000}
	return xs[g.uni(len(xs))]
}

func (g *c12G) fscore() float64 {
	xs := []float64{0.5, 1.5, -2.5, 2.9, -2.9, 3, 2.5, -0.5, 4.999, 1 << 33}
	return xs[g.uni(len(xs))]
}

func (g *c12G) secs() int64 { return int64(1 + g.uni(100)) }

func (g *c12G) small(lo, hi int) int64 { return int64(lo + g.uni(hi-lo+1)) }

func c12Gen(rt *rapid.T) c12Case {
	return c12GenWith(&c12G{rt: rt, bit: rapid.Bool()})
}

func c12GenWith(g *c12G) c12Case {
	var c c12Case
	// client configuration: 11/20 plain node, 4/20 node+pass, 1/20 each cluster and
	// cluster+pass (a wrapper call through go-redis' ClusterClient costs about 10 times a
	// node call), 1/20 each must-fail configuration; constructor drawn uniformly
	// round 8: TLS-only servers, 2/24 node+tls, 1/24 each node+tls+pass and cluster+tls
	// and two-node clusters with redirections (1/26 each with and without password)
	c.P = []int{0, 0, 0, 0, 0, 0, 0, 0, 0, 0, 0, 1, 1, 1, 1, 2, 3, 4, 5, 6, 7, 7, 8, 9, 10, 11}[g.uni(26)]
	c.How = g.uni(3)
	n := 10 + g.uni(51)
	if c12Profiles[c.P].front {
		n = 10 + g.uni(16) // a redirected command costs go-redis' back-off sleep (8..24 ms)
	}
	for i := 0; i < n; i++ {
		c.Steps = append(c.Steps, c12GenStep(g, true))
	}
	return c
}

func c12GenStep(g *c12G, top bool) c12Step {
	roll := g.uni(100)
	switch {
	case top && roll < 5:
		ds := []int64{500, 1000, 1500, 2000, 10000, 60000, 100000}
		d := ds[g.uni(len(ds))]
		g.elapsed += time.Duration(d) * time.Millisecond
		return c12Step{C: "advance", I: []int64{d}}
	case top && roll >= 11 && roll <= 13: // 3 %: scripted reply shapes
		name := c12ScriptedWeighted[g.uni(len(c12ScriptedWeighted))]
		in := c12Table[name].gen(g)
		in.C = name
		in.X = g.uni(2) == 1
		shape := int64(g.uni(len(c12Scripted[name])))
		if g.uni(40) == 0 { // a dropped command costs both clients their retry back-offs (about 0.15 s)
			shape = -1 // both servers drop the connection instead of answering
		}
		return c12Step{C: "scripted", I: []int64{shape}, P: []c12Step{in}}
	case top && roll == 10 && g.uni(3) == 0: // about 1 step in 300
		return c12Step{C: "burst", X: g.uni(2) == 1, I: []int64{int64(12 + g.uni(13)), 3000}}
	case top && roll >= 5 && (roll < 10 || (g.pipePct > 5 && roll >= 105-g.pipePct)): // 5 % (or pipePct %) pipelines
		np := g.uni(6)
		s := c12Step{C: "pipeline", X: g.uni(2) == 1}
		s.D = g.ctxMode(s.X)
		for j := 0; j < np; j++ {
			name := c12PipeNames[g.uni(len(c12PipeNames))]
			q := c12Table[name].gen(g)
			q.C = name
			q.V = g.form(name)
			s.P = append(s.P, q)
		}
		return s
	}
	name := c12Weighted[g.uni(len(c12Weighted))]
	s := c12Table[name].gen(g)
	s.C = name
	s.V = g.form(name)
	s.X = g.uni(2) == 1
	if top {
		s.D = g.ctxMode(s.X)
	}
	return s
}

// c12Variadic: the wrapper methods with a ...any parameter.
var c12Variadic = map[string]bool{"LPush": true, "RPush": true, "SAdd": true, "SRem": true, "ZRem": true, "PFAdd": true, "Eval": true, "EvalSha": true}

// form draws the call form of a variadic argument (c12Step.V): half one by one, the rest
// spread over one []string, one []any, a nested slice and no element.
func (g *c12G) form(name string) int {
	if !c12Variadic[name] {
		return 0
	}
	return []int{0, 0, 0, 0, 0, 0, 1, 1, 2, 2, 3, 4}[g.uni(12)]
}

// ctxMode: about 1 Ctx call in 7 gets a dead context (cancelled or expired).
func (g *c12G) ctxMode(x bool) int {
	if !x {
		return 0
	}
	switch r := g.uni(14); r {
	case 0:
		return 1
	case 1:
		return 2
	}
	return 0
}

// ---------------------------------------------------------------- rules

func TestVerif_C12_twin(t *testing.T) {
	c12Setup(t)
	kit.Run(t, "C12", "wrapper-twin", kit.Opts{Quick: 1300, Thorough: 96000}, c12Gen,
		func(c c12Case) kit.Verdict { return c12Interp(t, c) })
}
