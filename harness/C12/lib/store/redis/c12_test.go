package redis

import (
	"context"
	"fmt"
	"testing"
	"time"

	"github.com/alicebob/miniredis/v2"
	red "github.com/go-redis/redis/v8"
)

func TestVerif_C12_spike(t *testing.T) {
	m, _ := miniredis.Run()
	defer m.Close()
	r := New(m.Addr())
	ctx, cancel := context.WithCancel(context.Background())
	cancel()
	for i := 0; i < 20; i++ {
		_, err := r.GetCtx(ctx, "a")
		fmt.Printf("%d cancelled: %T %v eq=%v\n", i, err, err, err == context.Canceled)
	}
	_, err := r.Get("a")
	fmt.Println("after:", err)
	raw := red.NewClient(&red.Options{Addr: m.Addr()})
	_, err = raw.Get(ctx, "a").Result()
	fmt.Printf("raw cancelled: %T %v\n", err, err)
	// cancel in flight
	ctx2, cancel2 := context.WithCancel(context.Background())
	go func() { time.Sleep(50 * time.Millisecond); cancel2() }()
	bn, _ := CreateBlockingNode(r)
	_, err = r.BLPopWithTimeoutCtx(ctx2, bn, time.Second, "nolist")
	fmt.Printf("blpop cancelled midflight: %T %v\n", err, err)
	m.Set("s", "x")
	_, err = r.HGet("s", "f")
	fmt.Printf("wrongtype: %T %v\n", err, err)
	_, err = r.HGet("nokey", "f")
	fmt.Printf("nil: %T %v %v\n", err, err, err == red.Nil)
}
