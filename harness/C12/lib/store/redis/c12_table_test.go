package redis

// C12 command table, part 1: table plumbing, strings, generic key commands, bitmaps.
//
// Every entry: gen draws the arguments, wrap calls the wrapper method (plain form
// when !s.X, Ctx form when s.X), ref is the go-redis command "with the same
// arguments" followed by the documented conversion of the result.

import (
	"context"
	"fmt"
	"sort"
	"time"

	red "github.com/go-redis/redis/v8"
)

type c12Entry struct {
	typ       string // data-type family (non-trivial rule: >= 3 families per history)
	mtype     string // miniredis type that makes the first key "a value of its type"
	srcKey    int    // index in K of the key looked at for the hit rule (default 0)
	weight    int    // relative frequency (default 2)
	unordered bool   // []string results are compared as multisets
	gen       func(g *c12G) c12Step
	wrap      func(e *c12Env, ctx context.Context, s c12Step) (any, error)
	ref       func(c red.Cmdable, ctx context.Context, s c12Step) (any, error)
	// judge replaces the ref comparison for commands with server-side randomness.
	judge func(e *c12Env, s c12Step, got any, gerr error) string
	// wire (judge entries): the command the corresponding go-redis call sends.
	wire func(s c12Step) [][]string
	// skip: the step is not executed in the current state (blocking pops on empty lists).
	skip func(e *c12Env, s c12Step) bool
	// ints: indices in I of the arguments the wrapper method takes as a Go int. The
	// generated value is made to fit the int of the build (identity on 64-bit builds, so
	// that a 32-bit build - unit lib/store/redis@386 - hands the wrapper and go-redis the
	// same number: "the same arguments" are arguments the caller can pass).
	ints []int
	// scriptedOnly: the command is missing in miniredis; it is generated only inside
	// scripted steps (both servers answer with a scripted reply instead of executing)
	scriptedOnly bool
}

var (
	c12Table    = map[string]*c12Entry{}
	c12Weighted []string // names repeated by weight, sorted: the generator samples from it
	c12Names    []string
)

func c12Reg(name string, e *c12Entry) {
	if _, dup := c12Table[name]; dup {
		panic("c12: duplicate table entry " + name)
	}
	c12Table[name] = e
}

func c12Finish() {
	for n := range c12Table {
		c12Names = append(c12Names, n)
	}
	sort.Strings(c12Names)
	for name, ints := range map[string][]int{"Expire": {0}, "HIncrBy": {0}, "LRange": {0, 1}, "LRem": {0}, "SetBit": {1},
		"SetEx": {0}, "SetNXEx": {0}, "SRandMember": {0},
		"ZRangeByScoreWithScoresAndLimit": {2, 3}, "ZRevRangeByScoreWithScoresAndLimit": {2, 3}} {
		ent := c12Table[name]
		if ent == nil {
			panic("c12: int arguments declared for unknown entry " + name)
		}
		ent.ints = ints
		inner := ent.gen
		ent.gen = func(g *c12G) c12Step {
			s := inner(g)
			for _, i := range ints {
				if i < len(s.I) {
					s.I[i] = int64(int(s.I[i]))
				}
			}
			return s
		}
	}
	for _, n := range c12Names {
		w := c12Table[n].weight
		if w == 0 {
			w = 2
		}
		if c12Table[n].scriptedOnly {
			continue
		}
		for i := 0; i < w; i++ {
			c12Weighted = append(c12Weighted, n)
		}
	}
}

// c12Anys: the variadic argument list of a step in the call form s.V (see c12Step.V).
func c12Anys(s c12Step) []any {
	out := make([]any, 0, len(s.S)+len(s.I))
	for _, x := range s.S {
		out = append(out, x)
	}
	for _, x := range s.I {
		out = append(out, x)
	}
	switch s.V {
	case 1:
		strs := make([]string, len(out))
		for i, x := range out {
			strs[i] = fmt.Sprint(x)
		}
		return []any{strs}
	case 2:
		return []any{out}
	case 3:
		return []any{[]any{out}}
	case 4:
		return nil
	}
	return out
}

type c12ScanRes struct {
	Keys []string
	Cur  uint64
}

func c12SortedScan(keys []string, cur uint64, err error) (any, error) {
	cp := append([]string(nil), keys...)
	sort.Strings(cp)
	return c12ScanRes{cp, cur}, err
}

func init() {
	c12RegStrings()
	c12RegKeys()
	c12RegBits()
	c12RegHashes()
	c12RegLists()
	c12RegSets()
	c12RegZsets()
	c12RegMisc()
	c12Finish()
}

// ------------------------------------------------------------------ strings

func c12RegStrings() {
	strKey := func(g *c12G) string {
		if g.small(0, 3) == 0 {
			return g.key("num")
		}
		return g.key("string")
	}
	strVal := func(g *c12G, k string) string {
		if len(k) > 1 && k[0] == 'n' {
			return g.num()
		}
		return g.val()
	}
	c12Reg("Get", &c12Entry{typ: "string", mtype: "string", weight: 3,
		gen: func(g *c12G) c12Step { return c12Step{K: []string{strKey(g)}} },
		wrap: func(e *c12Env, ctx context.Context, s c12Step) (any, error) {
			if s.X {
				return e.r.GetCtx(ctx, s.K[0])
			}
			return e.r.Get(s.K[0])
		},
		// documented: an absent key is the empty string, not redis.Nil
		ref: func(c red.Cmdable, ctx context.Context, s c12Step) (any, error) {
			v, err := c.Get(ctx, s.K[0]).Result()
			if err == red.Nil {
				return "", nil
			}
			return v, err
		}})
	c12Reg("Set", &c12Entry{typ: "string", mtype: "string", weight: 6,
		gen: func(g *c12G) c12Step { k := strKey(g); return c12Step{K: []string{k}, S: []string{strVal(g, k)}} },
		wrap: func(e *c12Env, ctx context.Context, s c12Step) (any, error) {
			if s.X {
				return nil, e.r.SetCtx(ctx, s.K[0], s.S[0])
			}
			return nil, e.r.Set(s.K[0], s.S[0])
		},
		ref: func(c red.Cmdable, ctx context.Context, s c12Step) (any, error) {
			return nil, c.Set(ctx, s.K[0], s.S[0], 0).Err()
		}})
	c12Reg("SetEx", &c12Entry{typ: "string", mtype: "string", weight: 3,
		gen: func(g *c12G) c12Step {
			k := strKey(g)
			return c12Step{K: []string{k}, S: []string{strVal(g, k)}, I: []int64{g.secs()}}
		},
		wrap: func(e *c12Env, ctx context.Context, s c12Step) (any, error) {
			if s.X {
				return nil, e.r.SetExCtx(ctx, s.K[0], s.S[0], int(s.I[0]))
			}
			return nil, e.r.SetEx(s.K[0], s.S[0], int(s.I[0]))
		},
		ref: func(c red.Cmdable, ctx context.Context, s c12Step) (any, error) {
			return nil, c.Set(ctx, s.K[0], s.S[0], time.Duration(s.I[0])*time.Second).Err()
		}})
	c12Reg("SetNX", &c12Entry{typ: "string", mtype: "string", weight: 3,
		gen: func(g *c12G) c12Step { k := strKey(g); return c12Step{K: []string{k}, S: []string{strVal(g, k)}} },
		wrap: func(e *c12Env, ctx context.Context, s c12Step) (any, error) {
			if s.X {
				return e.r.SetNXCtx(ctx, s.K[0], s.S[0])
			}
			return e.r.SetNX(s.K[0], s.S[0])
		},
		ref: func(c red.Cmdable, ctx context.Context, s c12Step) (any, error) {
			return c.SetNX(ctx, s.K[0], s.S[0], 0).Result()
		}})
	c12Reg("SetNXEx", &c12Entry{typ: "string", mtype: "string", weight: 3,
		gen: func(g *c12G) c12Step {
			k := strKey(g)
			return c12Step{K: []string{k}, S: []string{strVal(g, k)}, I: []int64{g.secs()}}
		},
		wrap: func(e *c12Env, ctx context.Context, s c12Step) (any, error) {
			if s.X {
				return e.r.SetNXExCtx(ctx, s.K[0], s.S[0], int(s.I[0]))
			}
			return e.r.SetNXEx(s.K[0], s.S[0], int(s.I[0]))
		},
		ref: func(c red.Cmdable, ctx context.Context, s c12Step) (any, error) {
			return c.SetNX(ctx, s.K[0], s.S[0], time.Duration(s.I[0])*time.Second).Result()
		}})
	c12Reg("GetSet", &c12Entry{typ: "string", mtype: "string",
		gen: func(g *c12G) c12Step { k := strKey(g); return c12Step{K: []string{k}, S: []string{strVal(g, k)}} },
		wrap: func(e *c12Env, ctx context.Context, s c12Step) (any, error) {
			if s.X {
				return e.r.GetSetCtx(ctx, s.K[0], s.S[0])
			}
			return e.r.GetSet(s.K[0], s.S[0])
		},
		// documented: no previous value is the empty string, not redis.Nil
		ref: func(c red.Cmdable, ctx context.Context, s c12Step) (any, error) {
			v, err := c.GetSet(ctx, s.K[0], s.S[0]).Result()
			if err == red.Nil {
				return "", nil
			}
			return v, err
		}})
	c12Reg("Incr", &c12Entry{typ: "string", mtype: "string",
		gen: func(g *c12G) c12Step { return c12Step{K: []string{g.key("num")}} },
		wrap: func(e *c12Env, ctx context.Context, s c12Step) (any, error) {
			if s.X {
				return e.r.IncrCtx(ctx, s.K[0])
			}
			return e.r.Incr(s.K[0])
		},
		ref: func(c red.Cmdable, ctx context.Context, s c12Step) (any, error) {
			return c.Incr(ctx, s.K[0]).Result()
		}})
	c12Reg("IncrBy", &c12Entry{typ: "string", mtype: "string",
		gen: func(g *c12G) c12Step { return c12Step{K: []string{g.key("num")}, I: []int64{g.score()}} },
		wrap: func(e *c12Env, ctx context.Context, s c12Step) (any, error) {
			if s.X {
				return e.r.IncrByCtx(ctx, s.K[0], s.I[0])
			}
			return e.r.IncrBy(s.K[0], s.I[0])
		},
		ref: func(c red.Cmdable, ctx context.Context, s c12Step) (any, error) {
			return c.IncrBy(ctx, s.K[0], s.I[0]).Result()
		}})
	c12Reg("Decr", &c12Entry{typ: "string", mtype: "string",
		gen: func(g *c12G) c12Step { return c12Step{K: []string{g.key("num")}} },
		wrap: func(e *c12Env, ctx context.Context, s c12Step) (any, error) {
			if s.X {
				return e.r.DecrCtx(ctx, s.K[0])
			}
			return e.r.Decr(s.K[0])
		},
		ref: func(c red.Cmdable, ctx context.Context, s c12Step) (any, error) {
			return c.Decr(ctx, s.K[0]).Result()
		}})
	c12Reg("DecrBy", &c12Entry{typ: "string", mtype: "string",
		gen: func(g *c12G) c12Step { return c12Step{K: []string{g.key("num")}, I: []int64{g.score()}} },
		wrap: func(e *c12Env, ctx context.Context, s c12Step) (any, error) {
			if s.X {
				return e.r.DecrByCtx(ctx, s.K[0], s.I[0])
			}
			return e.r.DecrBy(s.K[0], s.I[0])
		},
		ref: func(c red.Cmdable, ctx context.Context, s c12Step) (any, error) {
			return c.DecrBy(ctx, s.K[0], s.I[0]).Result()
		}})
	c12Reg("MGet", &c12Entry{typ: "string", mtype: "string",
		gen: func(g *c12G) c12Step { return c12Step{K: g.keys("string", 1, 4)} },
		wrap: func(e *c12Env, ctx context.Context, s c12Step) (any, error) {
			if s.X {
				return e.r.MGetCtx(ctx, s.K...)
			}
			return e.r.MGet(s.K...)
		},
		// documented: []any -> []string, a missing value is ""
		ref: func(c red.Cmdable, ctx context.Context, s c12Step) (any, error) {
			v, err := c.MGet(ctx, s.K...).Result()
			if err != nil {
				return nil, err
			}
			return c12AnyStrings(v), nil
		}})
}

func c12AnyStrings(v []any) []string {
	out := make([]string, len(v))
	for i, x := range v {
		if sx, ok := x.(string); ok {
			out[i] = sx
		}
	}
	return out
}

// ------------------------------------------------------------------ generic key commands

func c12RegKeys() {
	anyKey := func(g *c12G) string { return g.from("anykey", c12AllKeys...) }
	c12Reg("Del", &c12Entry{typ: "key", mtype: "*", weight: 3,
		gen: func(g *c12G) c12Step {
			n := int(g.small(1, 3))
			s := c12Step{}
			for i := 0; i < n; i++ {
				s.K = append(s.K, anyKey(g))
			}
			return s
		},
		wrap: func(e *c12Env, ctx context.Context, s c12Step) (any, error) {
			if s.X {
				return e.r.DelCtx(ctx, s.K...)
			}
			return e.r.Del(s.K...)
		},
		ref: func(c red.Cmdable, ctx context.Context, s c12Step) (any, error) {
			v, err := c.Del(ctx, s.K...).Result()
			return int(v), err
		}})
	c12Reg("Exists", &c12Entry{typ: "key", mtype: "*",
		gen: func(g *c12G) c12Step { return c12Step{K: []string{anyKey(g)}} },
		wrap: func(e *c12Env, ctx context.Context, s c12Step) (any, error) {
			if s.X {
				return e.r.ExistsCtx(ctx, s.K[0])
			}
			return e.r.Exists(s.K[0])
		},
		ref: func(c red.Cmdable, ctx context.Context, s c12Step) (any, error) {
			v, err := c.Exists(ctx, s.K[0]).Result()
			return v == 1, err
		}})
	c12Reg("Expire", &c12Entry{typ: "key", mtype: "*", weight: 4,
		gen: func(g *c12G) c12Step { return c12Step{K: []string{anyKey(g)}, I: []int64{g.secs()}} },
		wrap: func(e *c12Env, ctx context.Context, s c12Step) (any, error) {
			if s.X {
				return nil, e.r.ExpireCtx(ctx, s.K[0], int(s.I[0]))
			}
			return nil, e.r.Expire(s.K[0], int(s.I[0]))
		},
		ref: func(c red.Cmdable, ctx context.Context, s c12Step) (any, error) {
			return nil, c.Expire(ctx, s.K[0], time.Duration(s.I[0])*time.Second).Err()
		}})
	c12Reg("ExpireAt", &c12Entry{typ: "key", mtype: "*", weight: 3,
		gen: func(g *c12G) c12Step {
			// absolute unix seconds relative to the case clock (T0 + generated advances)
			delta := rapid12Delta(g)
			at := c12T0.Add(g.elapsed).Unix() + delta
			return c12Step{K: []string{anyKey(g)}, I: []int64{at}}
		},
		wrap: func(e *c12Env, ctx context.Context, s c12Step) (any, error) {
			if s.X {
				return nil, e.r.ExpireAtCtx(ctx, s.K[0], s.I[0])
			}
			return nil, e.r.ExpireAt(s.K[0], s.I[0])
		},
		ref: func(c red.Cmdable, ctx context.Context, s c12Step) (any, error) {
			return nil, c.ExpireAt(ctx, s.K[0], time.Unix(s.I[0], 0)).Err()
		}})
	c12Reg("Persist", &c12Entry{typ: "key", mtype: "*",
		gen: func(g *c12G) c12Step { return c12Step{K: []string{anyKey(g)}} },
		wrap: func(e *c12Env, ctx context.Context, s c12Step) (any, error) {
			if s.X {
				return e.r.PersistCtx(ctx, s.K[0])
			}
			return e.r.Persist(s.K[0])
		},
		ref: func(c red.Cmdable, ctx context.Context, s c12Step) (any, error) {
			return c.Persist(ctx, s.K[0]).Result()
		}})
	c12Reg("TTL", &c12Entry{typ: "key", mtype: "*", weight: 3,
		gen: func(g *c12G) c12Step { return c12Step{K: []string{anyKey(g)}} },
		wrap: func(e *c12Env, ctx context.Context, s c12Step) (any, error) {
			if s.X {
				return e.r.TTLCtx(ctx, s.K[0])
			}
			return e.r.TTL(s.K[0])
		},
		// documented: the go-redis duration in whole seconds
		ref: func(c red.Cmdable, ctx context.Context, s c12Step) (any, error) {
			d, err := c.TTL(ctx, s.K[0]).Result()
			return int(d / time.Second), err
		}})
	pattern := func(g *c12G) string { return g.from("pattern", "*", "s:*", "h:?", "z:[12]", "set:*", "nomatch*") }
	c12Reg("Keys", &c12Entry{typ: "key", unordered: true,
		gen: func(g *c12G) c12Step { return c12Step{S: []string{pattern(g)}} },
		wrap: func(e *c12Env, ctx context.Context, s c12Step) (any, error) {
			if s.X {
				return e.r.KeysCtx(ctx, s.S[0])
			}
			return e.r.Keys(s.S[0])
		},
		ref: func(c red.Cmdable, ctx context.Context, s c12Step) (any, error) {
			return c.Keys(ctx, s.S[0]).Result()
		}})
	c12Reg("Scan", &c12Entry{typ: "key",
		gen: func(g *c12G) c12Step {
			return c12Step{S: []string{pattern(g)}, I: []int64{g.small(0, 1), g.small(0, 20)}}
		},
		wrap: func(e *c12Env, ctx context.Context, s c12Step) (any, error) {
			if s.X {
				return c12SortedScan(e.r.ScanCtx(ctx, uint64(s.I[0]), s.S[0], s.I[1]))
			}
			return c12SortedScan(e.r.Scan(uint64(s.I[0]), s.S[0], s.I[1]))
		},
		ref: func(c red.Cmdable, ctx context.Context, s c12Step) (any, error) {
			return c12SortedScan(c.Scan(ctx, uint64(s.I[0]), s.S[0], s.I[1]).Result())
		}})
	c12Reg("Ping", &c12Entry{typ: "key", weight: 1,
		gen: func(g *c12G) c12Step { return c12Step{} },
		wrap: func(e *c12Env, ctx context.Context, s c12Step) (any, error) {
			if s.X {
				return e.r.PingCtx(ctx), nil
			}
			return e.r.Ping(), nil
		},
		ref: func(c red.Cmdable, ctx context.Context, s c12Step) (any, error) {
			v, err := c.Ping(ctx).Result()
			return err == nil && v == "PONG", nil
		}})
}

func rapid12Delta(g *c12G) int64 {
	if g.small(0, 5) == 0 {
		return -g.small(0, 5) // already due: the key disappears
	}
	return g.secs()
}

// ------------------------------------------------------------------ bitmaps

// c12BitShapes: whole-value bitmap shapes (raw bytes; addressed by index because a case
// is JSON): empty, all ones, all zeroes, a single set / clear bit at the first / last
// position, 1..3 bytes long.
var c12BitShapes = []string{"", "\xff", "\xff\xff", "\xff\xff\xff", "\x00", "\x00\x00\x00",
	"\x80\x00", "\x00\x01", "\x7f\xff", "\xff\xfe", "\x0f\xf0", "a"}

func c12RegBits() {
	// SetBitmap is the wrapper's Set with a value from c12BitShapes
	c12Reg("SetBitmap", &c12Entry{typ: "bit", mtype: "string", weight: 4,
		gen: func(g *c12G) c12Step { return c12Step{K: []string{g.key("bit")}, I: []int64{g.small(0, len(c12BitShapes)-1)}} },
		wrap: func(e *c12Env, ctx context.Context, s c12Step) (any, error) {
			if s.X {
				return nil, e.r.SetCtx(ctx, s.K[0], c12BitShapes[s.I[0]])
			}
			return nil, e.r.Set(s.K[0], c12BitShapes[s.I[0]])
		},
		ref: func(c red.Cmdable, ctx context.Context, s c12Step) (any, error) {
			return nil, c.Set(ctx, s.K[0], c12BitShapes[s.I[0]], 0).Err()
		}})
	// ranges: {-3..5} covers 0, -1, +-len and beyond for values of 0..3 bytes; 1 range
	// in 4 is the whole value [0,-1]
	bitRange := func(g *c12G) (int64, int64) {
		if g.uni(4) == 0 {
			return 0, -1
		}
		return g.small(-3, 4), g.small(-3, 5)
	}
	c12Reg("SetBit", &c12Entry{typ: "bit", mtype: "string", weight: 5,
		gen: func(g *c12G) c12Step { return c12Step{K: []string{g.key("bit")}, I: []int64{g.small(0, 40), g.small(0, 1)}} },
		wrap: func(e *c12Env, ctx context.Context, s c12Step) (any, error) {
			if s.X {
				return e.r.SetBitCtx(ctx, s.K[0], s.I[0], int(s.I[1]))
			}
			return e.r.SetBit(s.K[0], s.I[0], int(s.I[1]))
		},
		ref: func(c red.Cmdable, ctx context.Context, s c12Step) (any, error) {
			v, err := c.SetBit(ctx, s.K[0], s.I[0], int(s.I[1])).Result()
			return int(v), err
		}})
	c12Reg("GetBit", &c12Entry{typ: "bit", mtype: "string",
		gen: func(g *c12G) c12Step { return c12Step{K: []string{g.key("bit")}, I: []int64{g.small(0, 40)}} },
		wrap: func(e *c12Env, ctx context.Context, s c12Step) (any, error) {
			if s.X {
				return e.r.GetBitCtx(ctx, s.K[0], s.I[0])
			}
			return e.r.GetBit(s.K[0], s.I[0])
		},
		ref: func(c red.Cmdable, ctx context.Context, s c12Step) (any, error) {
			v, err := c.GetBit(ctx, s.K[0], s.I[0]).Result()
			return int(v), err
		}})
	c12Reg("BitCount", &c12Entry{typ: "bit", mtype: "string",
		gen: func(g *c12G) c12Step {
			a, b := bitRange(g)
			return c12Step{K: []string{g.key("bit")}, I: []int64{a, b}}
		},
		wrap: func(e *c12Env, ctx context.Context, s c12Step) (any, error) {
			if s.X {
				return e.r.BitCountCtx(ctx, s.K[0], s.I[0], s.I[1])
			}
			return e.r.BitCount(s.K[0], s.I[0], s.I[1])
		},
		ref: func(c red.Cmdable, ctx context.Context, s c12Step) (any, error) {
			return c.BitCount(ctx, s.K[0], &red.BitCount{Start: s.I[0], End: s.I[1]}).Result()
		}})
	c12Reg("BitPos", &c12Entry{typ: "bit", mtype: "string", weight: 3,
		gen: func(g *c12G) c12Step {
			a, b := bitRange(g)
			return c12Step{K: []string{g.key("bit")}, I: []int64{g.small(0, 1), a, b}}
		},
		wrap: func(e *c12Env, ctx context.Context, s c12Step) (any, error) {
			if s.X {
				return e.r.BitPosCtx(ctx, s.K[0], s.I[0], s.I[1], s.I[2])
			}
			return e.r.BitPos(s.K[0], s.I[0], s.I[1], s.I[2])
		},
		ref: func(c red.Cmdable, ctx context.Context, s c12Step) (any, error) {
			return c.BitPos(ctx, s.K[0], s.I[0], s.I[1], s.I[2]).Result()
		}})
	bitop := func(name string,
		plain func(r *Redis, dest string, keys ...string) (int64, error),
		ctxf func(r *Redis, ctx context.Context, dest string, keys ...string) (int64, error),
		raw func(c red.Cmdable, ctx context.Context, dest string, keys ...string) *red.IntCmd) {
		c12Reg(name, &c12Entry{typ: "bit", mtype: "string", srcKey: 1, weight: 1,
			gen: func(g *c12G) c12Step {
				return c12Step{K: append([]string{g.key("bit")}, g.keys("bit", 1, 3)...)}
			},
			wrap: func(e *c12Env, ctx context.Context, s c12Step) (any, error) {
				if s.X {
					return ctxf(e.r, ctx, s.K[0], s.K[1:]...)
				}
				return plain(e.r, s.K[0], s.K[1:]...)
			},
			ref: func(c red.Cmdable, ctx context.Context, s c12Step) (any, error) {
				return raw(c, ctx, s.K[0], s.K[1:]...).Result()
			}})
	}
	bitop("BitOpAnd", (*Redis).BitOpAnd, (*Redis).BitOpAndCtx, red.Cmdable.BitOpAnd)
	bitop("BitOpOr", (*Redis).BitOpOr, (*Redis).BitOpOrCtx, red.Cmdable.BitOpOr)
	bitop("BitOpXor", (*Redis).BitOpXor, (*Redis).BitOpXorCtx, red.Cmdable.BitOpXor)
	c12Reg("BitOpNot", &c12Entry{typ: "bit", mtype: "string", srcKey: 1, weight: 1,
		gen: func(g *c12G) c12Step { return c12Step{K: []string{g.key("bit"), g.key("bit")}} },
		wrap: func(e *c12Env, ctx context.Context, s c12Step) (any, error) {
			if s.X {
				return e.r.BitOpNotCtx(ctx, s.K[0], s.K[1])
			}
			return e.r.BitOpNot(s.K[0], s.K[1])
		},
		ref: func(c red.Cmdable, ctx context.Context, s c12Step) (any, error) {
			return c.BitOpNot(ctx, s.K[0], s.K[1]).Result()
		}})
}
