package redis

// C12 command table, part 2: hashes and lists.

import (
	"context"
	"time"

	red "github.com/go-redis/redis/v8"
)

func c12RegHashes() {
	c12Reg("HSet", &c12Entry{typ: "hash", mtype: "hash", weight: 6,
		gen: func(g *c12G) c12Step {
			v := g.val()
			if g.small(0, 2) == 0 {
				v = g.num()
			}
			return c12Step{K: []string{g.key("hash")}, S: []string{g.field(), v}}
		},
		wrap: func(e *c12Env, ctx context.Context, s c12Step) (any, error) {
			if s.X {
				return nil, e.r.HSetCtx(ctx, s.K[0], s.S[0], s.S[1])
			}
			return nil, e.r.HSet(s.K[0], s.S[0], s.S[1])
		},
		ref: func(c red.Cmdable, ctx context.Context, s c12Step) (any, error) {
			return nil, c.HSet(ctx, s.K[0], s.S[0], s.S[1]).Err()
		}})
	c12Reg("HSetNX", &c12Entry{typ: "hash", mtype: "hash",
		gen: func(g *c12G) c12Step { return c12Step{K: []string{g.key("hash")}, S: []string{g.field(), g.val()}} },
		wrap: func(e *c12Env, ctx context.Context, s c12Step) (any, error) {
			if s.X {
				return e.r.HSetNXCtx(ctx, s.K[0], s.S[0], s.S[1])
			}
			return e.r.HSetNX(s.K[0], s.S[0], s.S[1])
		},
		ref: func(c red.Cmdable, ctx context.Context, s c12Step) (any, error) {
			return c.HSetNX(ctx, s.K[0], s.S[0], s.S[1]).Result()
		}})
	c12Reg("HMSet", &c12Entry{typ: "hash", mtype: "hash", weight: 3,
		gen: func(g *c12G) c12Step {
			n := int(g.small(1, 3))
			s := c12Step{K: []string{g.key("hash")}}
			seen := map[string]bool{}
			for i := 0; i < n; i++ {
				f := g.field()
				if seen[f] {
					continue
				}
				seen[f] = true
				s.S = append(s.S, f, g.val())
			}
			return s
		},
		wrap: func(e *c12Env, ctx context.Context, s c12Step) (any, error) {
			m := map[string]string{}
			for i := 0; i+1 < len(s.S); i += 2 {
				m[s.S[i]] = s.S[i+1]
			}
			if s.X {
				return nil, e.r.HMSetCtx(ctx, s.K[0], m)
			}
			return nil, e.r.HMSet(s.K[0], m)
		},
		ref: func(c red.Cmdable, ctx context.Context, s c12Step) (any, error) {
			m := map[string]any{}
			for i := 0; i+1 < len(s.S); i += 2 {
				m[s.S[i]] = s.S[i+1]
			}
			return nil, c.HMSet(ctx, s.K[0], m).Err()
		}})
	c12Reg("HGet", &c12Entry{typ: "hash", mtype: "hash", weight: 3,
		gen: func(g *c12G) c12Step { return c12Step{K: []string{g.key("hash")}, S: []string{g.field()}} },
		wrap: func(e *c12Env, ctx context.Context, s c12Step) (any, error) {
			if s.X {
				return e.r.HGetCtx(ctx, s.K[0], s.S[0])
			}
			return e.r.HGet(s.K[0], s.S[0])
		},
		ref: func(c red.Cmdable, ctx context.Context, s c12Step) (any, error) {
			return c.HGet(ctx, s.K[0], s.S[0]).Result()
		}})
	c12Reg("HDel", &c12Entry{typ: "hash", mtype: "hash",
		gen: func(g *c12G) c12Step { return c12Step{K: []string{g.key("hash")}, S: g.strs(g.field, 1, 3)} },
		wrap: func(e *c12Env, ctx context.Context, s c12Step) (any, error) {
			if s.X {
				return e.r.HDelCtx(ctx, s.K[0], s.S...)
			}
			return e.r.HDel(s.K[0], s.S...)
		},
		// documented: true when at least one field was removed
		ref: func(c red.Cmdable, ctx context.Context, s c12Step) (any, error) {
			v, err := c.HDel(ctx, s.K[0], s.S...).Result()
			return v >= 1, err
		}})
	c12Reg("HExists", &c12Entry{typ: "hash", mtype: "hash",
		gen: func(g *c12G) c12Step { return c12Step{K: []string{g.key("hash")}, S: []string{g.field()}} },
		wrap: func(e *c12Env, ctx context.Context, s c12Step) (any, error) {
			if s.X {
				return e.r.HExistsCtx(ctx, s.K[0], s.S[0])
			}
			return e.r.HExists(s.K[0], s.S[0])
		},
		ref: func(c red.Cmdable, ctx context.Context, s c12Step) (any, error) {
			return c.HExists(ctx, s.K[0], s.S[0]).Result()
		}})
	c12Reg("HGetAll", &c12Entry{typ: "hash", mtype: "hash",
		gen: func(g *c12G) c12Step { return c12Step{K: []string{g.key("hash")}} },
		wrap: func(e *c12Env, ctx context.Context, s c12Step) (any, error) {
			if s.X {
				return e.r.HGetAllCtx(ctx, s.K[0])
			}
			return e.r.HGetAll(s.K[0])
		},
		ref: func(c red.Cmdable, ctx context.Context, s c12Step) (any, error) {
			return c.HGetAll(ctx, s.K[0]).Result()
		}})
	c12Reg("HIncrBy", &c12Entry{typ: "hash", mtype: "hash",
		gen: func(g *c12G) c12Step {
			return c12Step{K: []string{g.key("hash")}, S: []string{g.field()}, I: []int64{g.score()}}
		},
		wrap: func(e *c12Env, ctx context.Context, s c12Step) (any, error) {
			if s.X {
				return e.r.HIncrByCtx(ctx, s.K[0], s.S[0], int(s.I[0]))
			}
			return e.r.HIncrBy(s.K[0], s.S[0], int(s.I[0]))
		},
		ref: func(c red.Cmdable, ctx context.Context, s c12Step) (any, error) {
			v, err := c.HIncrBy(ctx, s.K[0], s.S[0], s.I[0]).Result()
			return int(v), err
		}})
	c12Reg("HKeys", &c12Entry{typ: "hash", mtype: "hash", unordered: true,
		gen: func(g *c12G) c12Step { return c12Step{K: []string{g.key("hash")}} },
		wrap: func(e *c12Env, ctx context.Context, s c12Step) (any, error) {
			if s.X {
				return e.r.HKeysCtx(ctx, s.K[0])
			}
			return e.r.HKeys(s.K[0])
		},
		ref: func(c red.Cmdable, ctx context.Context, s c12Step) (any, error) {
			return c.HKeys(ctx, s.K[0]).Result()
		}})
	c12Reg("HVals", &c12Entry{typ: "hash", mtype: "hash", unordered: true,
		gen: func(g *c12G) c12Step { return c12Step{K: []string{g.key("hash")}} },
		wrap: func(e *c12Env, ctx context.Context, s c12Step) (any, error) {
			if s.X {
				return e.r.HValsCtx(ctx, s.K[0])
			}
			return e.r.HVals(s.K[0])
		},
		ref: func(c red.Cmdable, ctx context.Context, s c12Step) (any, error) {
			return c.HVals(ctx, s.K[0]).Result()
		}})
	c12Reg("HLen", &c12Entry{typ: "hash", mtype: "hash",
		gen: func(g *c12G) c12Step { return c12Step{K: []string{g.key("hash")}} },
		wrap: func(e *c12Env, ctx context.Context, s c12Step) (any, error) {
			if s.X {
				return e.r.HLenCtx(ctx, s.K[0])
			}
			return e.r.HLen(s.K[0])
		},
		ref: func(c red.Cmdable, ctx context.Context, s c12Step) (any, error) {
			v, err := c.HLen(ctx, s.K[0]).Result()
			return int(v), err
		}})
	c12Reg("HMGet", &c12Entry{typ: "hash", mtype: "hash",
		gen: func(g *c12G) c12Step { return c12Step{K: []string{g.key("hash")}, S: g.strs(g.field, 1, 4)} },
		wrap: func(e *c12Env, ctx context.Context, s c12Step) (any, error) {
			if s.X {
				return e.r.HMGetCtx(ctx, s.K[0], s.S...)
			}
			return e.r.HMGet(s.K[0], s.S...)
		},
		ref: func(c red.Cmdable, ctx context.Context, s c12Step) (any, error) {
			v, err := c.HMGet(ctx, s.K[0], s.S...).Result()
			if err != nil {
				return nil, err
			}
			return c12AnyStrings(v), nil
		}})
	c12Reg("HScan", &c12Entry{typ: "hash", mtype: "hash", weight: 1,
		gen: func(g *c12G) c12Step {
			return c12Step{K: []string{g.key("hash")}, S: []string{g.from("match", "*", "f*", "f[12]", "")}, I: []int64{g.small(0, 1), g.small(0, 20)}}
		},
		wrap: func(e *c12Env, ctx context.Context, s c12Step) (any, error) {
			if s.X {
				k, cur, err := e.r.HScanCtx(ctx, s.K[0], uint64(s.I[0]), s.S[0], s.I[1])
				return c12ScanRes{k, cur}, err
			}
			k, cur, err := e.r.HScan(s.K[0], uint64(s.I[0]), s.S[0], s.I[1])
			return c12ScanRes{k, cur}, err
		},
		ref: func(c red.Cmdable, ctx context.Context, s c12Step) (any, error) {
			k, cur, err := c.HScan(ctx, s.K[0], uint64(s.I[0]), s.S[0], s.I[1]).Result()
			return c12ScanRes{k, cur}, err
		}})
}

func c12RegLists() {
	push := func(name string,
		plain func(r *Redis, key string, values ...any) (int, error),
		ctxf func(r *Redis, ctx context.Context, key string, values ...any) (int, error),
		raw func(c red.Cmdable, ctx context.Context, key string, values ...any) *red.IntCmd) {
		c12Reg(name, &c12Entry{typ: "list", mtype: "list", weight: 5,
			gen: func(g *c12G) c12Step {
				s := c12Step{K: []string{g.key("list")}, S: g.strs(g.val, 1, 3)}
				if g.small(0, 3) == 0 {
					s.I = []int64{g.small(-2, 9)} // a non-string element
				}
				return s
			},
			wrap: func(e *c12Env, ctx context.Context, s c12Step) (any, error) {
				if s.X {
					return ctxf(e.r, ctx, s.K[0], c12Anys(s)...)
				}
				return plain(e.r, s.K[0], c12Anys(s)...)
			},
			ref: func(c red.Cmdable, ctx context.Context, s c12Step) (any, error) {
				v, err := raw(c, ctx, s.K[0], c12Anys(s)...).Result()
				return int(v), err
			}})
	}
	push("LPush", (*Redis).LPush, (*Redis).LPushCtx, red.Cmdable.LPush)
	push("RPush", (*Redis).RPush, (*Redis).RPushCtx, red.Cmdable.RPush)
	pop := func(name string,
		plain func(r *Redis, key string) (string, error),
		ctxf func(r *Redis, ctx context.Context, key string) (string, error),
		raw func(c red.Cmdable, ctx context.Context, key string) *red.StringCmd) {
		c12Reg(name, &c12Entry{typ: "list", mtype: "list",
			gen: func(g *c12G) c12Step { return c12Step{K: []string{g.key("list")}} },
			wrap: func(e *c12Env, ctx context.Context, s c12Step) (any, error) {
				if s.X {
					return ctxf(e.r, ctx, s.K[0])
				}
				return plain(e.r, s.K[0])
			},
			ref: func(c red.Cmdable, ctx context.Context, s c12Step) (any, error) {
				return raw(c, ctx, s.K[0]).Result()
			}})
	}
	pop("LPop", (*Redis).LPop, (*Redis).LPopCtx, red.Cmdable.LPop)
	pop("RPop", (*Redis).RPop, (*Redis).RPopCtx, red.Cmdable.RPop)
	c12Reg("LLen", &c12Entry{typ: "list", mtype: "list",
		gen: func(g *c12G) c12Step { return c12Step{K: []string{g.key("list")}} },
		wrap: func(e *c12Env, ctx context.Context, s c12Step) (any, error) {
			if s.X {
				return e.r.LLenCtx(ctx, s.K[0])
			}
			return e.r.LLen(s.K[0])
		},
		ref: func(c red.Cmdable, ctx context.Context, s c12Step) (any, error) {
			v, err := c.LLen(ctx, s.K[0]).Result()
			return int(v), err
		}})
	c12Reg("LIndex", &c12Entry{typ: "list", mtype: "list",
		gen: func(g *c12G) c12Step { return c12Step{K: []string{g.key("list")}, I: []int64{g.idx()}} },
		wrap: func(e *c12Env, ctx context.Context, s c12Step) (any, error) {
			if s.X {
				return e.r.LIndexCtx(ctx, s.K[0], s.I[0])
			}
			return e.r.LIndex(s.K[0], s.I[0])
		},
		ref: func(c red.Cmdable, ctx context.Context, s c12Step) (any, error) {
			return c.LIndex(ctx, s.K[0], s.I[0]).Result()
		}})
	c12Reg("LRange", &c12Entry{typ: "list", mtype: "list", weight: 4,
		gen: func(g *c12G) c12Step { return c12Step{K: []string{g.key("list")}, I: []int64{g.idxInt(), g.idxInt()}} },
		wrap: func(e *c12Env, ctx context.Context, s c12Step) (any, error) {
			if s.X {
				return e.r.LRangeCtx(ctx, s.K[0], int(s.I[0]), int(s.I[1]))
			}
			return e.r.LRange(s.K[0], int(s.I[0]), int(s.I[1]))
		},
		ref: func(c red.Cmdable, ctx context.Context, s c12Step) (any, error) {
			return c.LRange(ctx, s.K[0], s.I[0], s.I[1]).Result()
		}})
	c12Reg("LRem", &c12Entry{typ: "list", mtype: "list",
		gen: func(g *c12G) c12Step {
			return c12Step{K: []string{g.key("list")}, S: []string{g.val()}, I: []int64{g.small(-2, 2)}}
		},
		wrap: func(e *c12Env, ctx context.Context, s c12Step) (any, error) {
			if s.X {
				return e.r.LRemCtx(ctx, s.K[0], int(s.I[0]), s.S[0])
			}
			return e.r.LRem(s.K[0], int(s.I[0]), s.S[0])
		},
		ref: func(c red.Cmdable, ctx context.Context, s c12Step) (any, error) {
			v, err := c.LRem(ctx, s.K[0], s.I[0], s.S[0]).Result()
			return int(v), err
		}})
	c12Reg("LTrim", &c12Entry{typ: "list", mtype: "list",
		gen: func(g *c12G) c12Step { return c12Step{K: []string{g.key("list")}, I: []int64{g.idx(), g.idx()}} },
		wrap: func(e *c12Env, ctx context.Context, s c12Step) (any, error) {
			if s.X {
				return nil, e.r.LTrimCtx(ctx, s.K[0], s.I[0], s.I[1])
			}
			return nil, e.r.LTrim(s.K[0], s.I[0], s.I[1])
		},
		ref: func(c red.Cmdable, ctx context.Context, s c12Step) (any, error) {
			return nil, c.LTrim(ctx, s.K[0], s.I[0], s.I[1]).Err()
		}})

	// Blocking pops go through a caller-supplied node (no breaker). They are only run
	// when they cannot block: the key holds a non-empty list or a value of another
	// type (immediate WRONGTYPE); an absent/empty list would sleep in real time.
	// I[0]: timeout in ms (BLPopWithTimeout only): 0 = "block until an element arrives",
	// negative (an error reply), sub-second (go-redis rounds up to 1 s), 1..3 s. None of
	// them is ever allowed to block: the step runs only when the key exists (non-empty
	// list: returns at once; other type: WRONGTYPE at once), when the context is dead, or
	// when the timeout is <= -1 s (immediate "timeout is negative" reply).
	blockSkip := func(e *c12Env, s c12Step) bool {
		if e.tw.mB.Exists(s.K[0]) || (s.X && s.D != 0) {
			return false
		}
		return !(s.C == "BLPopWithTimeout" && s.I[0] <= -1000)
	}
	blockGen := func(g *c12G) c12Step {
		ms := []int64{0, 0, -1000, -5000, 300, 500, 1000, 2000, 3000}
		return c12Step{K: []string{g.key("list")}, I: []int64{ms[g.uni(len(ms))]}}
	}
	c12Reg("BLPop", &c12Entry{typ: "list", mtype: "list", skip: blockSkip, gen: blockGen,
		wrap: func(e *c12Env, ctx context.Context, s c12Step) (any, error) {
			if s.X {
				return e.r.BLPopCtx(ctx, e.tw.blockA, s.K[0])
			}
			return e.r.BLPop(e.tw.blockA, s.K[0])
		},
		// documented: the popped element (second item of the reply), default timeout 5 s
		ref: func(c red.Cmdable, ctx context.Context, s c12Step) (any, error) {
			v, err := c.BLPop(ctx, 5*time.Second, s.K[0]).Result()
			if err != nil {
				return "", err
			}
			return v[1], nil
		}})
	c12Reg("BLPopEx", &c12Entry{typ: "list", mtype: "list", skip: blockSkip, gen: blockGen,
		wrap: func(e *c12Env, ctx context.Context, s c12Step) (any, error) {
			var v string
			var ok bool
			var err error
			if s.X {
				v, ok, err = e.r.BLPopExCtx(ctx, e.tw.blockA, s.K[0])
			} else {
				v, ok, err = e.r.BLPopEx(e.tw.blockA, s.K[0])
			}
			return []any{v, ok}, err
		},
		ref: func(c red.Cmdable, ctx context.Context, s c12Step) (any, error) {
			v, err := c.BLPop(ctx, 5*time.Second, s.K[0]).Result()
			if err != nil {
				return nil, err
			}
			return []any{v[1], true}, nil
		}})
	c12Reg("BLPopWithTimeout", &c12Entry{typ: "list", mtype: "list", skip: blockSkip, gen: blockGen,
		wrap: func(e *c12Env, ctx context.Context, s c12Step) (any, error) {
			d := time.Duration(s.I[0]) * time.Millisecond
			if s.X {
				return e.r.BLPopWithTimeoutCtx(ctx, e.tw.blockA, d, s.K[0])
			}
			return e.r.BLPopWithTimeout(e.tw.blockA, d, s.K[0])
		},
		ref: func(c red.Cmdable, ctx context.Context, s c12Step) (any, error) {
			v, err := c.BLPop(ctx, time.Duration(s.I[0])*time.Millisecond, s.K[0]).Result()
			if err != nil {
				return "", err
			}
			return v[1], nil
		}})
}
