package redis

// C12 command table, part 4: hyperloglog, geo, scripts, pipeline queueing functions.

import (
	"context"
	"crypto/sha1"
	"encoding/hex"
	"sort"
	"strconv"
	"strings"
	"time"

	red "github.com/go-redis/redis/v8"
)

var c12Scripts = []string{
	`return redis.call('GET', KEYS[1])`,
	`return redis.call('INCRBY', KEYS[1], ARGV[1])`,
	`redis.call('SET', KEYS[1], ARGV[1]) redis.call('EXPIRE', KEYS[1], ARGV[2]) return redis.call('TTL', KEYS[1])`,
	`return {KEYS[1], ARGV[1], 7}`,
	`return redis.call('LRANGE', KEYS[1], 0, -1)`,
	`return redis.call('HGET', KEYS[1], ARGV[1])`,
	`return redis.error_reply('ERR c12 script failure on ' .. KEYS[1])`,
	`return redis.call('LPUSH', KEYS[1], 'x')`,
}

func c12Sha(script string) string {
	h := sha1.Sum([]byte(script))
	return hex.EncodeToString(h[:])
}

type c12Place struct {
	name     string
	lon, lat float64
}

var c12Places = []c12Place{
	{"palermo", 13.361389, 38.115556},
	{"catania", 15.087269, 37.502669},
	{"agrigento", 13.583333, 37.316667},
	{"rome", 12.496366, 41.902782},
}

func c12RegMisc() {
	// ---- hyperloglog
	c12Reg("PFAdd", &c12Entry{typ: "hll", mtype: "hll", weight: 4,
		gen: func(g *c12G) c12Step { return c12Step{K: []string{g.key("hll")}, S: g.strs(g.member, 1, 3)} },
		wrap: func(e *c12Env, ctx context.Context, s c12Step) (any, error) {
			if s.X {
				return e.r.PFAddCtx(ctx, s.K[0], c12Anys(s)...)
			}
			return e.r.PFAdd(s.K[0], c12Anys(s)...)
		},
		// documented: true when the HyperLogLog was altered
		ref: func(c red.Cmdable, ctx context.Context, s c12Step) (any, error) {
			v, err := c.PFAdd(ctx, s.K[0], c12Anys(s)...).Result()
			return v >= 1, err
		}})
	c12Reg("PFCount", &c12Entry{typ: "hll", mtype: "hll",
		gen: func(g *c12G) c12Step { return c12Step{K: []string{g.key("hll")}} },
		wrap: func(e *c12Env, ctx context.Context, s c12Step) (any, error) {
			if s.X {
				return e.r.PFCountCtx(ctx, s.K[0])
			}
			return e.r.PFCount(s.K[0])
		},
		ref: func(c red.Cmdable, ctx context.Context, s c12Step) (any, error) {
			return c.PFCount(ctx, s.K[0]).Result()
		}})
	c12Reg("PFMerge", &c12Entry{typ: "hll", mtype: "hll", srcKey: 1,
		gen: func(g *c12G) c12Step { return c12Step{K: append([]string{g.key("hll")}, g.keys("hll", 1, 2)...)} },
		wrap: func(e *c12Env, ctx context.Context, s c12Step) (any, error) {
			if s.X {
				return nil, e.r.PFMergeCtx(ctx, s.K[0], s.K[1:]...)
			}
			return nil, e.r.PFMerge(s.K[0], s.K[1:]...)
		},
		ref: func(c red.Cmdable, ctx context.Context, s c12Step) (any, error) {
			return nil, c.PFMerge(ctx, s.K[0], s.K[1:]...).Err()
		}})

	// ---- geo (GeoHash excluded: miniredis 2.23.1 does not implement GEOHASH)
	place := func(g *c12G) int64 { return g.small(0, int(len(c12Places)-1)) }
	c12Reg("GeoAdd", &c12Entry{typ: "geo", mtype: "zset", weight: 4,
		gen: func(g *c12G) c12Step {
			n := int(g.small(1, 3))
			s := c12Step{K: []string{g.key("geo")}}
			for i := 0; i < n; i++ {
				s.I = append(s.I, place(g))
			}
			return s
		},
		wrap: func(e *c12Env, ctx context.Context, s c12Step) (any, error) {
			if s.X {
				return e.r.GeoAddCtx(ctx, s.K[0], c12Locs(s)...)
			}
			return e.r.GeoAdd(s.K[0], c12Locs(s)...)
		},
		ref: func(c red.Cmdable, ctx context.Context, s c12Step) (any, error) {
			return c.GeoAdd(ctx, s.K[0], c12Locs(s)...).Result()
		}})
	c12Reg("GeoDist", &c12Entry{typ: "geo", mtype: "zset",
		gen: func(g *c12G) c12Step {
			return c12Step{K: []string{g.key("geo")}, I: []int64{place(g), place(g)}, S: []string{g.from("unit", "m", "km", "mi", "ft")}}
		},
		wrap: func(e *c12Env, ctx context.Context, s c12Step) (any, error) {
			a, b := c12Places[s.I[0]].name, c12Places[s.I[1]].name
			if s.X {
				return e.r.GeoDistCtx(ctx, s.K[0], a, b, s.S[0])
			}
			return e.r.GeoDist(s.K[0], a, b, s.S[0])
		},
		ref: func(c red.Cmdable, ctx context.Context, s c12Step) (any, error) {
			return c.GeoDist(ctx, s.K[0], c12Places[s.I[0]].name, c12Places[s.I[1]].name, s.S[0]).Result()
		}})
	c12Reg("GeoPos", &c12Entry{typ: "geo", mtype: "zset",
		gen: func(g *c12G) c12Step {
			n := int(g.small(1, 3))
			s := c12Step{K: []string{g.key("geo")}}
			for i := 0; i < n; i++ {
				s.I = append(s.I, place(g))
			}
			return s
		},
		wrap: func(e *c12Env, ctx context.Context, s c12Step) (any, error) {
			if s.X {
				return e.r.GeoPosCtx(ctx, s.K[0], c12PlaceNames(s)...)
			}
			return e.r.GeoPos(s.K[0], c12PlaceNames(s)...)
		},
		ref: func(c red.Cmdable, ctx context.Context, s c12Step) (any, error) {
			return c.GeoPos(ctx, s.K[0], c12PlaceNames(s)...).Result()
		}})
	// GeoHash: miniredis 2.23.1 has no GEOHASH. The entry runs inside scripted steps only:
	// both servers answer the command with the same legal GEOHASH reply (an array with
	// one bulk string per member, nil for a member that is not in the index), so the wire
	// (GEOHASH key member...) and the handed-through result are judged like any other.
	c12Reg("GeoHash", &c12Entry{typ: "geo", mtype: "zset", scriptedOnly: true,
		gen: func(g *c12G) c12Step {
			n := int(g.small(1, 3))
			s := c12Step{K: []string{g.key("geo")}}
			for i := 0; i < n; i++ {
				s.I = append(s.I, place(g))
			}
			return s
		},
		wrap: func(e *c12Env, ctx context.Context, s c12Step) (any, error) {
			if s.X {
				return e.r.GeoHashCtx(ctx, s.K[0], c12PlaceNames(s)...)
			}
			return e.r.GeoHash(s.K[0], c12PlaceNames(s)...)
		},
		ref: func(c red.Cmdable, ctx context.Context, s c12Step) (any, error) {
			return c.GeoHash(ctx, s.K[0], c12PlaceNames(s)...).Result()
		}})
	query := func(s c12Step) *red.GeoRadiusQuery {
		q := &red.GeoRadiusQuery{Radius: s.F[0], Unit: s.S[0], Sort: s.S[1], Count: int(s.I[1])}
		q.WithCoord = s.I[2]&1 != 0
		q.WithDist = s.I[2]&2 != 0
		return q
	}
	queryGen := func(g *c12G, s c12Step) c12Step {
		s.F = append(s.F, float64(g.small(50, 600)))
		s.S = []string{g.from("unit", "km", "mi"), g.from("sort", "ASC", "DESC")}
		s.I = append(s.I, g.small(0, 3), g.small(0, 3))
		return s
	}
	c12Reg("GeoRadius", &c12Entry{typ: "geo", mtype: "zset",
		gen: func(g *c12G) c12Step {
			p := c12Places[place(g)]
			return queryGen(g, c12Step{K: []string{g.key("geo")}, I: []int64{0}, F: []float64{p.lon, p.lat}})
		},
		wrap: func(e *c12Env, ctx context.Context, s c12Step) (any, error) {
			q := query(c12Step{F: s.F[2:], S: s.S, I: s.I})
			if s.X {
				return e.r.GeoRadiusCtx(ctx, s.K[0], s.F[0], s.F[1], q)
			}
			return e.r.GeoRadius(s.K[0], s.F[0], s.F[1], q)
		},
		ref: func(c red.Cmdable, ctx context.Context, s c12Step) (any, error) {
			return c.GeoRadius(ctx, s.K[0], s.F[0], s.F[1], query(c12Step{F: s.F[2:], S: s.S, I: s.I})).Result()
		}})
	c12Reg("GeoRadiusByMember", &c12Entry{typ: "geo", mtype: "zset",
		gen: func(g *c12G) c12Step {
			return queryGen(g, c12Step{K: []string{g.key("geo")}, I: []int64{place(g)}})
		},
		wrap: func(e *c12Env, ctx context.Context, s c12Step) (any, error) {
			if s.X {
				return e.r.GeoRadiusByMemberCtx(ctx, s.K[0], c12Places[s.I[0]].name, query(s))
			}
			return e.r.GeoRadiusByMember(s.K[0], c12Places[s.I[0]].name, query(s))
		},
		ref: func(c red.Cmdable, ctx context.Context, s c12Step) (any, error) {
			return c.GeoRadiusByMember(ctx, s.K[0], c12Places[s.I[0]].name, query(s)).Result()
		}})

	// ---- scripts: I[0] = script index; S/I[1:] = ARGV
	scriptKey := func(g *c12G, idx int64) string {
		switch idx {
		case 1:
			return g.key("num")
		case 4:
			return g.key("list")
		case 5:
			return g.key("hash")
		}
		return g.key("string")
	}
	scriptGen := func(g *c12G) c12Step {
		idx := g.small(0, len(c12Scripts)-1)
		s := c12Step{K: []string{scriptKey(g, idx)}, I: []int64{idx}}
		switch idx {
		case 1:
			s.S = []string{g.num()}
		case 2:
			s.S = []string{g.val()}
			s.I = append(s.I, g.secs())
		case 3:
			s.S = []string{g.val()}
		case 5:
			s.S = []string{g.field()}
		}
		return s
	}
	argv := func(s c12Step) []any { return c12Anys(c12Step{S: s.S, I: s.I[1:], V: s.V}) }
	c12Reg("Eval", &c12Entry{typ: "script", mtype: "*", weight: 4, gen: scriptGen,
		wrap: func(e *c12Env, ctx context.Context, s c12Step) (any, error) {
			if s.X {
				return e.r.EvalCtx(ctx, c12Scripts[s.I[0]], s.K, argv(s)...)
			}
			return e.r.Eval(c12Scripts[s.I[0]], s.K, argv(s)...)
		},
		ref: func(c red.Cmdable, ctx context.Context, s c12Step) (any, error) {
			return c.Eval(ctx, c12Scripts[s.I[0]], s.K, argv(s)...).Result()
		}})
	c12Reg("EvalSha", &c12Entry{typ: "script", mtype: "*", weight: 3, gen: scriptGen,
		wrap: func(e *c12Env, ctx context.Context, s c12Step) (any, error) {
			if s.X {
				return e.r.EvalShaCtx(ctx, c12Sha(c12Scripts[s.I[0]]), s.K, argv(s)...)
			}
			return e.r.EvalSha(c12Sha(c12Scripts[s.I[0]]), s.K, argv(s)...)
		},
		ref: func(c red.Cmdable, ctx context.Context, s c12Step) (any, error) {
			return c.EvalSha(ctx, c12Sha(c12Scripts[s.I[0]]), s.K, argv(s)...).Result()
		}})
	c12Reg("ScriptLoad", &c12Entry{typ: "script", weight: 3,
		gen: func(g *c12G) c12Step { return c12Step{I: []int64{g.small(0, len(c12Scripts)-1)}} },
		wrap: func(e *c12Env, ctx context.Context, s c12Step) (any, error) {
			if s.X {
				return e.r.ScriptLoadCtx(ctx, c12Scripts[s.I[0]])
			}
			return e.r.ScriptLoad(c12Scripts[s.I[0]])
		},
		ref: func(c red.Cmdable, ctx context.Context, s c12Step) (any, error) {
			return c.ScriptLoad(ctx, c12Scripts[s.I[0]]).Result()
		}})
}

func c12Locs(s c12Step) []*GeoLocation {
	out := make([]*GeoLocation, len(s.I))
	for i, p := range s.I {
		pl := c12Places[p]
		out[i] = &GeoLocation{Name: pl.name, Longitude: pl.lon, Latitude: pl.lat}
	}
	return out
}

func c12PlaceNames(s c12Step) []string {
	out := make([]string, len(s.I))
	for i, p := range s.I {
		out[i] = c12Places[p].name
	}
	return out
}

// ---------------------------------------------------------------- pipeline

// c12Pipe: how a table entry's arguments are queued on a go-redis Pipeliner. The
// arguments come from the table entry's own generator.
var c12Pipe = map[string]func(p red.Pipeliner, ctx context.Context, s c12Step) red.Cmder{
	"Get":    func(p red.Pipeliner, ctx context.Context, s c12Step) red.Cmder { return p.Get(ctx, s.K[0]) },
	"Set":    func(p red.Pipeliner, ctx context.Context, s c12Step) red.Cmder { return p.Set(ctx, s.K[0], s.S[0], 0) },
	"Incr":   func(p red.Pipeliner, ctx context.Context, s c12Step) red.Cmder { return p.Incr(ctx, s.K[0]) },
	"Del":    func(p red.Pipeliner, ctx context.Context, s c12Step) red.Cmder { return p.Del(ctx, s.K...) },
	"HSet":   func(p red.Pipeliner, ctx context.Context, s c12Step) red.Cmder { return p.HSet(ctx, s.K[0], s.S[0], s.S[1]) },
	"HGet":   func(p red.Pipeliner, ctx context.Context, s c12Step) red.Cmder { return p.HGet(ctx, s.K[0], s.S[0]) },
	"LPush":  func(p red.Pipeliner, ctx context.Context, s c12Step) red.Cmder { return p.LPush(ctx, s.K[0], c12Anys(s)...) },
	"RPop":   func(p red.Pipeliner, ctx context.Context, s c12Step) red.Cmder { return p.RPop(ctx, s.K[0]) },
	"LRange": func(p red.Pipeliner, ctx context.Context, s c12Step) red.Cmder { return p.LRange(ctx, s.K[0], s.I[0], s.I[1]) },
	"SAdd":   func(p red.Pipeliner, ctx context.Context, s c12Step) red.Cmder { return p.SAdd(ctx, s.K[0], c12Anys(s)...) },
	"SCard":  func(p red.Pipeliner, ctx context.Context, s c12Step) red.Cmder { return p.SCard(ctx, s.K[0]) },
	"ZAdd": func(p red.Pipeliner, ctx context.Context, s c12Step) red.Cmder {
		return p.ZAdd(ctx, s.K[0], &red.Z{Score: float64(s.I[0]), Member: s.S[0]})
	},
	"ZScore": func(p red.Pipeliner, ctx context.Context, s c12Step) red.Cmder { return p.ZScore(ctx, s.K[0], s.S[0]) },
	"Expire": func(p red.Pipeliner, ctx context.Context, s c12Step) red.Cmder {
		return p.Expire(ctx, s.K[0], secs12(s.I[0]))
	},
	"TTL": func(p red.Pipeliner, ctx context.Context, s c12Step) red.Cmder { return p.TTL(ctx, s.K[0]) },
}

var c12PipeNames = func() []string {
	var ns []string
	for n := range c12Pipe {
		ns = append(ns, n)
	}
	sort.Strings(ns)
	return ns
}()

func secs12(n int64) time.Duration { return time.Duration(n) * time.Second }

// ---------------------------------------------------------------- scripted replies

func c12Bulk(x string) string { return "$" + strconv.Itoa(len(x)) + "\r\n" + x + "\r\n" }

func c12Arr(elems ...string) string {
	out := "*" + strconv.Itoa(len(elems)) + "\r\n"
	for _, e := range elems {
		out += e
	}
	return out
}

const c12NilBulk, c12NilArr = "$-1\r\n", "*-1\r\n"

// c12Scripted: per wrapper command the raw RESP replies both servers may be told to
// give (all legal for that command on a real Redis).
var c12Scripted = func() map[string][]string {
	long := strings.Repeat("x", 100000)
	b := c12Bulk
	scan := []string{
		c12Arr(b("17"), c12Arr()),                        // empty page, more to come
		c12Arr(b("42"), c12Arr(b("k1"), b("k2"))),        // page with data, more to come
		c12Arr(b("0"), c12Arr()),                         // empty last page
		c12Arr(b("0"), c12Arr(b("k1"))),                  // last page
		c12Arr(b("18446744073709551615"), c12Arr(b("x"))), // largest cursor
		c12Arr(b("5"), c12Arr(b(long))),
	}
	strs := []string{c12Arr(), c12NilArr, c12Arr(b("a"), b(long)), c12Arr(b("")), c12Arr(b("b"), b("a"), b("a"))}
	ints := []string{":0\r\n", ":1\r\n", ":2\r\n", ":-1\r\n", ":-2\r\n", ":7\r\n", ":9223372036854775807\r\n"}
	bulk := []string{c12NilBulk, b(""), b("abc"), b(long), b("12")}
	mixed := []string{c12Arr(b("a"), c12NilBulk, b("")), c12Arr(), c12NilArr, c12Arr(c12NilBulk), c12Arr(b(long))}
	zs := []string{c12Arr(b("m1"), b("1.9"), b("m2"), b("-1.9")), c12Arr(), c12Arr(b("m"), b("3e2")), c12NilArr,
		c12Arr(b("m"), b("0.5"), b(long), b("-0.5"), b("z"), b("9007199254740993"))}
	floats := []string{b("2.9"), c12NilBulk, b("-0.5"), b("1e3"), b("0")}
	hash := []string{c12Arr(b("f1"), b("v1"), b("f2"), b("")), c12Arr(), c12Arr(b("f"), b(long))}
	m := map[string][]string{}
	for _, n := range []string{"Scan", "SScan", "HScan"} {
		m[n] = scan
	}
	for _, n := range []string{"LRange", "SMembers", "HKeys", "HVals", "ZRange", "ZRevRange", "Keys", "SUnion", "SDiff", "SInter"} {
		m[n] = strs
	}
	for _, n := range []string{"Exists", "Del", "HDel", "SAdd", "SRem", "LLen", "HLen", "ZCard", "SCard", "PFAdd", "PFCount", "ZAdd", "ZAdds",
		"Incr", "DecrBy", "TTL", "GetBit", "SetBit", "Persist", "HExists", "SIsMember", "LPush", "LRem", "ZRem", "ZCount", "ZRank", "HIncrBy", "BitCount", "BitPos", "SUnionStore", "ZUnionStore",
		// round 8
		"SDiffStore", "SInterStore", "Expire", "ExpireAt", "SetNX", "HSetNX", "IncrBy", "Decr", "RPush", "ZRevRank",
		"ZRemRangeByScore", "ZRemRangeByRank", "GeoAdd"} {
		m[n] = ints
	}
	// round 8: blocking pops. "*-1" is what BLPOP answers when its timeout expires on an
	// empty list - the quick tier gets the timeout reply without sleeping for it; the other
	// shapes are [key, element] with an empty and a very long element.
	for _, n := range []string{"BLPop", "BLPopEx", "BLPopWithTimeout"} {
		m[n] = []string{c12NilArr, c12Arr(b("l:1"), b("v")), c12Arr(b("l:1"), b("")), c12NilArr, c12Arr(b("l:2"), b(long))}
	}
	// round 8: GEOHASH replies (miniredis lacks the command, see the GeoHash entry)
	m["GeoHash"] = []string{c12Arr(b("sqc8b49rny0")), c12Arr(b("sqc8b49rny0"), b("sqdtr74hyu0")), c12Arr(c12NilBulk, b("sqdtr74hyu0")),
		c12Arr(), c12Arr(b("sqc8b49rny0"), c12NilBulk, b("")), c12Arr(c12NilBulk)}
	for _, n := range []string{"Get", "HGet", "LPop", "RPop", "LIndex", "GetSet"} {
		m[n] = bulk
	}
	for _, n := range []string{"MGet", "HMGet"} {
		m[n] = mixed
	}
	for _, n := range []string{"ZRangeWithScores", "ZRevRangeWithScores", "ZRangeByScoreWithScores", "ZRevRangeByScoreWithScores",
		"ZRangeByScoreWithScoresAndLimit", "ZRevRangeByScoreWithScoresAndLimit"} {
		m[n] = zs
	}
	for _, n := range []string{"ZScore", "ZIncrBy", "GeoDist"} {
		m[n] = floats
	}
	m["HGetAll"] = hash
	return m
}()

var c12ScriptedNames = func() []string {
	var ns []string
	for n := range c12Scripted {
		ns = append(ns, n)
	}
	sort.Strings(ns)
	return ns
}()

// c12ScriptedWeighted: what the generator samples from. The commands whose interesting
// replies exist as scripted replies only (GEOHASH at all; the nil reply of a blocking pop
// that timed out; a scan page that is empty although the cursor is not 0) get three times
// the weight of the others.
var c12ScriptedWeighted = func() []string {
	var ns []string
	for _, n := range c12ScriptedNames {
		ns = append(ns, n)
		if n == "GeoHash" || strings.HasPrefix(n, "BLPop") || strings.HasSuffix(n, "Scan") {
			ns = append(ns, n, n)
		}
	}
	return ns
}()
