package redis

// C12, unit variant "metrics": the same wrapper twin in a process in which the
// library's metrics (lib/prometheus agent) and tracing (lib/trace agent, no exporter)
// are switched ON and every call counts as slow (SetSlowThreshold), so that the
// wrapper's go-redis hook (hook.go, metrics.go) really records durations, errors,
// spans and slow-call logs. Transparency must hold in every legal process
// configuration: a wrapper method still returns go-redis' result or error - it must
// not panic in the hook. Own test binary (directory lib/store/redis@metrics): the
// process-wide switches cannot leak into the other units. The remaining files of
// this directory are symlinks to ../redis (same table, same interpreter, same oracle).

import (
	"os"
	"testing"
	"time"

	"github.com/gotid/god/lib/prometheus"
	prom "github.com/prometheus/client_golang/prometheus"
	"github.com/gotid/god/lib/trace"
	"pgregory.net/rapid"
	"verif.local/kit"
)

func init() {
	// the way an application enables them: service config -> StartAgent
	prometheus.StartAgent(prometheus.Config{Host: "127.0.0.1", Port: 0, Path: "/metrics"})
	trace.StartAgent(trace.Config{Name: "c12", Sampler: 1.0})
	SetSlowThreshold(time.Nanosecond)
}

// Histories biased towards what makes the hook work: error replies (1 key in 3 is
// wrong-typed, script errors, NOSCRIPT), pipelines (15 % of the steps, their queued
// commands fail as often).
func c12MetricsGen(rt *rapid.T) c12Case {
	return c12GenWith(&c12G{rt: rt, bit: rapid.Bool(), wrongIn: 3, pipePct: 15})
}

func TestVerif_C12_metrics(t *testing.T) {
	if !prometheus.Enabled() {
		t.Fatalf("prometheus agent not enabled")
	}
	c12Setup(t)
	ran := 0
	kit.Run(t, "C12", "wrapper-twin-metrics", kit.Opts{Quick: 300, Thorough: 16000}, c12MetricsGen,
		func(c c12Case) kit.Verdict { ran++; return c12Interp(t, c) })
	// the harness must really have driven the metrics side of the hook - judged only
	// when this unit interpreted a whole generated run in this process (not in replay
	// mode, where the file may belong to another rule, and not after a failure)
	if os.Getenv("VERIF_REPLAY") != "" || ran < 50 || t.Failed() {
		return
	}
	fams, err := prom.DefaultGatherer.Gather()
	if err != nil {
		t.Fatalf("gather: %v", err)
	}
	seen := map[string]bool{}
	for _, f := range fams {
		if len(f.GetMetric()) > 0 {
			seen[f.GetName()] = true
		}
	}
	for _, name := range []string{"redis_client_requests_duration_ms", "redis_client_requests_error_total"} {
		if !seen[name] && !t.Failed() {
			t.Fatalf("metric %s was never recorded: the metrics variant does not exercise the hook", name)
		}
	}
}
