package kv_test

// C12 kv command table, part 2: sets and sorted sets.

import (
	"context"
	"fmt"
	"sort"
	"strconv"

	red "github.com/go-redis/redis/v8"
	"github.com/gotid/god/lib/store/kv"
	"github.com/gotid/god/lib/store/redis"
)

func kvRegSets() {
	kGen := func(g *kvG) kvStep { return kvStep{K: []string{g.key("set")}} }
	memGen := func(g *kvG) kvStep {
		s := kvStep{K: []string{g.key("set")}, S: g.strs(g.member, 1, 3)}
		if g.uni(5) == 0 {
			s.I = []int64{g.small(0, 3)}
		}
		return s
	}
	kvReg("SAdd", "set", "set", 7, memGen,
		func(st kv.Store, ctx context.Context, s kvStep) (any, error) {
			if s.X {
				return st.SAddCtx(ctx, s.K[0], kvAnys(s)...)
			}
			return st.SAdd(s.K[0], kvAnys(s)...)
		},
		func(c *red.Client, ctx context.Context, s kvStep) (any, error) {
			v, err := c.SAdd(ctx, s.K[0], kvAnys(s)...).Result()
			return int(v), err
		})
	kvReg("SRem", "set", "set", 2, memGen,
		func(st kv.Store, ctx context.Context, s kvStep) (any, error) {
			if s.X {
				return st.SRemCtx(ctx, s.K[0], kvAnys(s)...)
			}
			return st.SRem(s.K[0], kvAnys(s)...)
		},
		func(c *red.Client, ctx context.Context, s kvStep) (any, error) {
			v, err := c.SRem(ctx, s.K[0], kvAnys(s)...).Result()
			return int(v), err
		})
	kvReg("SCard", "set", "set", 2, kGen,
		func(st kv.Store, ctx context.Context, s kvStep) (any, error) {
			if s.X {
				return st.SCardCtx(ctx, s.K[0])
			}
			return st.SCard(s.K[0])
		},
		func(c *red.Client, ctx context.Context, s kvStep) (any, error) { return c.SCard(ctx, s.K[0]).Result() })
	kvReg("SIsMember", "set", "set", 2,
		func(g *kvG) kvStep { return kvStep{K: []string{g.key("set")}, S: []string{g.member()}} },
		func(st kv.Store, ctx context.Context, s kvStep) (any, error) {
			if s.X {
				return st.SIsMemberCtx(ctx, s.K[0], s.S[0])
			}
			return st.SIsMember(s.K[0], s.S[0])
		},
		func(c *red.Client, ctx context.Context, s kvStep) (any, error) {
			return c.SIsMember(ctx, s.K[0], s.S[0]).Result()
		})
	kvReg("SMembers", "set", "set", 2, kGen,
		func(st kv.Store, ctx context.Context, s kvStep) (any, error) {
			if s.X {
				return st.SMembersCtx(ctx, s.K[0])
			}
			return st.SMembers(s.K[0])
		},
		func(c *red.Client, ctx context.Context, s kvStep) (any, error) { return c.SMembers(ctx, s.K[0]).Result() }).unordered = true
	type scanRes struct {
		Keys []string
		Cur  uint64
	}
	sorted := func(keys []string, cur uint64, err error) (any, error) {
		cp := append([]string(nil), keys...)
		sort.Strings(cp)
		return scanRes{cp, cur}, err
	}
	kvReg("SScan", "set", "set", 1,
		func(g *kvG) kvStep {
			return kvStep{K: []string{g.key("set")}, S: []string{g.from("*", "m*", "m[12]", "")}, I: []int64{g.small(0, 1), g.small(0, 20)}}
		},
		func(st kv.Store, ctx context.Context, s kvStep) (any, error) {
			if s.X {
				return sorted(st.SScanCtx(ctx, s.K[0], uint64(s.I[0]), s.S[0], s.I[1]))
			}
			return sorted(st.SScan(s.K[0], uint64(s.I[0]), s.S[0], s.I[1]))
		},
		func(c *red.Client, ctx context.Context, s kvStep) (any, error) {
			return sorted(c.SScan(ctx, s.K[0], uint64(s.I[0]), s.S[0], s.I[1]).Result())
		})
	// SPop / SRandMember: server-side random choice; validity against the single
	// server, which is then re-synchronised (SREM of the popped member).
	kvReg("SPop", "set", "set", 2, kGen,
		func(st kv.Store, ctx context.Context, s kvStep) (any, error) {
			if s.X {
				return st.SPopCtx(ctx, s.K[0])
			}
			return st.SPop(s.K[0])
		}, nil).judge = func(s kvStep, got any, gerr error) string {
		bg := context.Background()
		if gerr != nil {
			_, werr := kvRef.SPop(bg, s.K[0]).Result()
			if kvErrStr(gerr) != kvErrStr(werr) {
				return fmt.Sprintf("store error %q, single server SPop %q", kvErrStr(gerr), kvErrStr(werr))
			}
			return ""
		}
		n, err := kvRef.SRem(bg, s.K[0], got.(string)).Result()
		if err != nil || n != 1 {
			return fmt.Sprintf("store popped %q which is not a member on the single server (SREM = %d, %v)", got, n, err)
		}
		return ""
	}
	kvReg("SRandMember", "set", "set", 2,
		func(g *kvG) kvStep { return kvStep{K: []string{g.key("set")}, I: []int64{g.small(-3, 5)}} },
		func(st kv.Store, ctx context.Context, s kvStep) (any, error) {
			if s.X {
				return st.SRandMemberCtx(ctx, s.K[0], int(s.I[0]))
			}
			return st.SRandMember(s.K[0], int(s.I[0]))
		}, nil).judge = func(s kvStep, got any, gerr error) string {
		bg := context.Background()
		_, werr := kvRef.SRandMemberN(bg, s.K[0], s.I[0]).Result()
		if kvErrStr(gerr) != kvErrStr(werr) {
			return fmt.Sprintf("store error %q, single server SRandMemberN %q", kvErrStr(gerr), kvErrStr(werr))
		}
		if gerr != nil {
			return ""
		}
		all, _ := kvRef.SMembers(bg, s.K[0]).Result()
		in := map[string]bool{}
		for _, m := range all {
			in[m] = true
		}
		res := got.([]string)
		seen := map[string]bool{}
		for _, m := range res {
			if !in[m] {
				return fmt.Sprintf("returned %q which is not a member of %v", m, all)
			}
			if s.I[0] >= 0 && seen[m] {
				return fmt.Sprintf("positive count returned %q twice: %v", m, res)
			}
			seen[m] = true
		}
		want := int(s.I[0])
		if want < 0 {
			want = -want
		} else if want > len(all) {
			want = len(all)
		}
		if len(res) != want {
			return fmt.Sprintf("count %d on a set of %d members returned %d members, SRANDMEMBER returns %d", s.I[0], len(all), len(res), want)
		}
		return ""
	}
}

func kvPairs(zs []red.Z) []redis.Pair {
	out := make([]redis.Pair, len(zs))
	for i, z := range zs {
		out[i] = redis.Pair{Member: fmt.Sprint(z.Member), Score: int64(z.Score)}
	}
	return out
}

func kvRegZsets() {
	kGen := func(g *kvG) kvStep { return kvStep{K: []string{g.key("zset")}} }
	kmGen := func(g *kvG) kvStep { return kvStep{K: []string{g.key("zset")}, S: []string{g.member()}} }
	kmsGen := func(g *kvG) kvStep { return kvStep{K: []string{g.key("zset")}, S: []string{g.member()}, I: []int64{g.score()}} }
	fmtI := func(v int64) string { return strconv.FormatInt(v, 10) }
	kvReg("ZAdd", "zset", "zset", 7, kmsGen,
		func(st kv.Store, ctx context.Context, s kvStep) (any, error) {
			if s.X {
				return st.ZAddCtx(ctx, s.K[0], s.I[0], s.S[0])
			}
			return st.ZAdd(s.K[0], s.I[0], s.S[0])
		},
		func(c *red.Client, ctx context.Context, s kvStep) (any, error) {
			v, err := c.ZAdd(ctx, s.K[0], &red.Z{Score: float64(s.I[0]), Member: s.S[0]}).Result()
			return v == 1, err
		})
	kvReg("ZAddFloat", "zset", "zset", 5,
		func(g *kvG) kvStep { return kvStep{K: []string{g.key("zset")}, S: []string{g.member()}, F: []float64{g.fscore()}} },
		func(st kv.Store, ctx context.Context, s kvStep) (any, error) {
			if s.X {
				return st.ZAddFloatCtx(ctx, s.K[0], s.F[0], s.S[0])
			}
			return st.ZAddFloat(s.K[0], s.F[0], s.S[0])
		},
		func(c *red.Client, ctx context.Context, s kvStep) (any, error) {
			v, err := c.ZAdd(ctx, s.K[0], &red.Z{Score: s.F[0], Member: s.S[0]}).Result()
			return v == 1, err
		})
	kvReg("ZAdds", "zset", "zset", 3,
		func(g *kvG) kvStep {
			s := kvStep{K: []string{g.key("zset")}}
			for n := 1 + g.uni(3); n > 0; n-- {
				s.S = append(s.S, g.member())
				s.I = append(s.I, g.score())
			}
			return s
		},
		func(st kv.Store, ctx context.Context, s kvStep) (any, error) {
			ps := make([]redis.Pair, len(s.S))
			for i := range s.S {
				ps[i] = redis.Pair{Member: s.S[i], Score: s.I[i]}
			}
			if s.X {
				return st.ZAddsCtx(ctx, s.K[0], ps...)
			}
			return st.ZAdds(s.K[0], ps...)
		},
		func(c *red.Client, ctx context.Context, s kvStep) (any, error) {
			zs := make([]*red.Z, len(s.S))
			for i := range s.S {
				zs[i] = &red.Z{Score: float64(s.I[i]), Member: s.S[i]}
			}
			return c.ZAdd(ctx, s.K[0], zs...).Result()
		})
	kvReg("ZCard", "zset", "zset", 2, kGen,
		func(st kv.Store, ctx context.Context, s kvStep) (any, error) {
			if s.X {
				return st.ZCardCtx(ctx, s.K[0])
			}
			return st.ZCard(s.K[0])
		},
		func(c *red.Client, ctx context.Context, s kvStep) (any, error) {
			v, err := c.ZCard(ctx, s.K[0]).Result()
			return int(v), err
		})
	kvReg("ZIncrBy", "zset", "zset", 2, kmsGen,
		func(st kv.Store, ctx context.Context, s kvStep) (any, error) {
			if s.X {
				return st.ZIncrByCtx(ctx, s.K[0], s.I[0], s.S[0])
			}
			return st.ZIncrBy(s.K[0], s.I[0], s.S[0])
		},
		func(c *red.Client, ctx context.Context, s kvStep) (any, error) {
			v, err := c.ZIncrBy(ctx, s.K[0], float64(s.I[0]), s.S[0]).Result()
			return int64(v), err
		})
	kvReg("ZScore", "zset", "zset", 3, kmGen,
		func(st kv.Store, ctx context.Context, s kvStep) (any, error) {
			if s.X {
				return st.ZScoreCtx(ctx, s.K[0], s.S[0])
			}
			return st.ZScore(s.K[0], s.S[0])
		},
		func(c *red.Client, ctx context.Context, s kvStep) (any, error) {
			v, err := c.ZScore(ctx, s.K[0], s.S[0]).Result()
			return int64(v), err
		})
	kvReg("ZRank", "zset", "zset", 2, kmGen,
		func(st kv.Store, ctx context.Context, s kvStep) (any, error) {
			if s.X {
				return st.ZRankCtx(ctx, s.K[0], s.S[0])
			}
			return st.ZRank(s.K[0], s.S[0])
		},
		func(c *red.Client, ctx context.Context, s kvStep) (any, error) { return c.ZRank(ctx, s.K[0], s.S[0]).Result() })
	kvReg("ZRevRank", "zset", "zset", 2, kmGen,
		func(st kv.Store, ctx context.Context, s kvStep) (any, error) {
			if s.X {
				return st.ZRevRankCtx(ctx, s.K[0], s.S[0])
			}
			return st.ZRevRank(s.K[0], s.S[0])
		},
		func(c *red.Client, ctx context.Context, s kvStep) (any, error) {
			return c.ZRevRank(ctx, s.K[0], s.S[0]).Result()
		})
	kvReg("ZRem", "zset", "zset", 2,
		func(g *kvG) kvStep { return kvStep{K: []string{g.key("zset")}, S: g.strs(g.member, 1, 3)} },
		func(st kv.Store, ctx context.Context, s kvStep) (any, error) {
			if s.X {
				return st.ZRemCtx(ctx, s.K[0], kvAnys(s)...)
			}
			return st.ZRem(s.K[0], kvAnys(s)...)
		},
		func(c *red.Client, ctx context.Context, s kvStep) (any, error) {
			v, err := c.ZRem(ctx, s.K[0], kvAnys(s)...).Result()
			return int(v), err
		})

	scoreLoHi := func(g *kvG) (int64, int64) {
		if g.uni(5) < 2 {
			return -(1 << 40), 1 << 40
		}
		return g.score(), g.score()
	}
	scoreRange := func(g *kvG) kvStep {
		lo, hi := scoreLoHi(g)
		return kvStep{K: []string{g.key("zset")}, I: []int64{lo, hi}}
	}
	rankRange := func(g *kvG) kvStep { return kvStep{K: []string{g.key("zset")}, I: []int64{g.idx(), g.idx()}} }
	kvReg("ZCount", "zset", "zset", 2, scoreRange,
		func(st kv.Store, ctx context.Context, s kvStep) (any, error) {
			if s.X {
				return st.ZCountCtx(ctx, s.K[0], s.I[0], s.I[1])
			}
			return st.ZCount(s.K[0], s.I[0], s.I[1])
		},
		func(c *red.Client, ctx context.Context, s kvStep) (any, error) {
			v, err := c.ZCount(ctx, s.K[0], fmtI(s.I[0]), fmtI(s.I[1])).Result()
			return int(v), err
		})
	kvReg("ZRemRangeByScore", "zset", "zset", 2, scoreRange,
		func(st kv.Store, ctx context.Context, s kvStep) (any, error) {
			if s.X {
				return st.ZRemRangeByScoreCtx(ctx, s.K[0], s.I[0], s.I[1])
			}
			return st.ZRemRangeByScore(s.K[0], s.I[0], s.I[1])
		},
		func(c *red.Client, ctx context.Context, s kvStep) (any, error) {
			v, err := c.ZRemRangeByScore(ctx, s.K[0], fmtI(s.I[0]), fmtI(s.I[1])).Result()
			return int(v), err
		})
	kvReg("ZRemRangeByRank", "zset", "zset", 2, rankRange,
		func(st kv.Store, ctx context.Context, s kvStep) (any, error) {
			if s.X {
				return st.ZRemRangeByRankCtx(ctx, s.K[0], s.I[0], s.I[1])
			}
			return st.ZRemRangeByRank(s.K[0], s.I[0], s.I[1])
		},
		func(c *red.Client, ctx context.Context, s kvStep) (any, error) {
			v, err := c.ZRemRangeByRank(ctx, s.K[0], s.I[0], s.I[1]).Result()
			return int(v), err
		})
	kvReg("ZRange", "zset", "zset", 3, rankRange,
		func(st kv.Store, ctx context.Context, s kvStep) (any, error) {
			if s.X {
				return st.ZRangeCtx(ctx, s.K[0], s.I[0], s.I[1])
			}
			return st.ZRange(s.K[0], s.I[0], s.I[1])
		},
		func(c *red.Client, ctx context.Context, s kvStep) (any, error) {
			return c.ZRange(ctx, s.K[0], s.I[0], s.I[1]).Result()
		})
	kvReg("ZRevRange", "zset", "zset", 3, rankRange,
		func(st kv.Store, ctx context.Context, s kvStep) (any, error) {
			if s.X {
				return st.ZRevRangeCtx(ctx, s.K[0], s.I[0], s.I[1])
			}
			return st.ZRevRange(s.K[0], s.I[0], s.I[1])
		},
		func(c *red.Client, ctx context.Context, s kvStep) (any, error) {
			return c.ZRevRange(ctx, s.K[0], s.I[0], s.I[1]).Result()
		})
	pairsOf := func(v []red.Z, err error) (any, error) {
		if err != nil {
			return nil, err
		}
		return kvPairs(v), nil
	}
	kvReg("ZRangeWithScores", "zset", "zset", 3, rankRange,
		func(st kv.Store, ctx context.Context, s kvStep) (any, error) {
			if s.X {
				return st.ZRangeWithScoresCtx(ctx, s.K[0], s.I[0], s.I[1])
			}
			return st.ZRangeWithScores(s.K[0], s.I[0], s.I[1])
		},
		func(c *red.Client, ctx context.Context, s kvStep) (any, error) {
			return pairsOf(c.ZRangeWithScores(ctx, s.K[0], s.I[0], s.I[1]).Result())
		})
	kvReg("ZRevRangeWithScores", "zset", "zset", 3, rankRange,
		func(st kv.Store, ctx context.Context, s kvStep) (any, error) {
			if s.X {
				return st.ZRevRangeWithScoresCtx(ctx, s.K[0], s.I[0], s.I[1])
			}
			return st.ZRevRangeWithScores(s.K[0], s.I[0], s.I[1])
		},
		func(c *red.Client, ctx context.Context, s kvStep) (any, error) {
			return pairsOf(c.ZRevRangeWithScores(ctx, s.K[0], s.I[0], s.I[1]).Result())
		})
	kvReg("ZRangeByScoreWithScores", "zset", "zset", 3, scoreRange,
		func(st kv.Store, ctx context.Context, s kvStep) (any, error) {
			if s.X {
				return st.ZRangeByScoreWithScoresCtx(ctx, s.K[0], s.I[0], s.I[1])
			}
			return st.ZRangeByScoreWithScores(s.K[0], s.I[0], s.I[1])
		},
		func(c *red.Client, ctx context.Context, s kvStep) (any, error) {
			return pairsOf(c.ZRangeByScoreWithScores(ctx, s.K[0], &red.ZRangeBy{Min: fmtI(s.I[0]), Max: fmtI(s.I[1])}).Result())
		})
	kvReg("ZRevRangeByScoreWithScores", "zset", "zset", 3, scoreRange,
		func(st kv.Store, ctx context.Context, s kvStep) (any, error) {
			if s.X {
				return st.ZRevRangeByScoreWithScoresCtx(ctx, s.K[0], s.I[0], s.I[1])
			}
			return st.ZRevRangeByScoreWithScores(s.K[0], s.I[0], s.I[1])
		},
		func(c *red.Client, ctx context.Context, s kvStep) (any, error) {
			return pairsOf(c.ZRevRangeByScoreWithScores(ctx, s.K[0], &red.ZRangeBy{Min: fmtI(s.I[0]), Max: fmtI(s.I[1])}).Result())
		})
	limitGen := func(g *kvG) kvStep {
		lo, hi := scoreLoHi(g)
		return kvStep{K: []string{g.key("zset")}, I: []int64{lo, hi, g.small(0, 2), g.small(-1, 3)}}
	}
	limitBy := func(s kvStep) *red.ZRangeBy {
		return &red.ZRangeBy{Min: fmtI(s.I[0]), Max: fmtI(s.I[1]), Offset: s.I[2] * s.I[3], Count: s.I[3]}
	}
	// size <= 0: the wrapper's own empty page (see the redis unit)
	kvReg("ZRangeByScoreWithScoresAndLimit", "zset", "zset", 3, limitGen,
		func(st kv.Store, ctx context.Context, s kvStep) (any, error) {
			if s.X {
				return st.ZRangeByScoreWithScoresAndLimitCtx(ctx, s.K[0], s.I[0], s.I[1], int(s.I[2]), int(s.I[3]))
			}
			return st.ZRangeByScoreWithScoresAndLimit(s.K[0], s.I[0], s.I[1], int(s.I[2]), int(s.I[3]))
		},
		func(c *red.Client, ctx context.Context, s kvStep) (any, error) {
			if s.I[3] <= 0 {
				return []redis.Pair{}, nil
			}
			return pairsOf(c.ZRangeByScoreWithScores(ctx, s.K[0], limitBy(s)).Result())
		})
	kvReg("ZRevRangeByScoreWithScoresAndLimit", "zset", "zset", 3, limitGen,
		func(st kv.Store, ctx context.Context, s kvStep) (any, error) {
			if s.X {
				return st.ZRevRangeByScoreWithScoresAndLimitCtx(ctx, s.K[0], s.I[0], s.I[1], int(s.I[2]), int(s.I[3]))
			}
			return st.ZRevRangeByScoreWithScoresAndLimit(s.K[0], s.I[0], s.I[1], int(s.I[2]), int(s.I[3]))
		},
		func(c *red.Client, ctx context.Context, s kvStep) (any, error) {
			if s.I[3] <= 0 {
				return []redis.Pair{}, nil
			}
			return pairsOf(c.ZRevRangeByScoreWithScores(ctx, s.K[0], limitBy(s)).Result())
		})
}
