package kv_test

// C12 — the sharded KV store behaves for every single-key command exactly like one
// Redis server holding all keys; a multi-key Del removes every named key.
// Harness injected by /verif (overlay); see /verif/DESIGN.md "C12".
//
// 1..4 miniredis shards with generated weights sit behind kv.New; one further
// miniredis behind a raw go-redis v8 client is the reference "single server".

import (
	"context"
	"crypto/ecdsa"
	"crypto/elliptic"
	crand "crypto/rand"
	"crypto/tls"
	"crypto/x509"
	"crypto/x509/pkix"
	"encoding/json"
	"fmt"
	"math/big"
	"math/bits"
	"net"
	"reflect"
	"sort"
	"strings"
	"sync"
	"testing"
	"time"

	"github.com/alicebob/miniredis/v2"
	red "github.com/go-redis/redis/v8"
	"github.com/gotid/god/lib/breaker"
	"github.com/gotid/god/lib/hash"
	"github.com/gotid/god/lib/logx"
	"github.com/gotid/god/lib/store/cache"
	"github.com/gotid/god/lib/store/kv"
	"github.com/gotid/god/lib/store/redis"
	"pgregory.net/rapid"
	"verif.local/kit"
)

type kvStep struct {
	C string    `json:"c"`
	X bool      `json:"x,omitempty"`
	D int       `json:"d,omitempty"` // Ctx form only: 0 live context, 1 already cancelled, 2 deadline already expired
	B int       `json:"b,omitempty"` // shard fault: 0 none, n: shard n-1 answers every command with an error during this step
	K []string  `json:"k,omitempty"`
	S []string  `json:"s,omitempty"`
	I []int64   `json:"i,omitempty"`
	F []float64 `json:"f,omitempty"`
	// V: call form of the variadic (...any) argument of LPush, RPush, SAdd, SRem, ZRem, PFAdd,
	// Eval: 0 elements one by one, 1 ONE []string as the single argument, 2 ONE []any as the
	// single argument (go-redis flattens a single slice argument), 3 a slice nested in a
	// slice (not marshalable: store and single server must fail alike), 4 no element.
	V int `json:"v,omitempty"`
}

// kvVariadic: the kv.Store methods with a ...any parameter.
var kvVariadic = map[string]bool{"LPush": true, "RPush": true, "SAdd": true, "SRem": true, "ZRem": true, "PFAdd": true, "Eval": true}

type kvCase struct {
	Weights []int    `json:"w"` // one per shard, 1..4 shards
	P       int      `json:"p,omitempty"` // client configuration profile of every shard (kvProfiles)
	Steps   []kvStep `json:"steps"`
}

const kvMaxShards = 4

var (
	kvOnce   sync.Once
	kvShards [kvMaxShards]*miniredis.Miniredis
	kvRefSrv *miniredis.Miniredis
	kvRef    *red.Client
	kvT0     = time.Date(2030, 1, 1, 0, 0, 0, 0, time.UTC)
)

type kvCtxKey struct{}

// kvStall: go-redis re-sends a command after a read timeout (3 s), executing it twice;
// on a starved machine a loopback round trip can take that long. A step that needed
// more than 2 s of real time may contain such a retry: the case is counted as excluded
// (never as failed) and not judged further.
const kvStall = 2 * time.Second

// kvProfile: the configuration of every shard of a case (redis.Config inside the
// kv.Config): node or cluster type (a single miniredis acting as a one-node cluster),
// password or not. The servers of a profile require `pass`; the store's shards AND the
// raw go-redis reference client are configured with `cfgPass`; cfgPass != pass is the
// must-fail class. Every profile owns its servers, because the wrapper caches one client
// per address for the life of the process.
type kvProfile struct {
	name          string
	typ           string
	pass, cfgPass string
	// tls: the shards speak TLS only (self-signed certificate) and the store's shard
	// configuration says Tls: true; the single reference server stays a plain one
	tls bool
}

const kvSecret = "c12-s3cret"

var kvProfiles = []kvProfile{
	{"node", redis.NodeType, "", "", false},
	{"node+pass", redis.NodeType, kvSecret, kvSecret, false},
	{"cluster", redis.ClusterType, "", "", false},
	{"cluster+pass", redis.ClusterType, kvSecret, kvSecret, false},
	{"mustfail:node-missing-pass", redis.NodeType, kvSecret, "", false},
	// round 8 (appended: the index is part of recorded cases)
	{"node+tls+pass", redis.NodeType, kvSecret, kvSecret, true},
}

var (
	kvCertOnce sync.Once
	kvCert     tls.Certificate
)

// kvServerTLS: a self-signed certificate made once per process.
func kvServerTLS(t *testing.T) *tls.Config {
	kvCertOnce.Do(func() {
		key, err := ecdsa.GenerateKey(elliptic.P256(), crand.Reader)
		if err != nil {
			t.Fatalf("tls key: %v", err)
		}
		tmpl := &x509.Certificate{
			SerialNumber: big.NewInt(12),
			Subject:      pkix.Name{CommonName: "c12kv"},
			NotBefore:    time.Now().Add(-time.Hour),
			NotAfter:     time.Now().Add(240 * time.Hour),
			KeyUsage:     x509.KeyUsageDigitalSignature,
			ExtKeyUsage:  []x509.ExtKeyUsage{x509.ExtKeyUsageServerAuth},
			IPAddresses:  []net.IP{net.IPv4(127, 0, 0, 1)},
		}
		der, err := x509.CreateCertificate(crand.Reader, tmpl, tmpl, &key.PublicKey, key)
		if err != nil {
			t.Fatalf("tls cert: %v", err)
		}
		kvCert = tls.Certificate{Certificate: [][]byte{der}, PrivateKey: key}
	})
	return &tls.Config{Certificates: []tls.Certificate{kvCert}}
}

func (p kvProfile) mustFail() bool { return p.pass != p.cfgPass }

type kvSet struct {
	shards [kvMaxShards]*miniredis.Miniredis
	refSrv *miniredis.Miniredis
	ref    *red.Client
}

var (
	kvSets = make([]*kvSet, len(kvProfiles))
	kvCur  = -1 // profile whose servers are loaded into kvShards / kvRefSrv / kvRef
)

func kvSetup(t *testing.T) { kvUse(t, 0) }

// kvUse makes the servers of profile p the current ones (created at first use).
func kvUse(t *testing.T, p int) {
	kvOnce.Do(logx.Disable)
	if kvCur >= 0 && kvSets[kvCur] != nil {
		*kvSets[kvCur] = kvSet{kvShards, kvRefSrv, kvRef}
	}
	kvCur = p
	if kvSets[p] == nil {
		kvSets[p] = &kvSet{}
		kvShards, kvRefSrv, kvRef = kvSets[p].shards, nil, nil
		kvRenew(t)
		return
	}
	kvShards, kvRefSrv, kvRef = kvSets[p].shards, kvSets[p].refSrv, kvSets[p].ref
}

func kvShardConf(i int) redis.Config {
	p := kvProfiles[kvCur]
	return redis.Config{Host: kvShards[i].Addr(), Type: p.typ, Pass: p.cfgPass, Tls: p.tls}
}

// kvRenew puts fresh servers (new addresses) behind the current profile.
// Used at first use and after a stalled step: a command that timed out on the client
// side may still be executed by the old server later; it must not reach the servers
// of the following cases. The old servers are simply abandoned.
func kvRenew(t *testing.T) {
	var err error
	p := kvProfiles[kvCur]
	if kvRefSrv != nil {
		// The old servers stay up (abandoned): closing them would let the OS hand their
		// ports to new servers, and the wrapper's process-wide client manager still
		// holds clients with dead pooled connections for such addresses.
		kvRef.Close()
	}
	for i := range kvShards {
		if p.tls {
			kvShards[i], err = miniredis.RunTLS(kvServerTLS(t))
		} else {
			kvShards[i], err = miniredis.Run()
		}
		if err != nil {
			t.Fatalf("miniredis shard: %v", err)
		}
		if p.pass != "" {
			kvShards[i].RequireAuth(p.pass)
		}
		// warm the shared wrapper client of this address
		// (through Config.NewRedis, the path kv.New takes: the wrapper caches ONE client
		// per address, built from the first *Redis that uses it). If the wrapper cannot
		// reach the shard although raw go-redis with the right password can, the histories
		// will report it; if raw go-redis cannot either, the run is inconclusive.
		for n := 0; !kvShardConf(i).NewRedis().Ping() && !p.mustFail(); n++ {
			if n > 20 {
				opt := &red.Options{Addr: kvShards[i].Addr(), Password: p.pass}
				if p.tls {
					opt.TLSConfig = &tls.Config{InsecureSkipVerify: true}
				}
				probe := red.NewClient(opt)
				perr := probe.Ping(context.Background()).Err()
				probe.Close()
				if perr != nil {
					t.Fatalf("shard %d (%s) unreachable: %v", i, p.name, perr)
				}
				break
			}
			time.Sleep(50 * time.Millisecond)
		}
	}
	if kvRefSrv, err = miniredis.Run(); err != nil {
		t.Fatalf("miniredis reference: %v", err)
	}
	if p.pass != "" {
		kvRefSrv.RequireAuth(p.pass)
	}
	kvRef = red.NewClient(&red.Options{Addr: kvRefSrv.Addr(), Password: p.cfgPass})
	*kvSets[kvCur] = kvSet{kvShards, kvRefSrv, kvRef}
}

type kvEnv struct {
	c       kvCase
	store   kv.Store
	fails   int
	now     time.Time
	classes map[string]bool
	types   map[string]bool
	hits    int
	ncmd    int
}

func (e *kvEnv) servers() []*miniredis.Miniredis {
	out := []*miniredis.Miniredis{kvRefSrv}
	return append(out, kvShards[:len(e.c.Weights)]...)
}

func (e *kvEnv) newStore() {
	var conf kv.Config
	for i, w := range e.c.Weights {
		conf = append(conf, cache.NodeConfig{
			Config: kvShardConf(i),
			Weight: w,
		})
	}
	e.store = kv.New(conf)
	e.fails = 0
}

func (e *kvEnv) reset() {
	for _, m := range append([]*miniredis.Miniredis{kvRefSrv}, kvShards[:]...) {
		m.FlushAll()
		m.SetTime(kvT0)
		m.Seed(12)
	}
	e.now = kvT0
	e.newStore()
}

// noteErr: every shard's *redis.Redis owns a breaker that counts error replies as
// failures; with <= 4 failures per store instance no breaker can reject (drop ratio
// (failures-5-accepts/2)/(total+1) <= 0), so the store is rebuilt before a 5th.
func (e *kvEnv) noteErr(err error) {
	if err == nil || err == red.Nil || err == context.Canceled {
		return
	}
	e.fails++
	if e.fails >= 4 {
		e.newStore()
	}
}

func (e *kvEnv) advance(d time.Duration) {
	e.now = e.now.Add(d)
	for _, m := range e.servers() {
		m.FastForward(d)
		m.SetTime(e.now)
	}
}

func kvErrStr(err error) string {
	if err == nil {
		return ""
	}
	if err == red.Nil {
		return "<redis.Nil>"
	}
	return err.Error()
}

func kvCanon(v any, unordered bool) string {
	if v == nil {
		return "null"
	}
	rv := reflect.ValueOf(v)
	switch rv.Kind() {
	case reflect.Slice, reflect.Map:
		if rv.Len() == 0 {
			return "empty"
		}
	}
	if ss, ok := v.([]string); ok && unordered {
		cp := append([]string(nil), ss...)
		sort.Strings(cp)
		v = cp
	}
	b, err := json.Marshal(v)
	if err != nil {
		return fmt.Sprintf("%#v", v)
	}
	return string(b)
}

func kvSnapshot(m *miniredis.Miniredis) map[string]string {
	out := map[string]string{}
	for _, k := range m.Keys() {
		t := m.Type(k)
		var val string
		switch t {
		case "string":
			s, _ := m.Get(k)
			val = fmt.Sprintf("%q", s)
		case "hash":
			fs, _ := m.HKeys(k)
			sort.Strings(fs)
			for _, f := range fs {
				val += fmt.Sprintf("%q=%q,", f, m.HGet(k, f))
			}
		case "list":
			l, _ := m.List(k)
			val = fmt.Sprintf("%q", l)
		case "set":
			l, _ := m.Members(k)
			sort.Strings(l)
			val = fmt.Sprintf("%q", l)
		case "zset":
			ss, _ := m.SortedSet(k)
			ms := make([]string, 0, len(ss))
			for mem := range ss {
				ms = append(ms, mem)
			}
			sort.Strings(ms)
			for _, mem := range ms {
				val += fmt.Sprintf("%q=%v,", mem, ss[mem])
			}
		case "hll":
			n, _ := m.PfCount(k)
			val = fmt.Sprintf("count=%d", n)
		default:
			val = "?"
		}
		out[k] = fmt.Sprintf("%s ttl=%v %s", t, m.TTL(k), val)
	}
	return out
}

// keyspace: (1) the union of the shard keyspaces equals the reference keyspace,
// (2) no key lives on two shards, (3) every key lives on the shard that a consistent
// hash over the same node names and weights assigns to it.
// owner: index of the shard that a consistent hash over the same node names and
// weights assigns to key (-1: none).
func (e *kvEnv) owner() func(key string) int {
	ring := hash.NewConsistentHash()
	addrIdx := map[string]int{}
	for i, w := range e.c.Weights {
		ring.AddWithWeight(kvShards[i].Addr(), w)
		addrIdx[kvShards[i].Addr()] = i
	}
	return func(key string) int {
		n, ok := ring.Get(key)
		if !ok {
			return -1
		}
		return addrIdx[n.(string)]
	}
}

func (e *kvEnv) checkKeyspace() string {
	ring := hash.NewConsistentHash()
	for i, w := range e.c.Weights {
		ring.AddWithWeight(kvShards[i].Addr(), w)
	}
	addrIdx := map[string]int{}
	for i := range e.c.Weights {
		addrIdx[kvShards[i].Addr()] = i
	}
	union := map[string]string{}
	var diffs []string
	for i := range e.c.Weights {
		for k, v := range kvSnapshot(kvShards[i]) {
			if _, dup := union[k]; dup {
				diffs = append(diffs, fmt.Sprintf("key %q lives on more than one shard", k))
			}
			union[k] = v
			want, ok := ring.Get(k)
			if !ok {
				diffs = append(diffs, fmt.Sprintf("consistent hash has no node for %q", k))
			} else if addrIdx[want.(string)] != i {
				diffs = append(diffs, fmt.Sprintf("key %q lives on shard %d, the consistent hash names shard %d", k, i, addrIdx[want.(string)]))
			}
		}
	}
	for i := len(e.c.Weights); i < kvMaxShards; i++ {
		if n := len(kvShards[i].Keys()); n != 0 {
			diffs = append(diffs, fmt.Sprintf("unconfigured shard %d holds %d keys", i, n))
		}
	}
	ref := kvSnapshot(kvRefSrv)
	for k, va := range union {
		if vb, ok := ref[k]; !ok {
			diffs = append(diffs, fmt.Sprintf("key %q only in the store: %s", k, va))
		} else if va != vb {
			diffs = append(diffs, fmt.Sprintf("key %q: store {%s}, single server {%s}", k, va, vb))
		}
	}
	for k, vb := range ref {
		if _, ok := union[k]; !ok {
			diffs = append(diffs, fmt.Sprintf("key %q only on the single server: %s", k, vb))
		}
	}
	sort.Strings(diffs)
	return strings.Join(diffs, "; ")
}

func kvShow(s kvStep) string {
	b, _ := json.Marshal(s)
	return string(b)
}

func kvInterp(t *testing.T, c kvCase) (v kit.Verdict) {
	if len(c.Weights) < 1 || len(c.Weights) > kvMaxShards || c.P < 0 || c.P >= len(kvProfiles) {
		v.Excluded = true
		return v
	}
	kvUse(t, c.P)
	prof := kvProfiles[c.P]
	e := &kvEnv{c: c, classes: map[string]bool{}, types: map[string]bool{}}
	e.classes["conf:"+prof.name] = true
	e.reset()
	e.classes[fmt.Sprintf("shards:%d", len(c.Weights))] = true
	defer func() {
		used := 0
		for i := range c.Weights {
			if len(kvShards[i].Keys()) > 0 {
				used++
			}
		}
		e.classes[fmt.Sprintf("shards-holding-keys-at-end:%d", used)] = true
		v.NonTrivial = e.ncmd >= 10 && len(e.types) >= 3 && (e.hits >= 1 || prof.mustFail())
		for k := range e.classes {
			v.Classes = append(v.Classes, k)
		}
		sort.Strings(v.Classes)
	}()
	for i, s := range c.Steps {
		t0 := time.Now()
		msg := e.step(s)
		if time.Since(t0) > kvStall {
			e.classes["env:stalled-step"] = true
			v.Excluded = true
			kvRenew(t)
			return v
		}
		if msg != "" {
			v.Fail = fmt.Sprintf("step %d %s: %s", i, kvShow(s), msg)
			return v
		}
		if (i+1)%10 == 0 || i == len(c.Steps)-1 {
			if d := e.checkKeyspace(); d != "" {
				v.Fail = fmt.Sprintf("keyspace after step %d %s: %s", i, kvShow(s), d)
				return v
			}
		}
	}
	return v
}

func (e *kvEnv) step(s kvStep) string {
	if s.C == "advance" {
		e.advance(time.Duration(s.I[0]) * time.Millisecond)
		return ""
	}
	if s.C == "burst" {
		return e.burst(s)
	}
	ent := kvTable[s.C]
	if ent == nil {
		return "unknown command in case"
	}
	e.ncmd++
	e.types[ent.typ] = true
	e.classes["cmd:"+s.C] = true
	if kvVariadic[s.C] {
		e.classes[fmt.Sprintf("variadic-form:%d:%s", s.V, s.C)] = true
	}
	dead := s.X && s.D != 0
	// shard fault: for the duration of this step shard B-1 answers every command with an
	// error reply. Faults are outside the statement's quantifier; judged is only what
	// the statement implies: commands whose key lives on another shard are unaffected,
	// and a multi-key Del still removes every named key living on a healthy shard and
	// reports an error. Everything about keys on the failing shard (and Del's count) is
	// UNSPECIFIED. The store is rebuilt before and after such a step (fresh per-node
	// breakers), so that the error replies of the step cannot make a breaker reject.
	if s.B > 0 && s.B <= len(e.c.Weights) && !dead && len(s.K) > 0 && !kvProfiles[e.c.P].mustFail() {
		f := s.B - 1
		own := e.owner()
		var healthy, faulted []string
		for _, k := range s.K {
			if own(k) == f {
				faulted = append(faulted, k)
			} else {
				healthy = append(healthy, k)
			}
		}
		e.newStore()
		kvShards[f].SetError("ERR verif: shard unavailable")
		defer func() {
			kvShards[f].SetError("")
			e.newStore()
		}()
		e.classes["fault:"+s.C] = true
		if len(faulted) > 0 {
			if s.C != "Del" {
				// UNSPECIFIED: run for panics only
				e.classes["fault:own-shard-unjudged"] = true
				ent.wrap(e.store, context.Background(), s)
				return ""
			}
			e.classes[fmt.Sprintf("fault:del-healthy-keys:%d", len(healthy))] = true
			var gerr error
			if s.X {
				_, gerr = e.store.DelCtx(context.Background(), s.K...)
			} else {
				_, gerr = e.store.Del(s.K...)
			}
			if gerr == nil {
				return fmt.Sprintf("shard %d answered errors for %v but Del returned a nil error", f, faulted)
			}
			if len(healthy) > 0 {
				if err := kvRef.Del(context.Background(), healthy...).Err(); err != nil {
					return "reference Del: " + err.Error()
				}
			}
			for _, k := range faulted { // unspecified: follow whatever the store did
				if !kvShards[f].Exists(k) {
					kvRefSrv.Del(k)
				}
			}
			if d := e.checkKeyspace(); d != "" {
				return fmt.Sprintf("shard %d failing (keys %v on it): Del must still remove the named keys on healthy shards %v: %s", f, faulted, healthy, d)
			}
			return ""
		}
		e.classes["fault:other-shard"] = true
		// no named key lives on the failing shard: the step is judged as usual
	}
	if !dead && len(s.K) > 0 && kvRefSrv.Exists(s.K[0]) && (ent.mtype == "*" || kvRefSrv.Type(s.K[0]) == ent.mtype) {
		e.hits++
		e.classes["hit:"+s.C] = true
	}
	// context of the step: live (carrying a value in the Ctx form), already cancelled,
	// or with a deadline that has already passed. With a dead context go-redis answers
	// ctx.Err() without touching the server; the store's Ctx methods must do the same.
	ctx, refCtx := context.Background(), context.Background()
	if s.X {
		ctx = context.WithValue(ctx, kvCtxKey{}, "c12")
		switch s.D {
		case 1:
			c, cancel := context.WithCancel(ctx)
			cancel()
			ctx = c
		case 2:
			c, cancel := context.WithDeadline(ctx, time.Unix(1, 0))
			defer cancel()
			ctx = c
		}
	}
	if dead {
		refCtx = ctx
		e.classes[fmt.Sprintf("ctx-dead:%d", s.D)] = true
		e.classes["deadctx:"+s.C] = true
	}
	if s.C == "Del" && (kvProfiles[e.c.P].mustFail() || (s.X && s.D == 2)) {
		// rejected credentials or an expired deadline (context.DeadlineExceeded is not
		// acceptable to the breaker): one failure PER KEY on the shards' breakers within a
		// single call. Fresh breakers before and after, so that "at most 4 failures per
		// instance" holds (a Del names at most 5 keys, and 5 failures cannot open a breaker)
		e.newStore()
		defer e.newStore()
	}
	before := e.counts()
	got, gerr := ent.wrap(e.store, ctx, s)
	defer e.noteErr(gerr)
	if gerr == breaker.ErrServiceUnavailable {
		return "store returned breaker.ErrServiceUnavailable on healthy shards (harness keeps failures <= 4 per store instance)"
	}
	switch {
	case gerr == red.Nil:
		e.classes["reply:redis.Nil"] = true
	case gerr != nil && !dead:
		e.classes["reply:server-error"] = true
	}
	noneTouched := func() string {
		if !e.countable() {
			return ""
		}
		after := e.counts()
		for i := 1; i < len(after); i++ {
			if d := after[i] - before[i]; d != 0 {
				return fmt.Sprintf("dead context: shard %d still processed %d commands", i-1, d)
			}
		}
		return ""
	}
	if dead && ent.judge != nil {
		if gerr != ctx.Err() {
			return fmt.Sprintf("dead context (%v): store returned (%s, %q), go-redis returns the context's error", ctx.Err(), kvCanon(got, false), kvErrStr(gerr))
		}
		return noneTouched()
	}
	if s.C == "Del" && kvProfiles[e.c.P].mustFail() && !dead {
		// rejected credentials: the store joins one error per key; it must fail and
		// delete nothing (nothing can exist on such shards)
		if gerr == nil || got.(int) != 0 {
			return fmt.Sprintf("shards reject the credentials: Del returned (%v, %q)", got, kvErrStr(gerr))
		}
		return ""
	}
	if dead && s.C == "Del" {
		// the statement is silent about the error of a multi-key delete (the store joins
		// one error per key): it must fail, delete nothing and reach no shard
		if gerr == nil || got.(int) != 0 {
			return fmt.Sprintf("dead context (%v): Del returned (%v, %q)", ctx.Err(), got, kvErrStr(gerr))
		}
		return noneTouched()
	}
	if ent.judge != nil {
		return ent.judge(s, got, gerr)
	}
	want, werr := ent.ref(kvRef, refCtx, s)
	if kvErrStr(gerr) != kvErrStr(werr) {
		return fmt.Sprintf("store error %q, single server %q; store value %s, single-server value %s",
			kvErrStr(gerr), kvErrStr(werr), kvCanon(got, ent.unordered), kvCanon(want, ent.unordered))
	}
	if gerr == nil {
		if g, w := kvCanon(got, ent.unordered), kvCanon(want, ent.unordered); g != w {
			return fmt.Sprintf("store returned %s, one server holding all keys returns %s", g, w)
		}
	}
	// a single-key command reaches exactly one shard, and that shard processes as
	// many commands as the single server does (Del is sent per key by design)
	if s.C != "Del" && e.countable() {
		after := e.counts()
		touched, sum := 0, 0
		for i := 1; i < len(after); i++ {
			if d := after[i] - before[i]; d != 0 {
				touched++
				sum += d
			}
		}
		if ref := after[0] - before[0]; sum != ref || touched > 1 {
			return fmt.Sprintf("the store made %d shard(s) process %d commands, the single server processed %d", touched, sum, ref)
		}
	}
	return ""
}

// kvBurstScript keeps its connection busy for a moment (the loop) and then writes.
const kvBurstScript = `local x = 0 for i = 1, tonumber(ARGV[2]) do x = x + 1 end redis.call('SET', KEYS[1], ARGV[1]) return x`

// burst: K (> the 8 idle connections a wrapper client keeps) single-key commands are
// issued concurrently through the store, all on keys that live on ONE target shard, so
// that the shared client of that shard's address - created earlier than the clients of
// the later shards - has to dial fresh connections. Only the target shard may process
// commands, as many as the single server does, and the keyspaces must agree.
func (e *kvEnv) burst(s kvStep) string {
	k, loops := int(s.I[0]), s.I[1]
	if kvProfiles[e.c.P].mustFail() {
		e.classes["skipped:burst"] = true // 12..24 failures at once would rightly open a breaker
		return ""
	}
	e.ncmd++
	e.classes["cmd:burst"] = true
	own := e.owner()
	target := -1
	for i := 0; i < len(e.c.Weights); i++ { // first configured shard at or after I[2] that owns keys at all
		if t := (int(s.I[2]) + i) % len(e.c.Weights); e.c.Weights[t] > 0 {
			target = t
			break
		}
	}
	var keys []string
	for j := 0; len(keys) < k && j < 100000; j++ {
		if key := fmt.Sprintf("burst:%d", j); own(key) == target {
			keys = append(keys, key)
		}
	}
	if len(keys) < k {
		e.classes["burst:no-keys-for-target"] = true
		return ""
	}
	e.classes[fmt.Sprintf("burst:target-shard:%d", target)] = true
	before := e.counts()
	conns0 := kvShards[target].TotalConnectionCount()
	ctx := context.Background()
	if s.X {
		ctx = context.WithValue(ctx, kvCtxKey{}, "c12")
	}
	got := make([]any, k)
	gerrs := make([]error, k)
	start := make(chan struct{})
	var wg sync.WaitGroup
	st := e.store
	for i := 0; i < k; i++ {
		wg.Add(1)
		go func(i int) {
			defer wg.Done()
			val := fmt.Sprintf("v%d", i)
			<-start
			if s.X {
				got[i], gerrs[i] = st.EvalCtx(ctx, kvBurstScript, keys[i], val, loops)
			} else {
				got[i], gerrs[i] = st.Eval(kvBurstScript, keys[i], val, loops)
			}
		}(i)
	}
	close(start)
	wg.Wait()
	for i := 0; i < k; i++ {
		want, werr := kvRef.Eval(context.Background(), kvBurstScript, []string{keys[i]}, fmt.Sprintf("v%d", i), loops).Result()
		e.noteErr(gerrs[i])
		if kvErrStr(gerrs[i]) != kvErrStr(werr) || (werr == nil && kvCanon(got[i], false) != kvCanon(want, false)) {
			return fmt.Sprintf("concurrent call %d of %d (key %s, shard %d): store (%s, %q), single server (%s, %q)", i, k, keys[i], target,
				kvCanon(got[i], false), kvErrStr(gerrs[i]), kvCanon(want, false), kvErrStr(werr))
		}
	}
	after := e.counts()
	for i := 1; i < len(after); i++ {
		d, want := after[i]-before[i], 0
		if i-1 == target {
			want = after[0] - before[0]
		}
		if d != want && e.countable() {
			return fmt.Sprintf("%d concurrent commands on keys of shard %d: shard %d processed %d commands, want %d (single server: %d)", k, target, i-1, d, want, after[0]-before[0])
		}
	}
	if d := e.checkKeyspace(); d != "" {
		return "keyspace after the concurrent commands: " + d
	}
	if kvShards[target].TotalConnectionCount() > conns0 {
		e.classes["burst:dialled-new-connections"] = true
	}
	return ""
}

// countable: the per-step command-counter oracles apply to the plain node profile only
// (with a password every freshly dialled connection first sends AUTH; go-redis'
// ClusterClient reloads CLUSTER SLOTS / COMMAND from background goroutines).
func (e *kvEnv) countable() bool { return kvProfiles[e.c.P].name == "node" }

// counts: processed-command counters, [0] = reference server, [1..] = shards.
func (e *kvEnv) counts() []int {
	out := []int{kvRefSrv.CommandCount()}
	for i := range kvShards {
		out = append(out, kvShards[i].CommandCount())
	}
	return out
}

// ---------------------------------------------------------------- generator

type kvG struct {
	rt      *rapid.T
	bit     *rapid.Generator[bool]
	elapsed time.Duration
}

// uni: unbiased draw from [0,n) out of single bits (rapid's integer generators are
// biased towards small values, which starves a 70-entry table).
func (g *kvG) uni(n int) int {
	if n <= 1 {
		return 0
	}
	v := 0
	for i := bits.Len(uint(n-1)) + 5; i > 0; i-- {
		v <<= 1
		if g.bit.Draw(g.rt, "b") {
			v |= 1
		}
	}
	return v % n
}

var kvPools = map[string][]string{
	"string": {"s:1", "s:2", "s:3", "s:4"},
	"num":    {"n:1", "n:2", "n:3"},
	"hash":   {"h:1", "h:2", "h:3"},
	"list":   {"l:1", "l:2", "l:3"},
	"set":    {"set:1", "set:2", "set:3"},
	"zset":   {"z:1", "z:2", "z:3", "z:4"},
	"bit":    {"bit:1", "bit:2"},
	"hll":    {"hll:1", "hll:2"},
}

var kvAllKeys = func() []string {
	var ks []string
	for _, p := range kvPools {
		ks = append(ks, p...)
	}
	sort.Strings(ks)
	return ks
}()

func (g *kvG) key(typ string) string {
	if g.uni(12) == 0 {
		return kvAllKeys[g.uni(len(kvAllKeys))]
	}
	return kvPools[typ][g.uni(len(kvPools[typ]))]
}
func (g *kvG) from(xs ...string) string { return xs[g.uni(len(xs))] }
func (g *kvG) val() string              { return g.from("a", "b", "c", "") }
func (g *kvG) num() string              { return g.from("10", "-3", "0", "7") }
func (g *kvG) field() string            { return g.from("f1", "f2", "f3", "f4") }
func (g *kvG) member() string           { return g.from("m1", "m2", "m3", "m4") }
func (g *kvG) strs(f func() string, lo, hi int) []string {
	out := make([]string, lo+g.uni(hi-lo+1))
	for i := range out {
		out[i] = f()
	}
	return out
}
func (g *kvG) idx() int64 {
	xs := []int64{-2, -1, 0, 1, 2, 3, 4, 5, -2, -1, 0, 1, 2, 3, -(1 << 62), 1 << 62, 1<<32 + 1, -(1 << 32) - 1}
	return xs[g.uni(len(xs))]
}
func (g *kvG) score() int64 {
	xs := []int64{-2, -1, 0, 1, 2, 3, 4, 5, -2, 0, 1, 3, 1 << 33, -(1 << 33), 1<<33 + 1}
	return xs[g.uni(len(xs))]
}
func (g *kvG) fscore() float64 {
	xs := []float64{0.5, 1.5, -2.5, 2.9, -2.9, 3, 2.5, -0.5, 4.999, 1 << 33}
	return xs[g.uni(len(xs))]
}
func (g *kvG) secs() int64            { return int64(1 + g.uni(100)) }
func (g *kvG) small(lo, hi int) int64 { return int64(lo + g.uni(hi-lo+1)) }

func kvGen(rt *rapid.T) kvCase {
	g := &kvG{rt: rt, bit: rapid.Bool()}
	var c kvCase
	// shard configuration: 12/20 node, 4/20 node+pass, 1/20 cluster, 2/20 cluster+pass
	// (a call through go-redis' ClusterClient costs about 10 node calls), 1/20 must-fail
	// round 8: 2/22 TLS-only shards (node type, with password)
	c.P = []int{0, 0, 0, 0, 0, 0, 0, 0, 0, 0, 0, 0, 1, 1, 1, 1, 2, 3, 3, 4, 5, 5}[g.uni(22)]
	ns := 1 + g.uni(kvMaxShards)
	ws := []int{1, 10, 50, 100, 100, 150, 0}
	positive := false
	for i := 0; i < ns; i++ {
		w := ws[g.uni(len(ws))]
		c.Weights = append(c.Weights, w)
		positive = positive || w > 0
	}
	if !positive {
		c.Weights[0] = 100 // precondition of kv.New: total weight > 0 (constructed, not filtered)
	}
	n := 10 + g.uni(51)
	for i := 0; i < n; i++ {
		if g.uni(100) < 5 {
			ds := []int64{500, 1000, 1500, 2000, 10000, 60000, 100000}
			d := ds[g.uni(len(ds))]
			g.elapsed += time.Duration(d) * time.Millisecond
			c.Steps = append(c.Steps, kvStep{C: "advance", I: []int64{d}})
			continue
		}
		if g.uni(300) == 0 {
			c.Steps = append(c.Steps, kvStep{C: "burst", X: g.uni(2) == 1, I: []int64{int64(12 + g.uni(13)), 3000, int64(g.uni(kvMaxShards))}})
			continue
		}
		name := kvWeighted[g.uni(len(kvWeighted))]
		s := kvTable[name].gen(g)
		s.C = name
		if kvVariadic[name] {
			s.V = []int{0, 0, 0, 0, 0, 0, 1, 1, 2, 2, 3, 4}[g.uni(12)]
		}
		s.X = g.uni(2) == 1
		if s.X { // about 1 Ctx call in 7 gets a dead context
			switch g.uni(14) {
			case 0:
				s.D = 1
			case 1:
				s.D = 2
			}
		}
		// shard fault: about 3 multi-key deletes in 10 and 1 other command in 20
		if (name == "Del" && g.uni(10) < 3) || g.uni(20) == 0 {
			s.B = 1 + g.uni(ns)
			if name == "Del" { // 2..5 keys: usually some on the failing and some on healthy shards
				s.K = nil
				for n := 2 + g.uni(4); n > 0; n-- {
					s.K = append(s.K, kvAllKeys[g.uni(len(kvAllKeys))])
				}
			}
		}
		c.Steps = append(c.Steps, s)
	}
	return c
}

func TestVerif_C12_kv(t *testing.T) {
	kvSetup(t)
	kit.Run(t, "C12", "kv-single-server", kit.Opts{Quick: 800, Thorough: 64000}, kvGen,
		func(c kvCase) kit.Verdict { return kvInterp(t, c) })
}
