package kv_test

// C12 kv command table, part 1: plumbing, strings, keys, bits, hashes, lists.
// wrap calls the kv.Store method (plain form when !s.X, Ctx form when s.X); ref is
// what ONE Redis server holding all keys answers through raw go-redis, followed by the
// wrapper's documented conversion.

import (
	"context"
	"fmt"
	"sort"
	"time"

	red "github.com/go-redis/redis/v8"
	"github.com/gotid/god/lib/store/kv"
)

type (
	kvW  = func(st kv.Store, ctx context.Context, s kvStep) (any, error)
	kvR  = func(c *red.Client, ctx context.Context, s kvStep) (any, error)
	kvGn = func(g *kvG) kvStep
)

type kvEntry struct {
	typ       string
	mtype     string
	weight    int
	unordered bool
	gen       kvGn
	wrap      kvW
	ref       kvR
	judge     func(s kvStep, got any, gerr error) string
}

var (
	kvTable    = map[string]*kvEntry{}
	kvWeighted []string
)

func kvReg(name, typ, mtype string, weight int, gen kvGn, wrap kvW, ref kvR) *kvEntry {
	if _, dup := kvTable[name]; dup {
		panic("c12 kv: duplicate entry " + name)
	}
	e := &kvEntry{typ: typ, mtype: mtype, weight: weight, gen: gen, wrap: wrap, ref: ref}
	kvTable[name] = e
	return e
}

func init() {
	kvRegStrings()
	kvRegHashes()
	kvRegLists()
	kvRegSets()
	kvRegZsets()
	var names []string
	for n := range kvTable {
		names = append(names, n)
	}
	sort.Strings(names)
	for _, n := range names {
		for i := 0; i < kvTable[n].weight; i++ {
			kvWeighted = append(kvWeighted, n)
		}
	}
}

// kvAnys: the variadic argument list of a step in the call form s.V (see kvStep.V).
func kvAnys(s kvStep) []any {
	out := make([]any, 0, len(s.S)+len(s.I))
	for _, x := range s.S {
		out = append(out, x)
	}
	for _, x := range s.I {
		out = append(out, x)
	}
	switch s.V {
	case 1:
		strs := make([]string, len(out))
		for i, x := range out {
			strs[i] = fmt.Sprint(x)
		}
		return []any{strs}
	case 2:
		return []any{out}
	case 3:
		return []any{[]any{out}}
	case 4:
		return nil
	}
	return out
}

func kvAnyStrings(v []any) []string {
	out := make([]string, len(v))
	for i, x := range v {
		if sx, ok := x.(string); ok {
			out[i] = sx
		}
	}
	return out
}

func kvSecs(n int64) time.Duration { return time.Duration(n) * time.Second }

var kvScripts = []string{
	`return redis.call('GET', KEYS[1])`,
	`return redis.call('INCRBY', KEYS[1], ARGV[1])`,
	`redis.call('SET', KEYS[1], ARGV[1]) redis.call('EXPIRE', KEYS[1], ARGV[2]) return redis.call('TTL', KEYS[1])`,
	`return {KEYS[1], ARGV[1], 7}`,
}

func kvRegStrings() {
	strKey := func(g *kvG) string {
		if g.uni(4) == 0 {
			return g.key("num")
		}
		return g.key("string")
	}
	strVal := func(g *kvG, k string) string {
		if k[0] == 'n' {
			return g.num()
		}
		return g.val()
	}
	kGen := func(typ string) kvGn { return func(g *kvG) kvStep { return kvStep{K: []string{g.key(typ)}} } }
	kvGen2 := func(g *kvG) kvStep { k := strKey(g); return kvStep{K: []string{k}, S: []string{strVal(g, k)}} }
	kvGenEx := func(g *kvG) kvStep {
		k := strKey(g)
		return kvStep{K: []string{k}, S: []string{strVal(g, k)}, I: []int64{g.secs()}}
	}
	anyKey := func(g *kvG) kvStep { return kvStep{K: []string{kvAllKeys[g.uni(len(kvAllKeys))]}} }

	kvReg("Get", "string", "string", 3, func(g *kvG) kvStep { return kvStep{K: []string{strKey(g)}} },
		func(st kv.Store, ctx context.Context, s kvStep) (any, error) {
			if s.X {
				return st.GetCtx(ctx, s.K[0])
			}
			return st.Get(s.K[0])
		},
		func(c *red.Client, ctx context.Context, s kvStep) (any, error) {
			v, err := c.Get(ctx, s.K[0]).Result()
			if err == red.Nil {
				return "", nil
			}
			return v, err
		})
	kvReg("Set", "string", "string", 6, kvGen2,
		func(st kv.Store, ctx context.Context, s kvStep) (any, error) {
			if s.X {
				return nil, st.SetCtx(ctx, s.K[0], s.S[0])
			}
			return nil, st.Set(s.K[0], s.S[0])
		},
		func(c *red.Client, ctx context.Context, s kvStep) (any, error) {
			return nil, c.Set(ctx, s.K[0], s.S[0], 0).Err()
		})
	kvReg("SetEx", "string", "string", 3, kvGenEx,
		func(st kv.Store, ctx context.Context, s kvStep) (any, error) {
			if s.X {
				return nil, st.SetExCtx(ctx, s.K[0], s.S[0], int(s.I[0]))
			}
			return nil, st.SetEx(s.K[0], s.S[0], int(s.I[0]))
		},
		func(c *red.Client, ctx context.Context, s kvStep) (any, error) {
			return nil, c.Set(ctx, s.K[0], s.S[0], kvSecs(s.I[0])).Err()
		})
	kvReg("SetNX", "string", "string", 3, kvGen2,
		func(st kv.Store, ctx context.Context, s kvStep) (any, error) {
			if s.X {
				return st.SetNXCtx(ctx, s.K[0], s.S[0])
			}
			return st.SetNX(s.K[0], s.S[0])
		},
		func(c *red.Client, ctx context.Context, s kvStep) (any, error) {
			return c.SetNX(ctx, s.K[0], s.S[0], 0).Result()
		})
	kvReg("SetNXEx", "string", "string", 3, kvGenEx,
		func(st kv.Store, ctx context.Context, s kvStep) (any, error) {
			if s.X {
				return st.SetNXExCtx(ctx, s.K[0], s.S[0], int(s.I[0]))
			}
			return st.SetNXEx(s.K[0], s.S[0], int(s.I[0]))
		},
		func(c *red.Client, ctx context.Context, s kvStep) (any, error) {
			return c.SetNX(ctx, s.K[0], s.S[0], kvSecs(s.I[0])).Result()
		})
	kvReg("GetSet", "string", "string", 2, kvGen2,
		func(st kv.Store, ctx context.Context, s kvStep) (any, error) {
			if s.X {
				return st.GetSetCtx(ctx, s.K[0], s.S[0])
			}
			return st.GetSet(s.K[0], s.S[0])
		},
		func(c *red.Client, ctx context.Context, s kvStep) (any, error) {
			v, err := c.GetSet(ctx, s.K[0], s.S[0]).Result()
			if err == red.Nil {
				return "", nil
			}
			return v, err
		})
	kvReg("Incr", "string", "string", 2, kGen("num"),
		func(st kv.Store, ctx context.Context, s kvStep) (any, error) {
			if s.X {
				return st.IncrCtx(ctx, s.K[0])
			}
			return st.Incr(s.K[0])
		},
		func(c *red.Client, ctx context.Context, s kvStep) (any, error) { return c.Incr(ctx, s.K[0]).Result() })
	kvReg("Decr", "string", "string", 2, kGen("num"),
		func(st kv.Store, ctx context.Context, s kvStep) (any, error) {
			if s.X {
				return st.DecrCtx(ctx, s.K[0])
			}
			return st.Decr(s.K[0])
		},
		func(c *red.Client, ctx context.Context, s kvStep) (any, error) { return c.Decr(ctx, s.K[0]).Result() })
	byGen := func(g *kvG) kvStep { return kvStep{K: []string{g.key("num")}, I: []int64{g.score()}} }
	kvReg("IncrBy", "string", "string", 2, byGen,
		func(st kv.Store, ctx context.Context, s kvStep) (any, error) {
			if s.X {
				return st.IncrByCtx(ctx, s.K[0], s.I[0])
			}
			return st.IncrBy(s.K[0], s.I[0])
		},
		func(c *red.Client, ctx context.Context, s kvStep) (any, error) {
			return c.IncrBy(ctx, s.K[0], s.I[0]).Result()
		})
	kvReg("DecrBy", "string", "string", 2, byGen,
		func(st kv.Store, ctx context.Context, s kvStep) (any, error) {
			if s.X {
				return st.DecrByCtx(ctx, s.K[0], s.I[0])
			}
			return st.DecrBy(s.K[0], s.I[0])
		},
		func(c *red.Client, ctx context.Context, s kvStep) (any, error) {
			return c.DecrBy(ctx, s.K[0], s.I[0]).Result()
		})

	// ---- generic key commands
	// Del: 1..4 keys, usually spread over several shards (the multi-key delete of the statement)
	kvReg("Del", "key", "*", 5,
		func(g *kvG) kvStep {
			s := kvStep{}
			for n := 1 + g.uni(4); n > 0; n-- {
				s.K = append(s.K, kvAllKeys[g.uni(len(kvAllKeys))])
			}
			return s
		},
		func(st kv.Store, ctx context.Context, s kvStep) (any, error) {
			if s.X {
				return st.DelCtx(ctx, s.K...)
			}
			return st.Del(s.K...)
		},
		func(c *red.Client, ctx context.Context, s kvStep) (any, error) {
			v, err := c.Del(ctx, s.K...).Result()
			return int(v), err
		})
	kvReg("Exists", "key", "*", 2, anyKey,
		func(st kv.Store, ctx context.Context, s kvStep) (any, error) {
			if s.X {
				return st.ExistsCtx(ctx, s.K[0])
			}
			return st.Exists(s.K[0])
		},
		func(c *red.Client, ctx context.Context, s kvStep) (any, error) {
			v, err := c.Exists(ctx, s.K[0]).Result()
			return v == 1, err
		})
	kvReg("Expire", "key", "*", 4,
		func(g *kvG) kvStep { s := anyKey(g); s.I = []int64{g.secs()}; return s },
		func(st kv.Store, ctx context.Context, s kvStep) (any, error) {
			if s.X {
				return nil, st.ExpireCtx(ctx, s.K[0], int(s.I[0]))
			}
			return nil, st.Expire(s.K[0], int(s.I[0]))
		},
		func(c *red.Client, ctx context.Context, s kvStep) (any, error) {
			return nil, c.Expire(ctx, s.K[0], kvSecs(s.I[0])).Err()
		})
	kvReg("ExpireAt", "key", "*", 3,
		func(g *kvG) kvStep {
			s := anyKey(g)
			delta := g.secs()
			if g.uni(6) == 0 {
				delta = -int64(g.uni(6))
			}
			s.I = []int64{kvT0.Add(g.elapsed).Unix() + delta}
			return s
		},
		func(st kv.Store, ctx context.Context, s kvStep) (any, error) {
			if s.X {
				return nil, st.ExpireAtCtx(ctx, s.K[0], s.I[0])
			}
			return nil, st.ExpireAt(s.K[0], s.I[0])
		},
		func(c *red.Client, ctx context.Context, s kvStep) (any, error) {
			return nil, c.ExpireAt(ctx, s.K[0], time.Unix(s.I[0], 0)).Err()
		})
	kvReg("Persist", "key", "*", 2, anyKey,
		func(st kv.Store, ctx context.Context, s kvStep) (any, error) {
			if s.X {
				return st.PersistCtx(ctx, s.K[0])
			}
			return st.Persist(s.K[0])
		},
		func(c *red.Client, ctx context.Context, s kvStep) (any, error) { return c.Persist(ctx, s.K[0]).Result() })
	kvReg("TTL", "key", "*", 3, anyKey,
		func(st kv.Store, ctx context.Context, s kvStep) (any, error) {
			if s.X {
				return st.TTLCtx(ctx, s.K[0])
			}
			return st.TTL(s.K[0])
		},
		func(c *red.Client, ctx context.Context, s kvStep) (any, error) {
			d, err := c.TTL(ctx, s.K[0]).Result()
			return int(d / time.Second), err
		})
	// Eval(script, key, args...): the key is KEYS[1]
	kvReg("Eval", "script", "*", 3,
		func(g *kvG) kvStep {
			idx := int64(g.uni(len(kvScripts)))
			s := kvStep{I: []int64{idx}}
			switch idx {
			case 1:
				s.K, s.S = []string{g.key("num")}, []string{g.num()}
			case 2:
				s.K, s.S, s.I = []string{g.key("string")}, []string{g.val()}, append(s.I, g.secs())
			case 3:
				s.K, s.S = []string{g.key("string")}, []string{g.val()}
			default:
				s.K = []string{g.key("string")}
			}
			return s
		},
		func(st kv.Store, ctx context.Context, s kvStep) (any, error) {
			args := kvAnys(kvStep{S: s.S, I: s.I[1:], V: s.V})
			if s.X {
				return st.EvalCtx(ctx, kvScripts[s.I[0]], s.K[0], args...)
			}
			return st.Eval(kvScripts[s.I[0]], s.K[0], args...)
		},
		func(c *red.Client, ctx context.Context, s kvStep) (any, error) {
			return c.Eval(ctx, kvScripts[s.I[0]], []string{s.K[0]}, kvAnys(kvStep{S: s.S, I: s.I[1:], V: s.V})...).Result()
		})

	// ---- bits
	kvReg("SetBit", "bit", "string", 4,
		func(g *kvG) kvStep { return kvStep{K: []string{g.key("bit")}, I: []int64{g.small(0, 40), g.small(0, 1)}} },
		func(st kv.Store, ctx context.Context, s kvStep) (any, error) {
			if s.X {
				return st.SetBitCtx(ctx, s.K[0], s.I[0], int(s.I[1]))
			}
			return st.SetBit(s.K[0], s.I[0], int(s.I[1]))
		},
		func(c *red.Client, ctx context.Context, s kvStep) (any, error) {
			v, err := c.SetBit(ctx, s.K[0], s.I[0], int(s.I[1])).Result()
			return int(v), err
		})
	kvReg("GetBit", "bit", "string", 2,
		func(g *kvG) kvStep { return kvStep{K: []string{g.key("bit")}, I: []int64{g.small(0, 40)}} },
		func(st kv.Store, ctx context.Context, s kvStep) (any, error) {
			if s.X {
				return st.GetBitCtx(ctx, s.K[0], s.I[0])
			}
			return st.GetBit(s.K[0], s.I[0])
		},
		func(c *red.Client, ctx context.Context, s kvStep) (any, error) {
			v, err := c.GetBit(ctx, s.K[0], s.I[0]).Result()
			return int(v), err
		})

	// ---- hyperloglog
	kvReg("PFAdd", "hll", "hll", 3,
		func(g *kvG) kvStep { return kvStep{K: []string{g.key("hll")}, S: g.strs(g.member, 1, 3)} },
		func(st kv.Store, ctx context.Context, s kvStep) (any, error) {
			if s.X {
				return st.PFAddCtx(ctx, s.K[0], kvAnys(s)...)
			}
			return st.PFAdd(s.K[0], kvAnys(s)...)
		},
		func(c *red.Client, ctx context.Context, s kvStep) (any, error) {
			v, err := c.PFAdd(ctx, s.K[0], kvAnys(s)...).Result()
			return v >= 1, err
		})
	kvReg("PFCount", "hll", "hll", 2, kGen("hll"),
		func(st kv.Store, ctx context.Context, s kvStep) (any, error) {
			if s.X {
				return st.PFCountCtx(ctx, s.K[0])
			}
			return st.PFCount(s.K[0])
		},
		func(c *red.Client, ctx context.Context, s kvStep) (any, error) { return c.PFCount(ctx, s.K[0]).Result() })
}

func kvRegHashes() {
	kGen := func(g *kvG) kvStep { return kvStep{K: []string{g.key("hash")}} }
	kfGen := func(g *kvG) kvStep { return kvStep{K: []string{g.key("hash")}, S: []string{g.field()}} }
	kfvGen := func(g *kvG) kvStep {
		v := g.val()
		if g.uni(3) == 0 {
			v = g.num()
		}
		return kvStep{K: []string{g.key("hash")}, S: []string{g.field(), v}}
	}
	kvReg("HSet", "hash", "hash", 6, kfvGen,
		func(st kv.Store, ctx context.Context, s kvStep) (any, error) {
			if s.X {
				return nil, st.HSetCtx(ctx, s.K[0], s.S[0], s.S[1])
			}
			return nil, st.HSet(s.K[0], s.S[0], s.S[1])
		},
		func(c *red.Client, ctx context.Context, s kvStep) (any, error) {
			return nil, c.HSet(ctx, s.K[0], s.S[0], s.S[1]).Err()
		})
	kvReg("HSetNx", "hash", "hash", 2, kfvGen,
		func(st kv.Store, ctx context.Context, s kvStep) (any, error) {
			if s.X {
				return st.HSetNxCtx(ctx, s.K[0], s.S[0], s.S[1])
			}
			return st.HSetNx(s.K[0], s.S[0], s.S[1])
		},
		func(c *red.Client, ctx context.Context, s kvStep) (any, error) {
			return c.HSetNX(ctx, s.K[0], s.S[0], s.S[1]).Result()
		})
	kvReg("HMSet", "hash", "hash", 3,
		func(g *kvG) kvStep {
			s := kvStep{K: []string{g.key("hash")}}
			seen := map[string]bool{}
			for n := 1 + g.uni(3); n > 0; n-- {
				f := g.field()
				if !seen[f] {
					seen[f] = true
					s.S = append(s.S, f, g.val())
				}
			}
			return s
		},
		func(st kv.Store, ctx context.Context, s kvStep) (any, error) {
			m := map[string]string{}
			for i := 0; i+1 < len(s.S); i += 2 {
				m[s.S[i]] = s.S[i+1]
			}
			if s.X {
				return nil, st.HMSetCtx(ctx, s.K[0], m)
			}
			return nil, st.HMSet(s.K[0], m)
		},
		func(c *red.Client, ctx context.Context, s kvStep) (any, error) {
			m := map[string]any{}
			for i := 0; i+1 < len(s.S); i += 2 {
				m[s.S[i]] = s.S[i+1]
			}
			return nil, c.HMSet(ctx, s.K[0], m).Err()
		})
	kvReg("HGet", "hash", "hash", 3, kfGen,
		func(st kv.Store, ctx context.Context, s kvStep) (any, error) {
			if s.X {
				return st.HGetCtx(ctx, s.K[0], s.S[0])
			}
			return st.HGet(s.K[0], s.S[0])
		},
		func(c *red.Client, ctx context.Context, s kvStep) (any, error) {
			return c.HGet(ctx, s.K[0], s.S[0]).Result()
		})
	kvReg("HDel", "hash", "hash", 2, kfGen,
		func(st kv.Store, ctx context.Context, s kvStep) (any, error) {
			if s.X {
				return st.HDelCtx(ctx, s.K[0], s.S[0])
			}
			return st.HDel(s.K[0], s.S[0])
		},
		func(c *red.Client, ctx context.Context, s kvStep) (any, error) {
			v, err := c.HDel(ctx, s.K[0], s.S[0]).Result()
			return v >= 1, err
		})
	kvReg("HExists", "hash", "hash", 2, kfGen,
		func(st kv.Store, ctx context.Context, s kvStep) (any, error) {
			if s.X {
				return st.HExistsCtx(ctx, s.K[0], s.S[0])
			}
			return st.HExists(s.K[0], s.S[0])
		},
		func(c *red.Client, ctx context.Context, s kvStep) (any, error) {
			return c.HExists(ctx, s.K[0], s.S[0]).Result()
		})
	kvReg("HGetAll", "hash", "hash", 2, kGen,
		func(st kv.Store, ctx context.Context, s kvStep) (any, error) {
			if s.X {
				return st.HGetAllCtx(ctx, s.K[0])
			}
			return st.HGetAll(s.K[0])
		},
		func(c *red.Client, ctx context.Context, s kvStep) (any, error) { return c.HGetAll(ctx, s.K[0]).Result() })
	kvReg("HIncrBy", "hash", "hash", 2,
		func(g *kvG) kvStep { return kvStep{K: []string{g.key("hash")}, S: []string{g.field()}, I: []int64{g.score()}} },
		func(st kv.Store, ctx context.Context, s kvStep) (any, error) {
			if s.X {
				return st.HIncrByCtx(ctx, s.K[0], s.S[0], int(s.I[0]))
			}
			return st.HIncrBy(s.K[0], s.S[0], int(s.I[0]))
		},
		func(c *red.Client, ctx context.Context, s kvStep) (any, error) {
			v, err := c.HIncrBy(ctx, s.K[0], s.S[0], s.I[0]).Result()
			return int(v), err
		})
	kvReg("HKeys", "hash", "hash", 2, kGen,
		func(st kv.Store, ctx context.Context, s kvStep) (any, error) {
			if s.X {
				return st.HKeysCtx(ctx, s.K[0])
			}
			return st.HKeys(s.K[0])
		},
		func(c *red.Client, ctx context.Context, s kvStep) (any, error) { return c.HKeys(ctx, s.K[0]).Result() }).unordered = true
	kvReg("HVals", "hash", "hash", 2, kGen,
		func(st kv.Store, ctx context.Context, s kvStep) (any, error) {
			if s.X {
				return st.HValsCtx(ctx, s.K[0])
			}
			return st.HVals(s.K[0])
		},
		func(c *red.Client, ctx context.Context, s kvStep) (any, error) { return c.HVals(ctx, s.K[0]).Result() }).unordered = true
	kvReg("HLen", "hash", "hash", 2, kGen,
		func(st kv.Store, ctx context.Context, s kvStep) (any, error) {
			if s.X {
				return st.HLenCtx(ctx, s.K[0])
			}
			return st.HLen(s.K[0])
		},
		func(c *red.Client, ctx context.Context, s kvStep) (any, error) {
			v, err := c.HLen(ctx, s.K[0]).Result()
			return int(v), err
		})
	kvReg("HMGet", "hash", "hash", 2,
		func(g *kvG) kvStep { return kvStep{K: []string{g.key("hash")}, S: g.strs(g.field, 1, 4)} },
		func(st kv.Store, ctx context.Context, s kvStep) (any, error) {
			if s.X {
				return st.HMGetCtx(ctx, s.K[0], s.S...)
			}
			return st.HMGet(s.K[0], s.S...)
		},
		func(c *red.Client, ctx context.Context, s kvStep) (any, error) {
			v, err := c.HMGet(ctx, s.K[0], s.S...).Result()
			if err != nil {
				return nil, err
			}
			return kvAnyStrings(v), nil
		})
}

func kvRegLists() {
	kGen := func(g *kvG) kvStep { return kvStep{K: []string{g.key("list")}} }
	pushGen := func(g *kvG) kvStep {
		s := kvStep{K: []string{g.key("list")}, S: g.strs(g.val, 1, 3)}
		if g.uni(4) == 0 {
			s.I = []int64{g.small(-2, 9)}
		}
		return s
	}
	kvReg("LPush", "list", "list", 5, pushGen,
		func(st kv.Store, ctx context.Context, s kvStep) (any, error) {
			if s.X {
				return st.LPushCtx(ctx, s.K[0], kvAnys(s)...)
			}
			return st.LPush(s.K[0], kvAnys(s)...)
		},
		func(c *red.Client, ctx context.Context, s kvStep) (any, error) {
			v, err := c.LPush(ctx, s.K[0], kvAnys(s)...).Result()
			return int(v), err
		})
	kvReg("RPush", "list", "list", 5, pushGen,
		func(st kv.Store, ctx context.Context, s kvStep) (any, error) {
			if s.X {
				return st.RPushCtx(ctx, s.K[0], kvAnys(s)...)
			}
			return st.RPush(s.K[0], kvAnys(s)...)
		},
		func(c *red.Client, ctx context.Context, s kvStep) (any, error) {
			v, err := c.RPush(ctx, s.K[0], kvAnys(s)...).Result()
			return int(v), err
		})
	kvReg("LPop", "list", "list", 2, kGen,
		func(st kv.Store, ctx context.Context, s kvStep) (any, error) {
			if s.X {
				return st.LPopCtx(ctx, s.K[0])
			}
			return st.LPop(s.K[0])
		},
		func(c *red.Client, ctx context.Context, s kvStep) (any, error) { return c.LPop(ctx, s.K[0]).Result() })
	kvReg("RPop", "list", "list", 2, kGen,
		func(st kv.Store, ctx context.Context, s kvStep) (any, error) {
			if s.X {
				return st.RPopCtx(ctx, s.K[0])
			}
			return st.RPop(s.K[0])
		},
		func(c *red.Client, ctx context.Context, s kvStep) (any, error) { return c.RPop(ctx, s.K[0]).Result() })
	kvReg("LLen", "list", "list", 2, kGen,
		func(st kv.Store, ctx context.Context, s kvStep) (any, error) {
			if s.X {
				return st.LLenCtx(ctx, s.K[0])
			}
			return st.LLen(s.K[0])
		},
		func(c *red.Client, ctx context.Context, s kvStep) (any, error) {
			v, err := c.LLen(ctx, s.K[0]).Result()
			return int(v), err
		})
	kvReg("LIndex", "list", "list", 2,
		func(g *kvG) kvStep { return kvStep{K: []string{g.key("list")}, I: []int64{g.idx()}} },
		func(st kv.Store, ctx context.Context, s kvStep) (any, error) {
			if s.X {
				return st.LIndexCtx(ctx, s.K[0], s.I[0])
			}
			return st.LIndex(s.K[0], s.I[0])
		},
		func(c *red.Client, ctx context.Context, s kvStep) (any, error) {
			return c.LIndex(ctx, s.K[0], s.I[0]).Result()
		})
	rangeGen := func(g *kvG) kvStep { return kvStep{K: []string{g.key("list")}, I: []int64{g.idx(), g.idx()}} }
	kvReg("LRange", "list", "list", 4, rangeGen,
		func(st kv.Store, ctx context.Context, s kvStep) (any, error) {
			if s.X {
				return st.LRangeCtx(ctx, s.K[0], int(s.I[0]), int(s.I[1]))
			}
			return st.LRange(s.K[0], int(s.I[0]), int(s.I[1]))
		},
		func(c *red.Client, ctx context.Context, s kvStep) (any, error) {
			return c.LRange(ctx, s.K[0], s.I[0], s.I[1]).Result()
		})
	kvReg("LTrim", "list", "list", 2, rangeGen,
		func(st kv.Store, ctx context.Context, s kvStep) (any, error) {
			if s.X {
				return nil, st.LTrimCtx(ctx, s.K[0], s.I[0], s.I[1])
			}
			return nil, st.LTrim(s.K[0], s.I[0], s.I[1])
		},
		func(c *red.Client, ctx context.Context, s kvStep) (any, error) {
			return nil, c.LTrim(ctx, s.K[0], s.I[0], s.I[1]).Err()
		})
	kvReg("LRem", "list", "list", 2,
		func(g *kvG) kvStep { return kvStep{K: []string{g.key("list")}, S: []string{g.val()}, I: []int64{g.small(-2, 2)}} },
		func(st kv.Store, ctx context.Context, s kvStep) (any, error) {
			if s.X {
				return st.LRemCtx(ctx, s.K[0], int(s.I[0]), s.S[0])
			}
			return st.LRem(s.K[0], int(s.I[0]), s.S[0])
		},
		func(c *red.Client, ctx context.Context, s kvStep) (any, error) {
			v, err := c.LRem(ctx, s.K[0], s.I[0], s.S[0]).Result()
			return int(v), err
		})
}
