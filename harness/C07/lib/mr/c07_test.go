package mr_test

// C07 — lib/mr MapReduce: exactly-once processing, bounded workers, clean
// termination, cancel / context / panic semantics.
// Harness injected by /verif (overlay); see /verif/DESIGN.md "C07".
//
// One mr.* call per synctest bubble. Every user callback (generator, mapper,
// reducer, Finish function) is scripted by the case; every outcome-relevant
// action (cancel, panic, reducer write, reducer return, context done) is
// logged with its virtual timestamp. The oracle is an invariant over that
// observed history, written from the property statement only.

import (
	"context"
	"encoding/json"
	"fmt"
	"io"
	"math"
	"os"
	"reflect"
	"runtime"
	"sort"
	"strconv"
	"strings"
	"sync"
	"sync/atomic"
	"testing"
	"time"

	"github.com/gotid/god/lib/mr"
	"pgregory.net/rapid"
	"verif.local/kit"
)

const (
	c07Tick     = time.Millisecond
	c07KnownID  = "panic-unheard"
	c07KnownID2 = "write-close-race"
	c07KnownID3 = "panic-lost-in-select"
	c07Far      = 1000000 // ticks: a context deadline that is never reached
)

// ---------------------------------------------------------------- case (data)

type c07Item struct {
	G int    `json:"g,omitempty"` // generator sleeps G ticks before sending this item
	D int    `json:"d,omitempty"` // the mapper sleeps D ticks ...
	W int    `json:"w,omitempty"` // ... then writes W values ...
	A string `json:"a,omitempty"` // ... then: "" | cancel | cancelnil | panic | cancelpanic (cancel(err), then panic, in one mapper) | goexit (runtime.Goexit, what t.Fatal does: outcome unspecified) | nilfn (Finish / FinishVoid only: the function value itself is nil — a typed-nil item; outcome unspecified)
	V string `json:"v,omitempty"` // value of the item itself: "" int | str | struct | nil | nilptr | zero | empty | zerostruct | slice | map | ptr | err | func | big | noout (mr.ErrReduceNoOutput as DATA)
	X string `json:"x,omitempty"` // values the mapper writes: "" struct{item,k} | nil | nilptr | zero | empty | slice | map | func (uncomparable) | ptr | err | big | noout
	E string `json:"e,omitempty"` // error VALUE given to cancel / returned by a Finish function: "" *c07Err | eof | wrap | val | unc | noout | wrapnoout | cwn | deadline
	P string `json:"p,omitempty"` // panic value: "" struct | err | str | nil (panic(nil): *runtime.PanicNilError since Go 1.21)
	N int    `json:"n,omitempty"` // nested call made by the mapper before its action, with the SAME option slice: 1 MapReduce, 2 Finish
}

type c07Red struct {
	Take  int    `json:"take"`            // -1: consume everything; j>=0: stop after j values
	D     int    `json:"d,omitempty"`     // sleep per consumed value
	D0    int    `json:"d0,omitempty"`    // sleep before the first receive
	Early int    `json:"early,omitempty"` // results written before consuming
	Late  int    `json:"late,omitempty"`  // results written after consuming
	A     string `json:"a,omitempty"`     // then: "" | cancel | cancelnil | panic
	E     string `json:"e,omitempty"`     // error VALUE the reducer gives to cancel: the same family as c07Item.E ("" *c07Err | eof | wrap | val | unc | noout | wrapnoout | cwn | deadline)
	WM    string `json:"wm,omitempty"`    // how the reducer calls Write: "" directly | rec (inside a function that recovers panics, RunSafe style) | go (from a helper goroutine of its own, which it waits for)
	RV    string `json:"rv,omitempty"`    // the VALUE of the result written: "" struct{k} | nil | nilptr | zero | empty | false | err | noout | slice | map | func | ptr | big (see c07ResultValue)
}

type c07Case struct {
	Entry    string    `json:"e"`               // mr void chan foreach finish finishvoid
	HasW     bool      `json:"hw,omitempty"`    // WithWorkers(W) given
	W        int       `json:"w,omitempty"`     // may be < 1
	Items    []c07Item `json:"it"`              //
	GenPanic int       `json:"gp"`              // -1 none; k: generator panics instead of sending item k (k==len: after the last)
	GenTail  int       `json:"gt,omitempty"`    // generator sleeps before returning
	Red      c07Red    `json:"r"`               //
	Ctx      string    `json:"ctx,omitempty"`   // "" | deadline | timeout | cancelled | cancelat | custom (an own Context implementation, done at CtxAt, Err() an own error)
	Cause    string    `json:"cause,omitempty"` // the context is ended WITH A CAUSE (WithCancelCause / WithDeadlineCause / WithTimeoutCause; custom: an own implementation that is a child of a WithCancelCause context): own | eof | val | unc | noout | cwn | canceled | deadline | nil
	Wrap     string    `json:"wrap,omitempty"`  // what is handed to WithContext is a descendant of that context: "" | child (WithCancel) | value (WithValue) | own (own implementation delegating to it)
	DoneD    []int     `json:"dd,omitempty"`    // own Context (custom, no cause, never due): its first len(DoneD) calls of Done() take that many ms (virtual) — the caller evaluates ctx.Done() when it enters its select, AFTER it has started the pipeline
	Src      string    `json:"src,omitempty"`   // MapReduceChan only: "" unbuffered, fed by a goroutine | prefilled (buffered, filled and closed before the call)
	CtxAt    int       `json:"at,omitempty"`    // ticks
	Count    int       `json:"count,omitempty"` // > len(Items): the item list is Items repeated cyclically up to Count items (big inputs from a small description)
	Dup      bool      `json:"dup,omitempty"`   // every option is given twice, first with another value (the last one counts)
	GenExit  bool      `json:"gx,omitempty"`    // at GenPanic the generator calls runtime.Goexit instead of panicking
	Procs    int       `json:"procs,omitempty"` // 1|2: runtime.GOMAXPROCS during the call (set outside the bubble, restored afterwards); 0: untouched
	Zero     bool      `json:"zero,omitempty"`  // contention mode: every delay is zero

	// Not part of the case: set by c07NewRun when the delays of the case add up to
	// more than 100 years (many items or values times 30 days): the synctest clock
	// starts in 2000 and an int64 of nanoseconds ends in 2262 — the Go runtime
	// crashes ("bad g->status in ready") when a timer overflows. Magnitudes are
	// then capped at one hour.
	magCap time.Duration
	Reps   int `json:"reps,omitempty"` // run the call that many times (fresh bubble each), first failing verdict counts
}

// Delays are ints in the case. 0..99: that many ticks (1 ms) — small numbers with
// many ties; 100+i: the i-th magnitude of a scale-free set (1 ns .. 30 days, with
// 5 s +/- 1 ns in it); >= c07Far: never reached.
var c07Mags = []time.Duration{1, time.Second, 5*time.Second - 1, 5 * time.Second, 5*time.Second + 1,
	10 * time.Second, time.Minute, time.Hour, 30 * 24 * time.Hour}

const c07MagBase = 100

func (c c07Case) ticks(n int) time.Duration {
	if c.Zero && n < c07Far {
		return 0
	}
	if n >= c07MagBase && n < c07MagBase+len(c07Mags) {
		if d := c07Mags[n-c07MagBase]; c.magCap == 0 || d < c.magCap {
			return d
		}
		return c.magCap
	}
	return time.Duration(n) * c07Tick
}

func (c c07Case) workers() int {
	switch c.Entry {
	case "finish", "finishvoid":
		if len(c.Items) < 1 {
			return 1
		}
		return len(c.Items)
	}
	if !c.HasW {
		return 16
	}
	if c.W < 1 {
		return 1
	}
	return c.W
}

// expanded returns the case with its item list written out (Count).
func (c c07Case) expanded() c07Case {
	if c.Count <= len(c.Items) || len(c.Items) == 0 {
		return c
	}
	tail := c.GenPanic == len(c.Items)
	items := make([]c07Item, c.Count)
	for i := range items {
		items[i] = c.Items[i%len(c.Items)]
	}
	c.Items = items
	if tail {
		c.GenPanic = c.Count
	}
	return c
}

func (c c07Case) hasReducer() bool { return c.Entry == "mr" || c.Entry == "void" || c.Entry == "chan" }

// ---------------------------------------------------------------- run state

type c07Panic struct {
	Src string
	I   int
}

type c07Val struct{ I, K int }

// Item values. Items are identified by POSITION: int/str/struct values carry
// their position; nil, typed nil pointers and zero values do not, positions with
// the same such value are interchangeable and a received value claims the first
// position of that value which no mapper has claimed yet.
type c07ItemS struct{ Pos int }

const c07IntBase = 1000

func c07ItemValue(i int, kind string) any {
	switch kind {
	case "str":
		return fmt.Sprintf("item-%d", i)
	case "struct":
		return c07ItemS{Pos: i}
	case "nil":
		return nil
	case "nilptr":
		return (*int)(nil)
	case "zero":
		return 0
	case "empty":
		return ""
	case "zerostruct":
		return struct{}{}
	case "slice": // uncomparable
		return []int{i}
	case "map": // uncomparable
		return map[string]int{"pos": i}
	case "ptr":
		p := new(int)
		*p = i
		return p
	case "err": // a value with an Error method
		return &c07Err{src: "itemvalue", i: i}
	case "func": // uncomparable, not even DeepEqual to itself
		return func() int { return i }
	case "big": // a large value (8 KiB, comparable)
		return c07BigValue(i, -1)
	case "noout": // the package's own sentinel error as DATA
		return mr.ErrReduceNoOutput
	}
	return c07IntBase + i
}

// c07Big: a large comparable value; Pad[len-1] repeats I so that a truncated copy shows.
type c07Big struct {
	I, K int
	Pad  [1024]int64
}

func c07BigValue(i, k int) c07Big {
	b := c07Big{I: i, K: k}
	b.Pad[len(b.Pad)-1] = int64(i)
	return b
}

func c07Identifying(kind string) bool {
	switch kind {
	case "", "str", "struct", "slice", "map", "ptr", "err", "func", "big":
		return true
	}
	return false
}

// c07Pos: the position carried by an identifying item value (-1: none).
func c07Pos(item any) int {
	switch x := item.(type) {
	case int:
		if x >= c07IntBase {
			return x - c07IntBase
		}
	case string:
		var i int
		if n, _ := fmt.Sscanf(x, "item-%d", &i); n == 1 {
			return i
		}
	case c07ItemS:
		return x.Pos
	case []int:
		if len(x) == 1 {
			return x[0]
		}
	case map[string]int:
		if i, ok := x["pos"]; ok {
			return i
		}
	case *int:
		if x != nil {
			return *x
		}
	case *c07Err:
		if x != nil && x.src == "itemvalue" {
			return x.i
		}
	case func() int:
		if x != nil {
			return x()
		}
	case c07Big:
		if x.K == -1 && x.Pad[len(x.Pad)-1] == int64(x.I) {
			return x.I
		}
	}
	return -1
}

// c07Key makes any value usable as a map key (uncomparable ones by their rendering).
func c07Key(v any) any {
	switch x := v.(type) {
	case []int:
		return fmt.Sprintf("[]int%v", x)
	case map[string]int:
		return fmt.Sprintf("map%v", x)
	case map[[2]int]bool:
		return fmt.Sprintf("map%v", x)
	case func() [2]int:
		if x != nil {
			return fmt.Sprintf("func()=%v", x())
		}
	}
	return v
}

// c07Short renders a value for messages (large values are cut).
func c07Short(v any) string {
	s := fmt.Sprintf("%T(%v)", v, v)
	if len(s) > 160 {
		s = s[:160] + "..."
	}
	return s
}

// c07Identical: b is the very value a (same dynamic type; the same slice / map /
// closure, not a copy, for the reference kinds).
func c07Identical(a, b any) bool {
	ta, tb := reflect.TypeOf(a), reflect.TypeOf(b)
	if ta != tb {
		return false
	}
	if ta == nil {
		return true
	}
	if ta.Comparable() {
		return a == b
	}
	va, vb := reflect.ValueOf(a), reflect.ValueOf(b)
	switch ta.Kind() {
	case reflect.Slice:
		return va.Len() == vb.Len() && va.Pointer() == vb.Pointer() && reflect.DeepEqual(a, b)
	case reflect.Map:
		return va.Pointer() == vb.Pointer() && reflect.DeepEqual(a, b)
	case reflect.Func:
		if fa, ok := a.(func() int); ok {
			return va.Pointer() == vb.Pointer() && !va.IsNil() && !vb.IsNil() && fa() == b.(func() int)()
		}
		return va.Pointer() == vb.Pointer()
	}
	return reflect.DeepEqual(a, b)
}

func c07Same(a, b any) bool {
	ta, tb := reflect.TypeOf(a), reflect.TypeOf(b)
	if ta != tb {
		return false
	}
	if ta == nil || ta.Comparable() {
		return a == b
	}
	return reflect.DeepEqual(a, b)
}

func c07WrittenValue(i, k int, kind string) any {
	switch kind {
	case "nil":
		return nil
	case "nilptr":
		return (*c07Val)(nil)
	case "zero":
		return 0
	case "empty":
		return ""
	case "slice":
		return []int{i, k}
	case "map":
		return map[[2]int]bool{{i, k}: true}
	case "func":
		return func() [2]int { return [2]int{i, k} }
	case "ptr":
		return &c07Val{I: i, K: k}
	case "err":
		return &c07Err{src: "written", i: i*100000 + k}
	case "big":
		return c07BigValue(i, k)
	case "noout":
		return mr.ErrReduceNoOutput
	}
	return c07Val{I: i, K: k}
}

// c07ResultValue: the k-th value the reducer writes as its result.
func c07ResultValue(k int, kind string) any {
	switch kind {
	case "nil": // also what Write(err) with a nil error variable passes
		return nil
	case "nilptr":
		return (*c07Out)(nil)
	case "zero":
		return 0
	case "empty":
		return ""
	case "false":
		return false
	case "err": // an error as the VALUE of the call ("the first error seen")
		return &c07Err{src: "result", i: k}
	case "noout": // the no-output sentinel itself as the value
		return mr.ErrReduceNoOutput
	case "slice":
		return []int{k}
	case "map":
		return map[string]int{"k": k}
	case "func":
		return func() int { return k }
	case "ptr":
		return &c07Out{K: k}
	case "big":
		return c07BigValue(-1, k)
	}
	return c07Out{K: k}
}

func c07ResultClass(kind string) string {
	switch kind {
	case "nil":
		return "result:nil"
	case "nilptr":
		return "result:typed-nil"
	case "zero", "empty", "false":
		return "result:zero-value"
	case "err", "noout":
		return "result:error-value"
	case "slice", "map", "func":
		return "result:uncomparable"
	case "ptr":
		return "result:pointer"
	case "big":
		return "result:big"
	}
	return "result:struct"
}

// claim maps a value received by a mapper to an item position (-1: no position
// of the case is left for this value).
func (r *c07Run) claim(item any) int {
	r.mu.Lock()
	defer r.mu.Unlock()
	items := r.c.Items
	if i := c07Pos(item); i >= 0 && i < len(items) && c07Identifying(items[i].V) &&
		reflect.TypeOf(item) == reflect.TypeOf(c07ItemValue(i, items[i].V)) {
		return i // may be claimed more than once: counted in mapped[i]
	}
	for r.claimFrom < len(items) && (c07Identifying(items[r.claimFrom].V) || r.claimed[r.claimFrom]) {
		r.claimFrom++
	}
	for i := r.claimFrom; i < len(items); i++ {
		if !c07Identifying(items[i].V) && !r.claimed[i] && c07Same(c07ItemValue(i, items[i].V), item) {
			r.claimed[i] = true
			return i
		}
	}
	r.unclaimed = append(r.unclaimed, c07Short(item))
	return -1
}

type c07Out struct{ K int }

type c07Err struct {
	src string
	i   int
}

func (e *c07Err) Error() string { return fmt.Sprintf("c07 error %s/%d", e.src, e.i) }

type c07Event struct {
	kind string // cancel cancelret panic ctx write redret
	src  string // item / reducer / generator
	ts   time.Duration
	err  error // cancel: the error the call has to return
	pv   any   // panic: value
}

func (e c07Event) String() string {
	switch e.kind {
	case "cancel":
		return fmt.Sprintf("cancel(%v)@%v by %s", e.err, e.ts, e.src)
	case "panic":
		return fmt.Sprintf("panic(%v)@%v", e.pv, e.ts)
	case "cancelret":
		return fmt.Sprintf("cancel-returned@%v", e.ts)
	}
	return fmt.Sprintf("%s@%v", e.kind, e.ts)
}

type c07Outcome struct {
	kind string // value err ok panic
	val  any
	err  error
	pv   any
}

func (o c07Outcome) String() string {
	switch o.kind {
	case "value":
		return "value " + c07Short(o.val)
	case "err":
		return fmt.Sprintf("error %q", o.err)
	case "panic":
		return fmt.Sprintf("panic %v", o.pv)
	}
	return o.kind
}

type c07Run struct {
	c     c07Case
	start time.Time

	mu      sync.Mutex
	events  []c07Event
	mapped  map[int]int
	written map[any]int
	seen    map[any]int
	claimed map[int]bool
	// positions below claimFrom are identifying or claimed
	claimFrom int
	// longest virtual time a mapper spent inside Writer.Write (blocked on the collector)
	maxWriteWait time.Duration
	unclaimed    []string
	cur, max     int
	generated    int
	genDone      bool

	errs     []error
	redErr   error
	results  []any // the values the reducer passed to Write, in order
	opts     []mr.Option
	nestFail string

	// see hurryUp
	ctx       context.Context
	ncancel   int32
	hurry     chan struct{}
	hurryOnce sync.Once

	stacks   string
	returned bool
	tret     time.Duration
	out      c07Outcome
	strict   bool
}

func (r *c07Run) now() time.Duration { return time.Since(r.start) }

func (r *c07Run) log(e c07Event) {
	r.mu.Lock()
	e.ts = r.now()
	r.events = append(r.events, e)
	r.mu.Unlock()
}

func (r *c07Run) sleep(n int) {
	if d := r.c.ticks(n); d > 0 {
		time.Sleep(d)
	}
}

// hurryUp makes the generator skip the rest of its sleeps.
//
// Why: cancel is wrapped in a sync.Once. While one cancel call sits in
// drain(source) waiting for a generator that sleeps, a second cancel call (user
// code or the ctx.Done branch of the caller) blocks on the mutex of that Once.
// synctest does not regard a goroutine blocked on a mutex as durably blocked,
// so virtual time could not advance any more and the sleeping generator would
// never wake up: the bubble would wedge in real time although the real code is
// fine. Therefore every cancel-like event after the first one first wakes the
// generator; nothing then needs the clock to move while the mutex is contended.
func (r *c07Run) hurryUp() { r.hurryOnce.Do(func() { close(r.hurry) }) }

func (r *c07Run) genSleep(n int) {
	d := r.c.ticks(n)
	if d <= 0 {
		return
	}
	select {
	case <-r.hurry:
		return
	default:
	}
	tm := time.NewTimer(d)
	defer tm.Stop()
	select {
	case <-tm.C:
	case <-r.hurry:
	}
}

func (r *c07Run) userCancel(cancel func(error), err error) {
	if atomic.AddInt32(&r.ncancel, 1) > 1 || r.ctx.Err() != nil {
		r.hurryUp()
	}
	cancel(err)
	r.log(c07Event{kind: "cancelret"})
}

// c07Ctx: a Context implementation of the caller's own (not one of package
// context's): no deadline, Done closes when finish is called, Err is then an error
// of its own. "A context that is done makes the call return context.DeadlineExceeded."
type c07Ctx struct {
	once sync.Once
	done chan struct{}
	err  atomic.Value
	// a Done method that takes its time (e.g. builds its channel lazily behind a
	// lock): the first len(slow) calls sleep
	slow  []time.Duration
	calls int32
}

var errC07Ctx = fmt.Errorf("c07: own context is done")

func (c *c07Ctx) finish() {
	c.once.Do(func() {
		c.err.Store(errC07Ctx)
		close(c.done)
	})
}
func (c *c07Ctx) Deadline() (time.Time, bool) { return time.Time{}, false }
func (c *c07Ctx) Done() <-chan struct{} {
	if n := int(atomic.AddInt32(&c.calls, 1)); n <= len(c.slow) && c.slow[n-1] > 0 {
		time.Sleep(c.slow[n-1])
	}
	return c.done
}
func (c *c07Ctx) Value(any) any { return nil }
func (c *c07Ctx) Err() error {
	if e := c.err.Load(); e != nil {
		return e.(error)
	}
	return nil
}

// c07ChildCtx: an own Context implementation that is a child of another context
// (delegates everything, Value included, so context.Cause sees the parent's cause).
type c07ChildCtx struct{ parent context.Context }

func (c c07ChildCtx) Deadline() (time.Time, bool) { return c.parent.Deadline() }
func (c c07ChildCtx) Done() <-chan struct{}       { return c.parent.Done() }
func (c c07ChildCtx) Err() error                  { return c.parent.Err() }
func (c c07ChildCtx) Value(k any) any             { return c.parent.Value(k) }

type c07CtxKey struct{}

// c07CauseValue: the cause a context is ended with (nil: cancel(nil) / a nil cause).
func c07CauseValue(kind string) error {
	switch kind {
	case "", "nil":
		return nil
	case "own":
		return &c07Err{src: "cause"}
	case "canceled":
		return context.Canceled
	}
	return c07ErrValue(kind, "cause", 0)
}

func (c c07Case) userCancels() int {
	if !c.hasReducer() {
		return 0
	}
	n := 0
	for _, it := range c.Items {
		if it.A == "cancel" || it.A == "cancelnil" || it.A == "cancelpanic" {
			n++
		}
	}
	if c.Red.A == "cancel" || c.Red.A == "cancelnil" || c.Red.A == "cancelpanic" {
		n++
	}
	return n
}

func (c c07Case) hasUserCancel() bool { return c.userCancels() > 0 }

func (c c07Case) ctxNear() bool { return c.Ctx != "" && c.CtxAt < c07Far }

func (r *c07Run) enter(i int) {
	r.mu.Lock()
	r.mapped[i]++
	r.cur++
	if r.cur > r.max {
		r.max = r.cur
	}
	r.mu.Unlock()
}

func (r *c07Run) exit() {
	r.mu.Lock()
	r.cur--
	r.mu.Unlock()
}

type c07ValErr struct{ I int } // a comparable value-type error

func (e c07ValErr) Error() string { return fmt.Sprintf("c07 value error %d", e.I) }

type c07UncErr struct{ Tag []int } // an UNcomparable error type

func (e c07UncErr) Error() string { return fmt.Sprintf("c07 uncomparable error %v", e.Tag) }

type c07PanicErr struct{ c07Panic }

func (e *c07PanicErr) Error() string { return fmt.Sprintf("c07 panic error %v", e.c07Panic) }

// c07ErrValue: the error value of a kind (one instance per run and source).
func c07ErrValue(kind, src string, i int) error {
	switch kind {
	case "eof":
		return io.EOF
	case "wrap":
		return fmt.Errorf("c07 wrapped %s/%d: %w", src, i, io.ErrUnexpectedEOF)
	case "val":
		return c07ValErr{I: i}
	case "unc":
		return c07UncErr{Tag: []int{i}}
	case "noout": // e.g. the error of an inner MapReduce handed on to the outer cancel
		return mr.ErrReduceNoOutput
	case "wrapnoout":
		return fmt.Errorf("inner call %s/%d: %w", src, i, mr.ErrReduceNoOutput)
	case "cwn":
		return mr.ErrCancelWithNil
	case "deadline":
		return context.DeadlineExceeded
	}
	return &c07Err{src: src, i: i}
}

func c07PanicValue(kind, src string, i int) any {
	switch kind {
	case "err":
		return &c07PanicErr{c07Panic{Src: src, I: i}}
	case "str":
		return fmt.Sprintf("c07panic:%s/%d", src, i)
	case "nil":
		if c07PanicNilIsError {
			return nil
		}
	}
	return c07Panic{Src: src, I: i}
}

// panic(nil): since Go 1.21 recover returns a *runtime.PanicNilError (unless
// GODEBUG=panicnil=1 is set for the main module): a panic like any other, whose
// value the caller must see re-raised. Probed once; with the old semantics the
// kind falls back to the struct value.
var c07PanicNilIsError = func() (is bool) {
	defer func() {
		_, is = recover().(*runtime.PanicNilError)
	}()
	panic(nil)
}()

// c07SamePanic: got is the re-raised value of the logged panic value want.
func c07SamePanic(got, want any) bool {
	if want == nil {
		_, ok := got.(*runtime.PanicNilError)
		return ok
	}
	return c07Same(got, want)
}

func c07UserPanic(pv any) bool {
	switch x := pv.(type) {
	case c07Panic, *c07PanicErr, *runtime.PanicNilError:
		return true
	case string:
		return strings.HasPrefix(x, "c07panic:")
	}
	return false
}

func (r *c07Run) panicKind(i int) string {
	if i >= 0 && i < len(r.c.Items) {
		return r.c.Items[i].P
	}
	return ""
}

func (r *c07Run) act(a, src string, i int, err error, cancel func(error)) {
	switch a {
	case "cancel":
		r.log(c07Event{kind: "cancel", src: src, err: err})
		r.userCancel(cancel, err)
	case "cancelnil":
		r.log(c07Event{kind: "cancel", src: src, err: mr.ErrCancelWithNil})
		r.userCancel(cancel, nil)
	case "cancelpanic":
		// one callback cancels and then panics: two events at one instant
		r.log(c07Event{kind: "cancel", src: src, err: err})
		r.userCancel(cancel, err)
		fallthrough
	case "panic":
		pv := c07PanicValue(r.panicKind(i), src, i)
		r.log(c07Event{kind: "panic", src: src, pv: pv})
		panic(pv)
	case "goexit":
		r.log(c07Event{kind: "goexit", src: src})
		runtime.Goexit()
	}
}

func (r *c07Run) genAct() string {
	if r.c.GenExit {
		return "goexit"
	}
	return "panic"
}

func (r *c07Run) generate(source chan<- any, mayPanic bool) {
	defer func() {
		r.mu.Lock()
		r.genDone = true
		r.mu.Unlock()
	}()
	for i, it := range r.c.Items {
		r.genSleep(it.G)
		if mayPanic && r.c.GenPanic == i {
			r.act(r.genAct(), "generator", i, nil, nil)
		}
		r.mu.Lock()
		r.generated++
		r.mu.Unlock()
		source <- c07ItemValue(i, it.V)
	}
	if mayPanic && r.c.GenPanic == len(r.c.Items) {
		r.act(r.genAct(), "generator", len(r.c.Items), nil, nil)
	}
	r.genSleep(r.c.GenTail)
}

// nested: a mapper (or Finish function) makes an mr call of its own, with the very
// option slice of the outer call. Its result must be right unless the shared
// context is done.
func (r *c07Run) nested(kind int) {
	fail := func(format string, a ...any) {
		r.mu.Lock()
		if r.nestFail == "" {
			r.nestFail = fmt.Sprintf(format, a...)
		}
		r.mu.Unlock()
	}
	switch kind {
	case 1:
		v, err := mr.MapReduce(func(source chan<- any) {
			for i := 1; i <= 3; i++ {
				source <- i
			}
		}, func(item any, w mr.Writer, _ func(error)) {
			w.Write(item.(int) * item.(int))
		}, func(pipe <-chan any, w mr.Writer, _ func(error)) {
			sum := 0
			for x := range pipe {
				sum += x.(int)
			}
			w.Write(sum)
		}, r.opts...)
		if r.ctx.Err() != nil && (err == context.DeadlineExceeded || err == mr.ErrReduceNoOutput) {
			// the shared context is done. (Already done when the inner call started:
			// its select may also see "finished" first — the tie the oracle accepts
			// everywhere — and every write was dropped: ErrReduceNoOutput.)
			return
		}
		if err != nil || v != any(14) {
			fail("nested MapReduce returned (%v, %v), want (14, nil)", v, err)
		}
	case 2:
		var a, b int32
		err := mr.Finish(func() error { atomic.AddInt32(&a, 1); return nil }, func() error { atomic.AddInt32(&b, 1); return nil })
		if err != nil || atomic.LoadInt32(&a) != 1 || atomic.LoadInt32(&b) != 1 {
			fail("nested Finish: err=%v, ran %d/%d times", err, a, b)
		}
	}
}

func (r *c07Run) mapper(item any, w mr.Writer, cancel func(error)) {
	i := r.claim(item)
	if i < 0 {
		return
	}
	it := r.c.Items[i]
	r.enter(i)
	defer r.exit()
	r.sleep(it.D)
	for k := 0; k < it.W; k++ {
		v := c07WrittenValue(i, k, it.X)
		r.mu.Lock()
		r.written[c07Key(v)]++
		r.mu.Unlock()
		t0 := r.now()
		w.Write(v)
		if d := r.now() - t0; d > 0 {
			r.mu.Lock()
			if d > r.maxWriteWait {
				r.maxWriteWait = d
			}
			r.mu.Unlock()
		}
	}
	r.nested(it.N)
	r.act(it.A, fmt.Sprintf("item%d", i), i, r.errs[i], cancel)
}

func (r *c07Run) each(item any) {
	i := r.claim(item)
	if i < 0 {
		return
	}
	it := r.c.Items[i]
	r.enter(i)
	defer r.exit()
	r.sleep(it.D)
	if it.A == "panic" || it.A == "goexit" {
		r.act(it.A, fmt.Sprintf("item%d", i), i, nil, nil)
	}
}

func (r *c07Run) reducer(pipe <-chan any, w mr.Writer, cancel func(error)) {
	rd := r.c.Red
	k := 0
	write := func(n int) {
		for j := 0; j < n && w != nil; j++ {
			rv := c07ResultValue(k, rd.RV)
			r.mu.Lock()
			r.results = append(r.results, rv)
			r.mu.Unlock()
			r.log(c07Event{kind: "write", src: "reducer"})
			switch rd.WM {
			case "rec":
				// the reducer guards its own body against panics
				func() {
					defer func() { _ = recover() }()
					w.Write(rv)
				}()
			case "go":
				// the write is made by a goroutine of the reducer's own
				wrote := make(chan struct{})
				go func() {
					defer close(wrote)
					w.Write(rv)
				}()
				<-wrote
			default:
				w.Write(rv)
			}
			k++
		}
	}
	write(rd.Early)
	r.sleep(rd.D0)
	if rd.Take != 0 {
		n := 0
		for v := range pipe {
			r.mu.Lock()
			r.seen[c07Key(v)]++
			r.mu.Unlock()
			n++
			r.sleep(rd.D)
			if rd.Take > 0 && n >= rd.Take {
				break
			}
		}
	}
	write(rd.Late)
	r.act(rd.A, "reducer", -1, r.redErr, cancel)
	r.log(c07Event{kind: "redret", src: "reducer"}) // not reached when the reducer panics
}

func c07Call(f func()) (pv any, panicked bool) {
	defer func() {
		if x := recover(); x != nil {
			pv, panicked = x, true
		}
	}()
	f()
	return
}

func (r *c07Run) horizon() time.Duration {
	c := r.c
	const max = 150 * 365 * 24 * time.Hour
	h := 17 * c07Tick
	add := func(d time.Duration, times int) {
		for i := 0; i < times && h < max; i++ {
			h += d
		}
	}
	add(c.ticks(c.GenTail), 1)
	for _, d := range c.DoneD {
		add(time.Duration(d)*c07Tick, 1)
	}
	add(c.ticks(c.Red.D0), 1)
	if c.CtxAt < c07Far {
		add(c.ticks(c.CtxAt), 1)
	}
	vals := 1
	for _, it := range c.Items {
		add(c.ticks(it.G), 1)
		add(c.ticks(it.D), 1)
		vals += it.W
	}
	add(c.ticks(c.Red.D), vals)
	return h
}

// run is the root function of the bubble.
func (r *c07Run) run() {
	c := r.c
	r.start = time.Now()
	stop := make(chan struct{})
	r.hurry = make(chan struct{})
	ctx := context.Background()
	ctxCancel := func() {}
	at := c.ticks(c.CtxAt)
	uc := c.hasUserCancel()
	atInstant := func(f func()) {
		go func() {
			tm := time.NewTimer(at)
			defer tm.Stop()
			select {
			case <-tm.C:
				f()
			case <-stop:
			}
		}()
	}
	// With c.Cause the context is ended through the *Cause constructors: context.Cause
	// then differs from Err. The statement knows one answer for a done context.
	cause := c07CauseValue(c.Cause)
	withCancel := func() {
		if c.Cause != "" {
			var cc context.CancelCauseFunc
			ctx, cc = context.WithCancelCause(ctx)
			ctxCancel = func() { cc(cause) }
		} else {
			ctx, ctxCancel = context.WithCancel(ctx)
		}
	}
	switch c.Ctx {
	case "deadline":
		if c.Cause != "" {
			ctx, ctxCancel = context.WithDeadlineCause(ctx, r.start.Add(at), cause)
		} else {
			ctx, ctxCancel = context.WithDeadline(ctx, r.start.Add(at))
		}
		if uc && c.ctxNear() {
			atInstant(r.hurryUp)
		}
	case "timeout":
		if c.Cause != "" {
			ctx, ctxCancel = context.WithTimeoutCause(ctx, at, cause)
		} else {
			ctx, ctxCancel = context.WithTimeout(ctx, at)
		}
		if uc && c.ctxNear() {
			atInstant(r.hurryUp)
		}
	case "cancelled":
		withCancel()
		ctxCancel()
		if uc {
			r.hurryUp()
		}
	case "cancelat":
		withCancel()
		cc := ctxCancel
		atInstant(func() {
			if uc {
				r.hurryUp()
			}
			cc()
		})
	case "custom":
		if c.Cause != "" {
			// an own implementation that is a child of a WithCancelCause context
			withCancel()
			ctx = c07ChildCtx{ctx}
			cc := ctxCancel
			atInstant(func() {
				if uc {
					r.hurryUp()
				}
				cc()
			})
			break
		}
		cu := &c07Ctx{done: make(chan struct{})}
		for _, d := range c.DoneD {
			cu.slow = append(cu.slow, time.Duration(d)*c07Tick)
		}
		ctx, ctxCancel = cu, cu.finish
		atInstant(func() {
			if uc {
				r.hurryUp()
			}
			cu.finish()
		})
	}
	if c.Ctx != "" {
		switch c.Wrap {
		case "child":
			var cc2 context.CancelFunc
			parentCancel := ctxCancel
			ctx, cc2 = context.WithCancel(ctx)
			ctxCancel = func() { parentCancel(); cc2() }
		case "value":
			ctx = context.WithValue(ctx, c07CtxKey{}, 1)
		case "own":
			ctx = c07ChildCtx{ctx}
		}
	}
	r.ctx = ctx
	var opts []mr.Option
	if c.HasW {
		if c.Dup {
			opts = append(opts, mr.WithWorkers(c.W+3))
		}
		opts = append(opts, mr.WithWorkers(c.W))
	}
	if c.Ctx != "" {
		if c.Dup {
			opts = append(opts, mr.WithContext(context.Background()))
		}
		opts = append(opts, mr.WithContext(ctx))
	}
	r.opts = opts
	gen := func(source chan<- any) { r.generate(source, true) }

	var val any
	var err error
	pv, panicked := c07Call(func() {
		switch c.Entry {
		case "mr":
			val, err = mr.MapReduce(gen, r.mapper, r.reducer, opts...)
		case "chan":
			var source chan any
			if c.Src == "prefilled" {
				// everything is in the (buffered) channel and it is closed before the call
				source = make(chan any, len(c.Items))
				for i, it := range c.Items {
					source <- c07ItemValue(i, it.V)
				}
				close(source)
				r.mu.Lock()
				r.generated, r.genDone = len(c.Items), true
				r.mu.Unlock()
			} else {
				source = make(chan any)
				go func() {
					defer close(source)
					r.generate(source, false)
				}()
			}
			val, err = mr.MapReduceChan(source, r.mapper, r.reducer, opts...)
		case "void":
			err = mr.MapReduceVoid(gen, r.mapper, func(pipe <-chan any, cancel func(error)) {
				r.reducer(pipe, nil, cancel)
			}, opts...)
		case "foreach":
			mr.ForEach(gen, r.each, opts...)
		case "finish":
			fns := make([]func() error, len(c.Items))
			for i := range c.Items {
				i, it := i, c.Items[i]
				if it.A == "nilfn" {
					continue
				}
				fns[i] = func() error {
					r.enter(i)
					defer r.exit()
					r.sleep(it.D)
					r.nested(it.N)
					switch it.A {
					case "cancel":
						r.log(c07Event{kind: "cancel", src: fmt.Sprintf("item%d", i), err: r.errs[i]})
						return r.errs[i]
					case "panic", "goexit":
						r.act(it.A, fmt.Sprintf("item%d", i), i, nil, nil)
					}
					return nil
				}
			}
			err = mr.Finish(fns...)
		case "finishvoid":
			fns := make([]func(), len(c.Items))
			for i := range c.Items {
				i, it := i, c.Items[i]
				if it.A == "nilfn" {
					continue
				}
				fns[i] = func() {
					r.enter(i)
					defer r.exit()
					r.sleep(it.D)
					if it.A == "panic" || it.A == "goexit" {
						r.act(it.A, fmt.Sprintf("item%d", i), i, nil, nil)
					}
				}
			}
			mr.FinishVoid(fns...)
		}
	})
	r.mu.Lock()
	r.tret = r.now()
	r.returned = true
	switch {
	case panicked:
		r.out = c07Outcome{kind: "panic", pv: pv}
	case err != nil:
		r.out = c07Outcome{kind: "err", err: err}
	case c.Entry == "mr" || c.Entry == "chan":
		r.out = c07Outcome{kind: "value", val: val}
	default:
		r.out = c07Outcome{kind: "ok"}
	}
	// Nothing has disturbed the call so far: by the statement no goroutine of the
	// call may be left the moment it returns (the generator has returned, all
	// mappers are done). Otherwise user callbacks may still be running: give them
	// the time they need and require that nothing is left afterwards.
	// (A reducer that writes twice makes the caller panic at the second write,
	// whatever the mappers are doing: nothing is complete then either.)
	r.strict = len(r.disturbing(r.tret)) == 0 && !panicked
	r.mu.Unlock()
	if !r.strict {
		time.Sleep(r.horizon())
	}
	close(stop)
	ctxCancel()
	kit.Wait()
	if os.Getenv("VERIF_C07_STACKS") != "" {
		// debugging aid for replays: what is still there when the bubble ends
		buf := make([]byte, 1<<20)
		r.stacks = string(buf[:runtime.Stack(buf, true)])
	}
}

// disturbing returns the cancel / panic / context events with ts <= upTo
// (caller holds r.mu or the run is over).
func (r *c07Run) disturbing(upTo time.Duration) []c07Event {
	var d []c07Event
	for _, e := range r.events {
		if (e.kind == "cancel" || e.kind == "panic" || e.kind == "goexit") && e.ts <= upTo {
			d = append(d, e)
		}
	}
	if r.c.Entry == "finish" || r.c.Entry == "finishvoid" {
		// A nil function value among the functions (a typed-nil item of the pipeline
		// underneath): calling it fails inside the package's own mapper. What the
		// call then does is unspecified (it must return and leave nothing behind);
		// all functions are dispatched at instant 0.
		for _, it := range r.c.Items {
			if it.A == "nilfn" {
				d = append(d, c07Event{kind: "goexit", src: "nilfn", ts: 0})
				break
			}
		}
	}
	if r.c.Ctx != "" && r.c.ticks(r.c.CtxAt) <= upTo {
		// a context that is never handed to the call cannot disturb it
		switch r.c.Entry {
		case "mr", "void", "chan", "foreach":
			ts := r.c.ticks(r.c.CtxAt)
			if r.c.Ctx == "cancelled" {
				ts = 0
			}
			d = append(d, c07Event{kind: "ctx", src: "ctx", ts: ts})
		}
	}
	return d
}

// ---------------------------------------------------------------- oracle

func c07NewRun(c c07Case) *c07Run {
	c = c.expanded()
	c.magCap = 0
	if (&c07Run{c: c}).horizon() > 100*365*24*time.Hour {
		c.magCap = time.Hour
	}
	r := &c07Run{c: c, mapped: map[int]int{}, written: map[any]int{}, seen: map[any]int{}, claimed: map[int]bool{},
		redErr: c07ErrValue(c.Red.E, "reducer", 0)}
	for i := range c.Items {
		r.errs = append(r.errs, c07ErrValue(c.Items[i].E, "item", i))
	}
	return r
}

func c07Interp(t *testing.T, c c07Case) (v kit.Verdict) {
	if c.Procs > 0 {
		// outside the bubble; the default worker count must not depend on it
		defer runtime.GOMAXPROCS(runtime.GOMAXPROCS(c.Procs))
	}
	// Reps: the verdict of a zero-delay case depends on the real schedule (e.g. on
	// whether the pipeline is over before the caller reaches its select); tiny
	// cases are therefore run many times.
	for i := 1; i < c.Reps; i++ {
		r := c07NewRun(c)
		if v = r.judge(kit.Bubble(t, r.run)); v.Fail != "" {
			v.Fail = fmt.Sprintf("repetition %d of %d: %s", i, c.Reps, v.Fail)
			return v
		}
	}
	r := c07NewRun(c)
	res := kit.Bubble(t, r.run)
	return r.judge(res)
}

func (r *c07Run) judge(res kit.BubbleResult) (v kit.Verdict) {
	r.mu.Lock()
	defer r.mu.Unlock()
	c := r.c
	n, w := len(c.Items), c.workers()
	cls := map[string]bool{"entry:" + c.Entry: true}
	defer func() {
		for k := range cls {
			v.Classes = append(v.Classes, k)
		}
		sort.Strings(v.Classes)
	}()
	switch {
	case n == 0:
		cls["items:0"] = true
	case n == 1:
		cls["items:1"] = true
	case n < w:
		cls["items:<workers"] = true
	case n == w:
		cls["items:=workers"] = true
	case n == w+1:
		cls["items:workers+1"] = true
	case n <= 3*w:
		cls["items:<=3*workers"] = true
	default:
		cls["items:>3*workers"] = true
	}
	if n > 50 {
		cls["items:>50"] = true
	}
	if c.Zero {
		cls["zero-delay"] = true
	}
	for _, it := range c.Items {
		if c.Entry == "finish" || c.Entry == "finishvoid" {
			break
		}
		switch it.V {
		case "nil":
			cls["item:nil"] = true
		case "nilptr":
			cls["item:typed-nil"] = true
		case "zero", "empty", "zerostruct":
			cls["item:zero-value"] = true
		case "str", "struct":
			cls["item:str/struct"] = true
		}
		if it.X == "nil" && it.W > 0 && c.hasReducer() {
			cls["written:nil"] = true
		}
	}
	if (c.Entry == "mr" || c.Entry == "chan") && c.Red.Early+c.Red.Late > 0 {
		cls[c07ResultClass(c.Red.RV)] = true
	}
	if len(c.DoneD) > 0 && c.Ctx == "custom" && c.Cause == "" {
		cls["ctx:slow-Done"] = true
	}
	if c.Entry == "chan" && c.Src == "prefilled" {
		cls["chan-source:prefilled"] = true
	}
	if (c.Ctx == "custom" || c.Wrap == "own") && c.Ctx != "" && !(c.Entry == "finish" || c.Entry == "finishvoid") {
		cls["ctx:own-implementation"] = true
	}
	if c.Ctx != "" && !(c.Entry == "finish" || c.Entry == "finishvoid") {
		if c.Cause != "" {
			cls["ctx:ended-with-cause"] = true
			if c.ctxNear() {
				cls["ctx-cause:"+c.Cause] = true
			}
		}
		if c.Wrap != "" {
			cls["ctx:descendant-handed-over"] = true
		}
	}
	if (c.Entry == "mr" || c.Entry == "chan") && c.Red.Early+c.Red.Late > 0 && c.Red.WM != "" {
		cls["reducer-write:"+c.Red.WM] = true
		if c.Red.Early+c.Red.Late >= 2 {
			cls["double-write:"+c.Red.WM] = true
		}
	}
	if c.Red.A == "cancelpanic" && c.hasReducer() {
		cls["cancel-then-panic"] = true
	}
	if (c.Red.A == "cancel" || c.Red.A == "cancelpanic") && c.Red.E != "" && c.hasReducer() {
		cls["reducer-cancel-error:"+c.Red.E] = true
		if c.Entry == "void" {
			cls["void-reducer-cancel-error:"+c.Red.E] = true
		}
	}
	if c.Procs > 0 {
		cls[fmt.Sprintf("gomaxprocs=%d", c.Procs)] = true
		if !c.HasW && c.Entry != "finish" && c.Entry != "finishvoid" {
			cls[fmt.Sprintf("gomaxprocs=%d+default-workers", c.Procs)] = true
		}
	}
	if !c.HasW && c.Entry != "finish" && c.Entry != "finishvoid" {
		cls["default-workers"] = true
		if runtime.GOMAXPROCS(0) == 1 {
			cls["default-workers@process-gomaxprocs=1"] = true
		}
	}
	fin := c.Entry == "finish" || c.Entry == "finishvoid"
	for _, it := range c.Items {
		if !fin {
			switch it.V {
			case "slice", "map", "func":
				cls["item:uncomparable"] = true
			case "ptr", "err":
				cls["item:pointer/error-typed"] = true
			case "big":
				cls["item:big"] = true
			case "noout":
				cls["item:error-sentinel"] = true
			}
			if it.W > 0 && c.hasReducer() {
				switch it.X {
				case "slice", "map", "func":
					cls["written:uncomparable"] = true
				case "nilptr":
					cls["written:typed-nil"] = true
				case "zero", "empty":
					cls["written:zero-value"] = true
				case "ptr", "err":
					cls["written:pointer/error-typed"] = true
				case "big":
					cls["written:big"] = true
				case "noout":
					cls["written:error-sentinel"] = true
				}
			}
			if it.A == "cancelpanic" && c.hasReducer() {
				cls["cancel-then-panic"] = true
			}
		}
		if it.A == "cancel" && it.E != "" && c.Entry != "foreach" && c.Entry != "finishvoid" {
			cls["cancel-error:"+it.E] = true
		}
		if it.A == "panic" && it.P != "" {
			cls["panic-value:"+it.P] = true
		}
		if it.N != 0 && c.Entry != "foreach" && c.Entry != "finishvoid" {
			cls["nested-call"] = true
		}
		if it.W >= 100 && c.hasReducer() {
			cls["writes>=100-per-item"] = true
		}
	}
	if c.Dup && (c.HasW || c.Ctx != "") && !fin {
		cls["options-given-twice"] = true
	}
	if w >= 100 && !fin {
		cls["workers>=100"] = true
	}
	if n >= 1000 {
		cls["items>=1000"] = true
	}
	if fin && n >= 100 {
		cls["finish-functions>=100"] = true
	}
	switch {
	case r.maxWriteWait > 5*time.Second:
		cls["writer-blocked>5s-on-slow-reducer"] = true
	case r.maxWriteWait > 0:
		cls["writer-blocked<=5s"] = true
	}
	big := false
	for _, it := range c.Items {
		big = big || it.D >= c07MagBase || it.G >= c07MagBase
	}
	if big || c.Red.D >= c07MagBase || c.Red.D0 >= c07MagBase || (c.CtxAt >= c07MagBase && c.CtxAt < c07Far) {
		cls["delay-magnitudes"] = true
	}

	nPanics := 0
	for _, e := range r.events {
		if e.kind == "panic" {
			nPanics++
		}
	}
	userPanicRaised := false
	if r.returned && r.out.kind == "panic" {
		userPanicRaised = c07UserPanic(r.out.pv)
	}
	// Known finding: onceChan.write blocks for ever when nobody receives from
	// panicChan any more (the caller has left its select). Exactly the runs with
	// at least one panic of which none was re-raised.
	knownShape := nPanics > 0 && !userPanicRaised
	// Known finding 2: cancel closes the output channel while the reducer, having
	// passed the check of guardedWriter.Write, sends on it: "send on closed
	// channel" inside the reducer goroutine, whose recover then blocks in
	// onceChan.write. Needs a reducer write at the very instant a cancel call
	// completes (or the ctx.Done branch runs).
	knownShape2, writeAtFinish := false, false
	if r.returned {
		fin := map[time.Duration]bool{}
		for _, e := range r.events {
			if e.kind == "cancelret" {
				fin[e.ts] = true
			}
		}
		if r.out.kind == "err" && r.out.err == context.DeadlineExceeded {
			// the caller took the ctx.Done branch: a write that passed the ctx check at
			// that very instant stays blocked until cancel has drained the source
			fin[r.tret] = true
			ts := c.ticks(c.CtxAt)
			if c.Ctx == "cancelled" {
				ts = 0
			}
			fin[ts] = true
		}
		for _, e := range r.events {
			if e.kind == "write" && fin[e.ts] {
				writeAtFinish = true
			}
		}
		knownShape2 = writeAtFinish && nPanics == 0
	}

	// ---- the call returns
	if res.Hang || !r.returned {
		v.NonTrivial = n >= w+1
		cls["hang"] = true
		v.Fail = fmt.Sprintf("the call never returned (%s); history: %v", res.String(), r.events)
		if knownShape {
			v.Known = c07KnownID
		}
		return v
	}
	if res.Panic != "" {
		v.Fail = "harness/bubble panic: " + res.Panic
		return v
	}

	distAll := r.disturbing(1 << 62)
	dist := r.disturbing(r.tret)
	undisturbed := len(dist) == 0
	if undisturbed {
		cls["undisturbed"] = true
	} else {
		cls["disturbed"] = true
		if len(distAll) > len(dist) {
			cls["event-after-return"] = true
		}
	}

	// ---- always: at most once, bounded workers
	for i, k := range r.mapped {
		if k > 1 {
			return v.Failf("item %d was passed to the mapper %d times", i, k)
		}
	}
	if len(r.unclaimed) > 0 {
		return v.Failf("a mapper received %v: no generated item (position) is left for that value", r.unclaimed)
	}
	nWritten, nSeen := 0, 0
	for _, k := range r.written {
		nWritten += k
	}
	for val, k := range r.seen {
		nSeen += k
		if r.written[val] == 0 {
			return v.Failf("the reducer received %#v which no mapper wrote", val)
		}
		if k > r.written[val] {
			return v.Failf("value %#v reached the reducer %d times, written %d times", val, k, r.written[val])
		}
	}
	if r.nestFail != "" {
		return v.Failf("%s", r.nestFail)
	}
	if r.max > w {
		return v.Failf("%d mappers ran at the same time, workers=%d", r.max, w)
	}
	if r.max == w && n > w {
		cls["pool-saturated"] = true
	}

	tookAll := c.Red.Take < 0
	_, _, totalWrites := r.writes(0)
	if undisturbed && totalWrites >= 2 {
		// "writing twice panics in the caller": the call ends at the second write,
		// it does not wait for generator and mappers; completeness is not claimed.
		cls["double-write"] = true
		if msg := r.normalOutcome(); msg != "" {
			return v.Failf("undisturbed run: %s; history: %v", msg, r.events)
		}
		cls["outcome:"+r.outClass()] = true
	} else if undisturbed {
		// ---- exactly once, complete
		if len(r.mapped) != n {
			return v.Failf("undisturbed run: %d of %d generated items reached a mapper", len(r.mapped), n)
		}
		if c.hasReducer() && tookAll && nSeen != nWritten {
			return v.Failf("undisturbed run, reducer consumed its whole input: %d values written, %d received", nWritten, nSeen)
		}
		if c.hasReducer() && c.Red.Take > 0 && nWritten >= c.Red.Take && nSeen != c.Red.Take {
			return v.Failf("undisturbed run: reducer wanted %d of %d written values, received %d", c.Red.Take, nWritten, nSeen)
		}
		if c.hasReducer() && c.Red.Take > 0 && nWritten < c.Red.Take && nSeen != nWritten {
			return v.Failf("undisturbed run: reducer wanted %d values, %d written, received %d", c.Red.Take, nWritten, nSeen)
		}
		if !r.genDone && c.Entry != "finish" && c.Entry != "finishvoid" {
			return v.Failf("undisturbed run returned before the generator function did")
		}
		nontrivial := false
		for _, it := range c.Items {
			if it.W != 1 {
				nontrivial = true
				cls["writes!=1"] = true
			}
		}
		if c.hasReducer() && !tookAll {
			nontrivial = true
			cls["reducer-stops-early"] = true
		}
		v.NonTrivial = nontrivial && n > 0 && c.hasReducer()
		if msg := r.normalOutcome(); msg != "" {
			return v.Failf("undisturbed run: %s; history: %v", msg, r.events)
		}
		cls["outcome:"+r.outClass()] = true
	} else {
		v.NonTrivial = n >= w+1
		if msg := r.disturbedOutcome(dist, cls); msg != "" {
			v = v.Failf("%s; history: %v returned@%v", msg, r.events, r.tret)
			// Known finding 2, second face: the reducer's "send on closed channel"
			// reaches panicChan while the caller has not yet entered its select, and
			// is re-raised instead of the cancel error.
			if re, ok := r.out.pv.(runtime.Error); ok && r.out.kind == "panic" && writeAtFinish &&
				strings.Contains(re.Error(), "send on closed channel") {
				v.Known = c07KnownID2
			}
			// Known finding 3: the caller's select (ForEach and mapReduceWithPanicChan)
			// chooses at random between a pending panic and "finished" (collector /
			// output closed). Both can be ready together only when the generator's
			// panic owns onceChan (blocked in write, source still open) while a second
			// panic, dropped by the CAS, lets the pipeline run to completion before the
			// caller has reached its select.
			if r.out.kind != "panic" {
				gen, other := false, false
				for _, e := range dist {
					if e.kind == "panic" && e.src == "generator" {
						gen = true
					} else if e.kind == "panic" {
						other = true
					}
				}
				if gen && other {
					v.Known = c07KnownID3
				}
			}
			return v
		}
		cls["outcome:"+r.outClass()] = true
	}

	if r.resultOK() {
		// the oracle compared the returned value with the value the reducer wrote
		cls["returned-"+c07ResultClass(c.Red.RV)] = true
	}

	// ---- nothing is left behind
	if res.Leak {
		cls["leak"] = true
		when := "after every callback had the time to finish"
		if r.strict {
			when = "at the moment the undisturbed call returned"
		}
		v.Fail = fmt.Sprintf("goroutines of the call are still blocked %s (generator returned=%v): %s; history: %v outcome=%v returned@%v",
			when, r.genDone, res.Raw, r.events, r.out, r.tret)
		if knownShape {
			v.Known = c07KnownID
		} else if knownShape2 {
			v.Known = c07KnownID2
		}
	}
	return v
}

func (r *c07Run) outClass() string {
	if r.out.kind == "err" {
		switch r.out.err {
		case mr.ErrCancelWithNil:
			return "ErrCancelWithNil"
		case mr.ErrReduceNoOutput:
			return "ErrReduceNoOutput"
		case context.DeadlineExceeded:
			return "DeadlineExceeded"
		}
		return "cancel-error"
	}
	if r.out.kind == "panic" {
		if c07UserPanic(r.out.pv) {
			return "panic-reraised"
		}
		return "panic-double-write"
	}
	return r.out.kind
}

// writes returns how many reducer writes were attempted strictly before /
// not later than t, and in total.
func (r *c07Run) writes(t time.Duration) (lt, le, total int) {
	for _, e := range r.events {
		if e.kind == "write" {
			total++
			if e.ts < t {
				lt++
			}
			if e.ts <= t {
				le++
			}
		}
	}
	return
}

// resultOK: the call returned (v, nil) where v is the very value the reducer
// passed to its (first) Write — "the single value the reducer wrote". Whatever
// that value is: an untyped nil, a typed nil pointer, a zero value, an error, the
// ErrReduceNoOutput sentinel itself, an uncomparable or a large value are values
// like any other; "wrote none" is about the number of writes (ErrReduceNoOutput
// only for a reducer that never called Write).
func (r *c07Run) resultOK() bool {
	o := r.out
	return o.kind == "value" && len(r.results) > 0 && c07Identical(r.results[0], o.val)
}

func (r *c07Run) redret() (time.Duration, bool) {
	for _, e := range r.events {
		if e.kind == "redret" {
			return e.ts, true
		}
	}
	return 0, false
}

// normalOutcome checks the outcome against "the single value the reducer wrote
// (ErrReduceNoOutput if none, a panic in the caller for two)" for an undisturbed
// run, where every write counts.
func (r *c07Run) normalOutcome() string {
	o := r.out
	_, _, total := r.writes(0)
	switch r.c.Entry {
	case "mr", "chan":
		switch {
		case total == 0:
			if o.kind == "err" && o.err == mr.ErrReduceNoOutput {
				return ""
			}
			return fmt.Sprintf("reducer wrote nothing, want ErrReduceNoOutput, got %v", o)
		case total == 1:
			if r.resultOK() {
				return ""
			}
			return fmt.Sprintf("reducer wrote one value, %s, want (that value, nil) returned, got %v", c07Short(r.results[0]), o)
		default:
			if o.kind == "panic" {
				if !c07UserPanic(o.pv) {
					return ""
				}
			}
			return fmt.Sprintf("reducer wrote %d values, want a panic in the caller, got %v", total, o)
		}
	default:
		if o.kind == "ok" {
			return ""
		}
		return fmt.Sprintf("want a plain return (nil error), got %v", o)
	}
}

// disturbedOutcome: the outcome must be, in full, the one of an event that had
// happened when the call returned. Among cancels only the earliest count (the
// first cancel wins). The reducer's own result is acceptable only if it was
// there no later than the first disturbing event (except the "written twice"
// panic, which is acceptable whenever two writes had been made). A context that
// is done, or a mapper/generator panic, strictly before everything else decides
// alone. Several events before the return that the statement does not order
// (e.g. a cancel still draining a slow generator, then a ctx expiry): any of them.
func (r *c07Run) disturbedOutcome(dist []c07Event, cls map[string]bool) string {
	for _, e := range dist {
		if e.kind == "goexit" {
			// A callback left through runtime.Goexit (t.Fatal / require.* inside a
			// callback): the statement only promises that the call returns and leaves
			// nothing behind; what it returns is unspecified.
			cls["goexit:"+strings.TrimRight(e.src, "0123456789")] = true
			return ""
		}
	}
	o := r.out
	c := r.c
	first := dist[0].ts
	minCancel := time.Duration(-1)
	kinds := map[string]bool{}
	for _, e := range dist {
		kinds[e.kind] = true
		if e.ts < first {
			first = e.ts
		}
		if e.kind == "cancel" && (minCancel < 0 || e.ts < minCancel) {
			minCancel = e.ts
		}
	}
	for k := range kinds {
		cls["has:"+k] = true
	}
	if len(dist) > 1 {
		cls["events>1"] = true
	}
	var firsts []c07Event
	for _, e := range dist {
		if e.ts == first {
			firsts = append(firsts, e)
		}
	}
	lt, le, _ := r.writes(first)
	rret, hasRet := r.redret()
	// "The reducer returned (without output) no later than the first disturbing event"
	// explains an ErrReduceNoOutput / a nil of the void forms — unless the reducer itself
	// cancelled before it returned: its return is then AFTER its own cancel in program
	// order (same goroutine), whatever the virtual timestamps say, and "cancel(err) makes
	// the call return that error".
	for _, e := range dist {
		if e.kind == "cancel" && e.src == "reducer" {
			hasRet = false
		}
	}
	outputFirst := le > 0 || (hasRet && rret <= first)
	// Causal order beats equal timestamps: a reducer that ranges over its whole input
	// and only then writes / returns does so after the pipe was closed, i.e. after every
	// mapper had finished (or panicked) and the generator had returned (or panicked).
	// When all the disturbing events are such panics, a result or return at the very
	// instant of the first panic is AFTER it, not tied with it: "a panic in the
	// generator or a mapper is re-raised in the calling goroutine".
	if c.hasReducer() && c.Red.Take < 0 && c.Red.Early == 0 {
		onlyUpstreamPanics := true
		for _, e := range dist {
			if e.kind != "panic" || e.src == "reducer" {
				onlyUpstreamPanics = false
			}
		}
		if onlyUpstreamPanics {
			if outputFirst && lt == 0 && !(hasRet && rret < first) {
				cls["result-causally-after-panic"] = true
			}
			le = lt
			outputFirst = lt > 0 || (hasRet && rret < first)
		}
	}
	if !c.hasReducer() {
		outputFirst = false
	}
	if len(firsts) > 1 || (outputFirst && (le > lt || rret == first)) {
		cls["tie-at-first"] = true
	}
	cands := dist
	strict := false
	strictPanic := false // strict because of a generator / mapper panic (not a context)
	if len(firsts) == 1 && !outputFirst {
		e := firsts[0]
		mapperOrGenPanic := e.kind == "panic" && e.src != "reducer"
		if mapperOrGenPanic || (e.kind == "ctx" && c.Entry != "foreach") {
			cands, strict = firsts, true
			strictPanic = mapperOrGenPanic
		}
		cls["first:"+e.kind] = true
	} else if outputFirst && lt > 0 {
		cls["first:output"] = true
	}

	match := func(e c07Event) bool {
		switch e.kind {
		case "cancel":
			return e.ts == minCancel && o.kind == "err" && c07Same(o.err, e.err)
		case "panic":
			return o.kind == "panic" && c07SamePanic(o.pv, e.pv)
		case "ctx":
			if c.Entry == "foreach" {
				return o.kind == "ok"
			}
			return o.kind == "err" && o.err == context.DeadlineExceeded
		}
		return false
	}
	for _, e := range cands {
		if match(e) {
			if e.ts > first {
				cls["later-event-decided"] = true
			}
			return ""
		}
	}
	if _, wle, _ := r.writes(r.tret); (!strict || strictPanic) && wle >= 2 && o.kind == "panic" && (c.Entry == "mr" || c.Entry == "chan") {
		// "writing twice panics in the caller": both writes were delivered, whatever
		// else had happened (e.g. a cancel call still waiting for the generator).
		// Also when a generator / mapper panic came strictly (or causally) first: the
		// statement demands both panics in the caller and does not rank them (the
		// re-raised pipeline panic may be superseded by the double-write panic of the
		// caller's deferred check). A normally returned VALUE stays rejected.
		if !c07UserPanic(o.pv) {
			cls["double-write-decided"] = true
			return ""
		}
	}
	if !strict && outputFirst {
		// the reducer's result was there first (or at the same instant)
		switch c.Entry {
		case "mr", "chan":
			if le > 0 && r.resultOK() {
				cls["output-decided"] = true
				return ""
			}
			if lt == 0 && hasRet && rret <= first && o.kind == "err" && o.err == mr.ErrReduceNoOutput {
				cls["output-decided"] = true
				return ""
			}
		case "void":
			if hasRet && rret <= first && o.kind == "ok" {
				cls["output-decided"] = true
				return ""
			}
		}
	}
	want := ""
	for _, e := range cands {
		if e.kind == "cancel" && e.ts != minCancel {
			continue
		}
		want += " [" + e.String() + "]"
	}
	if strict {
		return fmt.Sprintf("outcome %v, but the strictly first event decides:%s", o, want)
	}
	return fmt.Sprintf("outcome %v is not the outcome of any event that had happened (candidates:%s; reducer result first=%v)", o, want, outputFirst)
}

// ---------------------------------------------------------------- generator

func c07Pick(rt *rapid.T, label string, vals ...int) int {
	return vals[rapid.IntRange(0, len(vals)-1).Draw(rt, label)]
}

func c07Gen(zero bool) func(rt *rapid.T) c07Case {
	return func(rt *rapid.T) c07Case {
		c := c07Case{GenPanic: -1, Zero: zero}
		c.Entry = rapid.SampledFrom([]string{"mr", "mr", "mr", "mr", "void", "void", "chan", "chan", "foreach", "foreach", "finish", "finishvoid"}).Draw(rt, "entry")
		fin := c.Entry == "finish" || c.Entry == "finishvoid"
		if !fin {
			switch rapid.IntRange(0, 9).Draw(rt, "wkind") {
			case 0:
			case 1:
				c.HasW, c.W = true, c07Pick(rt, "wlow", 0, -1, -7, math.MinInt64)
			case 2:
				c.HasW, c.W = true, c07Pick(rt, "whigh", 100, 255, 256, 1000, 65536)
			default:
				c.HasW, c.W = true, rapid.IntRange(1, 8).Draw(rt, "w")
			}
		}
		w := c.workers()
		if w > 16 {
			w = 16 // item counts stay moderate; Count supplies the big ones
		}
		n := 0
		if fin {
			n = rapid.IntRange(0, 8).Draw(rt, "n")
		} else {
			// (rapid favours small draws: the interesting counts come first)
			switch rapid.IntRange(0, 13).Draw(rt, "nkind") {
			case 0, 1, 2:
				n = w + 1
			case 3, 4, 5:
				n = rapid.IntRange(w+1, 3*w+2).Draw(rt, "n")
			case 6:
				n = w
			case 7:
				n = w - 1
			case 8, 9:
				n = rapid.IntRange(0, 12).Draw(rt, "n")
			case 10, 11:
				n = rapid.IntRange(20, 200).Draw(rt, "n")
			case 12:
				n = 1
			default:
				n = 0
			}
		}
		disturbed := rapid.IntRange(0, 9).Draw(rt, "disturbed") < 6
		slowGen := rapid.IntRange(0, 3).Draw(rt, "slowgen") == 0
		ones := rapid.Bool().Draw(rt, "ones")
		// item / written values as a dimension (identity is the position, see claim)
		mixed := !fin && rapid.IntRange(0, 3).Draw(rt, "values") < 2
		vkinds := []string{"nil", "", "nilptr", "zero", "", "str", "struct", "empty", "zerostruct", "slice", "map", "ptr", "err", "func", "big", "noout"}
		xkinds := []string{"nil", "", "", "nilptr", "zero", "slice", "empty", "map", "func", "ptr", "err", "big", "noout"}
		rkinds := []string{"nil", "nilptr", "zero", "err", "slice", "noout", "empty", "false", "map", "func", "ptr", "big", "nil"}
		ekinds := []string{"", "eof", "wrap", "val", "unc", "noout", "wrapnoout", "cwn", "deadline"}
		errKinds := rapid.IntRange(0, 3).Draw(rt, "errkinds") == 0
		// delay magnitudes: mostly small tick counts (many ties); in a quarter of the
		// cases every delay may also be one of the scale-free magnitudes
		mags := rapid.IntRange(0, 3).Draw(rt, "mags") == 0
		mag := func(label string, small int) int {
			if mags && rapid.IntRange(0, 2).Draw(rt, label+"big") == 0 {
				return c07MagBase + rapid.IntRange(0, len(c07Mags)-1).Draw(rt, label+"mag")
			}
			return small
		}
		for i := 0; i < n; i++ {
			it := c07Item{W: 1}
			if slowGen {
				it.G = c07Pick(rt, "g", 0, 1, 1, 2, 3)
			} else {
				it.G = c07Pick(rt, "g", 0, 0, 0, 0, 0, 1)
			}
			it.D = mag("d", c07Pick(rt, "d", 0, 0, 1, 1, 2, 3, 5, 8))
			if slowGen {
				it.G = mag("g", it.G)
			}
			if !ones {
				it.W = c07Pick(rt, "wr", 0, 1, 1, 2, 3)
			}
			if mixed {
				it.V = rapid.SampledFrom(vkinds).Draw(rt, "v")
				if c.hasReducer() {
					it.X = rapid.SampledFrom(xkinds).Draw(rt, "x")
				}
			}
			c.Items = append(c.Items, it)
		}
		if slowGen {
			c.GenTail = c07Pick(rt, "gt", 0, 0, 1, 4)
		}
		if c.hasReducer() {
			c.Red.Take = -1
			total := 0
			for _, it := range c.Items {
				total += it.W
			}
			if rapid.IntRange(0, 9).Draw(rt, "takekind") < 3 {
				c.Red.Take = rapid.IntRange(0, total+1).Draw(rt, "take")
			}
			c.Red.D = mag("rd", c07Pick(rt, "rd", 0, 0, 0, 1, 2))
			c.Red.D0 = mag("rd0", c07Pick(rt, "rd0", 0, 0, 0, 0, 1, 3))
			// a slow reducer behind a full collector: writers really block, for long
			if rapid.IntRange(0, 5).Draw(rt, "slowred") == 0 {
				slow := c07MagBase + rapid.IntRange(2, len(c07Mags)-1).Draw(rt, "slowmag")
				if rapid.Bool().Draw(rt, "slowfirst") {
					c.Red.D0 = slow
				} else {
					c.Red.D = slow
				}
			}
			if c.Entry != "void" {
				switch rapid.IntRange(0, 15).Draw(rt, "rw") {
				case 0, 1:
					c.Red.Late = 0
				case 2:
					if rapid.Bool().Draw(rt, "rw2early") {
						c.Red.Early = 2
					} else {
						c.Red.Late = 2
					}
				case 3:
					c.Red.Early, c.Red.Late = 1, 1
				case 4, 5:
					c.Red.Early = 1
				default:
					c.Red.Late = 1
				}
			}
		}
		// re-entrancy: a mapper / Finish function makes an mr call of its own
		if n > 0 && c.Entry != "foreach" && c.Entry != "finishvoid" && rapid.IntRange(0, 7).Draw(rt, "nest") == 0 {
			for j := rapid.IntRange(1, 2).Draw(rt, "nnest"); j > 0; j-- {
				c.Items[rapid.IntRange(0, n-1).Draw(rt, "ni")].N = rapid.IntRange(1, 2).Draw(rt, "nk")
			}
		}
		c.Dup = !fin && rapid.IntRange(0, 5).Draw(rt, "dup") == 0
		// GOMAXPROCS during the call; together with it the default worker count is frequent
		if rapid.IntRange(0, 6).Draw(rt, "procs") == 3 {
			c.Procs = rapid.IntRange(1, 2).Draw(rt, "nprocs")
			if !fin && rapid.Bool().Draw(rt, "procsdefault") {
				c.HasW, c.W = false, 0
			}
		}
		// magnitudes of counts: many items / Finish functions / written values from a small description
		if n > 0 && rapid.IntRange(0, 149).Draw(rt, "big") == 97 {
			if fin {
				c.Count = c07Pick(rt, "bigfin", 100, 1000)
			} else if c.hasReducer() && rapid.Bool().Draw(rt, "bigw") {
				c.Items[rapid.IntRange(0, n-1).Draw(rt, "bi")].W = c07Pick(rt, "bigwr", 100, 1000)
			} else {
				c.Count = c07Pick(rt, "bigcount", 1000, 4097, 1000, 10000)
			}
		}
		// the VALUE of the reducer's result as a dimension
		if c.Red.Early+c.Red.Late > 0 && rapid.IntRange(0, 2).Draw(rt, "rv") == 0 {
			c.Red.RV = rkinds[rapid.IntRange(0, len(rkinds)-1).Draw(rt, "rvk")]
		}
		if c.Entry == "chan" && rapid.IntRange(0, 3).Draw(rt, "src") == 0 {
			c.Src = "prefilled"
		}
		if disturbed {
			acts := []string{"cancel", "cancel", "cancelnil", "panic", "panic", "goexit", "cancelpanic"}
			switch c.Entry {
			case "foreach":
				acts = []string{"panic", "panic", "goexit"}
			case "finishvoid":
				acts = []string{"panic", "panic", "goexit", "nilfn"}
			case "finish":
				acts = []string{"cancel", "cancel", "panic", "goexit", "nilfn"}
			}
			if n > 0 {
				k := rapid.IntRange(0, 3).Draw(rt, "ndist")
				for j := 0; j < k; j++ {
					i := rapid.IntRange(0, n-1).Draw(rt, "di")
					c.Items[i].A = rapid.SampledFrom(acts).Draw(rt, "da")
					if errKinds && c.Items[i].A == "cancel" {
						c.Items[i].E = rapid.SampledFrom(ekinds).Draw(rt, "de")
					}
					if errKinds && (c.Items[i].A == "panic" || c.Items[i].A == "cancelpanic") {
						c.Items[i].P = rapid.SampledFrom([]string{"err", "str", "", "nil"}).Draw(rt, "dp")
					}
				}
			}
			if c.hasReducer() && rapid.IntRange(0, 3).Draw(rt, "ract") == 0 {
				c.Red.A = rapid.SampledFrom([]string{"cancel", "cancelnil", "panic", "goexit", "cancelpanic"}).Draw(rt, "ra")
				// every cancelling site draws from the same family of error values
				if c.Red.A == "cancel" || c.Red.A == "cancelpanic" {
					rekinds := []string{"noout", "", "eof", "wrapnoout", "wrap", "val", "unc", "noout", "cwn", "deadline"}
					c.Red.E = rekinds[rapid.IntRange(0, len(rekinds)-1).Draw(rt, "re")]
				}
			}
			if !fin && c.Entry != "chan" && rapid.IntRange(0, 7).Draw(rt, "gpanic") == 0 {
				c.GenPanic = rapid.IntRange(0, n).Draw(rt, "gp")
				c.GenExit = rapid.IntRange(0, 3).Draw(rt, "gx") == 0
			}
			if !fin && rapid.IntRange(0, 9).Draw(rt, "ctxkind") < 4 {
				c.Ctx = rapid.SampledFrom([]string{"deadline", "deadline", "cancelat", "cancelled", "custom", "timeout"}).Draw(rt, "ctx")
				if c.Ctx != "cancelled" {
					c.CtxAt = mag("at", c07Pick(rt, "at", 0, 1, 2, 3, 4, 6, 9, 15, 40))
				}
			}
			if c.Ctx == "" && !fin && rapid.IntRange(0, 3).Draw(rt, "ctxfar2") == 0 {
				// disturbed otherwise, with a context that is never due (see slowdone below)
				c.Ctx, c.CtxAt = "custom", c07Far
			}
		} else if !fin && rapid.IntRange(0, 5).Draw(rt, "ctxfar") == 0 {
			// a context that is handed over but never done while the call runs
			c.Ctx = rapid.SampledFrom([]string{"deadline", "cancelat", "custom", "timeout"}).Draw(rt, "ctx")
			c.CtxAt = c07Far
		}
		if c.Ctx != "" && c.CtxAt == c07Far && rapid.IntRange(0, 2).Draw(rt, "slowdone") == 0 {
			// an own Context, never due, whose first two Done() calls are slow: whichever
			// of the caller and the dispatcher calls second starts first — the pipeline
			// may be over before the caller has entered its select
			c.Ctx, c.Cause, c.Wrap = "custom", "", ""
			c.DoneD = []int{c07Pick(rt, "dd0", 2, 1, 0, 5), c07Pick(rt, "dd1", 1, 2, 0, 5)}
		} else if c.Ctx != "" {
			// the family of contexts: ended with a cause, and / or a descendant handed over
			if rapid.IntRange(0, 2).Draw(rt, "hascause") == 0 {
				ckinds := []string{"own", "eof", "nil", "canceled", "deadline", "val", "unc", "noout", "cwn"}
				c.Cause = ckinds[rapid.IntRange(0, len(ckinds)-1).Draw(rt, "cause")]
			}
			if rapid.IntRange(0, 3).Draw(rt, "haswrap") == 0 {
				c.Wrap = rapid.SampledFrom([]string{"child", "value", "own"}).Draw(rt, "wrap")
			}
		}
		if c.Red.Early+c.Red.Late > 0 && rapid.IntRange(0, 3).Draw(rt, "wm") == 0 {
			c.Red.WM = rapid.SampledFrom([]string{"rec", "go"}).Draw(rt, "wmk")
		}
		return c
	}
}

// c07GenStorm: tiny zero-delay calls in which something panics, repeated many
// times: aims at the window in which everything is over before the caller has
// reached its select (a pending panic must still win over "finished").
func c07GenStorm(rt *rapid.T) c07Case {
	c := c07Case{GenPanic: -1, Zero: true, HasW: true}
	c.Entry = rapid.SampledFrom([]string{"foreach", "mr", "void", "finishvoid", "finish", "chan"}).Draw(rt, "entry")
	c.W = rapid.IntRange(1, 4).Draw(rt, "w")
	n := rapid.IntRange(1, 3).Draw(rt, "n")
	for i := 0; i < n; i++ {
		c.Items = append(c.Items, c07Item{W: rapid.IntRange(0, 1).Draw(rt, "wr"),
			V: rapid.SampledFrom([]string{"", "nil", "zero", "nilptr"}).Draw(rt, "v")})
	}
	c.Red.Take = -1
	c.Items[rapid.IntRange(0, n-1).Draw(rt, "pi")].A = "panic"
	switch rapid.IntRange(0, 5).Draw(rt, "extra") {
	case 0:
		if c.Entry == "foreach" || c.Entry == "mr" || c.Entry == "void" {
			c.GenPanic = rapid.IntRange(0, n).Draw(rt, "gp")
		}
	case 1:
		if c.hasReducer() {
			c.Red.A = "panic"
			c.Items = []c07Item{{W: 1}}
		}
	case 2, 3:
		if c.Entry == "mr" || c.Entry == "chan" {
			c.Red.Late = 1
			c.Red.RV = rapid.SampledFrom([]string{"", "nil", "nilptr", "slice"}).Draw(rt, "rv")
		}
	}
	if c.hasReducer() && rapid.Bool().Draw(rt, "slowdone") {
		c.Ctx, c.CtxAt = "custom", c07Far
		c.DoneD = []int{c07Pick(rt, "dd0", 2, 1), c07Pick(rt, "dd1", 1, 2)}
	}
	c.Reps = rapid.IntRange(100, 300).Draw(rt, "reps")
	if c.Red.Late > 0 {
		// a result written after an upstream panic: the caller must find the pending
		// panic although a value is ready too; the window (everything is over before the
		// caller reaches its select) is narrow, so these cases are repeated more often
		c.Reps *= 4
	}
	return c
}

// Debugging aid, inert unless VERIF_C07_LOOP=n and VERIF_REPLAY are set: the
// verdict of a case with events at the same virtual instant depends on the real
// schedule, so a replay may need several attempts; prints the goroutines left
// behind by the first failing attempt.
func TestVerif_C07_zz_loop(t *testing.T) {
	n, _ := strconv.Atoi(os.Getenv("VERIF_C07_LOOP"))
	rp := os.Getenv("VERIF_REPLAY")
	if n == 0 || rp == "" {
		t.Skip("debug only")
	}
	b, err := os.ReadFile(rp)
	if err != nil {
		t.Fatal(err)
	}
	var rf struct {
		Case c07Case `json:"case"`
	}
	if err := json.Unmarshal(b, &rf); err != nil {
		t.Fatal(err)
	}
	_ = os.Setenv("VERIF_C07_STACKS", "1")
	fails := 0
	for i := 0; i < n; i++ {
		r := c07NewRun(rf.Case)
		res := kit.Bubble(t, r.run)
		if v := r.judge(res); v.Fail != "" {
			if fails == 0 {
				fmt.Fprintf(os.Stderr, "attempt %d: %s (known=%q)\n%s\n", i, v.Fail, v.Known, r.stacks)
			}
			fails++
		}
	}
	fmt.Fprintf(os.Stderr, "C07 loop: %d of %d attempts failed\n", fails, n)
}

// ==== C07-TESTS: everything above this line is copied verbatim into the race unit (lib/mr@race) by harness/C07/sync-race-unit.sh

// c07Enumerate: small-scope exhaustive enumeration of MapReduce calls.
// quick:    workers 1..2, 1..2 items with delay 0..1 / plain|cancel|panic / one value each,
//
//	reducer take all|0|1 x result none|late|early|late nil|early nil x plain|cancel|panic, ctx none|deadline 0..1
//
// thorough: delays 0..2, 0..2 values per item, ctx deadline 0..2 in addition, and every
//
//	item either an int that writes structs or an untyped nil that writes nils (the nil
//	results only together with int items).
func c07Enumerate(thorough bool) func(yield func(c07Case) bool) {
	ds, ws, ctxs := []int{0, 1}, []int{1}, []int{-1, 0, 1}
	if thorough {
		ds, ws, ctxs = []int{0, 1, 2}, []int{0, 1, 2}, []int{-1, 0, 1, 2}
	}
	acts := []string{"", "cancel", "panic"}
	vs := []string{""}
	if thorough {
		vs = []string{"", "nil"}
	}
	var opts []c07Item
	for _, d := range ds {
		for _, w := range ws {
			for _, a := range acts {
				for _, val := range vs {
					opts = append(opts, c07Item{D: d, W: w, A: a, V: val, X: val})
				}
			}
		}
	}
	return func(yield func(c07Case) bool) {
		var items func(n int, cur []c07Item, f func([]c07Item) bool) bool
		items = func(n int, cur []c07Item, f func([]c07Item) bool) bool {
			if n == 0 {
				return f(cur)
			}
			for _, o := range opts {
				if !items(n-1, append(cur, o), f) {
					return false
				}
			}
			return true
		}
		for w := 1; w <= 2; w++ {
			for n := 1; n <= 2; n++ {
				ok := items(n, nil, func(its []c07Item) bool {
					nrw := 5
					for _, it := range its {
						if it.V != "" {
							nrw = 3 // (thorough) a nil result is combined with int items only
						}
					}
					for _, take := range []int{-1, 0, 1} {
						for rw := 0; rw < nrw; rw++ {
							for _, ra := range acts {
								for _, at := range ctxs {
									c := c07Case{Entry: "mr", HasW: true, W: w, GenPanic: -1,
										Items: append([]c07Item(nil), its...),
										Red:   c07Red{Take: take, A: ra}}
									switch rw {
									case 1:
										c.Red.Late = 1
									case 2:
										c.Red.Early = 1
									case 3: // the one value written is an untyped nil
										c.Red.Late, c.Red.RV = 1, "nil"
									case 4:
										c.Red.Early, c.Red.RV = 1, "nil"
									}
									if at >= 0 {
										c.Ctx, c.CtxAt = "deadline", at
									}
									if !yield(c) {
										return false
									}
								}
							}
						}
					}
					return true
				})
				if !ok {
					return
				}
			}
		}
	}
}

func TestVerif_C07_exhaustive(t *testing.T) {
	kit.Enumerate(t, "C07", "mr-exhaustive", c07Enumerate(kit.Thorough()),
		func(c c07Case) kit.Verdict { return c07Interp(t, c) })
}

func TestVerif_C07_mapreduce(t *testing.T) {
	kit.Run(t, "C07", "mr-random", kit.Opts{Quick: 20000, Thorough: 800000}, c07Gen(false),
		func(c c07Case) kit.Verdict { return c07Interp(t, c) })
}
