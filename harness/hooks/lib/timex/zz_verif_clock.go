//go:build verif

package timex

import "time"

// Injected by /verif through the build overlay (never committed to the
// repository), see /verif/DESIGN.md 2.3. Every testing/synctest bubble starts at
// 2000-01-01T00:00:00Z; rebasing initTime keeps Now() inside a bubble at the same
// positive magnitude (about one year) that production code sees at process
// start, instead of minus 25 years. Now/Since themselves are untouched.
func init() {
	initTime = time.Date(2000, 1, 1, 0, 0, 0, 0, time.UTC).AddDate(-1, -1, -1)
}
